(* ParserRefine.v -- the byte-level parsers of ParserBytes.v (written with the Buffer operations)
   refine the bit-level parsers of Parsers.v through abs: for every canonical LEFT-padded packet
   buffer (the default padding of the library) the byte-level header parsers, the packet parser and
   the factory return exactly the bit-level outcome: the same exception, or the same divergence, or
   field descriptors / header length / payload that denote (through abs) the bit-level ones and are
   again canonical left-padded buffers.  This composes the Buffer layer (Buffer.v + BufferSpec.v) with
   the parser layer (Parsers.v + ParserTiling.v ...), as SchcRefine.v does for the compressor.
   A right-padded packet buffer is rejected by the IP version test (remarks at the end), so the
   hypothesis bside b = LEFT is necessary. *)
From Coq Require Import ZArith List Bool Lia.
From MS Require Import PyBase Buffer Bits ByteFacts BufferAbs BufNew BufferSpec Schc SchcBytes SchcRefine Parsers ParserBytes.
Import ListNotations.
Open Scope Z_scope.

(* ---- the refinement relation ------------------------------------------------------------------ *)
Definition canon_bfield (f : bfield) : Prop := canon (bf_val f) /\ bside (bf_val f) = LEFT.
Definition same_outcome {A B} (R : A -> B -> Prop) (x : res A) (y : res B) : Prop :=
  match x, y with Ok a, Ok b => R a b | Exc e, Exc e' => e = e' | Diverge, Diverge => True | _, _ => False end.
Definition hdr_rel (x : list bfield * Z) (y : list field * Z) : Prop :=
  map (abs_field abs) (fst x) = fst y /\ snd x = snd y /\ Forall canon_bfield (fst x).
Definition pkt_rel (x : list bfield * buf) (y : list field * bits) : Prop :=
  map (abs_field abs) (fst x) = fst y /\ abs (snd x) = snd y /\ Forall canon_bfield (fst x) /\
  canon (snd x) /\ bside (snd x) = LEFT.
(* lists of fields (the accumulators of the loops) *)
Definition fields_rel (x : list bfield) (y : list field) : Prop :=
  map (abs_field abs) x = y /\ Forall canon_bfield x.
(* a byte-level header parser refines a bit-level one *)
Definition refines (bp : bhparser) (p : hparser) : Prop :=
  forall b, canon b -> bside b = LEFT -> same_outcome hdr_rel (bp b) (p (abs b)).

Lemma same_outcome_bind {A B A' B'} (R : A -> A' -> Prop) (S : B -> B' -> Prop) x y f g :
  same_outcome R x y -> (forall a a', R a a' -> same_outcome S (f a) (g a')) ->
  same_outcome S (bind x f) (bind y g).
Proof. destruct x, y; cbn [same_outcome bind]; intros H K; try contradiction; auto. Qed.

Lemma same_outcome_catch {A A'} (R : A -> A' -> Prop) x y e :
  same_outcome R x y -> same_outcome R (catch_all x e) (catch_all y e).
Proof. destruct x, y; cbn [same_outcome catch_all]; intros H; try contradiction; auto. Qed.

Lemma fields_rel_app a a' c c' : fields_rel a a' -> fields_rel c c' -> fields_rel (a ++ c) (a' ++ c').
Proof. intros [E1 F1] [E2 F2]. split; [rewrite map_app; congruence|apply Forall_app; auto]. Qed.

Lemma fields_rel_nil : fields_rel [] [].
Proof. split; [reflexivity|constructor]. Qed.

Lemma fields_rel_one p i pos x v : canon x -> bside x = LEFT -> abs x = v ->
  fields_rel [BFD p i pos x] [FD p i pos v].
Proof. intros C S <-. split; [reflexivity|]. constructor; [split; assumption|constructor]. Qed.

Lemma hdr_rel_intro l l' n n' : fields_rel l l' -> n = n' -> hdr_rel (l, n) (l', n').
Proof. intros [E F] ->. split; [exact E|]. split; [reflexivity|exact F]. Qed.

(* ---- operation refinements -------------------------------------------------------------------- *)
(* buffer[s:e] and buffer[s:] : the slices stay canonical and left-padded *)
Lemma bsl_ok b s e : canon b -> bside b = LEFT -> 0 <= s <= e ->
  exists r, bsl b s e = Ok r /\ canon r /\ bside r = LEFT /\ abs r = sl (abs b) s e.
Proof.
  intros Hb Hs H.
  destruct (getitem_slice b (Some s) (Some e) Hb (ordered_mid (blen b) s e (canon_nonneg b Hb) H)) as (r & E & C & S & A).
  exists r. rewrite S. auto.
Qed.

Lemma bsl_from_ok b s : canon b -> bside b = LEFT ->
  exists r, bsl_from b s = Ok r /\ canon r /\ bside r = LEFT /\ abs r = sl_from (abs b) s.
Proof.
  intros Hb Hs.
  destruct (getitem_slice b (Some s) None Hb (ordered_from (blen b) (Some s) (canon_nonneg b Hb))) as (r & E & C & S & A).
  exists r. rewrite S. auto.
Qed.

Lemma byte_count_cases L : 0 <= L ->
  ((L + 7) / 8 = 0 -> L = 0) /\ ((L + 7) / 8 = 1 -> 1 <= L <= 8) /\ (2 <= (L + 7) / 8 -> 8 < L).
Proof.
  intros H. pose proof (Z.div_mod (L + 7) 8 ltac:(lia)). pose proof (Z.mod_pos_bound (L + 7) 8 ltac:(lia)). lia.
Qed.

(* Buffer == b'\xNN' on a left-padded canonical buffer: 1..8 bits whose number is NN
   (0 bits: the content is b'', more than 8 bits: the content has several bytes; both sides false) *)
Lemma eq_byte_refines x v : canon x -> bside x = LEFT -> b_eq_bytes x [v] = eq_byte (abs x) v.
Proof.
  intros Hx Hs. unfold eq_byte. rewrite zlen_abs, abs_num by assumption. unfold num. rewrite Hs.
  destruct Hx as (HL & Hpl & Hlen & Hok & Hv). unfold b_eq_bytes, bytes_eqb.
  destruct (byte_count_cases (blen x) HL) as (H0 & H1 & H2).
  pose proof (zlen_nonneg (content x)).
  destruct (content x) as [|c [|d r]]; cbn [list_eqb].
  - change (zlen (@nil Z)) with 0 in Hlen. rewrite H0 by lia. reflexivity.
  - change (zlen [c]) with 1 in Hlen. specialize (H1 ltac:(lia)). rewrite val_single.
    destruct (Z.leb_spec 1 (blen x)); [|lia]. destruct (Z.leb_spec (blen x) 8); [|lia].
    cbn [andb]. apply andb_true_r.
  - rewrite !zlen_cons in Hlen. pose proof (zlen_nonneg r). specialize (H2 ltac:(lia)).
    destruct (Z.leb_spec (blen x) 8); [lia|]. rewrite andb_false_r. rewrite andb_false_r. reflexivity.
Qed.

(* token_length.content[0] *)
Lemma content0_refines x : canon x -> bside x = LEFT -> 1 <= blen x <= 8 ->
  py_index (content x) 0 = Ok (Z_of_bits (abs x)).
Proof.
  intros Hx Hs HB. rewrite abs_num by assumption. unfold num. rewrite Hs.
  destruct Hx as (HL & Hpl & Hlen & Hok & Hv).
  destruct (byte_count_cases (blen x) HL) as (H0 & H1 & H2).
  destruct (content x) as [|c [|d r]].
  - change (zlen (@nil Z)) with 0 in Hlen. lia.
  - rewrite py_index_0, val_single. reflexivity.
  - rewrite !zlen_cons in Hlen. pose proof (zlen_nonneg r). lia.
Qed.

(* hash(Buffer) of a left-padded canonical buffer is the hash of its content *)
Lemma hash_key_left x : canon x -> bside x = LEFT -> b_hash_key x = Ok (content x).
Proof.
  intros Hx Hs. unfold b_hash_key, b_pad. rewrite Hs. cbn [side_eqb]. rewrite <- Hs.
  rewrite b_new_canon by assumption. reflexivity.
Qed.

(* option_delta in {b'\x0d', b'\x0e'} *)
Lemma in_set2_refines x k1 k2 : canon x -> bside x = LEFT ->
  in_set2 x [k1] [k2] = Ok (eq_byte (abs x) k1 || eq_byte (abs x) k2).
Proof.
  intros Hx Hs. unfold in_set2. rewrite hash_key_left by assumption. cbn [bind].
  rewrite <- !eq_byte_refines by assumption. unfold b_eq_bytes. rewrite !andb_diag. reflexivity.
Qed.

(* Buffer(content=b'\xff', length=8) *)
Lemma marker_ok : exists m, b_new [255] 8 LEFT = Ok m /\ canon m /\ bside m = LEFT /\ abs m = bits_of 8 255.
Proof.
  assert (bytes_ok [255]) as Hok by (apply bytes_ok_cons; split; [lia|apply bytes_ok_nil]).
  destruct (new_left_bits [255] 8 Hok ltac:(lia)) as (m & E & C & S & _ & A).
  exists m. auto.
Qed.

(* the fuel of the loops *)
Lemma length_abs b : canon b -> length (abs b) = Z.to_nat (blen b).
Proof. apply abs_length. Qed.

Lemma zlen_sl_exact (l : bits) s e : 0 <= s <= e -> e <= zlen l -> zlen (sl l s e) = e - s.
Proof.
  intros H1 H2. unfold sl. rewrite py_slice_mid by lia. unfold zlen in *.
  rewrite firstn_length, skipn_length. lia.
Qed.

Lemma pad32_range n : 0 <= (32 - n mod 32) mod 32.
Proof. apply Z.mod_pos_bound. lia. Qed.

(* ---- proof automation ------------------------------------------------------------------------- *)
(* one Buffer slice: name the result x, record canon (Cx), side (Sx), denotation (Ax), and make the
   bit-level side speak about abs x *)
Ltac step_sl_core b s e x :=
  let E := fresh "E" x in let C := fresh "C" x in let S := fresh "S" x in let A := fresh "A" x in
  destruct (bsl_ok b s e ltac:(assumption) ltac:(assumption) ltac:(lia)) as (x & E & C & S & A);
  rewrite E; cbn [bind]; rewrite <- ?A; clear E.
Ltac step_sl_named x :=
  match goal with |- context [bsl ?b ?s ?e] => step_sl_core b s e x end.
Tactic Notation "step_sl" "as" ident(x) := step_sl_named x.
Ltac step_sl := let x := fresh "x" in step_sl_named x.

Ltac step_from_named x :=
  match goal with
  | |- context [bsl_from ?b ?s] =>
    let E := fresh "E" x in let C := fresh "C" x in let S := fresh "S" x in let A := fresh "A" x in
    destruct (bsl_from_ok b s ltac:(assumption) ltac:(assumption)) as (x & E & C & S & A);
    rewrite E; cbn [bind]; rewrite <- ?A; clear E
  end.
Tactic Notation "step_from" "as" ident(x) := step_from_named x.
Ltac step_from := let x := fresh "x" in step_from_named x.

(* x.value() *)
Ltac step_val :=
  match goal with
  | |- context [b_value ?x] => rewrite (value_bits x ltac:(assumption)); cbn [bind]
  end.

(* 0 <= Z_of_bits v for the integers read from the packet *)
Ltac note_ranges :=
  repeat match goal with
  | |- context [Z_of_bits ?v] =>
    lazymatch goal with
    | H : 0 <= Z_of_bits v < _ |- _ => fail
    | _ => pose proof (Z_of_bits_range v)
    end
  end.

Ltac fr_solve :=
  repeat first
    [ assumption
    | apply fields_rel_nil
    | apply fields_rel_one; [assumption|assumption|reflexivity]
    | match goal with |- fields_rel (_ :: _ :: _) (_ :: _ :: _) =>
        apply (fields_rel_app [_] [_]) end
    | apply fields_rel_app ].
Ltac hdr_solve := apply hdr_rel_intro; [fr_solve|reflexivity].

(* ---- next-header prediction: next_parser.parse(buffer[off:]) ------------------------------------ *)
Lemma bchain_refines h h' bnext next b off : refines bnext next -> canon b -> bside b = LEFT ->
  hdr_rel h h' -> same_outcome hdr_rel (bchain h bnext b off) (chain h' next (sl_from (abs b) off)).
Proof.
  intros Hn Hb Hs (Hf & Hl & Hc). unfold bchain, chain. step_from as rest.
  apply same_outcome_bind with (R := hdr_rel); [apply Hn; assumption|].
  intros n n' (Nf & Nl & Nc). cbn [same_outcome]. apply hdr_rel_intro; [|congruence].
  apply fields_rel_app; split; assumption.
Qed.

(* ---- UDP, IPv6, IPv4 (prediction parameterised by the refinement of the next parsers) ------------ *)
Lemma bparse_udp_refines_gen pr : refines bparse_coap parse_coap -> refines bparse_sctp parse_sctp ->
  refines (bparse_udp pr) (parse_udp pr).
Proof.
  intros Hcoap Hsctp b Hb Hs. unfold bparse_udp, parse_udp. rewrite zlen_abs by assumption.
  destruct (blen b <? 64); [reflexivity|]. cbv zeta.
  step_sl as sport. step_sl as dport. step_sl as len. step_sl as cksum.
  destruct pr; [|hdr_solve]. step_val.
  destruct (Z_of_bits (abs dport) =? 5683); [apply bchain_refines; try assumption; hdr_solve|].
  destruct (Z_of_bits (abs dport) =? 132); [apply bchain_refines; try assumption; hdr_solve|].
  hdr_solve.
Qed.

Lemma bparse_ipv6_refines_gen pr : refines (bparse_udp true) (parse_udp true) -> refines bparse_sctp parse_sctp ->
  refines (bparse_ipv6 pr) (parse_ipv6 pr).
Proof.
  intros Hudp Hsctp b Hb Hs. unfold bparse_ipv6, parse_ipv6. rewrite zlen_abs by assumption.
  destruct (blen b <? 320); [reflexivity|]. cbv zeta.
  step_sl as version. rewrite eq_byte_refines by assumption.
  destruct (eq_byte (abs version) 6); cbn [negb]; [|reflexivity].
  step_sl as tc. step_sl as fl. step_sl as plen. step_sl as nh. step_sl as hl. step_sl as src. step_sl as dst.
  destruct pr; [|hdr_solve]. step_val.
  destruct (Z_of_bits (abs nh) =? 17); [apply bchain_refines; try assumption; hdr_solve|].
  destruct (Z_of_bits (abs nh) =? 132); [apply bchain_refines; try assumption; hdr_solve|].
  hdr_solve.
Qed.

Lemma bparse_ipv4_refines_gen pr : refines (bparse_udp true) (parse_udp true) -> refines bparse_sctp parse_sctp ->
  refines (bparse_ipv4 pr) (parse_ipv4 pr).
Proof.
  intros Hudp Hsctp b Hb Hs. unfold bparse_ipv4, parse_ipv4. rewrite zlen_abs by assumption.
  destruct (blen b <? 160); [reflexivity|]. cbv zeta.
  step_sl as version. rewrite eq_byte_refines by assumption.
  destruct (eq_byte (abs version) 4); cbn [negb]; [|reflexivity].
  step_sl as ihl. step_sl as tos. step_sl as tlen. step_sl as ident. step_sl as flags. step_sl as frag.
  step_sl as ttl. step_sl as prt. step_sl as cksum. step_sl as src. step_sl as dst.
  destruct pr; [|hdr_solve]. step_val.
  destruct (Z_of_bits (abs prt) =? 17); [apply bchain_refines; try assumption; hdr_solve|].
  destruct (Z_of_bits (abs prt) =? 132); [apply bchain_refines; try assumption; hdr_solve|].
  hdr_solve.
Qed.

(* ---- CoAP ------------------------------------------------------------------------------------- *)
(* the loop invariant: the accumulated byte-level fields denote the accumulated bit-level fields; the
   two carried names option_delta_extended / option_length_extended (dxv, lxv) are only read in an
   iteration that has just assigned them, so any values do *)
Lemma bcoap_loop_refines fuel : forall b cursor ps dxv lxv acc acc',
  canon b -> bside b = LEFT -> 0 <= cursor -> fields_rel acc acc' ->
  same_outcome hdr_rel (bcoap_options_loop fuel b cursor ps dxv lxv acc)
                       (coap_options_loop fuel (abs b) cursor ps acc').
Proof.
  induction fuel as [|f IH]; intros b cursor ps dxv lxv acc acc' Hb Hs Hc Hacc; [exact I|].
  cbn [bcoap_options_loop coap_options_loop]. rewrite zlen_abs by assumption.
  destruct (cursor <? blen b) eqn:Hcur; cbn [andb].
  2:{ cbn [bind same_outcome]. hdr_solve. }
  step_sl as mk. rewrite eq_byte_refines by assumption.
  destruct (eq_byte (abs mk) 255); cbn [negb].
  { destruct marker_ok as (m & Em & Cm & Sm & Am). rewrite Em. cbn [bind same_outcome]. rewrite <- Am. hdr_solve. }
  cbv zeta. step_from as ob. step_sl as delta. step_sl as olen. step_val.
  rewrite !eq_byte_refines by assumption.
  destruct (eq_byte (abs delta) 13) eqn:D8; [|destruct (eq_byte (abs delta) 14) eqn:D16];
  (try step_sl); cbn [bind];
  (destruct (eq_byte (abs olen) 13) eqn:L8; [|destruct (eq_byte (abs olen) 14) eqn:L16];
   (try (step_sl; step_val)); cbn [bind]; note_ranges; step_sl;
   (match goal with |- context [blen b <? ?c] => destruct (blen b <? c) eqn:Hover end; [reflexivity|]);
   rewrite !in_set2_refines by assumption; rewrite ?D8, ?D16, ?L8, ?L16; cbn [bind orb];
   (apply IH; [assumption|assumption|lia|]);
   destruct (0 <? _); fr_solve).
Qed.

Lemma bcoap_parse_options_refines b : canon b -> bside b = LEFT ->
  same_outcome hdr_rel (bcoap_parse_options b) (coap_parse_options (abs b)).
Proof.
  intros Hb Hs. unfold bcoap_parse_options, coap_parse_options. rewrite length_abs by assumption.
  apply bcoap_loop_refines; [assumption|assumption|lia|apply fields_rel_nil].
Qed.

Theorem bparse_coap_refines b : canon b -> bside b = LEFT ->
  same_outcome hdr_rel (bparse_coap b) (parse_coap (abs b)).
Proof.
  intros Hb Hs. unfold bparse_coap, parse_coap. rewrite zlen_abs by assumption.
  destruct (Z.ltb_spec (blen b) 32) as [|Hlen]; [reflexivity|]. cbv zeta.
  step_sl as version. step_sl as type. step_sl as tkl.
  assert (blen tkl = 4) as Htkl.
  { rewrite <- (zlen_abs tkl) by assumption. rewrite Atkl. rewrite zlen_sl_exact; rewrite ?zlen_abs by assumption; lia. }
  rewrite (content0_refines tkl) by (try assumption; lia). cbn [bind].
  step_sl as code. step_sl as mid. note_ranges. step_sl as token. cbn [catch_all bind]. step_from as ob.
  rewrite !zlen_abs by assumption.
  apply same_outcome_bind with (R := hdr_rel).
  - destruct (0 <? blen ob).
    + apply same_outcome_catch. apply bcoap_parse_options_refines; assumption.
    + cbn [same_outcome]. hdr_solve.
  - intros o o' (Of & Ol & Oc). cbn [same_outcome]. apply hdr_rel_intro; [|congruence].
    apply fields_rel_app; [|split; assumption].
    destruct (0 <? _); fr_solve.
Qed.

(* ---- SCTP: parameters, chunk values, chunks --------------------------------------------------- *)
Lemma bparse_parameter_refines b : canon b -> bside b = LEFT ->
  same_outcome hdr_rel (bparse_parameter b) (parse_parameter (abs b)).
Proof.
  intros Hb Hs. unfold bparse_parameter, parse_parameter. rewrite !zlen_abs by assumption.
  destruct (blen b <? 32); [reflexivity|]. cbv zeta.
  step_sl as ptype. step_sl as plen. step_val.
  destruct (Z.ltb_spec (Z_of_bits (abs plen) * 8) 32) as [|Hlo]; cbn [orb]; [reflexivity|].
  destruct (Z.ltb_spec (blen b) (Z_of_bits (abs plen) * 8)) as [|Hhi]; [reflexivity|].
  pose proof (pad32_range (Z_of_bits (abs plen) * 8 - 32)) as Hpad.
  destruct (0 <? Z_of_bits (abs plen) * 8 - 32); [step_sl|cbn [bind]];
    (destruct (0 <? (32 - (Z_of_bits (abs plen) * 8 - 32) mod 32) mod 32); [step_sl|cbn [bind]];
     cbn [same_outcome]; hdr_solve).
Qed.

Lemma bparameters_loop_refines fuel : forall b acc acc', canon b -> bside b = LEFT -> fields_rel acc acc' ->
  same_outcome fields_rel (bparameters_loop fuel b acc) (parameters_loop fuel (abs b) acc').
Proof.
  induction fuel as [|f IH]; intros b acc acc' Hb Hs Hacc; [exact I|].
  cbn [bparameters_loop parameters_loop]. rewrite zlen_abs by assumption.
  destruct (0 <? blen b); [|exact Hacc].
  apply same_outcome_bind with (R := hdr_rel); [apply bparse_parameter_refines; assumption|].
  intros p p' (Pf & Pl & Pc). rewrite <- Pl. step_from as rest. apply IH; try assumption.
  apply fields_rel_app; [assumption|split; assumption].
Qed.

Lemma bparse_parameters_refines b acc acc' : canon b -> bside b = LEFT -> fields_rel acc acc' ->
  same_outcome fields_rel (bparse_parameters b acc) (parse_parameters (abs b) acc').
Proof.
  intros Hb Hs Hacc. unfold bparse_parameters, parse_parameters. rewrite length_abs by assumption.
  apply bparameters_loop_refines; assumption.
Qed.

Lemma bsack_gaps_refines n : forall rem acc acc', canon rem -> bside rem = LEFT -> fields_rel acc acc' ->
  exists fs r, bsack_gaps n rem acc = Ok (fs, r) /\ fields_rel fs (fst (sack_gaps n (abs rem) acc')) /\
               canon r /\ bside r = LEFT /\ abs r = snd (sack_gaps n (abs rem) acc').
Proof.
  induction n as [|n IH]; intros rem acc acc' Hr Hs Hacc; cbn [bsack_gaps sack_gaps].
  - exists acc, rem. cbn [fst snd]. auto.
  - step_sl as gs. step_sl as ge. step_from as rest. apply IH; try assumption. fr_solve.
Qed.

Lemma bsack_dups_refines n : forall rem acc acc', canon rem -> bside rem = LEFT -> fields_rel acc acc' ->
  exists fs r, bsack_dups n rem acc = Ok (fs, r) /\ fields_rel fs (fst (sack_dups n (abs rem) acc')) /\
               canon r /\ bside r = LEFT /\ abs r = snd (sack_dups n (abs rem) acc').
Proof.
  induction n as [|n IH]; intros rem acc acc' Hr Hs Hacc; cbn [bsack_dups sack_dups].
  - exists acc, rem. cbn [fst snd]. auto.
  - step_sl as d. step_from as rest. apply IH; try assumption. fr_solve.
Qed.

Lemma bparse_chunk_value_refines t v : canon v -> bside v = LEFT ->
  same_outcome fields_rel (bparse_chunk_value t v) (parse_chunk_value t (abs v)).
Proof.
  intros Hv Hs. unfold bparse_chunk_value, parse_chunk_value. rewrite ?zlen_abs by assumption.
  destruct (t =? 0).
  { do 4 step_sl. step_val. step_from. cbn [same_outcome]. fr_solve. }
  destruct (t =? 1).
  { do 5 step_sl. step_from. apply bparse_parameters_refines; try assumption. fr_solve. }
  destruct (t =? 2).
  { do 5 step_sl. step_from. apply bparse_parameters_refines; try assumption. fr_solve. }
  destruct (t =? 3).
  { cbv zeta. step_sl as cum. step_sl as rwnd. step_sl as ngap. step_sl as ndup. step_from as rem.
    do 2 step_val. rewrite zlen_abs by assumption.
    destruct (negb (blen rem =? 32 * (Z_of_bits (abs ngap) + Z_of_bits (abs ndup)))); [reflexivity|].
    match goal with |- context [bsack_gaps ?n ?r ?a] =>
      destruct (bsack_gaps_refines n r a
        [FD P_SCTP 24 0 (abs cum); FD P_SCTP 25 0 (abs rwnd); FD P_SCTP 26 0 (abs ngap); FD P_SCTP 27 0 (abs ndup)]
        ltac:(assumption) ltac:(assumption) ltac:(fr_solve)) as (fs1 & r1 & E1 & F1 & Cr1 & Sr1 & Ar1) end.
    rewrite E1. cbn [bind fst snd].
    destruct (sack_gaps _ (abs rem) _) as [fs1' rem1']. cbn [fst snd] in *.
    match goal with |- context [bsack_dups ?n ?r ?a] =>
      destruct (bsack_dups_refines n r a fs1' ltac:(assumption) ltac:(assumption) ltac:(assumption))
        as (fs2 & r2 & E2 & F2 & Cr2 & Sr2 & Ar2) end.
    rewrite E2. cbn [bind fst snd]. rewrite <- Ar1.
    destruct (sack_dups _ (abs r1) _) as [fs2' rem2']. cbn [fst snd] in *. exact F2. }
  destruct ((t =? 4) || (t =? 5) || (t =? 6) || (t =? 9)).
  { apply bparse_parameters_refines; try assumption. fr_solve. }
  destruct (t =? 7).
  { destruct (32 <? blen v); [reflexivity|]. step_sl. cbn [same_outcome]. fr_solve. }
  destruct ((t =? 8) || (t =? 11) || (t =? 14)).
  { destruct (0 <? blen v); [reflexivity|]. cbn [same_outcome]. fr_solve. }
  destruct (t =? 10); cbn [same_outcome]; fr_solve.
Qed.

Lemma bparse_chunk_refines b : canon b -> bside b = LEFT ->
  same_outcome hdr_rel (bparse_chunk b) (parse_chunk (abs b)).
Proof.
  intros Hb Hs. unfold bparse_chunk, parse_chunk. rewrite !zlen_abs by assumption.
  destruct (blen b <? 32); [reflexivity|]. cbv zeta.
  step_sl as ctype. step_sl as cflags. step_sl as clen. step_val.
  destruct (Z.ltb_spec (Z_of_bits (abs clen) * 8) 32) as [|Hlo]; cbn [orb]; [reflexivity|].
  destruct (Z.ltb_spec (blen b) (Z_of_bits (abs clen) * 8)) as [|Hhi]; [reflexivity|].
  pose proof (pad32_range (Z_of_bits (abs clen) * 8)) as Hpad.
  apply same_outcome_bind with (R := fields_rel).
  { destruct (0 <? Z_of_bits (abs clen) * 8 - 32); [|cbn [same_outcome]; fr_solve].
    step_val. step_sl as value. apply bparse_chunk_value_refines; assumption. }
  intros vf vf' Hvf.
  destruct (0 <? (32 - (Z_of_bits (abs clen) * 8) mod 32) mod 32); cbn [andb bind].
  - step_sl as pad. rewrite zlen_abs by assumption. destruct (0 <? blen pad); cbn [same_outcome]; hdr_solve.
  - cbn [same_outcome]. hdr_solve.
Qed.

Lemma bchunks_loop_refines fuel : forall b acc acc', canon b -> bside b = LEFT -> fields_rel acc acc' ->
  same_outcome fields_rel (bchunks_loop fuel b acc) (Parsers.chunks_loop fuel (abs b) acc').
Proof.
  induction fuel as [|f IH]; intros b acc acc' Hb Hs Hacc; [exact I|].
  cbn [bchunks_loop Parsers.chunks_loop]. rewrite zlen_abs by assumption.
  destruct (0 <? blen b); [|exact Hacc].
  apply same_outcome_bind with (R := hdr_rel); [apply bparse_chunk_refines; assumption|].
  intros p p' (Pf & Pl & Pc). rewrite <- Pl. step_from as rest. apply IH; try assumption.
  apply fields_rel_app; [assumption|split; assumption].
Qed.

Theorem bparse_sctp_refines b : canon b -> bside b = LEFT ->
  same_outcome hdr_rel (bparse_sctp b) (parse_sctp (abs b)).
Proof.
  intros Hb Hs. unfold bparse_sctp, parse_sctp. rewrite !zlen_abs by assumption.
  destruct (blen b <? 96); [reflexivity|]. cbv zeta.
  do 4 step_sl. step_from as chunks. rewrite length_abs by assumption.
  apply same_outcome_bind with (R := fields_rel).
  - apply bchunks_loop_refines; try assumption. fr_solve.
  - intros fs fs' Hfs. cbn [same_outcome]. apply hdr_rel_intro; [assumption|reflexivity].
Qed.

(* ---- the header parsers, closed --------------------------------------------------------------- *)
Theorem bparse_udp_refines pr b : canon b -> bside b = LEFT ->
  same_outcome hdr_rel (bparse_udp pr b) (parse_udp pr (abs b)).
Proof. apply bparse_udp_refines_gen; intros x; [apply bparse_coap_refines|apply bparse_sctp_refines]. Qed.

Theorem bparse_ipv6_refines pr b : canon b -> bside b = LEFT ->
  same_outcome hdr_rel (bparse_ipv6 pr b) (parse_ipv6 pr (abs b)).
Proof. apply bparse_ipv6_refines_gen; intros x; [apply bparse_udp_refines|apply bparse_sctp_refines]. Qed.

Theorem bparse_ipv4_refines pr b : canon b -> bside b = LEFT ->
  same_outcome hdr_rel (bparse_ipv4 pr b) (parse_ipv4 pr (abs b)).
Proof. apply bparse_ipv4_refines_gen; intros x; [apply bparse_udp_refines|apply bparse_sctp_refines]. Qed.

(* ---- PacketParser.parse and the factory -------------------------------------------------------- *)
Lemma bpacket_loop_refines bps ps : Forall2 refines bps ps ->
  forall b acc acc', canon b -> bside b = LEFT -> fields_rel acc acc' ->
  same_outcome pkt_rel (bpacket_parse_loop bps b acc) (packet_parse_loop ps (abs b) acc').
Proof.
  induction 1 as [|bp p bps ps Hp Hps IH]; intros b acc acc' Hb Hs [Ha Fa]; cbn [bpacket_parse_loop packet_parse_loop].
  - cbn [same_outcome]. unfold pkt_rel. cbn [fst snd]. auto.
  - apply same_outcome_bind with (R := hdr_rel); [apply Hp; assumption|].
    intros h h' (Hf & Hl & Hc). rewrite <- Hl. step_from as rest. apply IH; try assumption.
    apply fields_rel_app; split; assumption.
Qed.

Theorem bpacket_parse_refines bps ps b : Forall2 refines bps ps -> canon b -> bside b = LEFT ->
  same_outcome pkt_rel (bpacket_parse bps b) (packet_parse ps (abs b)).
Proof.
  intros H Hb Hs. unfold bpacket_parse, packet_parse. rewrite b_copy_canon by assumption. cbn [bind].
  apply bpacket_loop_refines; try assumption. apply fields_rel_nil.
Qed.

Theorem bfactory_refines s b : canon b -> bside b = LEFT ->
  same_outcome pkt_rel (bfactory s b) (factory s (abs b)).
Proof.
  intros Hb Hs. unfold bfactory, factory. apply bpacket_parse_refines; try assumption.
  destruct s; repeat constructor; intros x;
    first [apply bparse_ipv6_refines|apply bparse_ipv4_refines|apply bparse_udp_refines
          |apply bparse_coap_refines|apply bparse_sctp_refines].
Qed.

(* the same statement unfolded, in the form used to compose with SchcRefine.bcompress_refines: the
   byte-level packet descriptor is canonical (canon_pdesc) and denotes the bit-level one *)
Corollary bfactory_ok s b fs pl d : canon b -> bside b = LEFT -> factory s (abs b) = Ok (fs, pl) ->
  exists bfs bpl, bfactory s b = Ok (bfs, bpl) /\ bside bpl = LEFT /\
    canon_pdesc (mkbpdesc d bfs bpl) /\ abs_pdesc abs (mkbpdesc d bfs bpl) = mkpdesc d fs pl.
Proof.
  intros Hb Hs E. pose proof (bfactory_refines s b Hb Hs) as H. rewrite E in H.
  destruct (bfactory s b) as [[bfs bpl]| |]; cbn [same_outcome] in H; try contradiction.
  destruct H as (Hf & Hp & Hc & Cp & Sp). cbn [fst snd] in *.
  exists bfs, bpl. split; [reflexivity|]. split; [exact Sp|]. split.
  - split; [exact Hc|exact Cp].
  - unfold abs_pdesc. cbn [bpd_dir bpd_fields bpd_payload]. now rewrite Hf, Hp.
Qed.

Corollary bfactory_exc s b e : canon b -> bside b = LEFT -> factory s (abs b) = Exc e -> bfactory s b = Exc e.
Proof.
  intros Hb Hs E. pose proof (bfactory_refines s b Hb Hs) as H. rewrite E in H.
  destruct (bfactory s b) as [[bfs bpl]| |]; cbn [same_outcome] in H; try contradiction. now subst.
Qed.

(* ---- remark: the hypothesis bside b = LEFT is necessary ------------------------------------------ *)
(* A right-padded packet buffer fails the IP version test whatever its bits: Buffer == bytes compares
   the raw content, and the 4-bit version field of a right-padded buffer sits in the HIGH nibble of
   its single byte.  (The bit-level parser only looks at abs b and accepts a well-formed packet.) *)
Lemma right_nibble_ne r v : canon r -> bside r = RIGHT -> blen r = 4 -> 0 < v < 16 -> b_eq_bytes r [v] = false.
Proof.
  intros (HL & Hpl & Hlen & Hok & Hv) Hs H4 Hr. rewrite Hs in Hv. rewrite H4 in *.
  change (calc_pl 4) with 4 in Hpl. rewrite Hpl in Hv. change ((4 + 7) / 8) with 1 in Hlen.
  unfold b_eq_bytes, bytes_eqb. destruct (content r) as [|c [|d t]].
  - discriminate Hlen.
  - cbn [list_eqb]. rewrite val_single in Hv. destruct (Z.eqb_spec c v) as [->|]; [|reflexivity].
    change (2 ^ 4) with 16 in Hv. rewrite Z.mod_small in Hv by lia. lia.
  - rewrite !zlen_cons in Hlen. pose proof (zlen_nonneg t). lia.
Qed.

Lemma right_version b : canon b -> 4 <= blen b -> bside b = RIGHT ->
  exists r, bsl b 0 4 = Ok r /\ canon r /\ bside r = RIGHT /\ blen r = 4.
Proof.
  intros Hb H4 Hs.
  destruct (getitem_slice b (Some 0) (Some 4) Hb (ordered_mid (blen b) 0 4 (canon_nonneg b Hb) ltac:(lia))) as (r & E & C & S & A).
  exists r. split; [exact E|]. split; [exact C|]. split; [congruence|].
  rewrite <- (zlen_abs r) by assumption. rewrite A. fold (sl (abs b) 0 4).
  rewrite zlen_sl_exact; rewrite ?zlen_abs by assumption; lia.
Qed.

Remark bparse_ipv6_right_padded pr b : canon b -> bside b = RIGHT -> bparse_ipv6 pr b = Exc ParserError.
Proof.
  intros Hb Hs. unfold bparse_ipv6. destruct (Z.ltb_spec (blen b) 320); [reflexivity|].
  destruct (right_version b Hb ltac:(lia) Hs) as (r & E & C & S & L). rewrite E. cbn [bind].
  rewrite right_nibble_ne by (try assumption; lia). reflexivity.
Qed.

Remark bparse_ipv4_right_padded pr b : canon b -> bside b = RIGHT -> bparse_ipv4 pr b = Exc ParserError.
Proof.
  intros Hb Hs. unfold bparse_ipv4. destruct (Z.ltb_spec (blen b) 160); [reflexivity|].
  destruct (right_version b Hb ltac:(lia) Hs) as (r & E & C & S & L). rewrite E. cbn [bind].
  rewrite right_nibble_ne by (try assumption; lia). reflexivity.
Qed.
