(* ParserRfc.v -- C08 for IPv6, IPv4, UDP and CoAP: on every well-formed message (RfcHeaders.v) the parser
   model (Parsers.v) returns exactly the field list of the RFC layout and consumes exactly the header;
   the explicit stacks and the next-protocol prediction. *)
From Coq Require Import ZArith List Bool Lia. From MS Require Import PyBase Bits ByteFacts BufferAbs Schc Parsers ParserTiling RfcHeaders. Import ListNotations. Open Scope Z_scope.

(* ---- slices of concatenations ------------------------------------------------------------------ *)
Lemma firstn_app_exact {A} (a b : list A) n : n = length a -> firstn n (a ++ b) = a.
Proof. intros ->. induction a; cbn; [now destruct b|now f_equal]. Qed.

Lemma skipn_app_exact {A} (a b : list A) n : n = length a -> skipn n (a ++ b) = b.
Proof. intros ->. induction a; cbn; auto. Qed.

Lemma sl_here (a x r : bits) s e : s = zlen a -> e = s + zlen x -> sl (a ++ x ++ r) s e = x.
Proof.
  intros -> ->. pose proof (zlen_nonneg a). pose proof (zlen_nonneg x).
  rewrite sl_eq by lia. rewrite skipn_app_exact by apply zlen_to_nat.
  apply firstn_app_exact. unfold zlen. lia.
Qed.

Lemma sl_here0 (x r : bits) e : e = zlen x -> sl (x ++ r) 0 e = x.
Proof. intros ->. apply (sl_here [] x r); reflexivity. Qed.

Lemma sl_from_here (a r : bits) s : s = zlen a -> sl_from (a ++ r) s = r.
Proof.
  intros ->. pose proof (zlen_nonneg a). rewrite sl_from_eq by lia.
  apply skipn_app_exact. apply zlen_to_nat.
Qed.

Lemma has_len_zlen (b : bits) n : has_len b n -> zlen b = Z.of_nat n.
Proof. unfold has_len, zlen. now intros ->. Qed.

Lemma zlen_bits_of n x : zlen (bits_of n x) = Z.of_nat n.
Proof. unfold zlen. now rewrite bits_of_length. Qed.

(* find the component of a right-nested concatenation that a slice denotes *)
Ltac zl := rewrite ?zlen_app, ?zlen_bits_of; cbn [Z.of_nat Pos.of_succ_nat Pos.succ]; lia.
Ltac sl_find :=
  first [ apply sl_here0; zl
        | apply sl_here; zl
        | rewrite app_assoc; sl_find ].
Ltac sl_solve :=
  match goal with
  | |- sl (?x ++ ?r) 0 _ = _ => first [ apply sl_here0; zl | change (x ++ r) with ([] ++ x ++ r); sl_find ]
  | |- sl _ _ _ = _ => sl_find
  end.
Ltac sl_from_find := first [ apply sl_from_here; zl | rewrite app_assoc; sl_from_find ].

Lemma FD_fd p i pos v : FD p i pos v = fd p i pos v.
Proof. reflexivity. Qed.

(* ---- IPv6 ---------------------------------------------------------------------------------------- *)
Lemma ipv6_gen pr h rest : ipv6_wf h ->
  parse_ipv6 pr (ipv6_encode h ++ rest) =
  if pr then
    if Z_of_bits (v6_nh h) =? 17 then chain (ipv6_fields h, 320) (parse_udp true) rest
    else if Z_of_bits (v6_nh h) =? 132 then chain (ipv6_fields h, 320) parse_sctp rest
    else Ok (ipv6_fields h, 320)
  else Ok (ipv6_fields h, 320).
Proof.
  intros (H1 & H2 & H3 & H4 & H5 & H6 & H7).
  apply has_len_zlen in H1, H2, H3, H4, H5, H6, H7.
  cbn [Z.of_nat Pos.of_succ_nat Pos.succ] in *.
  set (b := ipv6_encode h ++ rest).
  assert (Hb : b = bits_of 4 6 ++ v6_tc h ++ v6_flow h ++ v6_plen h ++ v6_nh h ++ v6_hlim h ++ v6_src h ++ v6_dst h ++ rest).
  { unfold b, ipv6_encode. now rewrite <- !app_assoc. }
  clearbody b. subst b.
  pose proof (zlen_nonneg rest) as Hr.
  unfold parse_ipv6.
  match goal with |- context [zlen ?x <? 320] => destruct (Z.ltb_spec (zlen x) 320) as [Hl|_] end.
  { exfalso. revert Hl. zl. }
  cbv zeta.
  assert (S0 : forall b, b = bits_of 4 6 ++ v6_tc h ++ v6_flow h ++ v6_plen h ++ v6_nh h ++ v6_hlim h ++ v6_src h ++ v6_dst h ++ rest ->
     sl b 0 4 = bits_of 4 6 /\ sl b 4 12 = v6_tc h /\ sl b 12 32 = v6_flow h /\ sl b 32 48 = v6_plen h /\
     sl b 48 56 = v6_nh h /\ sl b 56 64 = v6_hlim h /\ sl b 64 192 = v6_src h /\ sl b 192 320 = v6_dst h /\ sl_from b 320 = rest).
  { intros b ->. repeat split; try sl_solve. sl_from_find. }
  destruct (S0 _ eq_refl) as (E0 & E1 & E2 & E3 & E4 & E5 & E6 & E7 & E8).
  rewrite E0, E1, E2, E3, E4, E5, E6, E7, E8.
  change (eq_byte (bits_of 4 6) 6) with true. cbn [negb].
  reflexivity.
Qed.

Theorem c08_ipv6 h rest : ipv6_wf h -> parse_ipv6 false (ipv6_encode h ++ rest) = Ok (ipv6_fields h, 320).
Proof. intros H. now rewrite ipv6_gen. Qed.

(* ---- IPv4 ---------------------------------------------------------------------------------------- *)
Lemma ipv4_gen pr h rest : ipv4_wf h ->
  parse_ipv4 pr (ipv4_encode h ++ rest) =
  if pr then
    if Z_of_bits (v4_proto h) =? 17 then chain (ipv4_fields h, 160) (parse_udp true) rest
    else if Z_of_bits (v4_proto h) =? 132 then chain (ipv4_fields h, 160) parse_sctp rest
    else Ok (ipv4_fields h, 160)
  else Ok (ipv4_fields h, 160).
Proof.
  intros (H1 & H2 & H3 & H4 & H5 & H6 & H7 & H8 & H9 & H10 & H11).
  apply has_len_zlen in H1, H2, H3, H4, H5, H6, H7, H8, H9, H10, H11.
  cbn [Z.of_nat Pos.of_succ_nat Pos.succ] in *.
  pose proof (zlen_nonneg rest) as Hr.
  assert (S0 : forall b, b = bits_of 4 4 ++ v4_ihl h ++ v4_tos h ++ v4_tlen h ++ v4_id h ++ v4_flags h ++ v4_frag h ++ v4_ttl h ++
                           v4_proto h ++ v4_csum h ++ v4_src h ++ v4_dst h ++ rest ->
     160 <= zlen b /\
     sl b 0 4 = bits_of 4 4 /\ sl b 4 8 = v4_ihl h /\ sl b 8 16 = v4_tos h /\ sl b 16 32 = v4_tlen h /\
     sl b 32 48 = v4_id h /\ sl b 48 51 = v4_flags h /\ sl b 51 64 = v4_frag h /\ sl b 64 72 = v4_ttl h /\
     sl b 72 80 = v4_proto h /\ sl b 80 96 = v4_csum h /\ sl b 96 128 = v4_src h /\ sl b 128 160 = v4_dst h /\
     sl_from b 160 = rest).
  { intros b ->. repeat split; try sl_solve; [zl|sl_from_find]. }
  set (b := ipv4_encode h ++ rest).
  destruct (S0 b) as (E & E0 & E1 & E2 & E3 & E4 & E5 & E6 & E7 & E8 & E9 & E10 & E11 & E12).
  { unfold b, ipv4_encode. now rewrite <- !app_assoc. }
  clearbody b. unfold parse_ipv4.
  destruct (Z.ltb_spec (zlen b) 160) as [Hl|_]; [lia|].
  cbv zeta.
  rewrite E0, E1, E2, E3, E4, E5, E6, E7, E8, E9, E10, E11, E12.
  change (eq_byte (bits_of 4 4) 4) with true. cbn [negb].
  reflexivity.
Qed.

Theorem c08_ipv4 h rest : ipv4_wf h -> parse_ipv4 false (ipv4_encode h ++ rest) = Ok (ipv4_fields h, 160).
Proof. intros H. now rewrite ipv4_gen. Qed.

(* ---- UDP ----------------------------------------------------------------------------------------- *)
Lemma udp_gen pr h rest : udp_wf h ->
  parse_udp pr (udp_encode h ++ rest) =
  if pr then
    if Z_of_bits (u_dport h) =? 5683 then chain (udp_fields h, 64) parse_coap rest
    else if Z_of_bits (u_dport h) =? 132 then chain (udp_fields h, 64) parse_sctp rest
    else Ok (udp_fields h, 64)
  else Ok (udp_fields h, 64).
Proof.
  intros (H1 & H2 & H3 & H4).
  apply has_len_zlen in H1, H2, H3, H4.
  cbn [Z.of_nat Pos.of_succ_nat Pos.succ] in *.
  pose proof (zlen_nonneg rest) as Hr.
  assert (S0 : forall b, b = u_sport h ++ u_dport h ++ u_len h ++ u_csum h ++ rest ->
     64 <= zlen b /\
     sl b 0 16 = u_sport h /\ sl b 16 32 = u_dport h /\ sl b 32 48 = u_len h /\ sl b 48 64 = u_csum h /\ sl_from b 64 = rest).
  { intros b ->. repeat split; try sl_solve; [zl|sl_from_find]. }
  set (b := udp_encode h ++ rest).
  destruct (S0 b) as (E & E0 & E1 & E2 & E3 & E4).
  { unfold b, udp_encode. now rewrite <- !app_assoc. }
  clearbody b. unfold parse_udp.
  destruct (Z.ltb_spec (zlen b) 64) as [Hl|_]; [lia|].
  cbv zeta.
  rewrite E0, E1, E2, E3, E4.
  reflexivity.
Qed.

Theorem c08_udp h rest : udp_wf h -> parse_udp false (udp_encode h ++ rest) = Ok (udp_fields h, 64).
Proof. intros H. now rewrite udp_gen. Qed.
