From Coq Require Import ZArith List Bool Lia. From MS Require Import PyBase Bits ByteFacts BufferAbs Schc Parsers ParserTiling RfcHeaders. Import ListNotations. Open Scope Z_scope.
(* ParserRfc.v -- C08 for IPv6, IPv4, UDP and CoAP: on every well-formed message (RfcHeaders.v) the parser
   model (Parsers.v) returns exactly the field list of the RFC layout and consumes exactly the header;
   the explicit stacks and the next-protocol prediction. *)

(* ---- slices of concatenations ------------------------------------------------------------------ *)
Lemma firstn_app_exact {A} (a b : list A) n : n = length a -> firstn n (a ++ b) = a.
Proof. intros ->. induction a; cbn; [now destruct b|now f_equal]. Qed.

Lemma skipn_app_exact {A} (a b : list A) n : n = length a -> skipn n (a ++ b) = b.
Proof. intros ->. induction a; cbn; auto. Qed.

Lemma sl_here (a x r : bits) s e : s = zlen a -> e = s + zlen x -> sl (a ++ x ++ r) s e = x.
Proof.
  intros -> ->. pose proof (zlen_nonneg a). pose proof (zlen_nonneg x).
  rewrite sl_eq by lia. rewrite skipn_app_exact by apply zlen_to_nat.
  apply firstn_app_exact. unfold zlen. lia.
Qed.

Lemma sl_here0 (x r : bits) e : e = zlen x -> sl (x ++ r) 0 e = x.
Proof. intros ->. apply (sl_here [] x r); reflexivity. Qed.

Lemma sl_from_here (a r : bits) s : s = zlen a -> sl_from (a ++ r) s = r.
Proof.
  intros ->. pose proof (zlen_nonneg a). rewrite sl_from_eq by lia.
  apply skipn_app_exact. apply zlen_to_nat.
Qed.

Lemma has_len_zlen (b : bits) n : has_len b n -> zlen b = Z.of_nat n.
Proof. unfold has_len, zlen. now intros ->. Qed.

Lemma zlen_bits_of n x : zlen (bits_of n x) = Z.of_nat n.
Proof. unfold zlen. now rewrite bits_of_length. Qed.

(* find the component of a right-nested concatenation that a slice denotes *)
Ltac zl := rewrite ?zlen_app, ?zlen_bits_of; cbn [Z.of_nat Pos.of_succ_nat Pos.succ]; lia.
Ltac sl_find :=
  first [ apply sl_here0; zl
        | apply sl_here; zl
        | rewrite app_assoc; sl_find ].
Ltac sl_solve :=
  match goal with
  | |- sl (?x ++ ?r) 0 _ = _ => first [ apply sl_here0; zl | change (x ++ r) with ([] ++ x ++ r); sl_find ]
  | |- sl _ _ _ = _ => sl_find
  end.
Ltac sl_from_find := first [ apply sl_from_here; zl | rewrite app_assoc; sl_from_find ].

Lemma FD_fd p i pos v : FD p i pos v = fd p i pos v.
Proof. reflexivity. Qed.

(* ---- IPv6 ---------------------------------------------------------------------------------------- *)
Lemma ipv6_gen pr h rest : ipv6_wf h ->
  parse_ipv6 pr (ipv6_encode h ++ rest) =
  if pr then
    if Z_of_bits (v6_nh h) =? 17 then chain (ipv6_fields h, 320) (parse_udp true) rest
    else if Z_of_bits (v6_nh h) =? 132 then chain (ipv6_fields h, 320) parse_sctp rest
    else Ok (ipv6_fields h, 320)
  else Ok (ipv6_fields h, 320).
Proof.
  intros (H1 & H2 & H3 & H4 & H5 & H6 & H7).
  apply has_len_zlen in H1, H2, H3, H4, H5, H6, H7.
  cbn [Z.of_nat Pos.of_succ_nat Pos.succ] in *.
  set (b := ipv6_encode h ++ rest).
  assert (Hb : b = bits_of 4 6 ++ v6_tc h ++ v6_flow h ++ v6_plen h ++ v6_nh h ++ v6_hlim h ++ v6_src h ++ v6_dst h ++ rest).
  { unfold b, ipv6_encode. now rewrite <- !app_assoc. }
  clearbody b. subst b.
  pose proof (zlen_nonneg rest) as Hr.
  unfold parse_ipv6.
  match goal with |- context [zlen ?x <? 320] => destruct (Z.ltb_spec (zlen x) 320) as [Hl|_] end.
  { exfalso. revert Hl. zl. }
  cbv zeta.
  assert (S0 : forall b, b = bits_of 4 6 ++ v6_tc h ++ v6_flow h ++ v6_plen h ++ v6_nh h ++ v6_hlim h ++ v6_src h ++ v6_dst h ++ rest ->
     sl b 0 4 = bits_of 4 6 /\ sl b 4 12 = v6_tc h /\ sl b 12 32 = v6_flow h /\ sl b 32 48 = v6_plen h /\
     sl b 48 56 = v6_nh h /\ sl b 56 64 = v6_hlim h /\ sl b 64 192 = v6_src h /\ sl b 192 320 = v6_dst h /\ sl_from b 320 = rest).
  { intros b ->. repeat split; try sl_solve. sl_from_find. }
  destruct (S0 _ eq_refl) as (E0 & E1 & E2 & E3 & E4 & E5 & E6 & E7 & E8).
  rewrite E0, E1, E2, E3, E4, E5, E6, E7, E8.
  change (eq_byte (bits_of 4 6) 6) with true. cbn [negb].
  reflexivity.
Qed.

Theorem c08_ipv6 h rest : ipv6_wf h -> parse_ipv6 false (ipv6_encode h ++ rest) = Ok (ipv6_fields h, 320).
Proof. intros H. now rewrite ipv6_gen. Qed.

(* ---- IPv4 ---------------------------------------------------------------------------------------- *)
Lemma ipv4_gen pr h rest : ipv4_wf h ->
  parse_ipv4 pr (ipv4_encode h ++ rest) =
  if pr then
    if Z_of_bits (v4_proto h) =? 17 then chain (ipv4_fields h, 160) (parse_udp true) rest
    else if Z_of_bits (v4_proto h) =? 132 then chain (ipv4_fields h, 160) parse_sctp rest
    else Ok (ipv4_fields h, 160)
  else Ok (ipv4_fields h, 160).
Proof.
  intros (H1 & H2 & H3 & H4 & H5 & H6 & H7 & H8 & H9 & H10 & H11).
  apply has_len_zlen in H1, H2, H3, H4, H5, H6, H7, H8, H9, H10, H11.
  cbn [Z.of_nat Pos.of_succ_nat Pos.succ] in *.
  pose proof (zlen_nonneg rest) as Hr.
  assert (S0 : forall b, b = bits_of 4 4 ++ v4_ihl h ++ v4_tos h ++ v4_tlen h ++ v4_id h ++ v4_flags h ++ v4_frag h ++ v4_ttl h ++
                           v4_proto h ++ v4_csum h ++ v4_src h ++ v4_dst h ++ rest ->
     160 <= zlen b /\
     sl b 0 4 = bits_of 4 4 /\ sl b 4 8 = v4_ihl h /\ sl b 8 16 = v4_tos h /\ sl b 16 32 = v4_tlen h /\
     sl b 32 48 = v4_id h /\ sl b 48 51 = v4_flags h /\ sl b 51 64 = v4_frag h /\ sl b 64 72 = v4_ttl h /\
     sl b 72 80 = v4_proto h /\ sl b 80 96 = v4_csum h /\ sl b 96 128 = v4_src h /\ sl b 128 160 = v4_dst h /\
     sl_from b 160 = rest).
  { intros b ->. repeat split; try sl_solve; [zl|sl_from_find]. }
  set (b := ipv4_encode h ++ rest).
  destruct (S0 b) as (E & E0 & E1 & E2 & E3 & E4 & E5 & E6 & E7 & E8 & E9 & E10 & E11 & E12).
  { unfold b, ipv4_encode. now rewrite <- !app_assoc. }
  clearbody b. unfold parse_ipv4.
  destruct (Z.ltb_spec (zlen b) 160) as [Hl|_]; [lia|].
  cbv zeta.
  rewrite E0, E1, E2, E3, E4, E5, E6, E7, E8, E9, E10, E11, E12.
  change (eq_byte (bits_of 4 4) 4) with true. cbn [negb].
  reflexivity.
Qed.

Theorem c08_ipv4 h rest : ipv4_wf h -> parse_ipv4 false (ipv4_encode h ++ rest) = Ok (ipv4_fields h, 160).
Proof. intros H. now rewrite ipv4_gen. Qed.

(* ---- UDP ----------------------------------------------------------------------------------------- *)
Lemma udp_gen pr h rest : udp_wf h ->
  parse_udp pr (udp_encode h ++ rest) =
  if pr then
    if Z_of_bits (u_dport h) =? 5683 then chain (udp_fields h, 64) parse_coap rest
    else if Z_of_bits (u_dport h) =? 132 then chain (udp_fields h, 64) parse_sctp rest
    else Ok (udp_fields h, 64)
  else Ok (udp_fields h, 64).
Proof.
  intros (H1 & H2 & H3 & H4).
  apply has_len_zlen in H1, H2, H3, H4.
  cbn [Z.of_nat Pos.of_succ_nat Pos.succ] in *.
  pose proof (zlen_nonneg rest) as Hr.
  assert (S0 : forall b, b = u_sport h ++ u_dport h ++ u_len h ++ u_csum h ++ rest ->
     64 <= zlen b /\
     sl b 0 16 = u_sport h /\ sl b 16 32 = u_dport h /\ sl b 32 48 = u_len h /\ sl b 48 64 = u_csum h /\ sl_from b 64 = rest).
  { intros b ->. repeat split; try sl_solve; [zl|sl_from_find]. }
  set (b := udp_encode h ++ rest).
  destruct (S0 b) as (E & E0 & E1 & E2 & E3 & E4).
  { unfold b, udp_encode. now rewrite <- !app_assoc. }
  clearbody b. unfold parse_udp.
  destruct (Z.ltb_spec (zlen b) 64) as [Hl|_]; [lia|].
  cbv zeta.
  rewrite E0, E1, E2, E3, E4.
  reflexivity.
Qed.

Theorem c08_udp h rest : udp_wf h -> parse_udp false (udp_encode h ++ rest) = Ok (udp_fields h, 64).
Proof. intros H. now rewrite udp_gen. Qed.

(* ---- CoAP ---------------------------------------------------------------------------------------- *)
Lemma Z_of_bits_acc_app2 a : forall acc b, Z_of_bits_acc acc (a ++ b) = Z_of_bits_acc (Z_of_bits_acc acc a) b.
Proof. induction a as [|x a IH]; intros acc b; cbn [app Z_of_bits_acc]; [reflexivity|apply IH]. Qed.

Lemma Z_of_bits_app a b : Z_of_bits (a ++ b) = Z_of_bits a * 2 ^ zlen b + Z_of_bits b.
Proof. unfold Z_of_bits at 1. rewrite Z_of_bits_acc_app2. fold (Z_of_bits a). apply Z_of_bits_acc_app. Qed.

Lemma Z_of_bits_small n x : 0 <= x < 2 ^ Z.of_nat n -> Z_of_bits (bits_of n x) = x.
Proof. intros H. rewrite Z_of_bits_of. now apply Z.mod_small. Qed.

Lemma eq_byte_nib n v : 0 <= n < 16 -> eq_byte (bits_of 4 n) v = (n =? v).
Proof.
  intros H. unfold eq_byte. rewrite zlen_bits_of, Z_of_bits_small by (cbn; lia). reflexivity.
Qed.

Lemma first_byte_not_ff x y : 0 <= x <= 14 -> 0 <= y < 16 -> eq_byte (bits_of 4 x ++ bits_of 4 y) 255 = false.
Proof.
  intros Hx Hy. unfold eq_byte. rewrite Z_of_bits_app, zlen_app, !zlen_bits_of, !Z_of_bits_small by (cbn; lia).
  apply andb_false_intro2. apply Z.eqb_neq. cbn. lia.
Qed.

Lemma nibble_cases x : 0 <= x < 269 + 65536 ->
  (x < 13 /\ nibble x = x /\ extension x = []) \/
  (13 <= x < 269 /\ nibble x = 13 /\ extension x = bits_of 8 (x - 13)) \/
  (269 <= x /\ nibble x = 14 /\ extension x = bits_of 16 (x - 269)).
Proof.
  intros H. unfold nibble, extension.
  destruct (Z.ltb_spec x 13); [left; auto|]. destruct (Z.ltb_spec x 269); [right; left; auto|right; right; auto].
Qed.

Lemma opt_value_len o : opt_wf o -> zlen (o_value o) = 8 * o_len o /\ 0 <= o_len o.
Proof.
  intros (_ & H & _). unfold o_len. split.
  - apply Z.div_exact; [lia|exact H].
  - apply Z.div_pos; [apply zlen_nonneg|lia].
Qed.

Definition one_opt_fields (o : coap_opt) (nd nde nle nv : Z) : list field :=
  [fd P_CoAP 7 (nd + 1) (bits_of 4 (nibble (o_delta o))); fd P_CoAP 8 (nd + 1) (bits_of 4 (nibble (o_len o)))]
  ++ (if 13 <=? o_delta o then [fd P_CoAP 9 (nde + 1) (extension (o_delta o))] else [])
  ++ (if 13 <=? o_len o then [fd P_CoAP 10 (nle + 1) (extension (o_len o))] else [])
  ++ (if 0 <? o_len o then [fd P_CoAP 11 (nv + 1) (o_value o)] else []).

Ltac eqb_dec :=
  repeat match goal with
  | |- context [?x =? ?y] =>
    first [ replace (x =? y) with true by (symmetry; apply Z.eqb_eq; lia)
          | replace (x =? y) with false by (symmetry; apply Z.eqb_neq; lia) ]
  end.
Ltac ltb_dec :=
  repeat match goal with
  | |- context [?x <? ?y] =>
    first [ replace (x <? y) with true by (symmetry; apply Z.ltb_lt; lia)
          | replace (x <? y) with false by (symmetry; apply Z.ltb_ge; lia) ]
  | |- context [?x <=? ?y] =>
    first [ replace (x <=? y) with true by (symmetry; apply Z.leb_le; lia)
          | replace (x <=? y) with false by (symmetry; apply Z.leb_gt; lia) ]
  end.

Ltac sl_rw :=
  match goal with |- context [sl ?E ?s ?e] =>
    let H := fresh in eassert (H : sl E s e = _) by sl_solve; rewrite H; clear H end.

Lemma coap_step f b cursor nd nde nle nv acc o r :
  0 <= cursor -> sl_from b cursor = opt_encode o ++ r -> opt_wf o ->
  coap_options_loop (S f) b cursor (mkopos nd nd nde nle nv) acc =
  coap_options_loop f b (cursor + zlen (opt_encode o))
    (mkopos (nd + 1) (nd + 1) (if 13 <=? o_delta o then nde + 1 else nde) (if 13 <=? o_len o then nle + 1 else nle)
            (if 0 <? o_len o then nv + 1 else nv))
    (acc ++ one_opt_fields o nd nde nle nv).
Proof.
  intros Hc Hob Hwf. destruct (opt_value_len o Hwf) as [Hvl Hl0]. destruct Hwf as (Hd & _ & Hl).
  assert (Hl' : 0 <= o_len o < 269 + 65536) by lia. clear Hl Hl0.
  unfold one_opt_fields, opt_encode in *.
  set (d := o_delta o) in *. set (l := o_len o) in *. set (v := o_value o) in *. clearbody d l v.
  assert (Nd : 0 <= nibble d <= 14) by (unfold nibble; destruct (d <? 13) eqn:E; [apply Z.ltb_lt in E; lia|destruct (d <? 269); lia]).
  assert (Nl : 0 <= nibble l <= 14) by (unfold nibble; destruct (l <? 13) eqn:E; [apply Z.ltb_lt in E; lia|destruct (l <? 269); lia]).
  cbn [coap_options_loop p_delta p_length p_dext p_lext p_value].
  assert (Hb8 : sl b cursor (cursor + 8) = sl (sl_from b cursor) 0 8) by (rewrite sl_sl_from by lia; f_equal; lia).
  pose proof (zlen_sl_from b cursor Hc) as Hz.
  rewrite Hb8, Hob. rewrite Hob in Hz. clear Hb8 Hob.
  rewrite <- !app_assoc in *.
  rewrite !zlen_app, !zlen_bits_of in *. cbn [Z.of_nat Pos.of_succ_nat Pos.succ] in *.
  pose proof (zlen_nonneg (extension d)). pose proof (zlen_nonneg (extension l)). pose proof (zlen_nonneg r).
  assert (Hlt : cursor < zlen b) by lia.
  destruct (Z.ltb_spec cursor (zlen b)) as [_|]; [|lia]. cbn [andb].
  rewrite <- (sl_app _ 0 4 8) by lia.
  match goal with |- context [sl ?E 0 4] =>
    assert (H04 : sl E 0 4 = bits_of 4 (nibble d)) by sl_solve;
    assert (H48 : sl E 4 8 = bits_of 4 (nibble l)) by sl_solve end.
  rewrite H04, H48. rewrite first_byte_not_ff by lia. cbn [negb].
  rewrite !eq_byte_nib by lia. rewrite Z_of_bits_small by (cbn; lia).
  clear H04 H48.
  destruct (nibble_cases d Hd) as [(Cd & Ed & Xd)|[(Cd & Ed & Xd)|(Cd & Ed & Xd)]];
  destruct (nibble_cases l Hl') as [(Cl & El & Xl)|[(Cl & El & Xl)|(Cl & El & Xl)]];
  rewrite Ed, El, Xd, Xl; rewrite Xd, Xl in Hz; rewrite ?zlen_bits_of in Hz;
  cbn [Z.of_nat Pos.of_succ_nat Pos.succ app] in Hz; change (zlen (@nil bool)) with 0 in Hz |- *;
  eqb_dec; cbv beta iota zeta; cbn [orb app];
  repeat sl_rw; rewrite ?Z_of_bits_small by (cbn; lia);
  ltb_dec; cbv beta iota zeta; repeat sl_rw.
  all: cbn [app]; rewrite ?zlen_bits_of; cbn [Z.of_nat Pos.of_succ_nat Pos.succ].
  all: destruct (Z.ltb_spec 0 l); ltb_dec; cbv iota; f_equal; try reflexivity; lia.
Qed.

Definition coap_tail (pl : option bits) : bits := match pl with Some p => bits_of 8 255 ++ p | None => [] end.
Definition marker_fields (pl : option bits) : list field :=
  match pl with Some _ => [fd P_CoAP 6 0 (bits_of 8 255)] | None => [] end.
Definition marker_len (pl : option bits) : Z := match pl with Some _ => 8 | None => 0 end.

Lemma opt_fields_cons o r nd nde nle nv :
  opt_fields (o :: r) nd nde nle nv =
  one_opt_fields o nd nde nle nv ++
  opt_fields r (nd + 1) (if 13 <=? o_delta o then nde + 1 else nde) (if 13 <=? o_len o then nle + 1 else nle)
             (if 0 <? o_len o then nv + 1 else nv).
Proof.
  unfold one_opt_fields. cbn [opt_fields].
  destruct (13 <=? o_delta o), (13 <=? o_len o), (0 <? o_len o); cbn [app]; reflexivity.
Qed.

Lemma coap_loop_ok os : forall fuel b cursor nd nde nle nv acc pl,
  0 <= cursor <= zlen b -> sl_from b cursor = concat (map opt_encode os) ++ coap_tail pl ->
  Forall opt_wf os -> (length os < fuel)%nat ->
  coap_options_loop fuel b cursor (mkopos nd nd nde nle nv) acc =
  Ok (acc ++ opt_fields os nd nde nle nv ++ marker_fields pl,
      cursor + zlen (concat (map opt_encode os)) + marker_len pl).
Proof.
  induction os as [|o os IH]; intros fuel b cursor nd nde nle nv acc pl Hc Hob Hwf Hf;
    (destruct fuel as [|f]; [lia|]).
  - cbn [map concat app] in *. change (zlen (@nil bool)) with 0. cbn [opt_fields app].
    pose proof (zlen_sl_from b cursor ltac:(lia)) as Hz. rewrite Hob in Hz.
    cbn [coap_options_loop].
    destruct pl as [p|]; cbn [coap_tail marker_fields marker_len] in *.
    + rewrite zlen_app, zlen_bits_of in Hz. cbn [Z.of_nat Pos.of_succ_nat Pos.succ] in Hz.
      pose proof (zlen_nonneg p).
      assert (Hb8 : sl b cursor (cursor + 8) = bits_of 8 255).
      { replace (sl b cursor (cursor + 8)) with (sl (sl_from b cursor) 0 8) by (rewrite sl_sl_from by lia; f_equal; lia).
        rewrite Hob. apply sl_here0. reflexivity. }
      rewrite Hb8. change (eq_byte (bits_of 8 255) 255) with true.
      destruct (Z.ltb_spec cursor (zlen b)); [|lia]. cbn [andb negb].
      f_equal. f_equal. lia.
    + change (zlen (@nil bool)) with 0 in Hz.
      destruct (Z.ltb_spec cursor (zlen b)); [lia|]. cbn [andb].
      rewrite app_nil_r. f_equal. f_equal. lia.
  - inversion Hwf as [|? ? Ho Hos]; subst.
    cbn [map concat] in *. rewrite <- app_assoc in Hob.
    rewrite (coap_step f b cursor nd nde nle nv acc o _ ltac:(lia) Hob Ho).
    pose proof (zlen_sl_from b cursor ltac:(lia)) as Hz. rewrite Hob in Hz. rewrite zlen_app in Hz.
    pose proof (zlen_nonneg (opt_encode o)). pose proof (zlen_nonneg (concat (map opt_encode os) ++ coap_tail pl)).
    rewrite IH with (pl := pl); cbn [length] in *; try lia; try assumption.
    + rewrite opt_fields_cons, zlen_app, <- !app_assoc. f_equal. f_equal. lia.
    + rewrite <- sl_from_from by lia. rewrite Hob. apply sl_from_here. reflexivity.
Qed.

Lemma opt_encode_len o : (8 <= length (opt_encode o))%nat.
Proof. unfold opt_encode. rewrite !app_length, !bits_of_length. lia. Qed.

Lemma opts_len os : (length os <= length (concat (map opt_encode os)))%nat.
Proof.
  induction os as [|o os IH]; cbn [map concat length]; [lia|].
  rewrite app_length. pose proof (opt_encode_len o). lia.
Qed.

Lemma coap_options_ok os pl : Forall opt_wf os ->
  (if 0 <? zlen (concat (map opt_encode os) ++ coap_tail pl)
   then catch_all (coap_parse_options (concat (map opt_encode os) ++ coap_tail pl)) ParserError
   else Ok ([], 0)) =
  Ok (opt_fields os 0 0 0 0 ++ marker_fields pl, zlen (concat (map opt_encode os)) + marker_len pl).
Proof.
  intros Hwf. set (ob := concat (map opt_encode os) ++ coap_tail pl).
  destruct (Z.ltb_spec 0 (zlen ob)) as [Hp|Hz].
  - unfold coap_parse_options.
    rewrite (coap_loop_ok os (S (length ob)) ob 0 0 0 0 0 [] pl).
    + reflexivity.
    + lia.
    + rewrite sl_from_eq by lia. reflexivity.
    + exact Hwf.
    + unfold ob. rewrite app_length. pose proof (opts_len os). lia.
  - apply zlen_0_nil in Hz. unfold ob in Hz. apply app_eq_nil in Hz. destruct Hz as [Ho Ht].
    destruct os as [|o os].
    + destruct pl as [p|]; [discriminate Ht|]. reflexivity.
    + cbn [map concat] in Ho. apply app_eq_nil in Ho. destruct Ho as [Ho _].
      pose proof (opt_encode_len o) as Hl. rewrite Ho in Hl. cbn in Hl. lia.
Qed.

Lemma coap_encode_split m :
  coap_encode m = (c_ver m ++ c_type m ++ bits_of 4 (c_tkl m) ++ c_code m ++ c_mid m ++ c_token m ++
                   concat (map opt_encode (c_opts m)) ++ firstn 8 (coap_tail (c_payload m))) ++
                  match c_payload m with Some p => p | None => [] end.
Proof.
  unfold coap_encode. rewrite <- !app_assoc. repeat f_equal.
  destruct (c_payload m); reflexivity.
Qed.

Theorem c08_coap m : coap_wf m -> parse_coap (coap_encode m) = Ok (coap_fields m, coap_header_len m).
Proof.
  intros (H1 & H2 & Ht & H3 & H4 & Htok & Hos).
  apply has_len_zlen in H1, H2, H3, H4. cbn [Z.of_nat Pos.of_succ_nat Pos.succ] in *.
  set (os := concat (map opt_encode (c_opts m))). set (tl := coap_tail (c_payload m)).
  pose proof (zlen_nonneg os) as Hos0. pose proof (zlen_nonneg tl) as Htl0.
  assert (S0 : forall b, b = c_ver m ++ c_type m ++ bits_of 4 (c_tkl m) ++ c_code m ++ c_mid m ++ c_token m ++ os ++ tl ->
     32 <= zlen b /\
     sl b 0 2 = c_ver m /\ sl b 2 4 = c_type m /\ sl b 4 8 = bits_of 4 (c_tkl m) /\ sl b 8 16 = c_code m /\
     sl b 16 32 = c_mid m /\ sl b 32 (32 + c_tkl m * 8) = c_token m /\ sl_from b (32 + c_tkl m * 8) = os ++ tl).
  { intros b ->. repeat split; try sl_solve; [zl|sl_from_find]. }
  destruct (S0 (coap_encode m) eq_refl) as (E & E0 & E1 & E2 & E3 & E4 & E5 & E6).
  unfold parse_coap. destruct (Z.ltb_spec (zlen (coap_encode m)) 32) as [|_]; [lia|].
  cbv zeta. rewrite E2. rewrite Z_of_bits_small by (cbn; lia).
  rewrite E0, E1, E3, E4, E5, E6.
  unfold os, tl. rewrite coap_options_ok by exact Hos. cbn [bind fst snd].
  unfold coap_fields, coap_header_len. apply f_equal. apply f_equal2.
  - rewrite <- !app_assoc. unfold marker_fields. reflexivity.
  - unfold coap_encode. fold os. rewrite !zlen_app, zlen_bits_of, H1, H2, H3, H4, Htok.
    cbn [Z.of_nat Pos.of_succ_nat Pos.succ].
    destruct (c_payload m) as [p|]; cbn [marker_len]; rewrite ?zlen_app, ?zlen_bits_of;
      cbn [Z.of_nat Pos.of_succ_nat Pos.succ]; change (zlen (@nil bool)) with 0; lia.
Qed.

Definition coap_payload (m : coap_msg) : bits := match c_payload m with Some p => p | None => [] end.

Lemma coap_rest m : sl_from (coap_encode m) (coap_header_len m) = coap_payload m.
Proof.
  unfold coap_header_len. rewrite coap_encode_split. apply sl_from_here.
  rewrite zlen_app. unfold coap_payload. destruct (c_payload m); change (zlen (@nil bool)) with 0; lia.
Qed.

Lemma ipv6_encode_len h : ipv6_wf h -> zlen (ipv6_encode h) = 320.
Proof.
  intros (H1 & H2 & H3 & H4 & H5 & H6 & H7). apply has_len_zlen in H1, H2, H3, H4, H5, H6, H7.
  cbn [Z.of_nat Pos.of_succ_nat Pos.succ] in *. unfold ipv6_encode. zl.
Qed.
Lemma ipv4_encode_len h : ipv4_wf h -> zlen (ipv4_encode h) = 160.
Proof.
  intros (H1 & H2 & H3 & H4 & H5 & H6 & H7 & H8 & H9 & H10 & H11).
  apply has_len_zlen in H1, H2, H3, H4, H5, H6, H7, H8, H9, H10, H11.
  cbn [Z.of_nat Pos.of_succ_nat Pos.succ] in *. unfold ipv4_encode. zl.
Qed.
Lemma udp_encode_len h : udp_wf h -> zlen (udp_encode h) = 64.
Proof.
  intros (H1 & H2 & H3 & H4). apply has_len_zlen in H1, H2, H3, H4.
  cbn [Z.of_nat Pos.of_succ_nat Pos.succ] in *. unfold udp_encode. zl.
Qed.

(* ---- the explicit stacks ------------------------------------------------------------------------ *)
Theorem c08_stack_ipv6_udp_coap h u m : ipv6_wf h -> udp_wf u -> coap_wf m ->
  factory IPv6_UDP_CoAP (ipv6_encode h ++ udp_encode u ++ coap_encode m) =
  Ok (ipv6_fields h ++ udp_fields u ++ coap_fields m, match c_payload m with Some p => p | None => [] end).
Proof.
  intros Hh Hu Hm. unfold factory, packet_parse. cbn [packet_parse_loop].
  rewrite c08_ipv6 by exact Hh. cbn [bind fst snd].
  rewrite sl_from_here by (symmetry; now apply ipv6_encode_len).
  rewrite c08_udp by exact Hu. cbn [bind fst snd].
  rewrite sl_from_here by (symmetry; now apply udp_encode_len).
  rewrite c08_coap by exact Hm. cbn [bind fst snd].
  rewrite coap_rest. cbn [app]. rewrite <- app_assoc. reflexivity.
Qed.

Theorem c08_stack_ipv4_udp_coap h u m : ipv4_wf h -> udp_wf u -> coap_wf m ->
  factory IPv4_UDP_CoAP (ipv4_encode h ++ udp_encode u ++ coap_encode m) =
  Ok (ipv4_fields h ++ udp_fields u ++ coap_fields m, match c_payload m with Some p => p | None => [] end).
Proof.
  intros Hh Hu Hm. unfold factory, packet_parse. cbn [packet_parse_loop].
  rewrite c08_ipv4 by exact Hh. cbn [bind fst snd].
  rewrite sl_from_here by (symmetry; now apply ipv4_encode_len).
  rewrite c08_udp by exact Hu. cbn [bind fst snd].
  rewrite sl_from_here by (symmetry; now apply udp_encode_len).
  rewrite c08_coap by exact Hm. cbn [bind fst snd].
  rewrite coap_rest. cbn [app]. rewrite <- app_assoc. reflexivity.
Qed.

(* ---- next-protocol prediction --------------------------------------------------------------------- *)
Lemma coap_header_len_nonneg m : 0 <= coap_header_len m.
Proof.
  unfold coap_header_len. rewrite coap_encode_split, zlen_app.
  match goal with |- context [zlen (?a ++ ?b)] => pose proof (zlen_nonneg (a ++ b)) end.
  destruct (c_payload m); change (zlen (@nil bool)) with 0 in *; lia.
Qed.

Theorem c08_predict_udp_coap u m : udp_wf u -> coap_wf m -> Z_of_bits (u_dport u) = 5683 ->
  factory S_UDP (udp_encode u ++ coap_encode m) =
  Ok (udp_fields u ++ coap_fields m, match c_payload m with Some p => p | None => [] end).
Proof.
  intros Hu Hm Hp. unfold factory, packet_parse. cbn [packet_parse_loop].
  rewrite udp_gen by exact Hu. rewrite Hp. change (5683 =? 5683) with true. cbv iota.
  unfold chain. rewrite c08_coap by exact Hm. cbn [bind fst snd app].
  pose proof (udp_encode_len u Hu) as Lu.
  replace (64 + coap_header_len m) with (zlen (udp_encode u) + coap_header_len m) by lia.
  pose proof (coap_header_len_nonneg m) as Hc.
  rewrite <- sl_from_from by lia. rewrite sl_from_here by reflexivity.
  rewrite coap_rest. reflexivity.
Qed.

Lemma sl_from_skip (a r : bits) n k : zlen a = n -> 0 <= k -> sl_from (a ++ r) (n + k) = sl_from r k.
Proof.
  intros <- Hk. pose proof (zlen_nonneg a). rewrite <- sl_from_from by lia.
  now rewrite sl_from_here by reflexivity.
Qed.

Lemma udp_coap_chain u m : udp_wf u -> coap_wf m -> Z_of_bits (u_dport u) = 5683 ->
  parse_udp true (udp_encode u ++ coap_encode m) = Ok (udp_fields u ++ coap_fields m, 64 + coap_header_len m).
Proof.
  intros Hu Hm Hp. rewrite udp_gen by exact Hu. rewrite Hp. change (5683 =? 5683) with true. cbv iota.
  unfold chain. rewrite c08_coap by exact Hm. reflexivity.
Qed.

Theorem c08_predict_ipv6_udp_coap h u m : ipv6_wf h -> udp_wf u -> coap_wf m ->
  Z_of_bits (v6_nh h) = 17 -> Z_of_bits (u_dport u) = 5683 ->
  factory S_IPv6 (ipv6_encode h ++ udp_encode u ++ coap_encode m) =
  factory IPv6_UDP_CoAP (ipv6_encode h ++ udp_encode u ++ coap_encode m).
Proof.
  intros Hh Hu Hm Hn Hp. rewrite c08_stack_ipv6_udp_coap by assumption.
  unfold factory, packet_parse. cbn [packet_parse_loop].
  rewrite ipv6_gen by exact Hh. rewrite Hn. change (17 =? 17) with true. cbv iota.
  unfold chain. rewrite udp_coap_chain by assumption. cbn [bind fst snd app].
  pose proof (coap_header_len_nonneg m).
  rewrite sl_from_skip by (try apply ipv6_encode_len; auto; lia).
  rewrite sl_from_skip by (try apply udp_encode_len; auto; lia).
  rewrite coap_rest. reflexivity.
Qed.

Theorem c08_predict_ipv4_udp_coap h u m : ipv4_wf h -> udp_wf u -> coap_wf m ->
  Z_of_bits (v4_proto h) = 17 -> Z_of_bits (u_dport u) = 5683 ->
  factory S_IPv4 (ipv4_encode h ++ udp_encode u ++ coap_encode m) =
  factory IPv4_UDP_CoAP (ipv4_encode h ++ udp_encode u ++ coap_encode m).
Proof.
  intros Hh Hu Hm Hn Hp. rewrite c08_stack_ipv4_udp_coap by assumption.
  unfold factory, packet_parse. cbn [packet_parse_loop].
  rewrite ipv4_gen by exact Hh. rewrite Hn. change (17 =? 17) with true. cbv iota.
  unfold chain. rewrite udp_coap_chain by assumption. cbn [bind fst snd app].
  pose proof (coap_header_len_nonneg m).
  rewrite sl_from_skip by (try apply ipv4_encode_len; auto; lia).
  rewrite sl_from_skip by (try apply udp_encode_len; auto; lia).
  rewrite coap_rest. reflexivity.
Qed.
