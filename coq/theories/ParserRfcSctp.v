From Coq Require Import ZArith List Bool Lia. From MS Require Import PyBase Bits ByteFacts BufferAbs Schc Parsers ParserTiling RfcHeaders ParserRfc. Import ListNotations. Open Scope Z_scope.
(* ParserRfcSctp.v -- C08 for SCTP: on every well-formed packet (RfcHeaders.v) parse_sctp returns exactly the
   field list of the RFC 9260 layout and consumes the whole packet; next-protocol prediction to SCTP. *)

(* ---- arithmetic of lengths and padding ---------------------------------------------------------- *)
Lemma pad_chunk n : 0 <= n -> (32 - (n * 8) mod 32) mod 32 = pad_bits n.
Proof.
  intros H. unfold pad_bits.
  replace (n * 8) with (8 * n) by lia. change 32 with (8 * 4).
  rewrite (Z.mul_mod_distr_l n 4 8) by lia.
  replace (8 * 4 - 8 * (n mod 4)) with (8 * (4 - n mod 4)) by lia.
  now rewrite (Z.mul_mod_distr_l (4 - n mod 4) 4 8) by lia.
Qed.

Lemma pad_param n : 4 <= n -> (32 - (n * 8 - 32) mod 32) mod 32 = pad_bits n.
Proof.
  intros H. rewrite <- pad_chunk by lia. f_equal. f_equal.
  replace (n * 8 - 32) with (n * 8 + (-1) * 32) by lia. apply Z.mod_add. lia.
Qed.

Lemma bytes_len (v : bits) : zlen v mod 8 = 0 -> (4 + zlen v / 8) * 8 = 32 + zlen v /\ 4 <= 4 + zlen v / 8.
Proof.
  intros H. pose proof (zlen_nonneg v). apply Z.div_exact in H; [|lia].
  pose proof (Z.div_pos (zlen v) 8 ltac:(lia) ltac:(lia)). lia.
Qed.

Lemma pad_bits_mod8 n : pad_bits n mod 8 = 0.
Proof. unfold pad_bits. rewrite Z.mul_comm. apply Z.mod_mul. lia. Qed.

(* ---- parameters ----------------------------------------------------------------------------------- *)
Lemma parse_parameter_ok p rest : param_wf p ->
  parse_parameter (param_encode p ++ rest) = Ok (param_fields p, zlen (param_encode p)).
Proof.
  intros (Ht & Hv & Hl & Hp). apply has_len_zlen in Ht. cbn [Z.of_nat Pos.of_succ_nat Pos.succ] in Ht.
  destruct (bytes_len _ Hv) as [Hpl Hp4]. fold (pa_len p) in Hpl, Hp4.
  rewrite <- pad_param in Hp by lia.
  unfold param_encode, param_fields in *.
  set (pl := pa_len p) in *. set (ty := pa_type p) in *. set (v := pa_value p) in *. set (pd := pa_pad p) in *.
  clearbody pl ty v pd.
  pose proof (zlen_nonneg v). pose proof (zlen_nonneg pd). pose proof (zlen_nonneg rest).
  assert (S0 : forall b, b = ty ++ bits_of 16 pl ++ v ++ pd ++ rest ->
     zlen b = 32 + zlen v + zlen pd + zlen rest /\
     sl b 0 16 = ty /\ sl b 16 32 = bits_of 16 pl /\ sl b 32 (pl * 8) = v /\ sl b (pl * 8) (pl * 8 + zlen pd) = pd).
  { intros b ->. repeat split; try sl_solve. zl. }
  set (b := (ty ++ bits_of 16 pl ++ v ++ pd) ++ rest).
  destruct (S0 b) as (E & E0 & E1 & E2 & E3); [unfold b; now rewrite <- !app_assoc|].
  assert (Hlen : zlen (ty ++ bits_of 16 pl ++ v ++ pd) = pl * 8 + zlen pd) by zl.
  rewrite Hlen. clearbody b.
  unfold parse_parameter. cbv zeta. rewrite E1, Z_of_bits_small by (cbn; lia).
  rewrite <- Hp, E0, E2, E3.
  replace (pl * 8 - 32) with (zlen v) by lia.
  destruct (Z.ltb_spec (zlen b) 32); [lia|].
  destruct (Z.ltb_spec (pl * 8) 32); [lia|]. destruct (Z.ltb_spec (zlen b) (pl * 8)); [lia|]. cbn [orb].
  rewrite <- app_assoc. reflexivity.
Qed.


Lemma param_encode_zlen p : param_wf p -> zlen (param_encode p) = 32 + zlen (pa_value p) + zlen (pa_pad p).
Proof.
  intros (Ht & _). apply has_len_zlen in Ht. cbn [Z.of_nat Pos.of_succ_nat Pos.succ] in Ht.
  unfold param_encode. zl.
Qed.

Lemma param_encode_mod8 p : param_wf p -> zlen (param_encode p) mod 8 = 0.
Proof.
  intros H. rewrite param_encode_zlen by exact H. destruct H as (_ & Hv & _ & Hp).
  rewrite Hp. pose proof (pad_bits_mod8 (pa_len p)).
  rewrite Z.add_mod, H, Z.add_0_r, Z.mod_mod by lia.
  replace 32 with (4 * 8) by lia. rewrite Z.add_comm, Z.mod_add by lia. exact Hv.
Qed.

Lemma params_count ps : Forall param_wf ps -> (length ps <= length (concat (map param_encode ps)))%nat.
Proof.
  induction 1 as [|p ps Hp _ IH]; cbn [map concat length]; [lia|].
  rewrite app_length. pose proof (param_encode_zlen p Hp) as Hz.
  pose proof (zlen_nonneg (pa_value p)). pose proof (zlen_nonneg (pa_pad p)). unfold zlen in *. lia.
Qed.

Lemma params_mod8 ps : Forall param_wf ps -> zlen (concat (map param_encode ps)) mod 8 = 0.
Proof.
  induction 1 as [|p ps Hp _ IH]; cbn [map concat]; [reflexivity|].
  rewrite zlen_app, Z.add_mod, IH, param_encode_mod8 by (auto; lia). reflexivity.
Qed.

Lemma parameters_loop_ok ps : forall fuel acc, Forall param_wf ps -> (length ps < fuel)%nat ->
  parameters_loop fuel (concat (map param_encode ps)) acc = Ok (acc ++ concat (map param_fields ps)).
Proof.
  induction ps as [|p ps IH]; intros fuel acc Hwf Hf; (destruct fuel as [|f]; [lia|]); cbn [parameters_loop map concat].
  - change (zlen (@nil bool)) with 0. cbn. now rewrite app_nil_r.
  - inversion Hwf as [|? ? Hp Hps]; subst.
    pose proof (param_encode_zlen p Hp) as Hz.
    pose proof (zlen_nonneg (pa_value p)). pose proof (zlen_nonneg (pa_pad p)).
    pose proof (zlen_nonneg (concat (map param_encode ps))).
    destruct (Z.ltb_spec 0 (zlen (param_encode p ++ concat (map param_encode ps)))) as [_|Hn]; [|rewrite zlen_app in Hn; lia].
    rewrite parse_parameter_ok by exact Hp. cbn [bind fst snd].
    rewrite sl_from_here by reflexivity.
    rewrite IH by (cbn [length] in Hf; auto; lia). now rewrite <- app_assoc.
Qed.

Lemma parse_parameters_ok ps acc : Forall param_wf ps ->
  parse_parameters (concat (map param_encode ps)) acc = Ok (acc ++ concat (map param_fields ps)).
Proof.
  intros H. unfold parse_parameters. apply parameters_loop_ok; [exact H|].
  pose proof (params_count ps H). lia.
Qed.

(* ---- SACK blocks ---------------------------------------------------------------------------------- *)
Lemma sack_gaps_ok gaps : forall rest acc, Forall (fun g => has_len (fst g) 16 /\ has_len (snd g) 16) gaps ->
  sack_gaps (length gaps) (concat (map (fun g => fst g ++ snd g) gaps) ++ rest) acc =
  (acc ++ concat (map (fun g => [fd P_SCTP 28 0 (fst g); fd P_SCTP 29 0 (snd g)]) gaps), rest).
Proof.
  induction gaps as [|g gaps IH]; intros rest acc Hwf; cbn [length sack_gaps map concat app].
  - now rewrite app_nil_r.
  - inversion Hwf as [|? ? [H1 H2] Hgs]; subst. apply has_len_zlen in H1, H2. cbn [Z.of_nat Pos.of_succ_nat Pos.succ] in *.
    rewrite <- !app_assoc. unfold bits in *.
    match goal with |- context [sl ?E 0 16] =>
      assert (E1 : sl E 0 16 = fst g) by sl_solve;
      assert (E2 : sl E 16 32 = snd g) by sl_solve;
      assert (E3 : sl_from E 32 = concat (map (fun g => fst g ++ snd g) gaps) ++ rest) by sl_from_find end.
    rewrite E1, E2, E3. rewrite IH by exact Hgs. now rewrite <- app_assoc.
Qed.

Lemma sack_dups_ok dups : forall rest acc, Forall (fun d => has_len d 32) dups ->
  sack_dups (length dups) (concat dups ++ rest) acc = (acc ++ map (fun d => fd P_SCTP 30 0 d) dups, rest).
Proof.
  induction dups as [|d dups IH]; intros rest acc Hwf; cbn [length sack_dups map concat app].
  - now rewrite app_nil_r.
  - inversion Hwf as [|? ? H1 Hds]; subst. apply has_len_zlen in H1. cbn [Z.of_nat Pos.of_succ_nat Pos.succ] in *.
    rewrite <- !app_assoc. unfold bits in *.
    rewrite sl_here0 by lia. rewrite sl_from_here by lia.
    rewrite IH by exact Hds. now rewrite <- app_assoc.
Qed.

Lemma gaps_zlen gaps : Forall (fun g : bits * bits => has_len (fst g) 16 /\ has_len (snd g) 16) gaps ->
  zlen (concat (map (fun g => fst g ++ snd g) gaps)) = 32 * zlen gaps.
Proof.
  induction 1 as [|g gaps [H1 H2] _ IH]; cbn [map concat]; [reflexivity|].
  apply has_len_zlen in H1, H2. cbn [Z.of_nat Pos.of_succ_nat Pos.succ] in *.
  rewrite !zlen_app, IH, zlen_cons. unfold bits in *. lia.
Qed.

Lemma dups_zlen (dups : list bits) : Forall (fun d => has_len d 32) dups -> zlen (concat dups) = 32 * zlen dups.
Proof.
  induction 1 as [|d dups H1 _ IH]; cbn [concat]; [reflexivity|].
  apply has_len_zlen in H1. cbn [Z.of_nat Pos.of_succ_nat Pos.succ] in *.
  rewrite !zlen_app, IH, zlen_cons. unfold bits in *. lia.
Qed.

(* ---- chunk values --------------------------------------------------------------------------------- *)
Ltac sl_from_rw :=
  match goal with |- context [sl_from ?E ?s] =>
    let H := fresh in eassert (H : sl_from E s = _) by sl_from_find; rewrite H; clear H end.
Ltac lens := repeat match goal with H : has_len _ _ |- _ => apply has_len_zlen in H end;
             cbn [Z.of_nat Pos.of_succ_nat Pos.succ] in *.

Lemma chunk_value_ok b : body_wf b -> 0 < zlen (chunk_value b) ->
  parse_chunk_value (chunk_type b) (chunk_value b) = Ok (body_fields b).
Proof.
  destruct b as [tsn sid ssn ppid data|ack tag arwnd nout nin itsn ps|cum arwnd gaps dups|t ps|cum|t|c|t v];
    cbn [body_wf chunk_type chunk_value body_fields]; intros Hwf Hpos.
  - destruct Hwf as (H1 & H2 & H3 & H4 & H5 & H6). lens.
    unfold parse_chunk_value. eqb_dec. cbv iota. repeat sl_rw. sl_from_rw. reflexivity.
  - destruct Hwf as (H1 & H2 & H3 & H4 & H5 & H6). lens.
    destruct ack; unfold parse_chunk_value; eqb_dec; cbv iota; repeat sl_rw; sl_from_rw;
      now rewrite parse_parameters_ok.
  - destruct Hwf as (H1 & H2 & H3 & H4 & H5 & H6). lens.
    pose proof (zlen_nonneg gaps). pose proof (zlen_nonneg dups).
    pose proof (gaps_zlen gaps H3) as Zg. pose proof (dups_zlen dups H4) as Zd.
    unfold parse_chunk_value. eqb_dec. cbv iota zeta. repeat sl_rw. sl_from_rw.
    rewrite !Z_of_bits_small by (cbn; lia).
    rewrite zlen_app, Zg, Zd. rewrite (proj2 (Z.eqb_eq _ _)) by lia. cbn [negb].
    rewrite !zlen_to_nat. rewrite sack_gaps_ok by exact H3.
    rewrite <- (app_nil_r (concat dups)) at 1. rewrite sack_dups_ok by exact H4.
    rewrite <- !app_assoc. reflexivity.
  - destruct Hwf as (Ht & Hps).
    unfold parse_chunk_value. destruct Ht as [Ht|[Ht|[Ht|Ht]]]; subst t; eqb_dec; cbv iota; cbn [orb];
      now rewrite parse_parameters_ok.
  - lens. unfold parse_chunk_value. eqb_dec. cbv iota. cbn [orb].
    destruct (Z.ltb_spec 32 (zlen cum)); [lia|]. rewrite sl_over by lia. reflexivity.
  - change (zlen (@nil bool)) with 0 in Hpos. lia.
  - unfold parse_chunk_value. eqb_dec. cbv iota. cbn [orb]. reflexivity.
  - destruct Hwf as (Ht & Hn & Hv). cbn [In] in Hn.
    unfold parse_chunk_value. eqb_dec. cbv iota. cbn [orb].
    destruct (Z.ltb_spec 0 (zlen v)); [reflexivity|lia].
Qed.

Lemma body_value_mod8 b : body_wf b -> zlen (chunk_value b) mod 8 = 0.
Proof.
  destruct b as [tsn sid ssn ppid data|ack tag arwnd nout nin itsn ps|cum arwnd gaps dups|t ps|cum|t|c|t v];
    cbn [body_wf chunk_value]; intros Hwf.
  - destruct Hwf as (H1 & H2 & H3 & H4 & H5 & H6). lens. rewrite !zlen_app, H1, H2, H3, H4.
    replace (32 + (16 + (16 + (32 + zlen data)))) with (zlen data + 12 * 8) by lia. now rewrite Z.mod_add by lia.
  - destruct Hwf as (H1 & H2 & H3 & H4 & H5 & H6). lens. rewrite !zlen_app, H1, H2, H3, H4, H5.
    pose proof (params_mod8 ps H6) as Hp. set (z := zlen (concat (map param_encode ps))) in *.
    replace (32 + (32 + (16 + (16 + (32 + z))))) with (z + 16 * 8) by lia. now rewrite Z.mod_add by lia.
  - destruct Hwf as (H1 & H2 & H3 & H4 & H5 & H6). lens.
    rewrite !zlen_app, !zlen_bits_of, H1, H2, (gaps_zlen gaps H3), (dups_zlen dups H4).
    cbn [Z.of_nat Pos.of_succ_nat Pos.succ].
    replace (32 + (32 + (16 + (16 + (32 * zlen gaps + 32 * zlen dups))))) with ((12 + 4 * zlen gaps + 4 * zlen dups) * 8) by lia.
    apply Z.mod_mul. lia.
  - destruct Hwf as (_ & Hps). now apply params_mod8.
  - lens. now rewrite Hwf.
  - reflexivity.
  - tauto.
  - tauto.
Qed.

Lemma params_nil ps : Forall param_wf ps -> zlen (concat (map param_encode ps)) <= 0 -> ps = [].
Proof.
  intros H Hz. destruct ps as [|p ps]; [reflexivity|]. inversion H as [|? ? Hp _]; subst.
  cbn [map concat] in Hz. rewrite zlen_app, param_encode_zlen in Hz by exact Hp.
  pose proof (zlen_nonneg (pa_value p)). pose proof (zlen_nonneg (pa_pad p)).
  pose proof (zlen_nonneg (concat (map param_encode ps))). lia.
Qed.

Lemma body_empty b : body_wf b -> zlen (chunk_value b) <= 0 -> body_fields b = [].
Proof.
  destruct b as [tsn sid ssn ppid data|ack tag arwnd nout nin itsn ps|cum arwnd gaps dups|t ps|cum|t|c|t v];
    cbn [body_wf chunk_value body_fields]; intros Hwf Hz.
  - destruct Hwf as (H1 & _). lens. rewrite zlen_app in Hz.
    match type of Hz with _ + zlen ?x <= 0 => pose proof (zlen_nonneg x) end. lia.
  - destruct Hwf as (H1 & _). lens. rewrite zlen_app in Hz.
    match type of Hz with _ + zlen ?x <= 0 => pose proof (zlen_nonneg x) end. lia.
  - destruct Hwf as (H1 & _). lens. rewrite zlen_app in Hz.
    match type of Hz with _ + zlen ?x <= 0 => pose proof (zlen_nonneg x) end. lia.
  - destruct Hwf as (_ & Hps). now rewrite (params_nil ps Hps Hz).
  - lens. lia.
  - reflexivity.
  - lia.
  - destruct (Z.ltb_spec 0 (zlen v)); [lia|reflexivity].
Qed.

Lemma chunk_type_range b : body_wf b -> 0 <= chunk_type b < 256.
Proof.
  destruct b as [tsn sid ssn ppid data|ack tag arwnd nout nin itsn ps|cum arwnd gaps dups|t ps|cum|t|c|t v];
    cbn [body_wf chunk_type]; intros Hwf; try lia.
  destruct ack; lia.
Qed.

(* ---- one chunk ------------------------------------------------------------------------------------ *)
Lemma chunk_encode_zlen c : chunk_wf c -> zlen (chunk_encode c) = ch_len c * 8 + zlen (ch_pad c).
Proof.
  intros (Hf & Hb & _). lens. destruct (bytes_len _ (body_value_mod8 _ Hb)) as [Hl _]. fold (ch_len c) in Hl.
  unfold chunk_encode. zl.
Qed.

Lemma parse_chunk_ok c rest : chunk_wf c ->
  parse_chunk (chunk_encode c ++ rest) = Ok (chunk_fields c, zlen (chunk_encode c)).
Proof.
  intros Hwf. rewrite chunk_encode_zlen by exact Hwf. destruct Hwf as (Hf & Hb & Hl & Hp). lens.
  destruct (bytes_len _ (body_value_mod8 _ Hb)) as [Hcl Hc4]. fold (ch_len c) in Hcl, Hc4.
  rewrite <- pad_chunk in Hp by lia.
  pose proof (chunk_type_range _ Hb) as Ht.
  pose proof (chunk_value_ok _ Hb) as Hval. pose proof (body_empty _ Hb) as Hemp.
  unfold chunk_encode, chunk_fields in *.
  set (cl := ch_len c) in *. set (ty := chunk_type (ch_body c)) in *. set (fl := ch_flags c) in *.
  set (v := chunk_value (ch_body c)) in *. set (pd := ch_pad c) in *.
  clearbody cl ty v pd fl.
  pose proof (zlen_nonneg v). pose proof (zlen_nonneg pd). pose proof (zlen_nonneg rest).
  assert (S0 : forall b, b = bits_of 8 ty ++ fl ++ bits_of 16 cl ++ v ++ pd ++ rest ->
     zlen b = 32 + zlen v + zlen pd + zlen rest /\
     sl b 0 8 = bits_of 8 ty /\ sl b 8 16 = fl /\ sl b 16 32 = bits_of 16 cl /\ sl b 32 (32 + (cl * 8 - 32)) = v /\
     sl b (cl * 8) (cl * 8 + zlen pd) = pd).
  { intros b ->. repeat split; try sl_solve. zl. }
  set (b := (bits_of 8 ty ++ fl ++ bits_of 16 cl ++ v ++ pd) ++ rest).
  destruct (S0 b) as (E & E0 & E1 & E2 & E3 & E4); [unfold b; now rewrite <- !app_assoc|].
  clearbody b.
  unfold parse_chunk. cbv zeta. rewrite E2, E0, !Z_of_bits_small by (cbn; lia).
  rewrite <- Hp, E1, E3, E4.
  destruct (Z.ltb_spec (zlen b) 32); [lia|].
  destruct (Z.ltb_spec (cl * 8) 32); [lia|]. destruct (Z.ltb_spec (zlen b) (cl * 8)); [lia|]. cbn [orb].
  replace (cl * 8 - 32) with (zlen v) by lia.
  destruct (Z.ltb_spec 0 (zlen v)) as [Hpos|Hz].
  - rewrite Hval by exact Hpos. cbn [bind]. rewrite andb_diag. rewrite <- ?app_assoc. reflexivity.
  - rewrite Hemp by exact Hz. cbn [bind]. rewrite andb_diag. reflexivity.
Qed.

(* ---- the chunk loop and the packet ------------------------------------------------------------------ *)
Lemma chunks_count cs : Forall chunk_wf cs -> (length cs <= length (concat (map chunk_encode cs)))%nat.
Proof.
  induction 1 as [|c cs Hc _ IH]; cbn [map concat length]; [lia|].
  rewrite app_length. pose proof (chunk_encode_zlen c Hc) as Hz.
  destruct Hc as (_ & Hb & _). destruct (bytes_len _ (body_value_mod8 _ Hb)) as [_ Hl]. fold (ch_len c) in Hl.
  pose proof (zlen_nonneg (ch_pad c)). unfold zlen in *. lia.
Qed.

Lemma chunks_loop_ok cs : forall fuel acc, Forall chunk_wf cs -> (length cs < fuel)%nat ->
  chunks_loop fuel (concat (map chunk_encode cs)) acc = Ok (acc ++ concat (map chunk_fields cs)).
Proof.
  induction cs as [|c cs IH]; intros fuel acc Hwf Hf; (destruct fuel as [|f]; [lia|]); cbn [chunks_loop map concat].
  - change (zlen (@nil bool)) with 0. cbn. now rewrite app_nil_r.
  - inversion Hwf as [|? ? Hc Hcs]; subst.
    pose proof (chunks_count [c] (Forall_cons _ Hc (Forall_nil _))) as Hn. cbn [map concat length] in Hn. rewrite app_nil_r in Hn.
    pose proof (zlen_nonneg (concat (map chunk_encode cs))).
    destruct (Z.ltb_spec 0 (zlen (chunk_encode c ++ concat (map chunk_encode cs)))) as [_|Hz];
      [|rewrite zlen_app in Hz; unfold zlen in *; lia].
    rewrite parse_chunk_ok by exact Hc. cbn [bind fst snd].
    rewrite sl_from_here by reflexivity.
    rewrite IH by (cbn [length] in Hf; auto; lia). now rewrite <- app_assoc.
Qed.

Theorem c08_sctp p : sctp_wf p -> parse_sctp (sctp_encode p) = Ok (sctp_fields p, zlen (sctp_encode p)).
Proof.
  intros (H1 & H2 & H3 & H4 & Hcs). lens.
  set (cs := concat (map chunk_encode (s_chunks p))).
  pose proof (zlen_nonneg cs).
  assert (S0 : forall b, b = s_sport p ++ s_dport p ++ s_tag p ++ s_csum p ++ cs ->
     zlen b = 96 + zlen cs /\
     sl b 0 16 = s_sport p /\ sl b 16 32 = s_dport p /\ sl b 32 64 = s_tag p /\ sl b 64 96 = s_csum p /\ sl_from b 96 = cs).
  { intros b ->. repeat split; try sl_solve; [zl|sl_from_find]. }
  destruct (S0 (sctp_encode p) eq_refl) as (E & E0 & E1 & E2 & E3 & E4).
  unfold parse_sctp. destruct (Z.ltb_spec (zlen (sctp_encode p)) 96); [lia|]. cbv zeta.
  rewrite E0, E1, E2, E3, E4. unfold cs. rewrite chunks_loop_ok.
  - reflexivity.
  - exact Hcs.
  - pose proof (chunks_count _ Hcs) as Hn. fold cs in Hn |- *.
    assert (length cs <= length (sctp_encode p))%nat by (unfold zlen in *; lia). lia.
Qed.

(* ---- next-protocol prediction to SCTP --------------------------------------------------------------- *)
Theorem c08_predict_ipv6_sctp h p : ipv6_wf h -> sctp_wf p -> Z_of_bits (v6_nh h) = 132 ->
  factory S_IPv6 (ipv6_encode h ++ sctp_encode p) = Ok (ipv6_fields h ++ sctp_fields p, []).
Proof.
  intros Hh Hp Hn. unfold factory, packet_parse. cbn [packet_parse_loop].
  rewrite ipv6_gen by exact Hh. rewrite Hn. change (132 =? 17) with false. change (132 =? 132) with true. cbv iota.
  unfold chain. rewrite c08_sctp by exact Hp. cbn [bind fst snd app].
  rewrite sl_from_skip by (try apply ipv6_encode_len; auto; apply zlen_nonneg).
  rewrite sl_from_eq by apply zlen_nonneg. rewrite zlen_to_nat, skipn_all. reflexivity.
Qed.

Theorem c08_predict_ipv4_sctp h p : ipv4_wf h -> sctp_wf p -> Z_of_bits (v4_proto h) = 132 ->
  factory S_IPv4 (ipv4_encode h ++ sctp_encode p) = Ok (ipv4_fields h ++ sctp_fields p, []).
Proof.
  intros Hh Hp Hn. unfold factory, packet_parse. cbn [packet_parse_loop].
  rewrite ipv4_gen by exact Hh. rewrite Hn. change (132 =? 17) with false. change (132 =? 132) with true. cbv iota.
  unfold chain. rewrite c08_sctp by exact Hp. cbn [bind fst snd app].
  rewrite sl_from_skip by (try apply ipv4_encode_len; auto; apply zlen_nonneg).
  rewrite sl_from_eq by apply zlen_nonneg. rewrite zlen_to_nat, skipn_all. reflexivity.
Qed.
