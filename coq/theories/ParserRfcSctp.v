(* ParserRfcSctp.v -- C08 for SCTP: on every well-formed packet (RfcHeaders.v) parse_sctp returns exactly the
   field list of the RFC 9260 layout and consumes the whole packet; next-protocol prediction to SCTP. *)
From Coq Require Import ZArith List Bool Lia. From MS Require Import PyBase Bits ByteFacts BufferAbs Schc Parsers ParserTiling RfcHeaders ParserRfc. Import ListNotations. Open Scope Z_scope.

(* ---- arithmetic of lengths and padding ---------------------------------------------------------- *)
Lemma pad_chunk n : 0 <= n -> (32 - (n * 8) mod 32) mod 32 = pad_bits n.
Proof.
  intros H. unfold pad_bits.
  replace (n * 8) with (8 * n) by lia. change 32 with (8 * 4).
  rewrite (Z.mul_mod_distr_l n 4 8) by lia.
  replace (8 * 4 - 8 * (n mod 4)) with (8 * (4 - n mod 4)) by lia.
  now rewrite (Z.mul_mod_distr_l (4 - n mod 4) 4 8) by lia.
Qed.

Lemma pad_param n : 4 <= n -> (32 - (n * 8 - 32) mod 32) mod 32 = pad_bits n.
Proof.
  intros H. rewrite <- pad_chunk by lia. f_equal. f_equal.
  replace (n * 8 - 32) with (n * 8 + (-1) * 32) by lia. apply Z.mod_add. lia.
Qed.

Lemma bytes_len (v : bits) : zlen v mod 8 = 0 -> (4 + zlen v / 8) * 8 = 32 + zlen v /\ 4 <= 4 + zlen v / 8.
Proof.
  intros H. pose proof (zlen_nonneg v). apply Z.div_exact in H; [|lia].
  pose proof (Z.div_pos (zlen v) 8 ltac:(lia) ltac:(lia)). lia.
Qed.

Lemma pad_bits_mod8 n : pad_bits n mod 8 = 0.
Proof. unfold pad_bits. rewrite Z.mul_comm. apply Z.mod_mul. lia. Qed.

(* ---- parameters ----------------------------------------------------------------------------------- *)
Lemma parse_parameter_ok p rest : param_wf p ->
  parse_parameter (param_encode p ++ rest) = Ok (param_fields p, zlen (param_encode p)).
Proof.
  intros (Ht & Hv & Hl & Hp). apply has_len_zlen in Ht. cbn [Z.of_nat Pos.of_succ_nat Pos.succ] in Ht.
  destruct (bytes_len _ Hv) as [Hpl Hp4]. fold (pa_len p) in Hpl, Hp4.
  rewrite <- pad_param in Hp by lia.
  unfold param_encode, param_fields in *.
  set (pl := pa_len p) in *. set (ty := pa_type p) in *. set (v := pa_value p) in *. set (pd := pa_pad p) in *.
  clearbody pl ty v pd.
  pose proof (zlen_nonneg v). pose proof (zlen_nonneg pd). pose proof (zlen_nonneg rest).
  assert (S0 : forall b, b = ty ++ bits_of 16 pl ++ v ++ pd ++ rest ->
     zlen b = 32 + zlen v + zlen pd + zlen rest /\
     sl b 0 16 = ty /\ sl b 16 32 = bits_of 16 pl /\ sl b 32 (pl * 8) = v /\ sl b (pl * 8) (pl * 8 + zlen pd) = pd).
  { intros b ->. repeat split; try sl_solve. zl. }
  set (b := (ty ++ bits_of 16 pl ++ v ++ pd) ++ rest).
  destruct (S0 b) as (E & E0 & E1 & E2 & E3); [unfold b; now rewrite <- !app_assoc|].
  assert (Hlen : zlen (ty ++ bits_of 16 pl ++ v ++ pd) = pl * 8 + zlen pd) by zl.
  rewrite Hlen. clearbody b.
  unfold parse_parameter. cbv zeta. rewrite E1, Z_of_bits_small by (cbn; lia).
  rewrite <- Hp, E0, E2, E3.
  replace (pl * 8 - 32) with (zlen v) by lia.
  destruct (Z.ltb_spec (zlen b) 32); [lia|].
  destruct (Z.ltb_spec (pl * 8) 32); [lia|]. destruct (Z.ltb_spec (zlen b) (pl * 8)); [lia|]. cbn [orb].
  rewrite <- app_assoc. reflexivity.
Qed.


Lemma param_encode_zlen p : param_wf p -> zlen (param_encode p) = 32 + zlen (pa_value p) + zlen (pa_pad p).
Proof.
  intros (Ht & _). apply has_len_zlen in Ht. cbn [Z.of_nat Pos.of_succ_nat Pos.succ] in Ht.
  unfold param_encode. zl.
Qed.

Lemma param_encode_mod8 p : param_wf p -> zlen (param_encode p) mod 8 = 0.
Proof.
  intros H. rewrite param_encode_zlen by exact H. destruct H as (_ & Hv & _ & Hp).
  rewrite Hp. pose proof (pad_bits_mod8 (pa_len p)).
  rewrite Z.add_mod, H, Z.add_0_r, Z.mod_mod by lia.
  replace 32 with (4 * 8) by lia. rewrite Z.add_comm, Z.mod_add by lia. exact Hv.
Qed.

Lemma params_count ps : Forall param_wf ps -> (length ps <= length (concat (map param_encode ps)))%nat.
Proof.
  induction 1 as [|p ps Hp _ IH]; cbn [map concat length]; [lia|].
  rewrite app_length. pose proof (param_encode_zlen p Hp) as Hz.
  pose proof (zlen_nonneg (pa_value p)). pose proof (zlen_nonneg (pa_pad p)). unfold zlen in *. lia.
Qed.

Lemma params_mod8 ps : Forall param_wf ps -> zlen (concat (map param_encode ps)) mod 8 = 0.
Proof.
  induction 1 as [|p ps Hp _ IH]; cbn [map concat]; [reflexivity|].
  rewrite zlen_app, Z.add_mod, IH, param_encode_mod8 by (auto; lia). reflexivity.
Qed.

Lemma parameters_loop_ok ps : forall fuel acc, Forall param_wf ps -> (length ps < fuel)%nat ->
  parameters_loop fuel (concat (map param_encode ps)) acc = Ok (acc ++ concat (map param_fields ps)).
Proof.
  induction ps as [|p ps IH]; intros fuel acc Hwf Hf; (destruct fuel as [|f]; [lia|]); cbn [parameters_loop map concat].
  - change (zlen (@nil bool)) with 0. cbn. now rewrite app_nil_r.
  - inversion Hwf as [|? ? Hp Hps]; subst.
    pose proof (param_encode_zlen p Hp) as Hz.
    pose proof (zlen_nonneg (pa_value p)). pose proof (zlen_nonneg (pa_pad p)).
    pose proof (zlen_nonneg (concat (map param_encode ps))).
    destruct (Z.ltb_spec 0 (zlen (param_encode p ++ concat (map param_encode ps)))) as [_|Hn]; [|rewrite zlen_app in Hn; lia].
    rewrite parse_parameter_ok by exact Hp. cbn [bind fst snd].
    rewrite sl_from_here by reflexivity.
    rewrite IH by (cbn [length] in Hf; auto; lia). now rewrite <- app_assoc.
Qed.

Lemma parse_parameters_ok ps acc : Forall param_wf ps ->
  parse_parameters (concat (map param_encode ps)) acc = Ok (acc ++ concat (map param_fields ps)).
Proof.
  intros H. unfold parse_parameters. apply parameters_loop_ok; [exact H|].
  pose proof (params_count ps H). lia.
Qed.

(* ---- SACK blocks ---------------------------------------------------------------------------------- *)
Lemma sack_gaps_ok gaps : forall rest acc, Forall (fun g => has_len (fst g) 16 /\ has_len (snd g) 16) gaps ->
  sack_gaps (length gaps) (concat (map (fun g => fst g ++ snd g) gaps) ++ rest) acc =
  (acc ++ concat (map (fun g => [fd P_SCTP 28 0 (fst g); fd P_SCTP 29 0 (snd g)]) gaps), rest).
Proof.
  induction gaps as [|g gaps IH]; intros rest acc Hwf; cbn [length sack_gaps map concat app].
  - now rewrite app_nil_r.
  - inversion Hwf as [|? ? [H1 H2] Hgs]; subst. apply has_len_zlen in H1, H2. cbn [Z.of_nat Pos.of_succ_nat Pos.succ] in *.
    rewrite <- !app_assoc. unfold bits in *.
    match goal with |- context [sl ?E 0 16] =>
      assert (E1 : sl E 0 16 = fst g) by sl_solve;
      assert (E2 : sl E 16 32 = snd g) by sl_solve;
      assert (E3 : sl_from E 32 = concat (map (fun g => fst g ++ snd g) gaps) ++ rest) by sl_from_find end.
    rewrite E1, E2, E3. rewrite IH by exact Hgs. now rewrite <- app_assoc.
Qed.

Lemma sack_dups_ok dups : forall rest acc, Forall (fun d => has_len d 32) dups ->
  sack_dups (length dups) (concat dups ++ rest) acc = (acc ++ map (fun d => fd P_SCTP 30 0 d) dups, rest).
Proof.
  induction dups as [|d dups IH]; intros rest acc Hwf; cbn [length sack_dups map concat app].
  - now rewrite app_nil_r.
  - inversion Hwf as [|? ? H1 Hds]; subst. apply has_len_zlen in H1. cbn [Z.of_nat Pos.of_succ_nat Pos.succ] in *.
    rewrite <- !app_assoc. unfold bits in *.
    assert (32 = zlen d) by lia. rewrite (sl_here0 d) by (match goal with |- ?G => idtac G end; lia). rewrite sl_from_here by lia.
    rewrite IH by exact Hds. now rewrite <- app_assoc.
Qed.

Lemma gaps_zlen gaps : Forall (fun g : bits * bits => has_len (fst g) 16 /\ has_len (snd g) 16) gaps ->
  zlen (concat (map (fun g => fst g ++ snd g) gaps)) = 32 * zlen gaps.
Proof.
  induction 1 as [|g gaps [H1 H2] _ IH]; cbn [map concat]; [reflexivity|].
  apply has_len_zlen in H1, H2. cbn [Z.of_nat Pos.of_succ_nat Pos.succ] in *.
  rewrite !zlen_app, IH, zlen_cons. lia.
Qed.

Lemma dups_zlen (dups : list bits) : Forall (fun d => has_len d 32) dups -> zlen (concat dups) = 32 * zlen dups.
Proof.
  induction 1 as [|d dups H1 _ IH]; cbn [concat]; [reflexivity|].
  apply has_len_zlen in H1. cbn [Z.of_nat Pos.of_succ_nat Pos.succ] in *.
  rewrite !zlen_app, IH, zlen_cons. lia.
Qed.
