(* ParserTiling.v -- C07 (the parsed fields tile the packet) and C14 (the parsers terminate and reject
   only with ParserError) for the parser model of Parsers.v, for every bit string. *)
From Coq Require Import ZArith List Bool Lia.
From MS Require Import PyBase Bits ByteFacts BufferAbs Schc Parsers.
Import ListNotations.
Open Scope Z_scope.

(* ---- slice algebra ---------------------------------------------------------------------------- *)
Lemma skipn_skipn_add {A} n m (l : list A) : skipn n (skipn m l) = skipn (m + n) l.
Proof.
  revert l. induction m as [|m IH]; intros l; [reflexivity|].
  destruct l as [|x l]; cbn [skipn Nat.add]; [now rewrite skipn_nil|apply IH].
Qed.

Lemma firstn_app_skipn {A} n m (l : list A) : firstn n l ++ firstn m (skipn n l) = firstn (n + m) l.
Proof.
  revert l. induction n as [|n IH]; intros l; [reflexivity|].
  destruct l as [|x l]; cbn [firstn skipn Nat.add app]; [now rewrite firstn_nil|]. f_equal. apply IH.
Qed.

Lemma zlen_to_nat {A} (l : list A) : Z.to_nat (zlen l) = length l.
Proof. unfold zlen. apply Nat2Z.id. Qed.

Lemma zlen_0_nil {A} (l : list A) : zlen l <= 0 -> l = [].
Proof. destruct l; [reflexivity|]. rewrite zlen_cons. pose proof (zlen_nonneg l). lia. Qed.

Lemma sl_eq b s e : 0 <= s <= e -> sl b s e = firstn (Z.to_nat (e - s)) (skipn (Z.to_nat s) b).
Proof.
  intros H. unfold sl, py_slice, slice_indices, clamp_index.
  pose proof (zlen_nonneg b) as Hl.
  destruct (Z.ltb_spec s 0); [lia|]. destruct (Z.ltb_spec e 0); [lia|].
  destruct (Z.ltb_spec (zlen b) s); destruct (Z.ltb_spec (zlen b) e); try lia.
  - rewrite !skipn_all2 by (unfold zlen in *; lia). now rewrite !firstn_nil.
  - rewrite !firstn_all2; auto; rewrite skipn_length; unfold zlen in *; lia.
  - reflexivity.
Qed.

Lemma sl_from_eq b s : 0 <= s -> sl_from b s = skipn (Z.to_nat s) b.
Proof.
  intros H. unfold sl_from, py_slice, slice_indices, clamp_index.
  pose proof (zlen_nonneg b) as Hl.
  destruct (Z.ltb_spec s 0); [lia|].
  destruct (Z.ltb_spec (zlen b) s).
  - rewrite !skipn_all2 by (unfold zlen in *; lia). now rewrite firstn_nil.
  - apply firstn_all2. rewrite skipn_length. unfold zlen in *. lia.
Qed.

Lemma sl_0_eq b n : 0 <= n -> sl b 0 n = firstn (Z.to_nat n) b.
Proof. intros H. rewrite sl_eq by lia. now rewrite Z.sub_0_r. Qed.

Lemma sl_app b s m e : 0 <= s <= m -> m <= e -> sl b s m ++ sl b m e = sl b s e.
Proof.
  intros H1 H2. rewrite !sl_eq by lia.
  replace (Z.to_nat m) with (Z.to_nat s + Z.to_nat (m - s))%nat by lia.
  rewrite <- skipn_skipn_add, firstn_app_skipn. f_equal. lia.
Qed.

(* the form used for rewriting: the two middle points only have to be provably equal *)
Lemma sl_app' b s m m' e : 0 <= s <= m -> m <= e -> m' = m -> sl b s m ++ sl b m' e = sl b s e.
Proof. intros H1 H2 ->. now apply sl_app. Qed.

Lemma sl_app_r b s m m' e r : 0 <= s <= m -> m <= e -> m' = m -> sl b s m ++ sl b m' e ++ r = sl b s e ++ r.
Proof. intros H1 H2 H3. now rewrite app_assoc, sl_app'. Qed.

Lemma sl_0_from b n : 0 <= n -> sl b 0 n ++ sl_from b n = b.
Proof. intros H. rewrite sl_0_eq, sl_from_eq by lia. apply firstn_skipn. Qed.

Lemma sl_from_from b n m : 0 <= n -> 0 <= m -> sl_from (sl_from b n) m = sl_from b (n + m).
Proof.
  intros H1 H2. rewrite !sl_from_eq by lia. rewrite skipn_skipn_add. f_equal. lia.
Qed.

Lemma sl_sl_from b n s e : 0 <= n -> 0 <= s <= e -> sl (sl_from b n) s e = sl b (n + s) (n + e).
Proof.
  intros H1 H2. rewrite !sl_eq by lia. rewrite sl_from_eq by lia. rewrite skipn_skipn_add.
  f_equal; [lia|]. f_equal. lia.
Qed.

Lemma zlen_sl b s e : 0 <= s <= e -> zlen (sl b s e) = Z.min e (zlen b) - Z.min s (zlen b).
Proof.
  intros H. rewrite sl_eq by lia. unfold zlen. rewrite firstn_length, skipn_length. lia.
Qed.

Lemma zlen_sl_from b n : 0 <= n -> zlen (sl_from b n) = zlen b - Z.min n (zlen b).
Proof. intros H. rewrite sl_from_eq by lia. unfold zlen. rewrite skipn_length. lia. Qed.

Lemma sl_nil b s e : 0 <= s -> e = s -> sl b s e = [].
Proof. intros H ->. rewrite sl_eq by lia. now rewrite Z.sub_diag. Qed.

Lemma sl_over b e : zlen b <= e -> sl b 0 e = b.
Proof. apply py_slice_to_over. Qed.

(* a one-byte comparison with 255 pins down all eight bits *)
Lemma eq_byte_255 x : eq_byte x 255 = true -> x = bits_of 8 255.
Proof.
  unfold eq_byte. intros H. apply andb_prop in H. destruct H as [H H3]. apply andb_prop in H. destruct H as [H1 H2].
  apply Z.leb_le in H1, H2. apply Z.eqb_eq in H3. unfold zlen in *.
  pose proof (Z_of_bits_range x) as R. rewrite H3 in R.
  assert (length x = 8%nat) as E.
  { destruct (Z.eq_dec (Z.of_nat (length x)) 8); [lia|].
    pose proof (Z.pow_le_mono_r 2 (Z.of_nat (length x)) 7). change (2 ^ 7) with 128 in *. lia. }
  rewrite <- (bits_of_Z_of_bits x), E, H3. reflexivity.
Qed.

(* ---- statements -------------------------------------------------------------------------------- *)
Definition tiles (b : bits) (h : hdesc) : Prop :=
  concat (map f_val (fst h)) = firstn (Z.to_nat (snd h)) b /\ 0 <= snd h <= zlen b.

Definition parser_outcome {A} (r : res A) : Prop :=
  match r with Ok _ => True | Exc ParserError => True | _ => False end.

(* both properties at once: the result is Ok a with P a, or ParserError *)
Definition post {A} (r : res A) (P : A -> Prop) : Prop :=
  match r with Ok a => P a | Exc ParserError => True | _ => False end.

Lemma post_outcome {A} (r : res A) P : post r P -> parser_outcome r.
Proof. destruct r as [a|e|]; cbn; auto. Qed.
Lemma post_ok {A} (r : res A) P a : post r P -> r = Ok a -> P a.
Proof. intros H ->. exact H. Qed.
Lemma post_weaken {A} (r : res A) (P Q : A -> Prop) : post r P -> (forall a, P a -> Q a) -> post r Q.
Proof. destruct r as [a|e|]; cbn; auto. Qed.
Lemma post_bind {A B} (r : res A) (f : A -> res B) (P : A -> Prop) (Q : B -> Prop) :
  post r P -> (forall a, P a -> post (f a) Q) -> post (bind r f) Q.
Proof. destruct r as [a|e|]; cbn; auto. Qed.
Lemma post_catch {A} (r : res A) P : post r P -> post (catch_all r ParserError) P.
Proof. destruct r as [a|e|]; cbn; auto. Qed.

Notation cat fs := (concat (map f_val fs)).

Lemma cat_app a b : cat (a ++ b) = cat a ++ cat b.
Proof. now rewrite map_app, concat_app. Qed.
Lemma cat_one p i pos v : cat [FD p i pos v] = v.
Proof. cbn. apply app_nil_r. Qed.
Lemma cat_if (c : bool) p i pos v : (c = false -> v = []) -> cat (if c then [FD p i pos v] else []) = v.
Proof. destruct c; intros H; [apply cat_one|]. now rewrite H. Qed.

Ltac cat_list := cbn [map concat f_val FD].
Ltac app_norm := repeat (rewrite app_nil_l || rewrite app_nil_r || rewrite <- app_assoc).
Ltac sl_join := rewrite ?sl_app_r by lia; rewrite ?sl_app' by lia.
Ltac fixed_cat := cat_list; app_norm; sl_join; try reflexivity; try (f_equal; lia).

Lemma tiles_fixed b fs n : 0 <= n <= zlen b -> cat fs = sl b 0 n -> tiles b (fs, n).
Proof. intros H1 H2. split; cbn [fst snd]; [|exact H1]. rewrite H2. apply sl_0_eq. lia. Qed.

Lemma tiles_chain b fs n (next : hparser) (Q : hdesc -> Prop) :
  0 <= n <= zlen b -> cat fs = sl b 0 n ->
  post (next (sl_from b n)) (fun h => tiles (sl_from b n) h /\ Q h) ->
  post (chain (fs, n) next (sl_from b n)) (tiles b).
Proof.
  intros H1 H2 H3. unfold chain. eapply post_bind; [exact H3|].
  intros [fs' n'] [[Ht Hn] _]. cbn [fst snd post] in *.
  rewrite zlen_sl_from in Hn by lia.
  split; cbn [fst snd]; [|lia].
  rewrite cat_app, H2, Ht, sl_0_eq, sl_from_eq by lia. rewrite firstn_app_skipn. f_equal. lia.
Qed.

Corollary tiles_length b h : tiles b h -> zlen (concat (map f_val (fst h))) = snd h.
Proof. intros [H1 H2]. rewrite H1. unfold zlen in *. rewrite firstn_length. lia. Qed.

(* ---- CoAP -------------------------------------------------------------------------------------- *)
Ltac abstract_Z_of_bits :=
  repeat match goal with |- context [Z_of_bits ?x] =>
    let z := fresh "z" in pose proof (Z_of_bits_range x); set (z := Z_of_bits x) in *; clearbody z end.

Lemma coap_loop_post fuel : forall b cursor ps acc,
  0 <= cursor <= zlen b -> cat acc = sl b 0 cursor -> zlen b - cursor < Z.of_nat fuel ->
  post (coap_options_loop fuel b cursor ps acc)
       (fun r => cat (fst r) = sl b 0 (snd r) /\ cursor <= snd r <= zlen b).
Proof.
  induction fuel as [|f IH]; intros b cursor ps acc Hc Hacc Hf; [lia|].
  cbn [coap_options_loop].
  destruct (Z.ltb_spec cursor (zlen b)) as [Hlt|Hge]; cbn [andb].
  2:{ cbn [post fst snd]. split; [exact Hacc|lia]. }
  destruct (eq_byte (sl b cursor (cursor + 8)) 255) eqn:E255; cbn [negb].
  { apply eq_byte_255 in E255. cbn [post fst snd].
    assert (cursor + 8 <= zlen b).
    { pose proof (zlen_sl b cursor (cursor + 8)) as Hz. rewrite E255 in Hz. change (zlen (bits_of 8 255)) with 8 in Hz. lia. }
    split; [|lia]. rewrite cat_app, cat_one, Hacc, <- E255. sl_join. reflexivity. }
  set (ob := sl_from b cursor).
  destruct (eq_byte (sl ob 0 4) 13) eqn:D8; [|destruct (eq_byte (sl ob 0 4) 14) eqn:D16];
  (destruct (eq_byte (sl ob 4 8) 13) eqn:L8; [|destruct (eq_byte (sl ob 4 8) 14) eqn:L16]);
  cbn [orb]; abstract_Z_of_bits;
  (match goal with |- post (if zlen b <? ?c then _ else _) _ =>
     destruct (Z.ltb_spec (zlen b) c); [exact I|] end);
  (eapply post_weaken; [apply IH; [lia| |lia] | cbn beta; intros r [? ?]; split; [assumption|lia]]);
  rewrite !cat_app, Hacc;
  rewrite ?cat_if by (intros ?%Z.ltb_ge; apply sl_nil; lia);
  cat_list; subst ob; rewrite !sl_sl_from by lia; app_norm; sl_join; f_equal; lia.
Qed.

Lemma parse_coap_post b : post (parse_coap b) (tiles b).
Proof.
  unfold parse_coap. destruct (Z.ltb_spec (zlen b) 32) as [|Hl]; [exact I|]. cbv zeta.
  pose proof (Z_of_bits_range (sl b 4 8)) as Hr. set (tk := Z_of_bits (sl b 4 8)) in *.
  replace (32 + tk * 8) with (32 + tk * 8 + 0) by lia.
  set (T := 32 + tk * 8) in *. assert (HT : 32 <= T) by lia.
  replace (T + 0) with T by lia.
  eapply post_bind with (P := fun o => cat (fst o) = sl (sl_from b T) 0 (snd o) /\ 0 <= snd o <= zlen (sl_from b T)).
  - destruct (Z.ltb_spec 0 (zlen (sl_from b T))).
    + apply post_catch. unfold coap_parse_options. apply coap_loop_post.
      * lia.
      * cbn [map concat]. symmetry. apply sl_nil; lia.
      * unfold zlen. lia.
    + cbn [post fst snd]. split; [|pose proof (zlen_nonneg (sl_from b T)); lia]. cbn [map concat]. symmetry. apply sl_nil; lia.
  - intros [ofs on] [Ho Hon]. cbn [fst snd post] in *.
    assert (Hhf : cat ([FD P_CoAP 0 0 (sl b 0 2); FD P_CoAP 1 0 (sl b 2 4); FD P_CoAP 2 0 (sl b 4 8);
                        FD P_CoAP 3 0 (sl b 8 16); FD P_CoAP 4 0 (sl b 16 32)]
                        ++ (if 0 <? tk then [FD P_CoAP 5 0 (sl b 32 T)] else [])) = sl b 0 T).
    { rewrite cat_app, cat_if by (intros ?%Z.ltb_ge; apply sl_nil; lia). fixed_cat. }
    rewrite zlen_sl_from in Hon by lia. rewrite zlen_sl by lia.
    split; cbn [fst snd]; [|lia].
    rewrite cat_app, Hhf, Ho, sl_sl_from by lia. sl_join.
    destruct (Z.le_gt_cases T (zlen b)).
    + rewrite sl_0_eq by lia. f_equal. lia.
    + rewrite sl_over by lia. symmetry. apply firstn_all2. unfold zlen in *. lia.
Qed.

Theorem coap_tiles b h : parse_coap b = Ok h -> tiles b h.
Proof. apply post_ok, parse_coap_post. Qed.
Theorem coap_total b : parser_outcome (parse_coap b).
Proof. eapply post_outcome, parse_coap_post. Qed.

(* ---- SCTP -------------------------------------------------------------------------------------- *)
Lemma parse_parameter_post b :
  post (parse_parameter b) (fun p => cat (fst p) = sl b 0 (snd p) /\ 32 <= snd p).
Proof.
  unfold parse_parameter. destruct (Z.ltb_spec (zlen b) 32) as [|Hl]; [exact I|]. cbv zeta.
  pose proof (Z_of_bits_range (sl b 16 32)) as Hr. set (plv := Z_of_bits (sl b 16 32) * 8) in *.
  destruct (Z.ltb_spec plv 32); cbn [orb]; [exact I|]. destruct (Z.ltb_spec (zlen b) plv); [exact I|].
  pose proof (Z.mod_pos_bound (32 - (plv - 32) mod 32) 32 ltac:(lia)) as Hp.
  set (ppl := (32 - (plv - 32) mod 32) mod 32) in *. clearbody ppl.
  cbn [post fst snd]. split; [|lia].
  rewrite !cat_app, !cat_if by (intros ?%Z.ltb_ge; apply sl_nil; lia). fixed_cat.
Qed.

Lemma parameters_loop_post fuel : forall b acc, zlen b < Z.of_nat fuel ->
  post (parameters_loop fuel b acc) (fun fs => cat fs = cat acc ++ b).
Proof.
  induction fuel as [|f IH]; intros b acc Hf; [pose proof (zlen_nonneg b); lia|].
  cbn [parameters_loop]. destruct (Z.ltb_spec 0 (zlen b)) as [Hp|Hz].
  - eapply post_bind; [apply parse_parameter_post|]. intros [pfs n] [Hc Hn]. cbn [fst snd] in *.
    eapply post_weaken; [apply IH|].
    + rewrite zlen_sl_from by lia. lia.
    + cbn beta. intros fs Hfs. rewrite Hfs, cat_app, Hc, <- app_assoc, sl_0_from by lia. reflexivity.
  - cbn [post]. rewrite (zlen_0_nil b Hz). now rewrite app_nil_r.
Qed.

Lemma parse_parameters_post b acc : post (parse_parameters b acc) (fun fs => cat fs = cat acc ++ b).
Proof. apply parameters_loop_post. unfold zlen. lia. Qed.

Lemma sack_gaps_cat n : forall rem acc fs rem', sack_gaps n rem acc = (fs, rem') -> cat fs ++ rem' = cat acc ++ rem.
Proof.
  induction n as [|n IH]; intros rem acc fs rem' H; cbn [sack_gaps] in H.
  - now inversion H.
  - apply IH in H. rewrite H, cat_app, <- app_assoc. f_equal.
    cat_list. app_norm. sl_join. apply sl_0_from. lia.
Qed.

Lemma sack_dups_cat n : forall rem acc fs rem', sack_dups n rem acc = (fs, rem') -> cat fs ++ rem' = cat acc ++ rem.
Proof.
  induction n as [|n IH]; intros rem acc fs rem' H; cbn [sack_dups] in H.
  - now inversion H.
  - apply IH in H. rewrite H, cat_app, <- app_assoc. f_equal.
    cat_list. app_norm. apply sl_0_from. lia.
Qed.

Lemma sack_gaps_zlen n : forall rem acc fs rem', sack_gaps n rem acc = (fs, rem') ->
  zlen rem' = Z.max 0 (zlen rem - 32 * Z.of_nat n).
Proof.
  induction n as [|n IH]; intros rem acc fs rem' H; cbn [sack_gaps] in H.
  - inversion H. subst. pose proof (zlen_nonneg rem'). lia.
  - apply IH in H. rewrite H, zlen_sl_from by lia. pose proof (zlen_nonneg rem). lia.
Qed.

Lemma sack_dups_zlen n : forall rem acc fs rem', sack_dups n rem acc = (fs, rem') ->
  zlen rem' = Z.max 0 (zlen rem - 32 * Z.of_nat n).
Proof.
  induction n as [|n IH]; intros rem acc fs rem' H; cbn [sack_dups] in H.
  - inversion H. subst. pose proof (zlen_nonneg rem'). lia.
  - apply IH in H. rewrite H, zlen_sl_from by lia. pose proof (zlen_nonneg rem). lia.
Qed.

Lemma parse_chunk_value_post t v : post (parse_chunk_value t v) (fun fs => cat fs = v).
Proof.
  unfold parse_chunk_value.
  destruct (t =? 0).
  { cbn [post]. cat_list. app_norm. sl_join. apply sl_0_from. lia. }
  destruct (t =? 1).
  { eapply post_weaken; [apply parse_parameters_post|]. cbn beta. intros fs ->.
    cat_list. app_norm. sl_join. apply sl_0_from. lia. }
  destruct (t =? 2).
  { eapply post_weaken; [apply parse_parameters_post|]. cbn beta. intros fs ->.
    cat_list. app_norm. sl_join. apply sl_0_from. lia. }
  destruct (t =? 3).
  { cbv zeta.
    pose proof (Z_of_bits_range (sl v 64 80)) as Rg. pose proof (Z_of_bits_range (sl v 80 96)) as Rd.
    destruct (Z.eqb_spec (zlen (sl_from v 96)) (32 * (Z_of_bits (sl v 64 80) + Z_of_bits (sl v 80 96)))) as [Hsz|];
      cbn [negb]; [|exact I].
    destruct (sack_gaps _ _ _) as [fs1 rem1] eqn:G. destruct (sack_dups _ _ _) as [fs2 rem2] eqn:D.
    cbn [post].
    pose proof (sack_gaps_zlen _ _ _ _ _ G) as Zg. pose proof (sack_dups_zlen _ _ _ _ _ D) as Zd.
    rewrite Zg, Hsz, !Z2Nat.id in Zd by lia.
    assert (Hz : zlen rem2 <= 0) by lia.
    apply sack_gaps_cat in G. apply sack_dups_cat in D.
    rewrite (zlen_0_nil rem2 Hz), app_nil_r in D. rewrite D, G.
    cat_list. app_norm. sl_join. apply sl_0_from. lia. }
  destruct ((t =? 4) || (t =? 5) || (t =? 6) || (t =? 9)).
  { eapply post_weaken; [apply parse_parameters_post|]. cbn beta. intros fs ->. reflexivity. }
  destruct (t =? 7).
  { destruct (Z.ltb_spec 32 (zlen v)); [exact I|]. cbn [post]. rewrite cat_one. apply sl_over. lia. }
  destruct ((t =? 8) || (t =? 11) || (t =? 14)).
  { destruct (Z.ltb_spec 0 (zlen v)) as [|Hz]; [exact I|]. cbn [post]. now rewrite (zlen_0_nil v Hz). }
  destruct (t =? 10); cbn [post]; apply cat_one.
Qed.

Lemma parse_chunk_post b :
  post (parse_chunk b) (fun p => cat (fst p) = sl b 0 (snd p) /\ 32 <= snd p).
Proof.
  unfold parse_chunk. destruct (Z.ltb_spec (zlen b) 32) as [|Hl]; [exact I|]. cbv zeta.
  pose proof (Z_of_bits_range (sl b 16 32)) as Hr. set (clv := Z_of_bits (sl b 16 32) * 8) in *.
  destruct (Z.ltb_spec clv 32); cbn [orb]; [exact I|]. destruct (Z.ltb_spec (zlen b) clv); [exact I|].
  pose proof (Z.mod_pos_bound (32 - clv mod 32) 32 ltac:(lia)) as Hp.
  set (cpl := (32 - clv mod 32) mod 32) in *. clearbody cpl.
  replace (32 + (clv - 32)) with clv by lia.
  eapply post_bind with (P := fun vf => cat vf = sl b 32 clv).
  - destruct (Z.ltb_spec 0 (clv - 32)).
    + apply parse_chunk_value_post.
    + cbn [post map concat]. symmetry. apply sl_nil; lia.
  - intros vf Hvf. cbn [post fst snd]. split; [|lia].
    rewrite !cat_app, Hvf, cat_if.
    + fixed_cat.
    + intros Hc. apply andb_false_iff in Hc. destruct Hc as [Hc|Hc]; apply Z.ltb_ge in Hc.
      * apply sl_nil; lia.
      * now apply zlen_0_nil.
Qed.

Lemma chunks_loop_post fuel : forall b acc, zlen b < Z.of_nat fuel ->
  post (chunks_loop fuel b acc) (fun fs => cat fs = cat acc ++ b).
Proof.
  induction fuel as [|f IH]; intros b acc Hf; [pose proof (zlen_nonneg b); lia|].
  cbn [chunks_loop]. destruct (Z.ltb_spec 0 (zlen b)) as [Hp|Hz].
  - eapply post_bind; [apply parse_chunk_post|]. intros [pfs n] [Hc Hn]. cbn [fst snd] in *.
    eapply post_weaken; [apply IH|].
    + rewrite zlen_sl_from by lia. lia.
    + cbn beta. intros fs Hfs. rewrite Hfs, cat_app, Hc, <- app_assoc, sl_0_from by lia. reflexivity.
  - cbn [post]. rewrite (zlen_0_nil b Hz). now rewrite app_nil_r.
Qed.

Lemma parse_sctp_post b : post (parse_sctp b) (fun h => tiles b h /\ snd h = zlen b).
Proof.
  unfold parse_sctp. destruct (Z.ltb_spec (zlen b) 96) as [|Hl]; [exact I|]. cbv zeta.
  eapply post_bind; [apply chunks_loop_post|].
  - rewrite zlen_sl_from by lia. unfold zlen. lia.
  - cbn beta. intros fs Hfs. cbn [post snd]. split; [|reflexivity]. split; cbn [fst snd]; [|lia].
    rewrite Hfs, zlen_to_nat, firstn_all. cat_list. app_norm. sl_join. apply sl_0_from. lia.
Qed.

Theorem sctp_tiles b h : parse_sctp b = Ok h -> tiles b h /\ snd h = zlen b.
Proof. apply (post_ok _ _ _ (parse_sctp_post b)). Qed.
Theorem sctp_total b : parser_outcome (parse_sctp b).
Proof. eapply post_outcome, parse_sctp_post. Qed.

(* ---- UDP, IPv6, IPv4 --------------------------------------------------------------------------- *)
Lemma parse_udp_post pr b : post (parse_udp pr b) (tiles b).
Proof.
  unfold parse_udp. destruct (Z.ltb_spec (zlen b) 64) as [|Hl]; [exact I|]. cbv zeta.
  match goal with |- context [Ok (?fs, ?n)] => assert (Hc : cat fs = sl b 0 n) by fixed_cat end.
  destruct pr; [|apply tiles_fixed; [lia|exact Hc]].
  destruct (_ =? 5683).
  { eapply tiles_chain with (Q := fun _ => True); [lia|exact Hc|].
    eapply post_weaken; [apply parse_coap_post|]. auto. }
  destruct (_ =? 132).
  { eapply tiles_chain; [lia|exact Hc|]. apply parse_sctp_post. }
  apply tiles_fixed; [lia|exact Hc].
Qed.

Lemma parse_ipv6_post pr b : post (parse_ipv6 pr b) (tiles b).
Proof.
  unfold parse_ipv6. destruct (Z.ltb_spec (zlen b) 320) as [|Hl]; [exact I|]. cbv zeta.
  destruct (negb _); [exact I|].
  match goal with |- context [Ok (?fs, ?n)] => assert (Hc : cat fs = sl b 0 n) by fixed_cat end.
  destruct pr; [|apply tiles_fixed; [lia|exact Hc]].
  destruct (_ =? 17).
  { eapply tiles_chain with (Q := fun _ => True); [lia|exact Hc|].
    eapply post_weaken; [apply parse_udp_post|]. auto. }
  destruct (_ =? 132).
  { eapply tiles_chain; [lia|exact Hc|]. apply parse_sctp_post. }
  apply tiles_fixed; [lia|exact Hc].
Qed.

Lemma parse_ipv4_post pr b : post (parse_ipv4 pr b) (tiles b).
Proof.
  unfold parse_ipv4. destruct (Z.ltb_spec (zlen b) 160) as [|Hl]; [exact I|]. cbv zeta.
  destruct (negb _); [exact I|].
  match goal with |- context [Ok (?fs, ?n)] => assert (Hc : cat fs = sl b 0 n) by fixed_cat end.
  destruct pr; [|apply tiles_fixed; [lia|exact Hc]].
  destruct (_ =? 17).
  { eapply tiles_chain with (Q := fun _ => True); [lia|exact Hc|].
    eapply post_weaken; [apply parse_udp_post|]. auto. }
  destruct (_ =? 132).
  { eapply tiles_chain; [lia|exact Hc|]. apply parse_sctp_post. }
  apply tiles_fixed; [lia|exact Hc].
Qed.

Theorem udp_tiles pr b h : parse_udp pr b = Ok h -> tiles b h.
Proof. apply post_ok, parse_udp_post. Qed.
Theorem ipv6_tiles pr b h : parse_ipv6 pr b = Ok h -> tiles b h.
Proof. apply post_ok, parse_ipv6_post. Qed.
Theorem ipv4_tiles pr b h : parse_ipv4 pr b = Ok h -> tiles b h.
Proof. apply post_ok, parse_ipv4_post. Qed.
Theorem udp_total pr b : parser_outcome (parse_udp pr b).
Proof. eapply post_outcome, parse_udp_post. Qed.
Theorem ipv6_total pr b : parser_outcome (parse_ipv6 pr b).
Proof. eapply post_outcome, parse_ipv6_post. Qed.
Theorem ipv4_total pr b : parser_outcome (parse_ipv4 pr b).
Proof. eapply post_outcome, parse_ipv4_post. Qed.

(* ---- PacketParser.parse and the factory -------------------------------------------------------- *)
Lemma packet_loop_post ps : (forall p, In p ps -> forall b, post (p b) (tiles b)) ->
  forall b acc, post (packet_parse_loop ps b acc) (fun r => cat (fst r) ++ snd r = cat acc ++ b).
Proof.
  induction ps as [|p ps IH]; intros Hps b acc; cbn [packet_parse_loop].
  - cbn [post fst snd]. reflexivity.
  - eapply post_bind; [apply Hps; left; reflexivity|]. intros [hfs n] [Ht Hn]. cbn [fst snd] in *.
    eapply post_weaken; [apply IH; intros q Hq; apply Hps; right; exact Hq|].
    cbn beta. intros r Hr. rewrite Hr, cat_app, Ht, <- app_assoc. f_equal.
    rewrite sl_from_eq by lia. apply firstn_skipn.
Qed.

Lemma factory_post s b : post (factory s b) (fun r => cat (fst r) ++ snd r = b).
Proof.
  unfold factory, packet_parse.
  eapply post_weaken; [apply packet_loop_post|cbn beta; intros r Hr; exact Hr].
  intros p Hp c.
  destruct s; cbn [In] in Hp;
  repeat (destruct Hp as [<-|Hp]; [first [apply parse_ipv6_post | apply parse_ipv4_post | apply parse_udp_post
                                         | apply parse_coap_post
                                         | eapply post_weaken; [apply parse_sctp_post | cbn beta; intros ? [? _]; assumption]]|]);
  destruct Hp.
Qed.

Theorem packet_tiles s b fs pl : factory s b = Ok (fs, pl) -> concat (map f_val fs) ++ pl = b.
Proof. intros H. exact (post_ok _ _ _ (factory_post s b) H). Qed.
Theorem factory_total s b : parser_outcome (factory s b).
Proof. eapply post_outcome, factory_post. Qed.
