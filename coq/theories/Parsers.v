(* Parsers.v -- model of the header and packet parsers over bit sequences:
   protocol/ipv4.py, ipv6.py, udp.py, coap.py (syntactic option mode), sctp.py, parser/parser.py,
   protocol/registry.py (factory).  Packet buffers are left-padded (the default).  Definitions only. *)
From Coq Require Import ZArith List Bool.
From MS Require Import PyBase Bits Schc.
Import ListNotations.
Open Scope Z_scope.

Definition sl (b : bits) (s e : Z) : bits := py_slice b (Some s) (Some e).
Definition sl_from (b : bits) (s : Z) : bits := py_slice b (Some s) None.
Definition FD (p : proto) (i : Z) (pos : Z) (v : bits) : field := mkfield (mkfid p i) v pos.

(* Buffer == bytes literal of one byte: the content is that single byte *)
Definition eq_byte (b : bits) (v : Z) : bool := (1 <=? zlen b) && (zlen b <=? 8) && (Z_of_bits b =? v).

(* a header descriptor: fields and header length in bits *)
Definition hdesc := (list field * Z)%type.
Definition hparser := bits -> res hdesc.

(* ---- CoAP (RFC 7252), syntactic options ------------------------------------------------------ *)
Record opos := mkopos { p_delta : Z; p_length : Z; p_dext : Z; p_lext : Z; p_value : Z }.

Fixpoint coap_options_loop (fuel : nat) (b : bits) (cursor : Z) (ps : opos) (acc : list field) : res (list field * Z) :=
  match fuel with
  | O => Diverge
  | S f =>
    if (cursor <? zlen b) && negb (eq_byte (sl b cursor (cursor + 8)) 255) then
      let ob := sl_from b cursor in
      let delta := sl ob 0 4 in
      let olen := sl ob 4 8 in
      let olen_int := Z_of_bits olen in
      let d8 := eq_byte delta 13 in
      let d16 := eq_byte delta 14 in
      let off := 8 in
      let '(dext, off, pdx) :=
        if d8 then (sl ob off (off + 8), off + 8, p_dext ps + 1)
        else if d16 then (sl ob off (off + 16), off + 16, p_dext ps + 1)
        else ([], off, p_dext ps) in
      let l8 := eq_byte olen 13 in
      let l16 := eq_byte olen 14 in
      let '(lext, ext_int, off, plx) :=
        if l8 then (sl ob off (off + 8), Z_of_bits (sl ob off (off + 8)), off + 8, p_lext ps + 1)
        else if l16 then (sl ob off (off + 16), Z_of_bits (sl ob off (off + 16)) + 255, off + 16, p_lext ps + 1)
        else ([], 0, off, p_lext ps) in
      let vlen := (olen_int + ext_int) * 8 in
      let value := sl ob off (off + vlen) in
      let pv := if 0 <? vlen then p_value ps + 1 else p_value ps in
      let cursor' := cursor + off + vlen in
      if zlen b <? cursor' then Exc ParserError
      else
        let ps' := mkopos (p_delta ps + 1) (p_length ps + 1) pdx plx pv in
        let fs := [FD P_CoAP 7 (p_delta ps') delta; FD P_CoAP 8 (p_length ps') olen]
                  ++ (if d8 || d16 then [FD P_CoAP 9 pdx dext] else [])
                  ++ (if l8 || l16 then [FD P_CoAP 10 plx lext] else [])
                  ++ (if 0 <? vlen then [FD P_CoAP 11 pv value] else []) in
        coap_options_loop f b cursor' ps' (acc ++ fs)
    else
      if cursor <? zlen b then Ok (acc ++ [FD P_CoAP 6 0 (bits_of 8 255)], cursor + 8)
      else Ok (acc, cursor)
  end.

Definition coap_parse_options (b : bits) : res (list field * Z) :=
  coap_options_loop (S (length b)) b 0 (mkopos 0 0 0 0 0) [].

Definition parse_coap : hparser := fun b =>
  if zlen b <? 32 then Exc ParserError
  else
    let tkl := sl b 4 8 in
    let tkl_int := Z_of_bits tkl in
    let token := sl b 32 (32 + tkl_int * 8) in
    let hf := [FD P_CoAP 0 0 (sl b 0 2); FD P_CoAP 1 0 (sl b 2 4); FD P_CoAP 2 0 tkl;
               FD P_CoAP 3 0 (sl b 8 16); FD P_CoAP 4 0 (sl b 16 32)]
              ++ (if 0 <? tkl_int then [FD P_CoAP 5 0 token] else []) in
    let ob := sl_from b (32 + tkl_int * 8) in
    do o <- (if 0 <? zlen ob then catch_all (coap_parse_options ob) ParserError else Ok ([], 0)) ;;
    Ok (hf ++ fst o, 32 + zlen token + snd o).

(* ---- SCTP (RFC 9260) ------------------------------------------------------------------------- *)
Definition parse_parameter (b : bits) : res (list field * Z) :=
  if zlen b <? 32 then Exc ParserError
  else
    let ptype := sl b 0 16 in
    let plen := sl b 16 32 in
    let plv := Z_of_bits plen * 8 in
    if (plv <? 32) || (zlen b <? plv) then Exc ParserError
    else
      let pvl := plv - 32 in
      let fs := [FD P_SCTP 33 0 ptype; FD P_SCTP 34 0 plen]
                ++ (if 0 <? pvl then [FD P_SCTP 35 0 (sl b 32 plv)] else []) in
      let ppl := (32 - pvl mod 32) mod 32 in
      let fs := fs ++ (if 0 <? ppl then [FD P_SCTP 36 0 (sl b plv (plv + ppl))] else []) in
      Ok (fs, plv + ppl).

Fixpoint parameters_loop (fuel : nat) (b : bits) (acc : list field) : res (list field) :=
  match fuel with
  | O => Diverge
  | S f =>
    if 0 <? zlen b then
      do p <- parse_parameter b ;;
      parameters_loop f (sl_from b (snd p)) (acc ++ fst p)
    else Ok acc
  end.
Definition parse_parameters (b : bits) (acc : list field) : res (list field) :=
  parameters_loop (S (length b)) b acc.

Fixpoint sack_gaps (n : nat) (rem : bits) (acc : list field) : list field * bits :=
  match n with
  | O => (acc, rem)
  | S n' => sack_gaps n' (sl_from rem 32) (acc ++ [FD P_SCTP 28 0 (sl rem 0 16); FD P_SCTP 29 0 (sl rem 16 32)])
  end.
Fixpoint sack_dups (n : nat) (rem : bits) (acc : list field) : list field * bits :=
  match n with
  | O => (acc, rem)
  | S n' => sack_dups n' (sl_from rem 32) (acc ++ [FD P_SCTP 30 0 (sl rem 0 32)])
  end.

Definition parse_chunk_value (ctype : Z) (v : bits) : res (list field) :=
  if ctype =? 0 then
    Ok [FD P_SCTP 9 0 (sl v 0 32); FD P_SCTP 10 0 (sl v 32 48); FD P_SCTP 11 0 (sl v 48 64);
        FD P_SCTP 12 0 (sl v 64 96); FD P_SCTP 13 0 (sl_from v 96)]
  else if ctype =? 1 then
    parse_parameters (sl_from v 128)
      [FD P_SCTP 14 0 (sl v 0 32); FD P_SCTP 15 0 (sl v 32 64); FD P_SCTP 16 0 (sl v 64 80);
       FD P_SCTP 17 0 (sl v 80 96); FD P_SCTP 18 0 (sl v 96 128)]
  else if ctype =? 2 then
    parse_parameters (sl_from v 128)
      [FD P_SCTP 19 0 (sl v 0 32); FD P_SCTP 20 0 (sl v 32 64); FD P_SCTP 21 0 (sl v 64 80);
       FD P_SCTP 22 0 (sl v 80 96); FD P_SCTP 23 0 (sl v 96 128)]
  else if ctype =? 3 then
    let ngap := sl v 64 80 in
    let ndup := sl v 80 96 in
    let hd := [FD P_SCTP 24 0 (sl v 0 32); FD P_SCTP 25 0 (sl v 32 64); FD P_SCTP 26 0 ngap; FD P_SCTP 27 0 ndup] in
    if negb (zlen (sl_from v 96) =? 32 * (Z_of_bits ngap + Z_of_bits ndup)) then Exc ParserError
    else
      let '(fs1, rem1) := sack_gaps (Z.to_nat (Z_of_bits ngap)) (sl_from v 96) hd in
      let '(fs2, rem2) := sack_dups (Z.to_nat (Z_of_bits ndup)) rem1 fs1 in
      Ok fs2
  else if (ctype =? 4) || (ctype =? 5) || (ctype =? 6) || (ctype =? 9) then parse_parameters v []
  else if ctype =? 7 then
    if 32 <? zlen v then Exc ParserError else Ok [FD P_SCTP 31 0 (sl v 0 32)]
  else if (ctype =? 8) || (ctype =? 11) || (ctype =? 14) then
    if 0 <? zlen v then Exc ParserError else Ok []
  else if ctype =? 10 then Ok [FD P_SCTP 32 0 v]
  else Ok [FD P_SCTP 7 0 v].

Definition parse_chunk (b : bits) : res (list field * Z) :=
  if zlen b <? 32 then Exc ParserError
  else
    let ctype := sl b 0 8 in
    let clen := sl b 16 32 in
    let clv := Z_of_bits clen * 8 in
    if (clv <? 32) || (zlen b <? clv) then Exc ParserError
    else
      let hd := [FD P_SCTP 4 0 ctype; FD P_SCTP 5 0 (sl b 8 16); FD P_SCTP 6 0 clen] in
      let cvl := clv - 32 in
      do vf <- (if 0 <? cvl then parse_chunk_value (Z_of_bits ctype) (sl b 32 (32 + cvl)) else Ok []) ;;
      let cpl := (32 - clv mod 32) mod 32 in
      let pad := sl b clv (clv + cpl) in
      let pf := if (0 <? cpl) && (0 <? zlen pad) then [FD P_SCTP 8 0 pad] else [] in
      Ok (hd ++ vf ++ pf, clv + cpl).

Fixpoint chunks_loop (fuel : nat) (b : bits) (acc : list field) : res (list field) :=
  match fuel with
  | O => Diverge
  | S f =>
    if 0 <? zlen b then
      do c <- parse_chunk b ;;
      chunks_loop f (sl_from b (snd c)) (acc ++ fst c)
    else Ok acc
  end.

Definition parse_sctp : hparser := fun b =>
  if zlen b <? 96 then Exc ParserError
  else
    let hd := [FD P_SCTP 0 0 (sl b 0 16); FD P_SCTP 1 0 (sl b 16 32); FD P_SCTP 2 0 (sl b 32 64); FD P_SCTP 3 0 (sl b 64 96)] in
    do fs <- chunks_loop (S (length b)) (sl_from b 96) hd ;;
    Ok (fs, zlen b).

(* ---- UDP (RFC 768) --------------------------------------------------------------------------- *)
Definition chain (h : hdesc) (next : hparser) (rest : bits) : res hdesc :=
  do n <- next rest ;; Ok (fst h ++ fst n, snd h + snd n).

Definition parse_udp (predict : bool) : hparser := fun b =>
  if zlen b <? 64 then Exc ParserError
  else
    let dport := sl b 16 32 in
    let h := ([FD P_UDP 0 0 (sl b 0 16); FD P_UDP 1 0 dport; FD P_UDP 2 0 (sl b 32 48); FD P_UDP 3 0 (sl b 48 64)], 64) in
    if predict then
      let p := Z_of_bits dport in
      if p =? 5683 then chain h parse_coap (sl_from b 64)
      else if p =? 132 then chain h parse_sctp (sl_from b 64)
      else Ok h
    else Ok h.

(* ---- IPv6 (RFC 8200), IPv4 (RFC 791, no options) ---------------------------------------------- *)
Definition parse_ipv6 (predict : bool) : hparser := fun b =>
  if zlen b <? 320 then Exc ParserError
  else
    let version := sl b 0 4 in
    if negb (eq_byte version 6) then Exc ParserError
    else
      let nh := sl b 48 56 in
      let h := ([FD P_IPv6 0 0 version; FD P_IPv6 1 0 (sl b 4 12); FD P_IPv6 2 0 (sl b 12 32); FD P_IPv6 3 0 (sl b 32 48);
                 FD P_IPv6 4 0 nh; FD P_IPv6 5 0 (sl b 56 64); FD P_IPv6 6 0 (sl b 64 192); FD P_IPv6 7 0 (sl b 192 320)], 320) in
      if predict then
        let p := Z_of_bits nh in
        if p =? 17 then chain h (parse_udp true) (sl_from b 320)
        else if p =? 132 then chain h parse_sctp (sl_from b 320)
        else Ok h
      else Ok h.

Definition parse_ipv4 (predict : bool) : hparser := fun b =>
  if zlen b <? 160 then Exc ParserError
  else
    let version := sl b 0 4 in
    if negb (eq_byte version 4) then Exc ParserError
    else
      let pr := sl b 72 80 in
      let h := ([FD P_IPv4 0 0 version; FD P_IPv4 1 0 (sl b 4 8); FD P_IPv4 2 0 (sl b 8 16); FD P_IPv4 3 0 (sl b 16 32);
                 FD P_IPv4 4 0 (sl b 32 48); FD P_IPv4 5 0 (sl b 48 51); FD P_IPv4 6 0 (sl b 51 64); FD P_IPv4 7 0 (sl b 64 72);
                 FD P_IPv4 8 0 pr; FD P_IPv4 9 0 (sl b 80 96); FD P_IPv4 10 0 (sl b 96 128); FD P_IPv4 11 0 (sl b 128 160)], 160) in
      if predict then
        let p := Z_of_bits pr in
        if p =? 17 then chain h (parse_udp true) (sl_from b 160)
        else if p =? 132 then chain h parse_sctp (sl_from b 160)
        else Ok h
      else Ok h.

(* ---- PacketParser.parse ---------------------------------------------------------------------- *)
Fixpoint packet_parse_loop (ps : list hparser) (b : bits) (acc : list field) : res (list field * bits) :=
  match ps with
  | [] => Ok (acc, b)
  | p :: ps' => do h <- p b ;; packet_parse_loop ps' (sl_from b (snd h)) (acc ++ fst h)
  end.
Definition packet_parse (ps : list hparser) : parser := fun b => packet_parse_loop ps b [].

(* protocol/registry.py factory *)
Inductive stack := IPv6_UDP_CoAP | IPv4_UDP_CoAP | S_IPv4 | S_IPv6 | S_UDP | S_CoAP | S_SCTP.
Definition factory (s : stack) : parser :=
  packet_parse
    match s with
    | IPv6_UDP_CoAP => [parse_ipv6 false; parse_udp false; parse_coap]
    | IPv4_UDP_CoAP => [parse_ipv4 false; parse_udp false; parse_coap]
    | S_IPv4 => [parse_ipv4 true]
    | S_IPv6 => [parse_ipv6 true]
    | S_UDP => [parse_udp true]
    | S_CoAP => [parse_coap]
    | S_SCTP => [parse_sctp]
    end.
