(* PyBase.v -- the fragments of Python semantics that the microschc model relies on:
   results with exceptions, slice index clamping, byte strings as lists of Z.
   Model file: definitions only (proofs live in *Facts.v / *Spec.v files). *)
From Coq Require Import ZArith List Bool.
Import ListNotations.
Open Scope Z_scope.

Inductive exn : Type :=
| IndexError | TypeError | OverflowError | KeyError | ValueError | StopIteration
| UnboundLocalError | AssertionError | NotImplementedError | ZeroDivisionError | AttributeError
| ParserError | UnparserError | RuleIDMatchError | RuleDescriptorMatchError
| Unmodelled.  (* the model does not describe the code on this input; never a legal outcome *)

Inductive res (A : Type) : Type :=
| Ok (a : A)
| Exc (e : exn)
| Diverge.      (* a fuelled loop ran out of fuel *)
Arguments Ok {A} a.
Arguments Exc {A} e.
Arguments Diverge {A}.

Definition bind {A B} (r : res A) (f : A -> res B) : res B :=
  match r with Ok a => f a | Exc e => Exc e | Diverge => Diverge end.
Notation "'do' x <- r ;; k" := (bind r (fun x => k)) (at level 200, x pattern, r at level 100, k at level 200).

Definition rmap {A B} (f : A -> B) (r : res A) : res B := bind r (fun a => Ok (f a)).

Fixpoint mapM {A B} (f : A -> res B) (l : list A) : res (list B) :=
  match l with
  | [] => Ok []
  | x :: r => do y <- f x ;; do ys <- mapM f r ;; Ok (y :: ys)
  end.

(* try: ... except Exception: raise e'   (Diverge is not an exception) *)
Definition catch_all {A} (r : res A) (e' : exn) : res A :=
  match r with Exc _ => Exc e' | _ => r end.

Definition zlen {A} (l : list A) : Z := Z.of_nat (length l).

(* slice.indices(len) for step = None: the clamped (start, stop) *)
Definition clamp_index (len : Z) (i : option Z) (dflt : Z) : Z :=
  match i with
  | None => dflt
  | Some i =>
    if i <? 0 then (if i + len <? 0 then 0 else i + len)
    else if len <? i then len else i
  end.
Definition slice_indices (len : Z) (start stop : option Z) : Z * Z :=
  (clamp_index len start 0, clamp_index len stop len).

(* l[start:stop] on Python sequences *)
Definition py_slice {A} (l : list A) (start stop : option Z) : list A :=
  let '(s, e) := slice_indices (zlen l) start stop in
  firstn (Z.to_nat (e - s)) (skipn (Z.to_nat s) l).

(* l[i] with Python's negative indices and IndexError *)
Definition py_index {A} (l : list A) (i : Z) : res A :=
  let j := if i <? 0 then i + zlen l else i in
  if (j <? 0) || (zlen l <=? j) then Exc IndexError
  else match nth_error l (Z.to_nat j) with Some x => Ok x | None => Exc IndexError end.

(* bytes(n) *)
Definition zeros (n : Z) : list Z := repeat 0 (Z.to_nat n).

(* int.to_bytes(1,'big') : OverflowError outside 0..255 *)
Definition is_byte (x : Z) : bool := (0 <=? x) && (x <? 256).
Definition to_byte (x : Z) : res Z := if is_byte x then Ok x else Exc OverflowError.
Definition check_bytes (l : list Z) : res (list Z) := if forallb is_byte l then Ok l else Exc OverflowError.

(* int.from_bytes(bs,'big') *)
Fixpoint val (bs : list Z) : Z :=
  match bs with [] => 0 | b :: r => b * 256 ^ (Z.of_nat (length r)) + val r end.

(* n.to_bytes(k,'big') for 0 <= n < 256^k *)
Fixpoint bytes_of (k : nat) (n : Z) : list Z :=
  match k with O => [] | S k' => (n / 256 ^ Z.of_nat k') mod 256 :: bytes_of k' n end.

Fixpoint list_eqb {A} (eqb : A -> A -> bool) (a b : list A) : bool :=
  match a, b with
  | [], [] => true
  | x :: a', y :: b' => eqb x y && list_eqb eqb a' b'
  | _, _ => false
  end.
