(* PySort.v -- what CPython's list.sort (Objects/listobject.c, Objects/listsort.txt; CPython 3.12) does to a
   list of FEWER THAN 64 elements, for an arbitrary "less than" test lt (ISLT(x, y) in the C code, i.e.
   x < y on the key objects; with key=cmp_to_key(cmp) this is cmp(x, y) < 0).  lt need not be an order:
   the functions below follow the C code comparison by comparison.

     list_sort_impl, n < 2          : nothing is compared, the list is left alone
     merge_compute_minrun(n), n < 64: minrun = n, so the whole list is ONE run:
       count_run                    : if lt a[1] a[0] the run is strictly descending, it is extended while
                                      lt a[i] a[i-1] and then reversed in place (reverse_slice);
                                      otherwise it is extended while not (lt a[i] a[i-1])
       binarysort(lo, hi, start)    : for each further element pivot = a[start]:
                                        l = 0; r = start
                                        do { p = l + ((r - l) >> 1); if lt pivot a[p] then r = p else l = p + 1 } while (l < r)
                                      and pivot is inserted at index l (a[l .. start-1] move one slot right)
     one run is pushed, merge_force_collapse has nothing to merge.
   For 64 elements or more (minrun < n, galloping merges) the model answers None.
   Generic in the element type and in lt; the generic lemmas used by the SCHC layers are proved here. *)
From Coq Require Import List Bool Arith Lia Permutation.
Import ListNotations.

(* ---- count_run ---------------------------------------------------------------------------------- *)
(* ascending: the elements after prev that stay in the run, and the others *)
Fixpoint run_asc {A} (lt : A -> A -> bool) (prev : A) (l : list A) : list A * list A :=
  match l with
  | [] => ([], [])
  | x :: r => if lt x prev then ([], l) else let '(run, rest) := run_asc lt x r in (x :: run, rest)
  end.

(* strictly descending: acc is the run so far REVERSED (prev is its head); the result is the reversed
   run (what reverse_slice leaves in the list) and the other elements *)
Fixpoint run_desc {A} (lt : A -> A -> bool) (prev : A) (acc : list A) (l : list A) : list A * list A :=
  match l with
  | [] => (acc, [])
  | x :: r => if lt x prev then run_desc lt x (x :: acc) r else (acc, l)
  end.

(* the initial run of a0 :: a1 :: r made ascending, and the elements after it *)
Definition count_run {A} (lt : A -> A -> bool) (a0 a1 : A) (r : list A) : list A * list A :=
  if lt a1 a0 then run_desc lt a1 [a1; a0] r
  else let '(run, rest) := run_asc lt a1 r in (a0 :: a1 :: run, rest).

(* ---- binarysort --------------------------------------------------------------------------------- *)
(* the binary search of binarysort on a[l .. r-1]; the interval shrinks at every step, fuel = its size
   is enough (bisect_total); None when the fuel runs out or an index is outside a *)
Fixpoint bisect {A} (lt : A -> A -> bool) (fuel : nat) (a : list A) (pivot : A) (l r : nat) : option nat :=
  if l <? r then
    match fuel with
    | O => None
    | S f =>
      let p := l + (r - l) / 2 in
      match nth_error a p with
      | None => None
      | Some x => if lt pivot x then bisect lt f a pivot l p else bisect lt f a pivot (S p) r
      end
    end
  else Some l.

Definition insert_at {A} (k : nat) (x : A) (a : list A) : list A := firstn k a ++ x :: skipn k a.

(* a = the sorted part a[0 .. start-1], rest = a[start ..] *)
Fixpoint binsort {A} (lt : A -> A -> bool) (a : list A) (rest : list A) : option (list A) :=
  match rest with
  | [] => Some a
  | pivot :: rest' =>
    match bisect lt (length a) a pivot 0 (length a) with
    | None => None
    | Some k => binsort lt (insert_at k pivot a) rest'
    end
  end.

(* ---- list.sort ---------------------------------------------------------------------------------- *)
Definition py_sort {A} (lt : A -> A -> bool) (l : list A) : option (list A) :=
  if 64 <=? length l then None
  else match l with
       | a0 :: a1 :: r => let '(run, rest) := count_run lt a0 a1 r in binsort lt run rest
       | _ => Some l
       end.

(* no element is below its predecessor *)
Fixpoint no_descent {A} (lt : A -> A -> bool) (l : list A) : bool :=
  match l with
  | x :: ((y :: _) as r) => negb (lt y x) && no_descent lt r
  | _ => true
  end.

(* ================================================================================================== *)
(* facts                                                                                               *)
(* ================================================================================================== *)

(* ---- a list without descent is left alone ------------------------------------------------------- *)
Lemma run_asc_no_descent {A} (lt : A -> A -> bool) l : forall prev,
  no_descent lt (prev :: l) = true -> run_asc lt prev l = (l, []).
Proof.
  induction l as [|x l IH]; intros prev H; [reflexivity|].
  change (no_descent lt (prev :: x :: l)) with (negb (lt x prev) && no_descent lt (x :: l)) in H.
  apply andb_prop in H as [H1 H2]. apply negb_true_iff in H1.
  cbn [run_asc]. rewrite H1, (IH x H2). reflexivity.
Qed.

Theorem py_sort_no_descent {A} (lt : A -> A -> bool) l :
  no_descent lt l = true -> length l < 64 -> py_sort lt l = Some l.
Proof.
  intros H HL. unfold py_sort. destruct (Nat.leb_spec 64 (length l)); [lia|].
  destruct l as [|a0 [|a1 r]]; try reflexivity.
  change (no_descent lt (a0 :: a1 :: r)) with (negb (lt a1 a0) && no_descent lt (a1 :: r)) in H.
  apply andb_prop in H as [H1 H2]. apply negb_true_iff in H1.
  unfold count_run. rewrite H1, (run_asc_no_descent lt r a1 H2). reflexivity.
Qed.

Theorem py_sort_none {A} (lt : A -> A -> bool) l : 64 <= length l -> py_sort lt l = None.
Proof. intros H. unfold py_sort. destruct (Nat.leb_spec 64 (length l)); [reflexivity|lia]. Qed.

(* ---- the result is a permutation of the list ---------------------------------------------------- *)
Lemma run_asc_app {A} (lt : A -> A -> bool) l : forall prev run rest,
  run_asc lt prev l = (run, rest) -> l = run ++ rest.
Proof.
  induction l as [|x l IH]; intros prev run rest H; cbn [run_asc] in H.
  - injection H as <- <-. reflexivity.
  - destruct (lt x prev); [injection H as <- <-; reflexivity|].
    destruct (run_asc lt x l) as [run' rest'] eqn:E. injection H as <- <-.
    cbn [app]. f_equal. exact (IH _ _ _ E).
Qed.

Lemma run_desc_rev {A} (lt : A -> A -> bool) l : forall prev acc run rest,
  run_desc lt prev acc l = (run, rest) -> rev acc ++ l = rev run ++ rest.
Proof.
  induction l as [|x l IH]; intros prev acc run rest H; cbn [run_desc] in H.
  - injection H as <- <-. reflexivity.
  - destruct (lt x prev); [|injection H as <- <-; reflexivity].
    apply IH in H. cbn [rev] in H. rewrite <- app_assoc in H. exact H.
Qed.

Lemma count_run_perm {A} (lt : A -> A -> bool) a0 a1 r run rest :
  count_run lt a0 a1 r = (run, rest) -> Permutation (a0 :: a1 :: r) (run ++ rest).
Proof.
  unfold count_run. destruct (lt a1 a0).
  - intros H. apply run_desc_rev in H. cbn [rev app] in H. rewrite H.
    apply Permutation_app_tail. symmetry. apply Permutation_rev.
  - destruct (run_asc lt a1 r) as [run' rest'] eqn:E. intros H. injection H as <- <-.
    rewrite (run_asc_app _ _ _ _ _ E). reflexivity.
Qed.

Lemma insert_at_perm {A} k (x : A) a : Permutation (x :: a) (insert_at k x a).
Proof. unfold insert_at. rewrite <- (firstn_skipn k a) at 1. apply Permutation_middle. Qed.

Lemma binsort_perm {A} (lt : A -> A -> bool) rest : forall a out,
  binsort lt a rest = Some out -> Permutation (a ++ rest) out.
Proof.
  induction rest as [|pivot rest IH]; intros a out H; cbn [binsort] in H.
  - injection H as <-. now rewrite app_nil_r.
  - destruct (bisect lt (length a) a pivot 0 (length a)) as [k|]; [|discriminate].
    apply IH in H. rewrite <- H. rewrite <- Permutation_middle.
    change (Permutation ((pivot :: a) ++ rest) (insert_at k pivot a ++ rest)).
    apply Permutation_app_tail. apply insert_at_perm.
Qed.

Theorem py_sort_perm {A} (lt : A -> A -> bool) l out : py_sort lt l = Some out -> Permutation l out.
Proof.
  unfold py_sort. destruct (64 <=? length l); [discriminate|].
  destruct l as [|a0 [|a1 r]]; try (intros H; injection H as <-; reflexivity).
  destruct (count_run lt a0 a1 r) as [run rest] eqn:E. intros H.
  rewrite (count_run_perm lt _ _ _ _ _ E). now apply binsort_perm with (lt := lt).
Qed.

Corollary py_sort_length {A} (lt : A -> A -> bool) l out : py_sort lt l = Some out -> length out = length l.
Proof. intros H. symmetry. apply Permutation_length. now apply py_sort_perm with (lt := lt). Qed.

Corollary py_sort_in {A} (lt : A -> A -> bool) l out x : py_sort lt l = Some out -> In x out <-> In x l.
Proof.
  intros H. apply py_sort_perm in H. split; intros I.
  - apply Permutation_in with (l := out); [symmetry; exact H|exact I].
  - apply Permutation_in with (l := l); [exact H|exact I].
Qed.

(* ---- the fuel is enough: below 64 elements the model always answers ----------------------------- *)
Lemma div2_lt n : 0 < n -> n / 2 < n.
Proof. intros H. apply Nat.div_lt; lia. Qed.

Lemma bisect_total {A} (lt : A -> A -> bool) a pivot fuel : forall l r,
  l <= r <= length a -> r - l <= fuel -> exists k, bisect lt fuel a pivot l r = Some k /\ l <= k <= r.
Proof.
  induction fuel as [|f IH]; intros l r H1 H2.
  - assert (l = r) as -> by lia. exists r. destruct r; cbn [bisect]; rewrite ?Nat.ltb_irrefl; split; auto.
  - cbn [bisect]. destruct (Nat.ltb_spec l r) as [Hlt|Hge]; [|exists l; split; [reflexivity|lia]].
    pose proof (div2_lt (r - l) ltac:(lia)) as Hd.
    destruct (nth_error a (l + (r - l) / 2)) as [x|] eqn:E.
    + destruct (lt pivot x).
      * destruct (IH l (l + (r - l) / 2) ltac:(lia) ltac:(lia)) as (k & Hk & Hb). exists k. split; [exact Hk|lia].
      * destruct (IH (S (l + (r - l) / 2)) r ltac:(lia) ltac:(lia)) as (k & Hk & Hb). exists k. split; [exact Hk|lia].
    + apply nth_error_None in E. lia.
Qed.

Lemma insert_at_length {A} k (x : A) a : length (insert_at k x a) = S (length a).
Proof. rewrite <- (Permutation_length (insert_at_perm k x a)). reflexivity. Qed.

Lemma binsort_total {A} (lt : A -> A -> bool) rest : forall a, exists out, binsort lt a rest = Some out.
Proof.
  induction rest as [|pivot rest IH]; intros a; cbn [binsort]; [now exists a|].
  destruct (bisect_total lt a pivot (length a) 0 (length a) ltac:(lia) ltac:(lia)) as (k & -> & _).
  apply IH.
Qed.

Theorem py_sort_total {A} (lt : A -> A -> bool) l : length l < 64 -> exists out, py_sort lt l = Some out.
Proof.
  intros H. unfold py_sort. destruct (Nat.leb_spec 64 (length l)); [lia|].
  destruct l as [|a0 [|a1 r]]; try (eexists; reflexivity).
  destruct (count_run lt a0 a1 r) as [run rest]. apply binsort_total.
Qed.

(* ---- two lists sorted with tests that agree on related elements --------------------------------- *)
Definition opt_rel {A B} (R : A -> B -> Prop) (x : option A) (y : option B) : Prop :=
  match x, y with Some a, Some b => R a b | None, None => True | _, _ => False end.

Lemma Forall2_length_eq {A B} (R : A -> B -> Prop) la lb : Forall2 R la lb -> length la = length lb.
Proof. induction 1; cbn [length]; auto. Qed.

Lemma Forall2_nth_error {A B} (R : A -> B -> Prop) la lb : Forall2 R la lb ->
  forall k, opt_rel R (nth_error la k) (nth_error lb k).
Proof.
  induction 1 as [|a b la lb H _ IH]; intros [|k]; cbn [nth_error opt_rel]; auto.
Qed.

Lemma Forall2_firstn {A B} (R : A -> B -> Prop) la lb : Forall2 R la lb -> forall k, Forall2 R (firstn k la) (firstn k lb).
Proof. induction 1; intros [|k]; cbn [firstn]; constructor; auto. Qed.

Lemma Forall2_skipn {A B} (R : A -> B -> Prop) la lb : Forall2 R la lb -> forall k, Forall2 R (skipn k la) (skipn k lb).
Proof. induction 1; intros [|k]; cbn [skipn]; try constructor; auto. Qed.

Lemma Forall2_rev_acc {A B} (R : A -> B -> Prop) la lb : Forall2 R la lb -> Forall2 R (rev la) (rev lb).
Proof. induction 1; cbn [rev]; [constructor|]. apply Forall2_app; [assumption|repeat constructor; assumption]. Qed.

Section Rel.
  Context {A B : Type} (R : A -> B -> Prop) (lt1 : A -> A -> bool) (lt2 : B -> B -> bool).
  Context (Hlt : forall a b a' b', R a a' -> R b b' -> lt1 a b = lt2 a' b').

  Definition pair_rel (x : list A * list A) (y : list B * list B) : Prop :=
    Forall2 R (fst x) (fst y) /\ Forall2 R (snd x) (snd y).

  Lemma run_asc_rel l l' : Forall2 R l l' -> forall p p', R p p' -> pair_rel (run_asc lt1 p l) (run_asc lt2 p' l').
  Proof.
    induction 1 as [|x x' l l' Hx Hl IH]; intros p p' Hp; cbn [run_asc].
    - split; constructor.
    - rewrite (Hlt _ _ _ _ Hx Hp). destruct (lt2 x' p').
      + split; cbn [fst snd]; constructor; assumption.
      + specialize (IH x x' Hx). destruct (run_asc lt1 x l), (run_asc lt2 x' l'). destruct IH as [I1 I2].
        split; cbn [fst snd] in *; [constructor|]; assumption.
  Qed.

  Lemma run_desc_rel l l' : Forall2 R l l' -> forall p p' acc acc', R p p' -> Forall2 R acc acc' ->
    pair_rel (run_desc lt1 p acc l) (run_desc lt2 p' acc' l').
  Proof.
    induction 1 as [|x x' l l' Hx Hl IH]; intros p p' acc acc' Hp Hacc; cbn [run_desc].
    - split; [exact Hacc|constructor].
    - rewrite (Hlt _ _ _ _ Hx Hp). destruct (lt2 x' p').
      + apply IH; [exact Hx|constructor; assumption].
      + split; cbn [fst snd]; [exact Hacc|constructor; assumption].
  Qed.

  Lemma count_run_rel a0 a0' a1 a1' r r' : R a0 a0' -> R a1 a1' -> Forall2 R r r' ->
    pair_rel (count_run lt1 a0 a1 r) (count_run lt2 a0' a1' r').
  Proof.
    intros H0 H1 Hr. unfold count_run. rewrite (Hlt _ _ _ _ H1 H0). destruct (lt2 a1' a0').
    - apply run_desc_rel; [exact Hr|exact H1|repeat constructor; assumption].
    - pose proof (run_asc_rel r r' Hr a1 a1' H1) as H.
      destruct (run_asc lt1 a1 r), (run_asc lt2 a1' r'). destruct H as [I1 I2].
      split; cbn [fst snd] in *; [repeat constructor|]; assumption.
  Qed.

  Lemma bisect_rel a a' p p' : Forall2 R a a' -> R p p' -> forall fuel l r,
    bisect lt1 fuel a p l r = bisect lt2 fuel a' p' l r.
  Proof.
    intros Ha Hp. induction fuel as [|f IH]; intros l r; cbn [bisect]; [reflexivity|].
    destruct (l <? r); [|reflexivity].
    pose proof (Forall2_nth_error R a a' Ha (l + (r - l) / 2)) as H.
    destruct (nth_error a _) as [x|], (nth_error a' _) as [x'|]; cbn [opt_rel] in H; try contradiction; [|reflexivity].
    rewrite (Hlt _ _ _ _ Hp H). destruct (lt2 p' x'); apply IH.
  Qed.

  Lemma binsort_rel rest rest' : Forall2 R rest rest' -> forall a a', Forall2 R a a' ->
    opt_rel (Forall2 R) (binsort lt1 a rest) (binsort lt2 a' rest').
  Proof.
    induction 1 as [|p p' rest rest' Hp Hr IH]; intros a a' Ha; cbn [binsort]; [exact Ha|].
    rewrite (bisect_rel a a' p p' Ha Hp), (Forall2_length_eq R a a' Ha).
    destruct (bisect lt2 (length a') a' p' 0 (length a')) as [k|]; [|exact I].
    apply IH. unfold insert_at. apply Forall2_app; [now apply Forall2_firstn|].
    constructor; [exact Hp|now apply Forall2_skipn].
  Qed.

  Theorem py_sort_rel l l' : Forall2 R l l' -> opt_rel (Forall2 R) (py_sort lt1 l) (py_sort lt2 l').
  Proof.
    intros H. unfold py_sort. rewrite (Forall2_length_eq R l l' H). destruct (64 <=? length l'); [exact I|].
    destruct H as [|a0 a0' l l' H0 H]; [constructor|].
    destruct H as [|a1 a1' r r' H1 Hr]; [repeat constructor; assumption|].
    pose proof (count_run_rel a0 a0' a1 a1' r r' H0 H1 Hr) as HC.
    destruct (count_run lt1 a0 a1 r), (count_run lt2 a0' a1' r'). destruct HC as [I1 I2]. cbn [fst snd] in *.
    now apply binsort_rel.
  Qed.
End Rel.
