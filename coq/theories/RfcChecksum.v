(* RfcChecksum.v -- RFC-side definitions of the values the compute actions must regenerate:
   Internet checksum (RFC 1071) as arithmetic modulo 65535, UDP checksum with IPv6 (RFC 8200
   section 8.1) and IPv4 (RFC 768) pseudo-headers, IPv4 header checksum (RFC 791), CRC-32c
   bit-serial definition (RFC 9260 appendix A).  Independent of Compute.v.  Definitions only. *)
From Coq Require Import ZArith List Bool.
From MS Require Import PyBase Bits.
Import ListNotations.
Open Scope Z_scope.

(* zero padding on the right up to a multiple of k bits *)
Definition pad_to (k : nat) (b : bits) : bits := b ++ repeat false ((k - length b mod k) mod k).

(* the i-th k-bit word of b *)
Definition word (k : nat) (b : bits) (i : nat) : Z := Z_of_bits (firstn k (skipn (k * i) b)).
Definition words (k : nat) (b : bits) : list Z :=
  let p := pad_to k b in map (word k p) (seq 0 (length p / k)).

(* RFC 1071: the one's complement sum of the 16-bit words.  In one's complement arithmetic the
   sum of words not all zero is the representative in 1..65535 of their sum modulo 65535. *)
Definition sum16 (b : bits) : Z := fold_right Z.add 0 (words 16 b).
Definition ones_complement_sum (b : bits) : Z :=
  let s := sum16 b in if s =? 0 then 0 else (s - 1) mod 65535 + 1.
Definition inet_checksum (b : bits) : Z := 65535 - ones_complement_sum b.

(* length in bytes of a bit string (rounded up) *)
Definition nbytes (b : bits) : Z := (zlen b + 7) / 8.

(* RFC 791: checksum over the header with the checksum field zero *)
Definition rfc_ipv4_header_checksum (hdr_with_zero_checksum : bits) : Z := inet_checksum hdr_with_zero_checksum.

(* RFC 768 / RFC 8200 8.1: pseudo-header ++ UDP header (checksum zero) ++ data; zero is sent as all ones *)
Definition pseudo_v6 (src dst : bits) (upper_len : Z) : bits :=
  src ++ dst ++ bits_of 32 upper_len ++ repeat false 24 ++ bits_of 8 17.
Definition pseudo_v4 (src dst : bits) (udp_len : Z) : bits :=
  src ++ dst ++ repeat false 8 ++ bits_of 8 17 ++ bits_of 16 udp_len.
Definition rfc_udp_checksum (pseudo : bits) (udp_with_zero_checksum : bits) : Z :=
  let c := inet_checksum (pseudo ++ udp_with_zero_checksum) in if c =? 0 then 65535 else c.

(* CRC-32c, reflected, polynomial 0x82F63B78, one bit at a time *)
Definition crc_bit_step (crc : Z) : Z :=
  if Z.odd crc then Z.lxor (Z.shiftr crc 1) 2197175160 else Z.shiftr crc 1.
Fixpoint iter (n : nat) (f : Z -> Z) (x : Z) : Z := match n with O => x | S k => iter k f (f x) end.
Definition crc_byte_step (crc byte : Z) : Z := iter 8 crc_bit_step (Z.lxor crc byte).
(* register after feeding the bytes, starting from all ones (no final complement) *)
Definition crc32c_register (bytes : list Z) : Z := fold_left crc_byte_step bytes 4294967295.
(* RFC 9260: the CRC value is the complement of the register; it is stored least significant byte first *)
Definition crc32c_value (bytes : list Z) : Z := Z.lxor (crc32c_register bytes) 4294967295.
Definition bytes_of_bits (b : bits) : list Z := words 8 b.
Definition le32 (x : Z) : bits :=
  bits_of 8 x ++ bits_of 8 (Z.shiftr x 8) ++ bits_of 8 (Z.shiftr x 16) ++ bits_of 8 (Z.shiftr x 24).
Definition rfc_sctp_checksum_field (packet_with_zero_checksum : bits) : bits :=
  le32 (crc32c_value (bytes_of_bits packet_with_zero_checksum)).
