(* RfcHeaders.v -- RFC-side descriptions of well-formed messages and of the field lists a parser must
   return for them, written from RFC 8200 (IPv6), RFC 791 (IPv4, IHL = 5), RFC 768 (UDP), RFC 7252
   section 3 / 3.1 (CoAP) and RFC 9260 section 3 (SCTP), independently of Parsers.v.
   For each protocol: a structured message, its well-formedness, its wire encoding, and the field
   list (identifier, occurrence position, bits) the RFC layout prescribes.  Definitions only. *)
From Coq Require Import ZArith List Bool.
From MS Require Import PyBase Bits Schc.
Import ListNotations.
Open Scope Z_scope.

Definition fd (p : proto) (i : Z) (pos : Z) (v : bits) : field := mkfield (mkfid p i) v pos.
Definition has_len (b : bits) (n : nat) : Prop := length b = n.

(* ---- IPv6, RFC 8200 section 3 ---------------------------------------------------------------- *)
Record ipv6_hdr := mk_ipv6 { v6_tc : bits; v6_flow : bits; v6_plen : bits; v6_nh : bits; v6_hlim : bits; v6_src : bits; v6_dst : bits }.
Definition ipv6_wf (h : ipv6_hdr) : Prop :=
  has_len (v6_tc h) 8 /\ has_len (v6_flow h) 20 /\ has_len (v6_plen h) 16 /\ has_len (v6_nh h) 8 /\ has_len (v6_hlim h) 8 /\
  has_len (v6_src h) 128 /\ has_len (v6_dst h) 128.
Definition ipv6_encode (h : ipv6_hdr) : bits :=
  bits_of 4 6 ++ v6_tc h ++ v6_flow h ++ v6_plen h ++ v6_nh h ++ v6_hlim h ++ v6_src h ++ v6_dst h.
Definition ipv6_fields (h : ipv6_hdr) : list field :=
  [fd P_IPv6 0 0 (bits_of 4 6); fd P_IPv6 1 0 (v6_tc h); fd P_IPv6 2 0 (v6_flow h); fd P_IPv6 3 0 (v6_plen h);
   fd P_IPv6 4 0 (v6_nh h); fd P_IPv6 5 0 (v6_hlim h); fd P_IPv6 6 0 (v6_src h); fd P_IPv6 7 0 (v6_dst h)].

(* ---- IPv4, RFC 791 section 3.1 (no options: the library does not parse them) ------------------- *)
Record ipv4_hdr := mk_ipv4 { v4_ihl : bits; v4_tos : bits; v4_tlen : bits; v4_id : bits; v4_flags : bits; v4_frag : bits;
                             v4_ttl : bits; v4_proto : bits; v4_csum : bits; v4_src : bits; v4_dst : bits }.
Definition ipv4_wf (h : ipv4_hdr) : Prop :=
  has_len (v4_ihl h) 4 /\ has_len (v4_tos h) 8 /\ has_len (v4_tlen h) 16 /\ has_len (v4_id h) 16 /\ has_len (v4_flags h) 3 /\
  has_len (v4_frag h) 13 /\ has_len (v4_ttl h) 8 /\ has_len (v4_proto h) 8 /\ has_len (v4_csum h) 16 /\
  has_len (v4_src h) 32 /\ has_len (v4_dst h) 32.
Definition ipv4_encode (h : ipv4_hdr) : bits :=
  bits_of 4 4 ++ v4_ihl h ++ v4_tos h ++ v4_tlen h ++ v4_id h ++ v4_flags h ++ v4_frag h ++ v4_ttl h ++ v4_proto h ++
  v4_csum h ++ v4_src h ++ v4_dst h.
Definition ipv4_fields (h : ipv4_hdr) : list field :=
  [fd P_IPv4 0 0 (bits_of 4 4); fd P_IPv4 1 0 (v4_ihl h); fd P_IPv4 2 0 (v4_tos h); fd P_IPv4 3 0 (v4_tlen h);
   fd P_IPv4 4 0 (v4_id h); fd P_IPv4 5 0 (v4_flags h); fd P_IPv4 6 0 (v4_frag h); fd P_IPv4 7 0 (v4_ttl h);
   fd P_IPv4 8 0 (v4_proto h); fd P_IPv4 9 0 (v4_csum h); fd P_IPv4 10 0 (v4_src h); fd P_IPv4 11 0 (v4_dst h)].

(* ---- UDP, RFC 768 ---------------------------------------------------------------------------- *)
Record udp_hdr := mk_udp { u_sport : bits; u_dport : bits; u_len : bits; u_csum : bits }.
Definition udp_wf (h : udp_hdr) : Prop :=
  has_len (u_sport h) 16 /\ has_len (u_dport h) 16 /\ has_len (u_len h) 16 /\ has_len (u_csum h) 16.
Definition udp_encode (h : udp_hdr) : bits := u_sport h ++ u_dport h ++ u_len h ++ u_csum h.
Definition udp_fields (h : udp_hdr) : list field :=
  [fd P_UDP 0 0 (u_sport h); fd P_UDP 1 0 (u_dport h); fd P_UDP 2 0 (u_len h); fd P_UDP 3 0 (u_csum h)].

(* ---- CoAP, RFC 7252 section 3 and 3.1 -------------------------------------------------------- *)
(* an option: its delta to the previous option number and its value (a whole number of bytes) *)
Record coap_opt := mk_opt { o_delta : Z; o_value : bits }.
Definition o_len (o : coap_opt) : Z := zlen (o_value o) / 8.
(* the 4-bit nibble and the extension bytes of a delta or length x (section 3.1) *)
Definition nibble (x : Z) : Z := if x <? 13 then x else if x <? 269 then 13 else 14.
Definition extension (x : Z) : bits :=
  if x <? 13 then [] else if x <? 269 then bits_of 8 (x - 13) else bits_of 16 (x - 269).
Definition opt_wf (o : coap_opt) : Prop :=
  0 <= o_delta o < 269 + 65536 /\ zlen (o_value o) mod 8 = 0 /\ o_len o < 269 + 65536.
Definition opt_encode (o : coap_opt) : bits :=
  bits_of 4 (nibble (o_delta o)) ++ bits_of 4 (nibble (o_len o)) ++ extension (o_delta o) ++ extension (o_len o) ++ o_value o.

Record coap_msg := mk_coap { c_ver : bits; c_type : bits; c_tkl : Z; c_code : bits; c_mid : bits; c_token : bits;
                             c_opts : list coap_opt; c_payload : option bits }.
Definition coap_wf (m : coap_msg) : Prop :=
  has_len (c_ver m) 2 /\ has_len (c_type m) 2 /\ 0 <= c_tkl m <= 8 /\ has_len (c_code m) 8 /\ has_len (c_mid m) 16 /\
  zlen (c_token m) = 8 * c_tkl m /\ Forall opt_wf (c_opts m).
Definition coap_encode (m : coap_msg) : bits :=
  c_ver m ++ c_type m ++ bits_of 4 (c_tkl m) ++ c_code m ++ c_mid m ++ c_token m ++
  concat (map opt_encode (c_opts m)) ++
  match c_payload m with Some p => bits_of 8 255 ++ p | None => [] end.
(* the header part: everything up to and including the payload marker *)
Definition coap_header_len (m : coap_msg) : Z :=
  zlen (coap_encode m) - match c_payload m with Some p => zlen p | None => 0 end.

(* occurrence positions: each kind of option field is numbered 1, 2, ... in order of appearance *)
Fixpoint opt_fields (os : list coap_opt) (nd nde nle nv : Z) : list field :=
  match os with
  | [] => []
  | o :: r =>
    let de := 13 <=? o_delta o in
    let le := 13 <=? o_len o in
    let hv := 0 <? o_len o in
    let nde' := if de then nde + 1 else nde in
    let nle' := if le then nle + 1 else nle in
    let nv' := if hv then nv + 1 else nv in
    [fd P_CoAP 7 (nd + 1) (bits_of 4 (nibble (o_delta o))); fd P_CoAP 8 (nd + 1) (bits_of 4 (nibble (o_len o)))]
    ++ (if de then [fd P_CoAP 9 nde' (extension (o_delta o))] else [])
    ++ (if le then [fd P_CoAP 10 nle' (extension (o_len o))] else [])
    ++ (if hv then [fd P_CoAP 11 nv' (o_value o)] else [])
    ++ opt_fields r (nd + 1) nde' nle' nv'
  end.
Definition coap_fields (m : coap_msg) : list field :=
  [fd P_CoAP 0 0 (c_ver m); fd P_CoAP 1 0 (c_type m); fd P_CoAP 2 0 (bits_of 4 (c_tkl m)); fd P_CoAP 3 0 (c_code m); fd P_CoAP 4 0 (c_mid m)]
  ++ (if 0 <? c_tkl m then [fd P_CoAP 5 0 (c_token m)] else [])
  ++ opt_fields (c_opts m) 0 0 0 0
  ++ match c_payload m with Some _ => [fd P_CoAP 6 0 (bits_of 8 255)] | None => [] end.

(* ---- SCTP, RFC 9260 section 3 ---------------------------------------------------------------- *)
(* a parameter / error cause: type, value (whole bytes), padding to a multiple of 4 bytes *)
Record sctp_param := mk_param { pa_type : bits; pa_value : bits; pa_pad : bits }.
Definition pa_len (p : sctp_param) : Z := 4 + zlen (pa_value p) / 8.
Definition pad_bits (nbytes : Z) : Z := 8 * ((4 - nbytes mod 4) mod 4).
Definition param_wf (p : sctp_param) : Prop :=
  has_len (pa_type p) 16 /\ zlen (pa_value p) mod 8 = 0 /\ pa_len p < 65536 /\ zlen (pa_pad p) = pad_bits (pa_len p).
Definition param_encode (p : sctp_param) : bits := pa_type p ++ bits_of 16 (pa_len p) ++ pa_value p ++ pa_pad p.
Definition param_fields (p : sctp_param) : list field :=
  [fd P_SCTP 33 0 (pa_type p); fd P_SCTP 34 0 (bits_of 16 (pa_len p))]
  ++ (if 0 <? zlen (pa_value p) then [fd P_SCTP 35 0 (pa_value p)] else [])
  ++ (if 0 <? zlen (pa_pad p) then [fd P_SCTP 36 0 (pa_pad p)] else []).

Inductive chunk_body :=
| CB_data (tsn sid ssn ppid data : bits)
| CB_init (ack : bool) (tag arwnd nout nin itsn : bits) (params : list sctp_param)
| CB_sack (cum arwnd : bits) (gaps : list (bits * bits)) (dups : list bits)
| CB_params (ctype : Z) (params : list sctp_param)      (* HEARTBEAT 4, HEARTBEAT ACK 5, ABORT 6, ERROR 9 *)
| CB_shutdown (cum : bits)
| CB_empty (ctype : Z)                                  (* SHUTDOWN ACK 8, COOKIE ACK 11, SHUTDOWN COMPLETE 14 *)
| CB_cookie (cookie : bits)
| CB_other (ctype : Z) (value : bits).

Record sctp_chunk := mk_chunk { ch_flags : bits; ch_body : chunk_body; ch_pad : bits }.

Definition chunk_type (b : chunk_body) : Z :=
  match b with
  | CB_data _ _ _ _ _ => 0 | CB_init false _ _ _ _ _ _ => 1 | CB_init true _ _ _ _ _ _ => 2 | CB_sack _ _ _ _ => 3
  | CB_params t _ => t | CB_shutdown _ => 7 | CB_empty t => t | CB_cookie _ => 10 | CB_other t _ => t
  end.
Definition chunk_value (b : chunk_body) : bits :=
  match b with
  | CB_data tsn sid ssn ppid data => tsn ++ sid ++ ssn ++ ppid ++ data
  | CB_init _ tag arwnd nout nin itsn ps => tag ++ arwnd ++ nout ++ nin ++ itsn ++ concat (map param_encode ps)
  | CB_sack cum arwnd gaps dups =>
    cum ++ arwnd ++ bits_of 16 (zlen gaps) ++ bits_of 16 (zlen dups) ++
    concat (map (fun g => fst g ++ snd g) gaps) ++ concat dups
  | CB_params _ ps => concat (map param_encode ps)
  | CB_shutdown cum => cum
  | CB_empty _ => []
  | CB_cookie c => c
  | CB_other _ v => v
  end.
Definition body_wf (b : chunk_body) : Prop :=
  match b with
  | CB_data tsn sid ssn ppid data => has_len tsn 32 /\ has_len sid 16 /\ has_len ssn 16 /\ has_len ppid 32 /\ zlen data mod 8 = 0 /\ 0 < zlen data
  | CB_init _ tag arwnd nout nin itsn ps => has_len tag 32 /\ has_len arwnd 32 /\ has_len nout 16 /\ has_len nin 16 /\ has_len itsn 32 /\ Forall param_wf ps
  | CB_sack cum arwnd gaps dups =>
    has_len cum 32 /\ has_len arwnd 32 /\ Forall (fun g => has_len (fst g) 16 /\ has_len (snd g) 16) gaps /\
    Forall (fun d => has_len d 32) dups /\ zlen gaps < 65536 /\ zlen dups < 65536
  | CB_params t ps => (t = 4 \/ t = 5 \/ t = 6 \/ t = 9) /\ Forall param_wf ps
  | CB_shutdown cum => has_len cum 32
  | CB_empty t => t = 8 \/ t = 11 \/ t = 14
  | CB_cookie c => zlen c mod 8 = 0 /\ 0 < zlen c
  | CB_other t v => 0 <= t < 256 /\ ~ In t [0; 1; 2; 3; 4; 5; 6; 7; 8; 9; 10; 11; 14] /\ zlen v mod 8 = 0
  end.
Definition ch_len (c : sctp_chunk) : Z := 4 + zlen (chunk_value (ch_body c)) / 8.
Definition chunk_wf (c : sctp_chunk) : Prop :=
  has_len (ch_flags c) 8 /\ body_wf (ch_body c) /\ ch_len c < 65536 /\ zlen (ch_pad c) = pad_bits (ch_len c).
Definition chunk_encode (c : sctp_chunk) : bits :=
  bits_of 8 (chunk_type (ch_body c)) ++ ch_flags c ++ bits_of 16 (ch_len c) ++ chunk_value (ch_body c) ++ ch_pad c.

Definition body_fields (b : chunk_body) : list field :=
  match b with
  | CB_data tsn sid ssn ppid data =>
    [fd P_SCTP 9 0 tsn; fd P_SCTP 10 0 sid; fd P_SCTP 11 0 ssn; fd P_SCTP 12 0 ppid; fd P_SCTP 13 0 data]
  | CB_init false tag arwnd nout nin itsn ps =>
    [fd P_SCTP 14 0 tag; fd P_SCTP 15 0 arwnd; fd P_SCTP 16 0 nout; fd P_SCTP 17 0 nin; fd P_SCTP 18 0 itsn] ++ concat (map param_fields ps)
  | CB_init true tag arwnd nout nin itsn ps =>
    [fd P_SCTP 19 0 tag; fd P_SCTP 20 0 arwnd; fd P_SCTP 21 0 nout; fd P_SCTP 22 0 nin; fd P_SCTP 23 0 itsn] ++ concat (map param_fields ps)
  | CB_sack cum arwnd gaps dups =>
    [fd P_SCTP 24 0 cum; fd P_SCTP 25 0 arwnd; fd P_SCTP 26 0 (bits_of 16 (zlen gaps)); fd P_SCTP 27 0 (bits_of 16 (zlen dups))]
    ++ concat (map (fun g => [fd P_SCTP 28 0 (fst g); fd P_SCTP 29 0 (snd g)]) gaps)
    ++ map (fun d => fd P_SCTP 30 0 d) dups
  | CB_params _ ps => concat (map param_fields ps)
  | CB_shutdown cum => [fd P_SCTP 31 0 cum]
  | CB_empty _ => []
  | CB_cookie c => [fd P_SCTP 32 0 c]
  | CB_other _ v => if 0 <? zlen v then [fd P_SCTP 7 0 v] else []
  end.
Definition chunk_fields (c : sctp_chunk) : list field :=
  [fd P_SCTP 4 0 (bits_of 8 (chunk_type (ch_body c))); fd P_SCTP 5 0 (ch_flags c); fd P_SCTP 6 0 (bits_of 16 (ch_len c))]
  ++ body_fields (ch_body c)
  ++ (if 0 <? zlen (ch_pad c) then [fd P_SCTP 8 0 (ch_pad c)] else []).

Record sctp_pkt := mk_sctp { s_sport : bits; s_dport : bits; s_tag : bits; s_csum : bits; s_chunks : list sctp_chunk }.
Definition sctp_wf (p : sctp_pkt) : Prop :=
  has_len (s_sport p) 16 /\ has_len (s_dport p) 16 /\ has_len (s_tag p) 32 /\ has_len (s_csum p) 32 /\ Forall chunk_wf (s_chunks p).
Definition sctp_encode (p : sctp_pkt) : bits :=
  s_sport p ++ s_dport p ++ s_tag p ++ s_csum p ++ concat (map chunk_encode (s_chunks p)).
Definition sctp_fields (p : sctp_pkt) : list field :=
  [fd P_SCTP 0 0 (s_sport p); fd P_SCTP 1 0 (s_dport p); fd P_SCTP 2 0 (s_tag p); fd P_SCTP 3 0 (s_csum p)]
  ++ concat (map chunk_fields (s_chunks p)).
