(* Schc.v -- model of the SCHC core of microschc over bit sequences:
   rfc8724.py (data model), actions/compression.py, matching/operators.py, compressor/compressor.py,
   decompressor/decompressor.py, ruler/ruler.py, manager/manager.py, /repo/microschc.py (front end).
   Buffers are bit lists here; that Buffer operations act on bit lists is what the Buffer layer
   (Buffer.v + BufferSpec) establishes.  Definitions only. *)
From Coq Require Import ZArith List Bool.
From MS Require Import PyBase Bits PySort.
Import ListNotations.
Open Scope Z_scope.

(* ---- identifiers and enums ------------------------------------------------------------------ *)
Inductive proto := P_IPv4 | P_IPv6 | P_UDP | P_CoAP | P_SCTP | P_Other.
Definition proto_eqb (a b : proto) : bool :=
  match a, b with
  | P_IPv4, P_IPv4 | P_IPv6, P_IPv6 | P_UDP, P_UDP | P_CoAP, P_CoAP | P_SCTP, P_SCTP | P_Other, P_Other => true
  | _, _ => false
  end.
(* a field identifier: the protocol whose header-id prefixes the name, and the rank of the name *)
Record fid := mkfid { fproto : proto; fidx : Z }.
Definition fid_eqb (a b : fid) : bool := proto_eqb (fproto a) (fproto b) && (fidx a =? fidx b).

Inductive dir := Up | Dw | Bi.
Definition dir_eqb (a b : dir) : bool :=
  match a, b with Up, Up | Dw, Dw | Bi, Bi => true | _, _ => false end.
Inductive mo := MO_equal | MO_ignore | MO_msb | MO_mapping.
Inductive cda := NotSent | LSB | MappingSent | ValueSent | Compute.
Inductive nature := Compression | NoCompression | Fragmentation.

Definition bits_eqb : bits -> bits -> bool := list_eqb Bool.eqb.

(* MatchMapping: forward dict value -> index, in insertion order *)
Inductive tv := TVbuf (b : bits) | TVmap (forward : list (bits * bits)).

Record rfd := mkrfd { r_id : fid; r_len : Z; r_pos : Z; r_dir : dir; r_tv : tv; r_mo : mo; r_cda : cda }.
Record rule := mkrule { rule_id : bits; rule_nature : nature; rule_fds : list rfd }.
Record field := mkfield { f_id : fid; f_val : bits; f_pos : Z }.
Record pdesc := mkpdesc { pd_dir : dir; pd_fields : list field; pd_payload : bits }.

Definition blength (b : bits) : Z := zlen b.

(* dict keyed by Buffers, at the bit level: first key with equal bits *)
Fixpoint assoc_get {V} (d : list (bits * V)) (k : bits) : option V :=
  match d with
  | [] => None
  | (k', v) :: r => if bits_eqb k' k then Some v else assoc_get r k
  end.
Fixpoint assoc_set {V} (d : list (bits * V)) (k : bits) (v : V) : list (bits * V) :=
  match d with
  | [] => [(k, v)]
  | (k', v') :: r => if bits_eqb k' k then (k', v) :: r else (k', v') :: assoc_set r k v
  end.
(* MatchMapping.__init__: reverse = {v: k for k, v in forward.items()} *)
Definition reverse_of (forward : list (bits * bits)) : list (bits * bits) :=
  fold_left (fun acc kv => assoc_set acc (snd kv) (fst kv)) forward [].

(* rule field descriptors that apply to a direction *)
Definition applies (d : dir) (rf : rfd) : bool := dir_eqb (r_dir rf) d || dir_eqb (r_dir rf) Bi.
Definition select_fds (direction : option dir) (fds : list rfd) : list rfd :=
  match direction with None => fds | Some d => filter (applies d) fds end.

(* ---- compressor ----------------------------------------------------------------------------- *)
(* _encode_length, RFC 8724 section 7.4.2 *)
Definition encode_length (n : Z) : res bits :=
  if negb (n <? 65536) then Exc AssertionError
  else if n <? 15 then Ok (bits_of 4 n)
  else if n <? 255 then Ok ([true; true; true; true] ++ bits_of 8 n)
  else Ok (repeat true 12 ++ bits_of 16 n).

(* least_significant_bits on a left-padded field value: the last n bits (0 <= n <= length) *)
Definition lsb_bits (v : bits) (n : Z) : res bits :=
  if (n <? 0) || (zlen v <? n) then Exc Unmodelled
  else Ok (skipn (Z.to_nat (zlen v - n)) v).

Definition residue_of (pf : field) (rf : rfd) : res (option bits) :=
  match r_cda rf with
  | NotSent | Compute => Ok None
  | LSB =>
    match r_tv rf with
    | TVbuf pat => do r <- lsb_bits (f_val pf) (zlen (f_val pf) - zlen pat) ;; Ok (Some r)
    | TVmap _ => Exc AssertionError
    end
  | MappingSent =>
    match r_tv rf with
    | TVmap fw => match assoc_get fw (f_val pf) with Some i => Ok (Some i) | None => Exc KeyError end
    | TVbuf _ => Exc AssertionError
    end
  | ValueSent => Ok (Some (f_val pf))
  end.

Definition announces_length (rf : rfd) : bool :=
  match r_cda rf with LSB | ValueSent => r_len rf =? 0 | _ => false end.

Fixpoint compress_fields (pfs : list field) (rfs : list rfd) (acc : bits) : res bits :=
  match pfs, rfs with
  | pf :: pfs', rf :: rfs' =>
    do ro <- residue_of pf rf ;;
    match ro with
    | None => compress_fields pfs' rfs' acc
    | Some residue =>
      do pre <- (if announces_length rf then encode_length (zlen residue) else Ok []) ;;
      compress_fields pfs' rfs' (acc ++ pre ++ residue)
    end
  | _, _ => Ok acc
  end.

Definition compress (pd : pdesc) (r : rule) (direction : option dir) : res bits :=
  match rule_nature r with
  | Compression =>
    do body <- compress_fields (pd_fields pd) (select_fds direction (rule_fds r)) (rule_id r) ;;
    Ok (body ++ pd_payload pd)
  | NoCompression =>
    Ok (rule_id r ++ concat (map f_val (pd_fields pd)) ++ pd_payload pd)
  | Fragmentation => Ok (rule_id r)     (* neither branch of the if/elif: the bare rule id *)
  end.

(* ---- decompressor --------------------------------------------------------------------------- *)
(* _decode_variable_length_residue: (residue, bits consumed) *)
Definition decode_var (s : bits) : bits * Z :=
  let v := Z_of_bits (py_slice s (Some 0) (Some 4)) in
  if v <? 15 then (py_slice s (Some 4) (Some (4 + v)), 4 + v)
  else
    let v := Z_of_bits (py_slice s (Some 4) (Some 12)) in
    if v <? 255 then (py_slice s (Some 12) (Some (12 + v)), 12 + v)
    else
      let v := Z_of_bits (py_slice s (Some 12) (Some 28)) in
      (py_slice s (Some 28) (Some (28 + v)), 28 + v).

(* for key, value in reverse.items(): if key == schc[0:key.length]: ... break *)
Fixpoint reverse_lookup (rev : list (bits * bits)) (s : bits) : option (bits * bits) :=
  match rev with
  | [] => None
  | (key, value) :: r =>
    if bits_eqb key (py_slice s (Some 0) (Some (zlen key))) then Some (key, value) else reverse_lookup r s
  end.

(* a compute function: (all decompressed fields incl. payload entry, position) -> field value *)
Definition compute_fn := list (fid * bits) -> Z -> res bits.
(* ComputeFunctions[field_id]: function and the ids it depends on (None = KeyError) *)
Definition compute_table := fid -> option (compute_fn * list fid).

Record centry := mkcentry { ce_pos : Z; ce_id : fid; ce_fn : compute_fn; ce_deps : list fid }.

(* decompress one field: (field value, residue bits consumed, compute entry) *)
Definition decompress_field (ct : compute_table) (pos : Z) (rf : rfd) (s : bits) : res (bits * Z * option centry) :=
  match r_cda rf with
  | NotSent =>
    match r_tv rf with TVbuf t => Ok (t, 0, None) | TVmap _ => Exc TypeError end
  | LSB =>
    match r_tv rf with
    | TVmap _ => Exc AssertionError
    | TVbuf t =>
      if negb (r_len rf =? 0) then
        let n := r_len rf - zlen t in
        Ok (t ++ py_slice s None (Some n), n, None)
      else let '(residue, rb) := decode_var s in Ok (t ++ residue, rb, None)
    end
  | MappingSent =>
    match r_tv rf with
    | TVbuf _ => Exc AssertionError
    | TVmap fw =>
      match reverse_lookup (reverse_of fw) s with
      | Some (key, value) => Ok (value, zlen key, None)
      | None => Ok ([], 0, None)
      end
    end
  | ValueSent =>
    match r_tv rf with
    | TVmap _ => Exc AssertionError
    | TVbuf _ =>
      if negb (r_len rf =? 0) then Ok (py_slice s (Some 0) (Some (r_len rf)), r_len rf, None)
      else let '(residue, rb) := decode_var s in Ok (residue, rb, None)
    end
  | Compute =>
    if r_len rf <? 0 then Exc Unmodelled
    else match ct (r_id rf) with
         | None => Exc KeyError
         | Some (fn, deps) => Ok (repeat false (Z.to_nat (r_len rf)), 0, Some (mkcentry pos (r_id rf) fn deps))
         end
  end.

Fixpoint decompress_fields (ct : compute_table) (pos : Z) (rfs : list rfd) (s : bits)
  : res (list (fid * bits) * list centry * bits) :=
  match rfs with
  | [] => Ok ([], [], s)
  | rf :: rfs' =>
    do x <- decompress_field ct pos rf s ;;
    let '(v, rb, ce) := x in
    do rest <- decompress_fields ct (pos + 1) rfs' (py_slice s (Some rb) None) ;;
    let '(fs, ces, s') := rest in
    Ok ((r_id rf, v) :: fs, (match ce with Some e => [e] | None => [] end) ++ ces, s')
  end.

(* compute_function_sort *)
Definition in_fids (x : fid) (l : list fid) : bool := existsb (fid_eqb x) l.
Definition ce_cmp (e1 e2 : centry) : Z :=
  if in_fids (ce_id e1) (ce_deps e2) then -1
  else if in_fids (ce_id e2) (ce_deps e1) then 1
  else ce_pos e1 - ce_pos e2.
(* compute_entries.sort(key=cmp_to_key(compute_function_sort)): list.sort only asks whether x < y on the
   keys, i.e. whether compute_function_sort(x, y) < 0.  The comparison is not an order in general; the
   result is what CPython's algorithm computes (PySort.py_sort: count_run + binary insertion, fewer than
   64 entries; None for 64 entries or more) *)
Definition ce_lt (e1 e2 : centry) : bool := ce_cmp e1 e2 <? 0.
Definition py_sort_ces (l : list centry) : option (list centry) := py_sort ce_lt l.
(* list.sort leaves a list alone when no element compares below its predecessor
   (SchcCodec.py_sort_sorted) *)
Fixpoint ce_sorted (l : list centry) : bool :=
  match l with
  | e1 :: ((e2 :: _) as r) => negb (ce_cmp e2 e1 <? 0) && ce_sorted r
  | _ => true
  end.

Fixpoint list_set {A} (l : list A) (i : nat) (x : A) : list A :=
  match l, i with
  | [], _ => []
  | _ :: r, O => x :: r
  | y :: r, S i' => y :: list_set r i' x
  end.

Fixpoint run_computes (ces : list centry) (fields : list (fid * bits)) : res (list (fid * bits)) :=
  match ces with
  | [] => Ok fields
  | e :: r =>
    do v <- ce_fn e fields (ce_pos e) ;;
    run_computes r (list_set fields (Z.to_nat (ce_pos e)) (ce_id e, v))
  end.

Definition payload_fid : fid := mkfid P_Other 0.

Definition decompress (ct : compute_table) (s : bits) (r : rule) (direction : option dir) : res bits :=
  let s := py_slice s (Some (zlen (rule_id r))) None in
  do x <- decompress_fields ct 0 (select_fds direction (rule_fds r)) s ;;
  let '(fs, ces, rest) := x in
  let fs := fs ++ [(payload_fid, rest)] in
  match py_sort_ces ces with
  | None => Exc Unmodelled
  | Some ces' =>
    do fs' <- run_computes ces' fs ;;
    Ok (concat (map snd fs'))
  end.

(* ---- rule matching -------------------------------------------------------------------------- *)
Definition msb_match (v pat : bits) : bool :=
  if zlen v <? zlen pat then false
  else bits_eqb (firstn (length pat) v) pat.

Definition field_match (pf : field) (rf : rfd) : res bool :=
  if negb (fid_eqb (f_id pf) (r_id rf)) then Ok false
  else match r_mo rf with
  | MO_ignore => Ok true
  | MO_equal =>
    match r_tv rf with TVbuf t => Ok (bits_eqb (f_val pf) t) | TVmap _ => Exc AssertionError end
  | MO_msb =>
    if negb (r_len rf =? 0) && negb (r_len rf =? zlen (f_val pf)) then Ok false
    else match r_tv rf with TVbuf pat => Ok (msb_match (f_val pf) pat) | TVmap _ => Exc AssertionError end
  | MO_mapping =>
    match r_tv rf with
    | TVmap fw => Ok (match assoc_get fw (f_val pf) with Some _ => true | None => false end)
    | TVbuf _ => Exc AssertionError
    end
  end.

(* any(_field_match(pf, rf) == False for (pf, rf) in zip(...)): short-circuits on the first mismatch *)
Fixpoint any_mismatch (pfs : list field) (rfs : list rfd) : res bool :=
  match pfs, rfs with
  | pf :: pfs', rf :: rfs' =>
    do m <- field_match pf rf ;;
    if m then any_mismatch pfs' rfs' else Ok true
  | _, _ => Ok false
  end.

Definition rule_matches (pd : pdesc) (r : rule) : res bool :=
  match rule_nature r with
  | NoCompression => Ok true
  | Compression =>
    let rfs := filter (applies (pd_dir pd)) (rule_fds r) in
    if negb (length (pd_fields pd) =? length rfs)%nat then Ok false
    else do mm <- any_mismatch (pd_fields pd) rfs ;; Ok (negb mm)
  | Fragmentation => Ok false           (* neither branch of the if/elif: the rule is never yielded *)
  end.

(* the generator Ruler.match_packet_descriptor: the rules yielded, until the generator raises *)
Inductive gen (A : Type) := GDone | GYield (a : A) (rest : gen A) | GRaise (e : exn).
Arguments GDone {A}. Arguments GYield {A} a rest. Arguments GRaise {A} e.

Fixpoint match_packet_descriptor (rules : list rule) (pd : pdesc) : gen rule :=
  match rules with
  | [] => GDone
  | r :: rs =>
    match rule_matches pd r with
    | Ok true => GYield r (match_packet_descriptor rs pd)
    | Ok false => match_packet_descriptor rs pd
    | Exc e => GRaise e
    | Diverge => GRaise Unmodelled
    end
  end.

(* Ruler.match_schc_packet *)
Fixpoint match_schc_loop (rules : list rule) (s : bits) : option rule :=
  match rules with
  | [] => None
  | r :: rs =>
    if zlen s <? zlen (rule_id r) then match_schc_loop rs s
    else if bits_eqb (rule_id r) (py_slice s (Some 0) (Some (zlen (rule_id r)))) then Some r
    else match_schc_loop rs s
  end.
Definition match_schc_packet (rules : list rule) (s : bits) : res rule :=
  match match_schc_loop rules s with Some r => Ok r | None => Exc RuleIDMatchError end.

(* ---- ContextManager ------------------------------------------------------------------------- *)
Inductive strategy := FIRST | BEST.

Fixpoint best_loop (pd : pdesc) (direction : dir) (g : gen rule) (best : option bits) : res (option bits) :=
  match g with
  | GDone => Ok best
  | GRaise e => Exc e
  | GYield r rest =>
    do c <- compress pd r (Some direction) ;;
    let best' := match best with
                 | None => Some c
                 | Some b => if zlen c <? zlen b then Some c else Some b
                 end in
    best_loop pd direction rest best'
  end.

(* a stack parser: bits -> (fields, payload) *)
Definition parser := bits -> res (list field * bits).

Definition cm_compress (parse : parser) (rules : list rule) (packet : bits) (direction : dir) (st : strategy) : res bits :=
  do p <- parse packet ;;
  let pd := mkpdesc direction (fst p) (snd p) in
  match st with
  | FIRST =>
    match match_packet_descriptor rules pd with
    | GYield r _ => compress pd r (Some direction)
    | GDone => Exc RuleDescriptorMatchError
    | GRaise e => Exc e
    end
  | BEST =>
    do b <- best_loop pd direction (match_packet_descriptor rules pd) None ;;
    match b with Some s => Ok s | None => Exc RuleDescriptorMatchError end
  end.

Definition cm_decompress (ct : compute_table) (rules : list rule) (s : bits) (direction : option dir) : res bits :=
  do r <- match_schc_packet rules s ;; decompress ct s r direction.

(* ---- /repo/microschc.py: the multi-context front end ---------------------------------------- *)
Record context := mkctx { ctx_parse : parser; ctx_rules : list rule }.

Fixpoint schc_compress (ctxs : list context) (packet : bits) : res bits :=
  match ctxs with
  | [] => Ok packet
  | c :: cs =>
    match cm_compress (ctx_parse c) (ctx_rules c) packet Up FIRST with
    | Exc ParserError | Exc RuleDescriptorMatchError => schc_compress cs packet
    | r => r
    end
  end.

Fixpoint schc_decompress (ct : compute_table) (ctxs : list context) (packet : bits) : res bits :=
  match ctxs with
  | [] => Ok packet
  | c :: cs =>
    match cm_decompress ct (ctx_rules c) packet (Some Up) with
    | Exc RuleIDMatchError => schc_decompress ct cs packet
    | r => r
    end
  end.
