(* SchcBytes.v -- the compressor, the decompressor (without the compute stage) and the matching
   operators written once more at the BYTE level, i.e. with the Buffer operations of Buffer.v
   (b_add, b_getitem, b_eq, b_shift, lsb_bytes, prefix_value, dict_get ...) exactly where the Python
   code uses Buffer objects.  SchcRefine.v proves that, on canonical buffers, these functions denote
   (through abs) the bit-level functions of Schc.v: this is what composes the two model layers into
   one statement.  Definitions only. *)
From Coq Require Import ZArith List Bool.
From MS Require Import PyBase Buffer Bits Schc.
Import ListNotations.
Open Scope Z_scope.

Inductive btv := BTVbuf (b : buf) | BTVmap (forward : list (buf * buf)).
Record brfd := mkbrfd { br_id : fid; br_len : Z; br_pos : Z; br_dir : dir; br_tv : btv; br_mo : mo; br_cda : cda }.
Record brule := mkbrule { brule_id : buf; brule_nature : nature; brule_fds : list brfd }.
Record bfield := mkbfield { bf_id : fid; bf_val : buf; bf_pos : Z }.
Record bpdesc := mkbpdesc { bpd_dir : dir; bpd_fields : list bfield; bpd_payload : buf }.

Definition bapplies (d : dir) (rf : brfd) : bool := dir_eqb (br_dir rf) d || dir_eqb (br_dir rf) Bi.
Definition bselect_fds (direction : option dir) (fds : list brfd) : list brfd :=
  match direction with None => fds | Some d => filter (bapplies d) fds end.

(* _encode_length: Buffer(content, length) with left padding *)
Definition bencode_length (n : Z) : res buf :=
  if negb (n <? 65536) then Exc AssertionError
  else if n <? 15 then b_new [n] 4 LEFT
  else if n <? 255 then b_new [15; n] 12 LEFT
  else b_new ([15; 255] ++ bytes_of 2 n) 28 LEFT.

Definition bresidue_of (pf : bfield) (rf : brfd) : res (option buf) :=
  match br_cda rf with
  | NotSent | Compute => Ok None
  | LSB =>
    match br_tv rf with
    | BTVbuf pat => do r <- lsb_bytes (bf_val pf) (blen (bf_val pf) - blen pat) ;; Ok (Some r)
    | BTVmap _ => Exc AssertionError
    end
  | MappingSent =>
    match br_tv rf with
    | BTVmap fw => do o <- dict_get fw (bf_val pf) ;; match o with Some i => Ok (Some i) | None => Exc KeyError end
    | BTVbuf _ => Exc AssertionError
    end
  | ValueSent => Ok (Some (bf_val pf))
  end.

Definition bannounces_length (rf : brfd) : bool :=
  match br_cda rf with LSB | ValueSent => br_len rf =? 0 | _ => false end.

(* schc_packet += encoded_length ; schc_packet += field_residue *)
Fixpoint bcompress_fields (pfs : list bfield) (rfs : list brfd) (acc : buf) : res buf :=
  match pfs, rfs with
  | pf :: pfs', rf :: rfs' =>
    do ro <- bresidue_of pf rf ;;
    match ro with
    | None => bcompress_fields pfs' rfs' acc
    | Some residue =>
      do acc1 <- (if bannounces_length rf then do pre <- bencode_length (blen residue) ;; b_add acc pre else Ok acc) ;;
      do acc2 <- b_add acc1 residue ;;
      bcompress_fields pfs' rfs' acc2
    end
  | _, _ => Ok acc
  end.

Fixpoint badd_all (acc : buf) (l : list buf) : res buf :=
  match l with [] => Ok acc | x :: r => do a <- b_add acc x ;; badd_all a r end.

Definition bcompress (pd : bpdesc) (r : brule) (direction : option dir) : res buf :=
  do e <- b_new [] 0 RIGHT ;;
  do s0 <- b_add e (brule_id r) ;;
  match brule_nature r with
  | Compression =>
    do body <- bcompress_fields (bpd_fields pd) (bselect_fds direction (brule_fds r)) s0 ;;
    b_add body (bpd_payload pd)
  | NoCompression =>
    do body <- badd_all s0 (map bf_val (bpd_fields pd)) ;;
    b_add body (bpd_payload pd)
  | Fragmentation => Ok s0              (* neither branch of the if/elif: the empty buffer + the rule id *)
  end.

(* ---- decompressor (field extraction and concatenation; no compute fields) -------------------- *)
Definition bdecode_var (s : buf) : res (buf * Z) :=
  do l4 <- b_getitem s (Some 0) (Some 4) ;;
  do v <- prefix_value l4 ;;
  if v <? 15 then do r <- b_getitem s (Some 4) (Some (4 + v)) ;; Ok (r, 4 + v)
  else
    do l8 <- b_getitem s (Some 4) (Some 12) ;;
    do v <- prefix_value l8 ;;
    if v <? 255 then do r <- b_getitem s (Some 12) (Some (12 + v)) ;; Ok (r, 12 + v)
    else
      do l16 <- b_getitem s (Some 12) (Some 28) ;;
      do v <- prefix_value l16 ;;
      do r <- b_getitem s (Some 28) (Some (28 + v)) ;; Ok (r, 28 + v).

(* MatchMapping.reverse: {v: k for k, v in forward.items()} *)
Definition breverse_of (fw : list (buf * buf)) : res (list (buf * buf)) :=
  dict_of_list [] (map (fun kv => (snd kv, fst kv)) fw).

Fixpoint breverse_lookup (rev : list (buf * buf)) (s : buf) : res (option (buf * buf)) :=
  match rev with
  | [] => Ok None
  | (key, value) :: r =>
    do sl <- b_getitem s (Some 0) (Some (blen key)) ;;
    do e <- b_eq key sl ;;
    if e then Ok (Some (key, value)) else breverse_lookup r s
  end.

(* decompressed_field = Buffer(b'', 0, RIGHT); decompressed_field += ... : (field, residue bits consumed) *)
Definition bdecompress_field (rf : brfd) (s : buf) : res (buf * Z) :=
  do e <- b_new [] 0 RIGHT ;;
  match br_cda rf with
  | NotSent =>
    match br_tv rf with BTVbuf t => do f <- b_add e t ;; Ok (f, 0) | BTVmap _ => Exc TypeError end
  | LSB =>
    match br_tv rf with
    | BTVmap _ => Exc AssertionError
    | BTVbuf t =>
      do rr <- (if negb (br_len rf =? 0) then
                  let n := br_len rf - blen t in
                  do r <- b_getitem s None (Some n) ;; Ok (r, n)
                else bdecode_var s) ;;
      do f1 <- b_add e t ;; do f2 <- b_add f1 (fst rr) ;; Ok (f2, snd rr)
    end
  | MappingSent =>
    match br_tv rf with
    | BTVbuf _ => Exc AssertionError
    | BTVmap fw =>
      do rv <- breverse_of fw ;;
      do o <- breverse_lookup rv s ;;
      match o with
      | Some (key, value) => do f <- b_add e value ;; Ok (f, blen key)
      | None => Ok (e, 0)
      end
    end
  | ValueSent =>
    match br_tv rf with
    | BTVmap _ => Exc AssertionError
    | BTVbuf _ =>
      do rr <- (if negb (br_len rf =? 0) then do r <- b_getitem s (Some 0) (Some (br_len rf)) ;; Ok (r, br_len rf)
                else bdecode_var s) ;;
      do f <- b_add e (fst rr) ;; Ok (f, snd rr)
    end
  | Compute => Exc Unmodelled      (* the compute stage stays at the bit level *)
  end.

Fixpoint bdecompress_fields (rfs : list brfd) (s : buf) : res (list buf * buf) :=
  match rfs with
  | [] => Ok ([], s)
  | rf :: rfs' =>
    do x <- bdecompress_field rf s ;;
    do s' <- b_getitem s (Some (snd x)) None ;;
    do rest <- bdecompress_fields rfs' s' ;;
    Ok (fst x :: fst rest, snd rest)
  end.

Definition bdecompress (s : buf) (r : brule) (direction : option dir) : res buf :=
  do s1 <- b_getitem s (Some (blen (brule_id r))) None ;;
  do x <- bdecompress_fields (bselect_fds direction (brule_fds r)) s1 ;;
  do e <- b_new [] 0 RIGHT ;;
  badd_all e (fst x ++ [snd x]).

(* ---- matching operators ---------------------------------------------------------------------- *)
(* most_significant_bits: (length guard) ; field.shift(len - pattern len, inplace=False) == pattern *)
Definition bmsb_match (v pat : buf) : res bool :=
  if blen v <? blen pat then Ok false
  else do sh <- b_shift v (blen v - blen pat) false ;; b_eq sh pat.

Definition bfield_match (pf : bfield) (rf : brfd) : res bool :=
  if negb (fid_eqb (bf_id pf) (br_id rf)) then Ok false
  else match br_mo rf with
  | MO_ignore => Ok true
  | MO_equal =>
    match br_tv rf with BTVbuf t => b_eq (bf_val pf) t | BTVmap _ => Exc AssertionError end
  | MO_msb =>
    if negb (br_len rf =? 0) && negb (br_len rf =? blen (bf_val pf)) then Ok false
    else match br_tv rf with BTVbuf pat => bmsb_match (bf_val pf) pat | BTVmap _ => Exc AssertionError end
  | MO_mapping =>
    match br_tv rf with
    | BTVmap fw => do o <- dict_get fw (bf_val pf) ;; Ok (match o with Some _ => true | None => false end)
    | BTVbuf _ => Exc AssertionError
    end
  end.

(* Ruler.match_schc_packet: rule_id == schc_packet[0:rule_id.length] *)
Fixpoint bmatch_schc_loop (rules : list brule) (s : buf) : res (option brule) :=
  match rules with
  | [] => Ok None
  | r :: rs =>
    if blen s <? blen (brule_id r) then bmatch_schc_loop rs s
    else
      do sl <- b_getitem s (Some 0) (Some (blen (brule_id r))) ;;
      do e <- b_eq (brule_id r) sl ;;
      if e then Ok (Some r) else bmatch_schc_loop rs s
  end.

(* ---- the abstraction to the bit level -------------------------------------------------------- *)
(* (defined with an explicit abs parameter so that this file does not depend on the proof files) *)
Definition abs_tv (ab : buf -> bits) (t : btv) : tv :=
  match t with BTVbuf b => TVbuf (ab b) | BTVmap fw => TVmap (map (fun kv => (ab (fst kv), ab (snd kv))) fw) end.
Definition abs_rfd (ab : buf -> bits) (f : brfd) : rfd :=
  mkrfd (br_id f) (br_len f) (br_pos f) (br_dir f) (abs_tv ab (br_tv f)) (br_mo f) (br_cda f).
Definition abs_rule (ab : buf -> bits) (r : brule) : rule :=
  mkrule (ab (brule_id r)) (brule_nature r) (map (abs_rfd ab) (brule_fds r)).
Definition abs_field (ab : buf -> bits) (f : bfield) : field := mkfield (bf_id f) (ab (bf_val f)) (bf_pos f).
Definition abs_pdesc (ab : buf -> bits) (p : bpdesc) : pdesc :=
  mkpdesc (bpd_dir p) (map (abs_field ab) (bpd_fields p)) (ab (bpd_payload p)).
