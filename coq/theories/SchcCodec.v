From Coq Require Import ZArith List Bool Lia. From MS Require Import PyBase Bits BufferAbs Schc SchcSpec. Import ListNotations. Open Scope Z_scope.
(* SchcCodec.v -- the compressor produces the RFC 8724 layout (C02), the decompressor inverts it
   field by field (C03), and the size prefix of section 7.4.2 is encoded / decoded as specified (C17). *)
From MS Require Import ByteFacts PySort.
From Coq Require Import Permutation.

(* ---- lists, slices ---------------------------------------------------------------------------- *)
Lemma firstn_app_len {A} (a b : list A) n : n = length a -> firstn n (a ++ b) = a.
Proof. intros ->. induction a; cbn; [now destruct b|now f_equal]. Qed.

Lemma skipn_app_len {A} (a b : list A) n : n = length a -> skipn n (a ++ b) = b.
Proof. intros ->. induction a; cbn; auto. Qed.

Lemma zlen_to_nat {A} (l : list A) : Z.to_nat (zlen l) = length l.
Proof. unfold zlen. apply Nat2Z.id. Qed.

Lemma py_slice_app_to {A} (a b : list A) e : e = zlen a -> py_slice (a ++ b) (Some 0) (Some e) = a.
Proof.
  intros ->. pose proof (zlen_nonneg a). pose proof (zlen_nonneg b).
  rewrite py_slice_to by (rewrite zlen_app; lia).
  apply firstn_app_len. apply zlen_to_nat.
Qed.

Lemma py_slice_app_l {A} (a b : list A) : py_slice (a ++ b) (Some 0) (Some (zlen a)) = a.
Proof. now apply py_slice_app_to. Qed.

Lemma py_slice_app_from {A} (a b : list A) : py_slice (a ++ b) (Some (zlen a)) None = b.
Proof.
  pose proof (zlen_nonneg a). pose proof (zlen_nonneg b).
  rewrite py_slice_from by (rewrite zlen_app; lia).
  apply skipn_app_len. apply zlen_to_nat.
Qed.

Lemma py_slice_app_mid {A} (a r rest : list A) s e : s = zlen a -> e = zlen a + zlen r ->
  py_slice (a ++ r ++ rest) (Some s) (Some e) = r.
Proof.
  intros -> ->. pose proof (zlen_nonneg a). pose proof (zlen_nonneg r). pose proof (zlen_nonneg rest).
  rewrite py_slice_mid by (rewrite ?zlen_app; lia).
  rewrite skipn_app_len by apply zlen_to_nat.
  apply firstn_app_len. unfold zlen. lia.
Qed.

Lemma py_slice_none_app {A} (a b : list A) n : n = zlen a -> py_slice (a ++ b) None (Some n) = a.
Proof.
  intros ->. pose proof (zlen_nonneg a). pose proof (zlen_nonneg b).
  rewrite py_slice_to_none by (rewrite zlen_app; lia).
  apply firstn_app_len. apply zlen_to_nat.
Qed.

Lemma py_slice_to_gen {A} (l : list A) e : 0 <= e -> py_slice l (Some 0) (Some e) = firstn (Z.to_nat e) l.
Proof.
  intros H. destruct (Z.le_gt_cases e (zlen l)).
  - now rewrite py_slice_to by lia.
  - rewrite py_slice_to_over by lia. rewrite firstn_all2; auto. unfold zlen in *. lia.
Qed.

Lemma map_snd_combine {A B} (a : list A) : forall (b : list B), length b = length a -> map snd (combine a b) = b.
Proof. induction a as [|x a IH]; intros [|y b] H; cbn in *; try discriminate; auto. f_equal. apply IH. lia. Qed.

(* ---- reflection ------------------------------------------------------------------------------- *)
Lemma bits_eqb_refl a : bits_eqb a a = true.
Proof. unfold bits_eqb. induction a as [|x a IH]; cbn; auto. now rewrite eqb_reflx, IH. Qed.

Lemma bits_eqb_eq a : forall b, bits_eqb a b = true -> a = b.
Proof.
  unfold bits_eqb. induction a as [|x a IH]; intros [|y b] H; cbn in H; try discriminate; auto.
  apply andb_prop in H as [H1 H2]. apply eqb_prop in H1. subst. f_equal. now apply IH.
Qed.

Lemma is_prefix_app a b : is_prefix a (a ++ b) = true.
Proof. induction a as [|x a IH]; cbn; auto. now rewrite eqb_reflx, IH. Qed.

Lemma is_prefix_refl a : is_prefix a a = true.
Proof. rewrite <- (app_nil_r a) at 2. apply is_prefix_app. Qed.

Lemma is_prefix_ex a : forall b, is_prefix a b = true -> exists c, b = a ++ c.
Proof.
  induction a as [|x a IH]; intros b H.
  - now exists b.
  - destruct b as [|y b]; cbn in H; [discriminate|].
    apply andb_prop in H as [H1 H2]. apply eqb_prop in H1. subst.
    destruct (IH _ H2) as [c ->]. now exists c.
Qed.

(* two prefixes of the same sequence are comparable *)
Lemma is_prefix_cmp i : forall idx rest, is_prefix i (idx ++ rest) = true ->
  is_prefix i idx = true \/ is_prefix idx i = true.
Proof.
  induction i as [|x i IH]; intros [|y idx] rest H; cbn in *; auto.
  apply andb_prop in H as [H1 H2]. apply eqb_prop in H1. subst.
  rewrite eqb_reflx. cbn [andb]. eauto.
Qed.

(* ---- C17: the size prefix -------------------------------------------------------------------- *)
Theorem encode_length_spec n : 0 <= n < 65536 -> encode_length n = Ok (spec_size n).
Proof.
  intros H. unfold encode_length, spec_size.
  destruct (Z.ltb_spec n 65536); [|lia]. cbn [negb].
  destruct (n <? 15); [reflexivity|]. destruct (n <? 255); reflexivity.
Qed.

Theorem spec_size_len n : 0 <= n < 65536 -> zlen (spec_size n) = spec_size_width n.
Proof.
  intros H. unfold spec_size, spec_size_width, zlen.
  destruct (n <? 15); [|destruct (n <? 255)]; rewrite ?app_length, ?repeat_length, ?bits_of_length; reflexivity.
Qed.

Theorem encode_length_overflow n : 65536 <= n -> encode_length n = Exc AssertionError.
Proof. intros H. unfold encode_length. destruct (Z.ltb_spec n 65536); [lia|]. reflexivity. Qed.

Lemma Z_of_bits_of_small k n : 0 <= n < 2 ^ Z.of_nat k -> Z_of_bits (bits_of k n) = n.
Proof. intros H. rewrite Z_of_bits_of. now apply Z.mod_small. Qed.

Lemma zlen_bits_of k n : zlen (bits_of k n) = Z.of_nat k.
Proof. unfold zlen. now rewrite bits_of_length. Qed.

Theorem decode_var_spec n r rest : 0 <= n < 65536 -> zlen r = n ->
  decode_var (spec_size n ++ r ++ rest) = (r, spec_size_width n + n).
Proof.
  intros Hn Hr. unfold spec_size, spec_size_width, decode_var. cbv zeta.
  destruct (Z.ltb_spec n 15) as [H15|H15]; [|destruct (Z.ltb_spec n 255) as [H255|H255]].
  - rewrite (py_slice_app_to (bits_of 4 n)) by reflexivity.
    rewrite (Z_of_bits_of_small 4) by (change (2 ^ Z.of_nat 4) with 16; lia).
    destruct (Z.ltb_spec n 15); [|lia].
    rewrite py_slice_app_mid by (rewrite ?zlen_bits_of; lia). reflexivity.
  - rewrite <- app_assoc.
    rewrite (py_slice_app_to (repeat true 4)) by reflexivity.
    change (Z_of_bits (repeat true 4) <? 15) with false. cbv iota.
    rewrite (py_slice_app_mid (repeat true 4) (bits_of 8 n) (r ++ rest) 4 12) by reflexivity.
    rewrite (Z_of_bits_of_small 8) by (change (2 ^ Z.of_nat 8) with 256; lia).
    destruct (Z.ltb_spec n 255); [|lia].
    rewrite app_assoc.
    rewrite py_slice_app_mid
      by (rewrite ?zlen_app, ?zlen_bits_of; change (zlen (repeat true 4)) with 4; lia).
    reflexivity.
  - rewrite <- app_assoc.
    set (X := bits_of 16 n ++ r ++ rest).
    assert (E1 : py_slice (repeat true 12 ++ X) (Some 0) (Some 4) = repeat true 4)
      by (apply (py_slice_app_to (repeat true 4) (repeat true 8 ++ X)); reflexivity).
    assert (E2 : py_slice (repeat true 12 ++ X) (Some 4) (Some 12) = repeat true 8)
      by (apply (py_slice_app_mid (repeat true 4) (repeat true 8) X); reflexivity).
    rewrite E1, E2. clear E1 E2. unfold X. clear X.
    change (Z_of_bits (repeat true 4) <? 15) with false.
    change (Z_of_bits (repeat true 8) <? 255) with false. cbv iota.
    rewrite (py_slice_app_mid (repeat true 12) (bits_of 16 n) (r ++ rest) 12 28) by reflexivity.
    rewrite (Z_of_bits_of_small 16) by (change (2 ^ Z.of_nat 16) with 65536; lia).
    rewrite (app_assoc (repeat true 12)).
    rewrite py_slice_app_mid
      by (rewrite ?zlen_app, ?zlen_bits_of; change (zlen (repeat true 12)) with 12; lia).
    reflexivity.
Qed.

Theorem spec_size_prefix_free n m : 0 <= n < 65536 -> 0 <= m < 65536 ->
  is_prefix (spec_size n) (spec_size m) = true -> n = m.
Proof.
  intros Hn Hm H. apply is_prefix_ex in H as [c Hc].
  (* decode the same sequence twice *)
  set (s := spec_size m ++ repeat false (Z.to_nat m) ++ repeat false (Z.to_nat n)).
  assert (Lm : zlen (repeat false (Z.to_nat m)) = m) by (unfold zlen; rewrite repeat_length; lia).
  assert (Ln : zlen (repeat false (Z.to_nat n)) = n) by (unfold zlen; rewrite repeat_length; lia).
  pose proof (decode_var_spec m (repeat false (Z.to_nat m)) (repeat false (Z.to_nat n)) Hm Lm) as D1.
  fold s in D1.
  set (t := c ++ repeat false (Z.to_nat m) ++ repeat false (Z.to_nat n)).
  assert (Lt : n <= zlen t).
  { unfold t. rewrite !zlen_app. pose proof (zlen_nonneg c). lia. }
  assert (Es : s = spec_size n ++ firstn (Z.to_nat n) t ++ skipn (Z.to_nat n) t).
  { rewrite firstn_skipn. unfold s, t. rewrite Hc. now rewrite <- app_assoc. }
  assert (Lf : zlen (firstn (Z.to_nat n) t) = n).
  { unfold zlen in *. rewrite firstn_length. lia. }
  pose proof (decode_var_spec n _ (skipn (Z.to_nat n) t) Hn Lf) as D2.
  rewrite <- Es, D1 in D2. injection D2 as E1 E2.
  rewrite <- Lm, E1, Lf. reflexivity.
Qed.

(* ---- C02: compress is the layout -------------------------------------------------------------- *)
Lemma residue_step pf rf a : spec_residue (f_val pf) rf = Some a ->
  forall pfs rfs acc, compress_fields (pf :: pfs) (rf :: rfs) acc = compress_fields pfs rfs (acc ++ a).
Proof.
  intros H pfs rfs acc. cbn [compress_fields].
  unfold spec_residue in H. unfold residue_of, announces_length.
  destruct rf as [id len p dr tv mo cd]. cbn [r_cda r_tv r_len] in *.
  unfold with_size, var_len in H. cbn [r_len] in H.
  destruct cd.
  - (* NotSent *) injection H as <-. cbn [bind]. now rewrite app_nil_r.
  - (* LSB *)
    destruct tv as [pat|fw]; [|discriminate].
    destruct (Z.leb_spec (zlen pat) (zlen (f_val pf))) as [Hle|]; [|discriminate].
    unfold lsb_bits. pose proof (zlen_nonneg pat).
    destruct (Z.ltb_spec (zlen (f_val pf) - zlen pat) 0); [lia|].
    destruct (Z.ltb_spec (zlen (f_val pf)) (zlen (f_val pf) - zlen pat)); [lia|].
    cbn [orb bind].
    replace (Z.to_nat (zlen (f_val pf) - (zlen (f_val pf) - zlen pat))) with (length pat)
      by (unfold zlen; lia).
    destruct (len =? 0).
    + destruct (Z.ltb_spec (zlen (skipn (length pat) (f_val pf))) 65536); [|discriminate].
      injection H as <-. rewrite encode_length_spec by (split; [apply zlen_nonneg|lia]).
      cbn [bind]. reflexivity.
    + injection H as <-. cbn [bind app]. reflexivity.
  - (* MappingSent *)
    destruct tv as [pat|fw]; [discriminate|]. rewrite H. cbn [bind app]. reflexivity.
  - (* ValueSent *)
    cbn [bind]. destruct (len =? 0).
    + destruct (Z.ltb_spec (zlen (f_val pf)) 65536); [|discriminate].
      injection H as <-. rewrite encode_length_spec by (split; [apply zlen_nonneg|lia]).
      cbn [bind]. reflexivity.
    + injection H as <-. cbn [bind app]. reflexivity.
  - (* Compute *) injection H as <-. cbn [bind]. now rewrite app_nil_r.
Qed.

Theorem compress_fields_spec pfs rfs acc rs :
  spec_residues (map f_val pfs) rfs = Some rs -> compress_fields pfs rfs acc = Ok (acc ++ rs).
Proof.
  revert rfs acc rs. induction pfs as [|pf pfs IH]; intros rfs acc rs H.
  - cbn in H. injection H as <-. cbn. now rewrite app_nil_r.
  - destruct rfs as [|rf rfs].
    + cbn in H. injection H as <-. cbn. now rewrite app_nil_r.
    + cbn [map spec_residues] in H.
      destruct (spec_residue (f_val pf) rf) as [a|] eqn:E1; [|discriminate].
      destruct (spec_residues (map f_val pfs) rfs) as [b|] eqn:E2; [|discriminate].
      injection H as <-. rewrite (residue_step _ _ _ E1). rewrite (IH _ _ _ E2).
      now rewrite <- app_assoc.
Qed.

Theorem compress_layout pd r d s : layout pd r d = Some s -> compress pd r d = Ok s.
Proof.
  unfold layout, compress. destruct (rule_nature r).
  - destruct (spec_residues _ _) as [rs|] eqn:E; [|discriminate].
    intros H. injection H as <-. rewrite (compress_fields_spec _ _ _ _ E). cbn [bind].
    now rewrite <- app_assoc.
  - intros H. now injection H as <-.
  - discriminate.
Qed.

(* what the code does with a fragmentation rule: neither branch of compress applies, the result is the
   bare rule id (no residue, no payload), for every packet descriptor and direction *)
Theorem compress_fragmentation pd r d : rule_nature r = Fragmentation -> compress pd r d = Ok (rule_id r).
Proof. unfold compress. intros ->. reflexivity. Qed.

(* ---- mappings: the reverse dictionary ---------------------------------------------------------- *)
Definition swap (kv : bits * bits) : bits * bits := (snd kv, fst kv).

Lemma assoc_set_fresh {V} (acc : list (bits * V)) k v :
  (forall ka, In ka acc -> bits_eqb (fst ka) k = false) -> assoc_set acc k v = acc ++ [(k, v)].
Proof.
  induction acc as [|[k' v'] acc IH]; intros H; cbn [assoc_set app]; [reflexivity|].
  pose proof (H (k', v') (or_introl eq_refl)) as E. cbn [fst] in E. rewrite E. rewrite IH; [reflexivity|].
  intros ka Hka. apply H. now right.
Qed.

Lemma mapping_wf_cons v i r : mapping_wf ((v, i) :: r) = true ->
  (forall kv, In kv r -> bits_eqb (fst kv) v = false /\ is_prefix i (snd kv) = false /\ is_prefix (snd kv) i = false)
  /\ mapping_wf r = true.
Proof.
  cbn [mapping_wf]. intros H. apply andb_prop in H as [H1 H2]. split; [|exact H2].
  intros kv Hkv. rewrite forallb_forall in H1. specialize (H1 kv Hkv).
  apply andb_prop in H1 as [H1 H3]. apply andb_prop in H1 as [H1 H4].
  repeat split; now apply negb_true_iff.
Qed.

(* with distinct indices assoc_set only ever appends *)
Lemma reverse_fold fw : forall acc, mapping_wf fw = true ->
  (forall kv ka, In kv fw -> In ka acc -> bits_eqb (fst ka) (snd kv) = false) ->
  fold_left (fun acc kv => assoc_set acc (snd kv) (fst kv)) fw acc = acc ++ map swap fw.
Proof.
  induction fw as [|[v i] r IH]; intros acc Hwf Hfresh; cbn [fold_left map].
  - now rewrite app_nil_r.
  - apply mapping_wf_cons in Hwf as [Hr Hwf]. cbn [fst snd].
    rewrite assoc_set_fresh by (intros ka Hka; apply (Hfresh (v, i) ka); [now left|exact Hka]).
    rewrite IH; [now rewrite <- app_assoc| exact Hwf |].
    intros kv ka Hkv Hka. apply in_app_or in Hka as [Hka|[<-|[]]].
    + apply (Hfresh kv ka); [now right|exact Hka].
    + cbn [fst]. destruct (Hr kv Hkv) as (_ & Hp & _).
      destruct (bits_eqb i (snd kv)) eqn:E; [|reflexivity].
      apply bits_eqb_eq in E. rewrite <- E, is_prefix_refl in Hp. discriminate.
Qed.

Lemma reverse_of_wf fw : mapping_wf fw = true -> reverse_of fw = map swap fw.
Proof. intros H. unfold reverse_of. rewrite reverse_fold; auto. intros kv ka _ []. Qed.

Lemma assoc_get_in {V} (d : list (bits * V)) k v : assoc_get d k = Some v -> In (k, v) d.
Proof.
  induction d as [|[k' v'] d IH]; cbn [assoc_get]; [discriminate|].
  destruct (bits_eqb k' k) eqn:E.
  - intros H. injection H as <-. apply bits_eqb_eq in E. subst. now left.
  - intros H. right. auto.
Qed.

Lemma slice_key_prefix key s : bits_eqb key (py_slice s (Some 0) (Some (zlen key))) = true -> is_prefix key s = true.
Proof.
  intros H. apply bits_eqb_eq in H. rewrite py_slice_to_gen in H by apply zlen_nonneg.
  rewrite <- (firstn_skipn (Z.to_nat (zlen key)) s). rewrite <- H. apply is_prefix_app.
Qed.

Lemma reverse_lookup_wf fw : forall v i rest, mapping_wf fw = true -> assoc_get fw v = Some i ->
  reverse_lookup (map swap fw) (i ++ rest) = Some (i, v).
Proof.
  induction fw as [|[v0 i0] r IH]; intros v i rest Hwf Hget; [discriminate|].
  apply mapping_wf_cons in Hwf as [Hr Hwf]. cbn [assoc_get] in Hget.
  cbn [map swap fst snd reverse_lookup]. unfold swap at 1. cbn [fst snd].
  destruct (bits_eqb v0 v) eqn:E.
  - injection Hget as <-. apply bits_eqb_eq in E. subst v0.
    now rewrite py_slice_app_l, bits_eqb_refl.
  - destruct (bits_eqb i0 (py_slice (i ++ rest) (Some 0) (Some (zlen i0)))) eqn:E2.
    + exfalso. apply slice_key_prefix in E2. apply is_prefix_cmp in E2.
      destruct (Hr (v, i) (assoc_get_in _ _ _ Hget)) as (_ & H1 & H2). cbn [snd] in *.
      destruct E2 as [E2|E2]; congruence.
    + now apply IH.
Qed.

(* ---- C03: decompress inverts the layout -------------------------------------------------------- *)
Definition ce_of (ct : compute_table) (pos : Z) (rf : rfd) : option centry :=
  match r_cda rf, ct (r_id rf) with
  | Compute, Some (fn, deps) => Some (mkcentry pos (r_id rf) fn deps)
  | _, _ => None
  end.

Lemma centries_of_cons ct pos rf r :
  centries_of ct pos (rf :: r) = (match ce_of ct pos rf with Some e => [e] | None => [] end) ++ centries_of ct (pos + 1) r.
Proof.
  cbn [centries_of]. unfold ce_of. destruct (r_cda rf); try reflexivity.
  destruct (ct (r_id rf)) as [[fn deps]|]; reflexivity.
Qed.

Lemma decompress_field_strong ct pos rf v res rest :
  wf_field ct rf v = true -> spec_residue v rf = Some res ->
  decompress_field ct pos rf (res ++ rest) = Ok (v, zlen res, ce_of ct pos rf).
Proof.
  unfold wf_field, spec_residue, decompress_field, ce_of, with_size, var_len.
  destruct rf as [id len p dr tv mo cd]. cbn [r_cda r_tv r_len r_id].
  intros Hwf Hsp. destruct cd.
  - (* NotSent *)
    destruct tv as [t|fw]; [|discriminate]. apply bits_eqb_eq in Hwf. subst. now injection Hsp as <-.
  - (* LSB *)
    destruct tv as [pat|fw]; [|discriminate].
    apply andb_prop in Hwf as [Hwf H3]. apply andb_prop in Hwf as [H1 H2].
    rewrite H1 in Hsp. apply is_prefix_ex in H2 as [c ->].
    rewrite skipn_app_len in Hsp by reflexivity. rewrite zlen_app in H3.
    replace (zlen pat + zlen c - zlen pat) with (zlen c) in H3 by lia.
    destruct (len =? 0) eqn:El; cbn [negb].
    + rewrite H3 in Hsp. injection Hsp as <-. apply Z.ltb_lt in H3.
      rewrite <- app_assoc. rewrite decode_var_spec by first [reflexivity | split; [apply zlen_nonneg|lia]].
      rewrite zlen_app, spec_size_len by (split; [apply zlen_nonneg|lia]). reflexivity.
    + injection Hsp as <-. apply Z.eqb_eq in H3. subst len.
      replace (zlen pat + zlen c - zlen pat) with (zlen c) by lia.
      now rewrite py_slice_none_app by reflexivity.
  - (* MappingSent *)
    destruct tv as [t|fw]; [discriminate|].
    apply andb_prop in Hwf as [Hwf _]. rewrite reverse_of_wf by exact Hwf.
    now rewrite (reverse_lookup_wf fw v res rest Hwf Hsp).
  - (* ValueSent *)
    destruct tv as [t|fw]; [|discriminate].
    destruct (len =? 0) eqn:El; cbn [negb].
    + rewrite Hwf in Hsp. injection Hsp as <-. apply Z.ltb_lt in Hwf.
      rewrite <- app_assoc. rewrite decode_var_spec by first [reflexivity | split; [apply zlen_nonneg|lia]].
      rewrite zlen_app, spec_size_len by (split; [apply zlen_nonneg|lia]). reflexivity.
    + injection Hsp as <-. apply Z.eqb_eq in Hwf. subst len.
      now rewrite py_slice_app_l.
  - (* Compute *)
    apply andb_prop in Hwf as [Hwf H3]. apply andb_prop in Hwf as [H1 H2].
    injection Hsp as <-. apply Z.leb_le in H1. apply bits_eqb_eq in H2. subst v.
    destruct (Z.ltb_spec len 0); [lia|].
    destruct (ct id) as [[fn deps]|]; [reflexivity|discriminate].
Qed.

Theorem decompress_field_spec ct pos rf v res rest :
  wf_field ct rf v = true -> spec_residue v rf = Some res ->
  exists ce, decompress_field ct pos rf (res ++ rest) = Ok (v, zlen res, ce) /\
             py_slice (res ++ rest) (Some (zlen res)) None = rest.
Proof.
  intros H1 H2. exists (ce_of ct pos rf). split.
  - now apply decompress_field_strong.
  - apply py_slice_app_from.
Qed.

Theorem decompress_fields_spec ct rfs : forall vs pos rs rest,
  length vs = length rfs -> forallb2 (fun rf v => wf_field ct rf v) rfs vs = true ->
  spec_residues vs rfs = Some rs ->
  decompress_fields ct pos rfs (rs ++ rest) = Ok (combine (map r_id rfs) vs, centries_of ct pos rfs, rest).
Proof.
  induction rfs as [|rf rfs IH]; intros vs pos rs rest Hlen Hwf Hsp.
  - destruct vs; [|discriminate]. cbn in Hsp. injection Hsp as <-. reflexivity.
  - destruct vs as [|v vs]; [discriminate|].
    cbn [forallb2] in Hwf. apply andb_prop in Hwf as [Hwf1 Hwf2].
    cbn [spec_residues] in Hsp.
    destruct (spec_residue v rf) as [a|] eqn:E1; [|discriminate].
    destruct (spec_residues vs rfs) as [b|] eqn:E2; [|discriminate].
    injection Hsp as <-. cbn [length] in Hlen.
    cbn [decompress_fields]. rewrite <- app_assoc.
    rewrite (decompress_field_strong ct pos rf v a (b ++ rest) Hwf1 E1). cbn [bind].
    rewrite py_slice_app_from.
    rewrite (IH vs (pos + 1) b rest ltac:(lia) Hwf2 E2). cbn [bind].
    rewrite centries_of_cons. reflexivity.
Qed.

Lemma concat_fields (ids : list fid) vs (payload : bits) : length vs = length ids ->
  concat (map snd (combine ids vs ++ [(payload_fid, payload)])) = concat vs ++ payload.
Proof.
  intros H. rewrite map_app, concat_app, map_snd_combine by exact H. cbn. now rewrite app_nil_r.
Qed.

(* ---- list.sort on the compute entries -------------------------------------------------------------- *)
Lemma ce_sorted_no_descent l : ce_sorted l = no_descent ce_lt l.
Proof.
  induction l as [|e1 [|e2 l] IH]; try reflexivity.
  change (ce_sorted (e1 :: e2 :: l)) with (negb (ce_cmp e2 e1 <? 0) && ce_sorted (e2 :: l)).
  rewrite IH. reflexivity.
Qed.

(* an already sorted list is left alone *)
Theorem py_sort_sorted ces : ce_sorted ces = true -> (length ces < 64)%nat -> py_sort_ces ces = Some ces.
Proof. rewrite ce_sorted_no_descent. apply py_sort_no_descent. Qed.

(* the sort only reorders *)
Theorem py_sort_ces_perm ces l : py_sort_ces ces = Some l -> Permutation ces l.
Proof. apply py_sort_perm. Qed.

Theorem py_sort_ces_length ces l : py_sort_ces ces = Some l -> length l = length ces.
Proof. apply py_sort_length. Qed.

(* fewer than 64 entries are always sorted, 64 or more never *)
Theorem py_sort_ces_total ces : (length ces < 64)%nat -> exists l, py_sort_ces ces = Some l.
Proof. apply py_sort_total. Qed.

Theorem py_sort_ces_none ces : (64 <= length ces)%nat -> py_sort_ces ces = None.
Proof. apply py_sort_none. Qed.

(* a rule has at most one compute entry per field *)
Lemma centries_length_le ct rfs : forall pos, (length (centries_of ct pos rfs) <= length rfs)%nat.
Proof.
  induction rfs as [|rf rfs IH]; intros pos; [apply Nat.le_refl|].
  rewrite centries_of_cons, app_length. specialize (IH (pos + 1)). cbn [length].
  destruct (ce_of ct pos rf); cbn [length]; lia.
Qed.

(* the layout of decompress with the compute entries in any order list.sort produces *)
Theorem decompress_layout_sort ct r d vs rs payload ces :
  let rfs := select_fds d (rule_fds r) in
  length vs = length rfs -> forallb2 (fun rf v => wf_field ct rf v) rfs vs = true ->
  spec_residues vs rfs = Some rs -> py_sort_ces (centries_of ct 0 rfs) = Some ces ->
  decompress ct (rule_id r ++ rs ++ payload) r d =
    (do fs' <- run_computes ces (combine (map r_id rfs) vs ++ [(payload_fid, payload)]) ;;
     Ok (concat (map snd fs'))).
Proof.
  intros rfs Hlen Hwf Hsp Hso. unfold decompress. cbv zeta. fold rfs.
  rewrite py_slice_app_from.
  rewrite (decompress_fields_spec ct rfs vs 0 rs payload Hlen Hwf Hsp). cbn [bind].
  rewrite Hso. reflexivity.
Qed.

(* ADDED premise (the model of list.sort covers fewer than 64 entries): the bound on the number of
   compute entries; it follows from length rfs < 64 (centries_length_le) *)
Theorem decompress_layout ct r d vs rs payload :
  let rfs := select_fds d (rule_fds r) in
  length vs = length rfs -> forallb2 (fun rf v => wf_field ct rf v) rfs vs = true ->
  spec_residues vs rfs = Some rs -> ce_sorted (centries_of ct 0 rfs) = true ->
  (length (centries_of ct 0 rfs) < 64)%nat ->
  decompress ct (rule_id r ++ rs ++ payload) r d =
    (do fs' <- run_computes (centries_of ct 0 rfs) (combine (map r_id rfs) vs ++ [(payload_fid, payload)]) ;;
     Ok (concat (map snd fs'))).
Proof.
  intros rfs Hlen Hwf Hsp Hso Hn.
  exact (decompress_layout_sort ct r d vs rs payload _ Hlen Hwf Hsp (py_sort_sorted _ Hso Hn)).
Qed.

Lemma centries_nocompute ct rfs : forall pos,
  forallb (fun rf => match r_cda rf with Compute => false | _ => true end) rfs = true ->
  centries_of ct pos rfs = [].
Proof.
  induction rfs as [|rf rfs IH]; intros pos H; [reflexivity|].
  cbn [forallb] in H. apply andb_prop in H as [H1 H2]. cbn [centries_of].
  rewrite IH by exact H2. destruct (r_cda rf); try reflexivity. discriminate.
Qed.

Theorem decompress_layout_nocompute ct r d vs rs payload :
  let rfs := select_fds d (rule_fds r) in
  length vs = length rfs -> forallb2 (fun rf v => wf_field ct rf v) rfs vs = true ->
  forallb (fun rf => match r_cda rf with Compute => false | _ => true end) rfs = true ->
  spec_residues vs rfs = Some rs ->
  decompress ct (rule_id r ++ rs ++ payload) r d = Ok (concat vs ++ payload).
Proof.
  intros rfs Hlen Hwf Hnc Hsp.
  pose proof (centries_nocompute ct rfs 0 Hnc) as Hce.
  rewrite (decompress_layout ct r d vs rs payload Hlen Hwf Hsp) by (fold rfs; rewrite Hce; first [reflexivity|cbn; lia]).
  fold rfs. rewrite Hce. cbn [run_computes bind]. f_equal.
  apply concat_fields. now rewrite map_length.
Qed.

Theorem decompress_nocompression ct r d pkt : rule_fds r = [] ->
  decompress ct (rule_id r ++ pkt) r d = Ok pkt.
Proof.
  intros H. unfold decompress. cbv zeta. rewrite H.
  assert (select_fds d [] = []) as -> by (destruct d; reflexivity).
  rewrite py_slice_app_from. cbn. now rewrite app_nil_r.
Qed.
