(* SchcHeap.v -- compress, decompress (field stage and final concatenation), _field_match and match_schc_packet
   over the heap of Buffer OBJECTS (BufferHeap.v).  SchcBytes.v models these functions on Buffer VALUES; in Python
   the packet field values, the payload, the rule ids, the target values, the mapping keys and indices are
   objects shared with the caller.  Here every place where the Python code creates a Buffer (constructor,
   __add__, __getitem__, pad, shift, __eq__ and __hash__ internally) allocates in the heap, every place where it
   hands on an existing object (value_sent, mapping_sent, rule_descriptor.id ...) hands on the reference, and
   length_buffer.pad(LEFT, inplace=True) assigns.  Theorems: frame (nothing that existed changes, whatever the
   outcome), freshness of the results, refinement of the value-level functions of SchcBytes.v.
   Used for property C16 (first sentence). *)
From Coq Require Import ZArith List Bool Lia Arith.
From MS Require Import PyBase Buffer Bits Schc SchcBytes BufferHeap BufferHeapSpec.
Import ListNotations.
Open Scope Z_scope.

(* ================================================================================================ *)
(* 0. object-level records and their dereferencing                                                  *)
(* ================================================================================================ *)

(* target value: a Buffer object, or a MatchMapping whose forward dict holds (key object, index object) *)
Inductive otv := OTVbuf (r : oref) | OTVmap (forward : list (oref * oref)).
Record orfd := mkorfd { or_id : fid; or_len : Z; or_pos : Z; or_dir : dir; or_tv : otv; or_mo : mo; or_cda : cda }.
Record orule := mkorule { orule_id : oref; orule_nature : nature; orule_fds : list orfd }.
Record ofield := mkofield { of_id : fid; of_val : oref; of_pos : Z }.
Record opdesc := mkopdesc { opd_dir : dir; opd_fields : list ofield; opd_payload : oref }.

Fixpoint deref_list {A B} (f : A -> option B) (l : list A) : option (list B) :=
  match l with
  | [] => Some []
  | x :: r => match f x, deref_list f r with Some y, Some ys => Some (y :: ys) | _, _ => None end
  end.
Definition deref_pair (h : heap) (kv : oref * oref) : option (buf * buf) :=
  match nth_error h (fst kv), nth_error h (snd kv) with Some k, Some v => Some (k, v) | _, _ => None end.
Definition deref_tv (h : heap) (t : otv) : option btv :=
  match t with
  | OTVbuf r => option_map BTVbuf (nth_error h r)
  | OTVmap fw => option_map BTVmap (deref_list (deref_pair h) fw)
  end.
Definition deref_rfd (h : heap) (rf : orfd) : option brfd :=
  option_map (fun t => mkbrfd (or_id rf) (or_len rf) (or_pos rf) (or_dir rf) t (or_mo rf) (or_cda rf))
             (deref_tv h (or_tv rf)).
Definition deref_rule (h : heap) (r : orule) : option brule :=
  match nth_error h (orule_id r), deref_list (deref_rfd h) (orule_fds r) with
  | Some i, Some fds => Some (mkbrule i (orule_nature r) fds)
  | _, _ => None
  end.
Definition deref_field (h : heap) (f : ofield) : option bfield :=
  option_map (fun v => mkbfield (of_id f) v (of_pos f)) (nth_error h (of_val f)).
Definition deref_pdesc (h : heap) (p : opdesc) : option bpdesc :=
  match deref_list (deref_field h) (opd_fields p), nth_error h (opd_payload p) with
  | Some fs, Some pl => Some (mkbpdesc (opd_dir p) fs pl)
  | _, _ => None
  end.

Definition oapplies (d : dir) (rf : orfd) : bool := dir_eqb (or_dir rf) d || dir_eqb (or_dir rf) Bi.
Definition oselect_fds (direction : option dir) (fds : list orfd) : list orfd :=
  match direction with None => fds | Some d => filter (oapplies d) fds end.

(* ---- inversion and monotonicity of dereferencing ---- *)
Lemma deref_list_Forall2 {A B} (f : A -> option B) l l' :
  deref_list f l = Some l' <-> Forall2 (fun a b => f a = Some b) l l'.
Proof.
  revert l'. induction l as [|x l IH]; intros l'; simpl.
  - split. intro H; inversion H; constructor. intro H; inversion H; reflexivity.
  - destruct (f x) as [y|] eqn:Ex.
    + destruct (deref_list f l) as [ys|].
      * split.
        -- intro H; inversion H; subst. constructor; auto. now apply IH.
        -- intro H; inversion H; subst. apply IH in H4. inversion H4; subst. congruence.
      * split. discriminate. intro H; inversion H; subst. apply IH in H4. discriminate.
    + split. discriminate. intro H; inversion H; subst. congruence.
Qed.

Lemma Forall2_mono {A B} (P Q : A -> B -> Prop) l l' :
  (forall a b, P a b -> Q a b) -> Forall2 P l l' -> Forall2 Q l l'.
Proof. intros H F. induction F; constructor; auto. Qed.

Definition Rref (h : heap) (x : oref) (v : buf) : Prop := nth_error h x = Some v.
Definition Rpairs (h : heap) (d : list (oref * oref)) (db : list (buf * buf)) : Prop :=
  Forall2 (fun kv kvb => Rref h (fst kv) (fst kvb) /\ Rref h (snd kv) (snd kvb)) d db.

Lemma Rref_mono h h' x v : extends h h' -> Rref h x v -> Rref h' x v.
Proof. unfold Rref. apply extends_nth_some. Qed.
Lemma Rpairs_mono h h' d db : extends h h' -> Rpairs h d db -> Rpairs h' d db.
Proof.
  intros X. apply Forall2_mono. intros a b [H1 H2]. split; eapply Rref_mono; eauto.
Qed.

Lemma deref_pair_inv h kv kvb : deref_pair h kv = Some kvb -> Rref h (fst kv) (fst kvb) /\ Rref h (snd kv) (snd kvb).
Proof.
  unfold deref_pair, Rref. destruct (nth_error h (fst kv)); try discriminate.
  destruct (nth_error h (snd kv)); try discriminate. intro H; inversion H; subst. auto.
Qed.

Definition Rtv (h : heap) (t : otv) (bt : btv) : Prop :=
  match t, bt with
  | OTVbuf r, BTVbuf b => Rref h r b
  | OTVmap fw, BTVmap fwb => Rpairs h fw fwb
  | _, _ => False
  end.
Lemma deref_tv_inv h t bt : deref_tv h t = Some bt -> Rtv h t bt.
Proof.
  destruct t as [r|fw]; simpl.
  - destruct (nth_error h r) eqn:E; simpl; intro H; inversion H; subst. exact E.
  - destruct (deref_list (deref_pair h) fw) as [l|] eqn:E; simpl; intro H; inversion H; subst.
    apply deref_list_Forall2 in E. simpl. eapply Forall2_mono; [ | exact E]. apply deref_pair_inv.
Qed.
Lemma Rtv_mono h h' t bt : extends h h' -> Rtv h t bt -> Rtv h' t bt.
Proof.
  intro X. destruct t, bt; simpl; auto. now apply Rref_mono. now apply Rpairs_mono.
Qed.

(* a rule field descriptor in scope *)
Definition Rrfd (h : heap) (rf : orfd) (brf : brfd) : Prop :=
  br_id brf = or_id rf /\ br_len brf = or_len rf /\ br_pos brf = or_pos rf /\ br_dir brf = or_dir rf /\
  br_mo brf = or_mo rf /\ br_cda brf = or_cda rf /\ Rtv h (or_tv rf) (br_tv brf).
Lemma deref_rfd_inv h rf brf : deref_rfd h rf = Some brf -> Rrfd h rf brf.
Proof.
  unfold deref_rfd. destruct (deref_tv h (or_tv rf)) as [t|] eqn:E; simpl; intro H; inversion H; subst.
  unfold Rrfd; simpl. repeat split; auto. now apply deref_tv_inv.
Qed.
Lemma Rrfd_mono h h' rf brf : extends h h' -> Rrfd h rf brf -> Rrfd h' rf brf.
Proof. intros X (A1 & A2 & A3 & A4 & A5 & A6 & T). repeat split; auto. eapply Rtv_mono; eauto. Qed.

Definition Rfield (h : heap) (pf : ofield) (bpf : bfield) : Prop :=
  bf_id bpf = of_id pf /\ bf_pos bpf = of_pos pf /\ Rref h (of_val pf) (bf_val bpf).
Lemma deref_field_inv h pf bpf : deref_field h pf = Some bpf -> Rfield h pf bpf.
Proof.
  unfold deref_field. destruct (nth_error h (of_val pf)) eqn:E; simpl; intro H; inversion H; subst.
  unfold Rfield; simpl. auto.
Qed.
Lemma Rfield_mono h h' pf bpf : extends h h' -> Rfield h pf bpf -> Rfield h' pf bpf.
Proof. intros X (A1 & A2 & T). repeat split; auto. eapply Rref_mono; eauto. Qed.

Definition Rrule (h : heap) (r : orule) (br : brule) : Prop :=
  Rref h (orule_id r) (brule_id br) /\ brule_nature br = orule_nature r /\
  Forall2 (Rrfd h) (orule_fds r) (brule_fds br).
Lemma deref_rule_inv h r br : deref_rule h r = Some br -> Rrule h r br.
Proof.
  unfold deref_rule. destruct (nth_error h (orule_id r)) eqn:E; try discriminate.
  destruct (deref_list (deref_rfd h) (orule_fds r)) eqn:E2; try discriminate.
  intro H; inversion H; subst. unfold Rrule; simpl. repeat split; auto.
  apply deref_list_Forall2 in E2. eapply Forall2_mono; [ | exact E2]. apply deref_rfd_inv.
Qed.
Lemma Rrule_mono h h' r br : extends h h' -> Rrule h r br -> Rrule h' r br.
Proof.
  intros X (A1 & A2 & T). repeat split; auto. eapply Rref_mono; eauto.
  eapply Forall2_mono; [ | exact T]. intros; eapply Rrfd_mono; eauto.
Qed.

Definition Rpdesc (h : heap) (p : opdesc) (bp : bpdesc) : Prop :=
  bpd_dir bp = opd_dir p /\ Forall2 (Rfield h) (opd_fields p) (bpd_fields bp) /\ Rref h (opd_payload p) (bpd_payload bp).
Lemma deref_pdesc_inv h p bp : deref_pdesc h p = Some bp -> Rpdesc h p bp.
Proof.
  unfold deref_pdesc. destruct (deref_list (deref_field h) (opd_fields p)) eqn:E2; try discriminate.
  destruct (nth_error h (opd_payload p)) eqn:E; try discriminate.
  intro H; inversion H; subst. unfold Rpdesc; simpl. repeat split; auto.
  apply deref_list_Forall2 in E2. eapply Forall2_mono; [ | exact E2]. apply deref_field_inv.
Qed.

Lemma Rselect_fds h d fds bfds : Forall2 (Rrfd h) fds bfds -> Forall2 (Rrfd h) (oselect_fds d fds) (bselect_fds d bfds).
Proof.
  destruct d as [d|]; simpl; auto. intro F. induction F; simpl; auto.
  assert (E : oapplies d x = bapplies d y).
  { unfold oapplies, bapplies. destruct H as (_ & _ & _ & -> & _). reflexivity. }
  rewrite E. destruct (bapplies d y); auto.
Qed.

(* ================================================================================================ *)
(* 1. refinement of a value-level computation by a heap computation                                 *)
(* ================================================================================================ *)

(* same outcome -- the results related in the new heap, same exception, same divergence -- and the heap only grew *)
Definition refines {A B} (R : heap -> A -> B -> Prop) (h : heap) (p : res A * heap) (q : res B) : Prop :=
  match p with
  | (Ok a, h') => extends h h' /\ exists b, q = Ok b /\ R h' a b
  | (Exc e, h') => extends h h' /\ q = Exc e
  | (Diverge, h') => extends h h' /\ q = Diverge
  end.
Definition Rval {A} (h : heap) (a b : A) : Prop := a = b.

Lemma refines_ref h p q : ref_refines h p q <-> refines Rref h p q.
Proof. reflexivity. Qed.

Lemma refines_bind {A B A' B'} (R : heap -> A -> B -> Prop) (R' : heap -> A' -> B' -> Prop)
      (m : hm A) (q : res B) (K : A -> hm A') (Kb : B -> res B') h :
  refines R h (m h) q ->
  (forall a b h1, extends h h1 -> R h1 a b -> refines R' h1 (K a h1) (Kb b)) ->
  refines R' h (hbind m K h) (bind q Kb).
Proof.
  intros Hm HK. rewrite hbind_eq. unfold refines in Hm. destruct (m h) as [[a|e|] h1].
  - destruct Hm as (X & b & -> & Rab). cbn [bind]. specialize (HK a b h1 X Rab). unfold refines in *.
    destruct (K a h1) as [[a'|e|] h2]; destruct HK as [X2 HK]; (split; [eapply extends_trans; eauto | exact HK]).
  - destruct Hm as (X & ->). cbn [bind]. split; auto.
  - destruct Hm as (X & ->). cbn [bind]. split; auto.
Qed.
Lemma refines_ret {A B} (R : heap -> A -> B -> Prop) h a b : R h a b -> refines R h (hret a h) (Ok b).
Proof. intro H. split. apply extends_refl. eauto. Qed.
Lemma refines_exc {A B} (R : heap -> A -> B -> Prop) h e : refines R h (hlift (Exc e) h) (Exc e).
Proof. split. apply extends_refl. reflexivity. Qed.
Lemma refines_val {A} h (p : res A * heap) q : fst p = q -> extends h (snd p) -> refines Rval h p q.
Proof. destruct p as [[a|e|] h']; simpl; intros <- X; split; auto. exists a. split; reflexivity. Qed.
Lemma refines_impl {A B} (R R' : heap -> A -> B -> Prop) h p q :
  (forall h' a b, R h' a b -> R' h' a b) -> refines R h p q -> refines R' h p q.
Proof.
  intro I. destruct p as [[a|e|] h']; simpl; auto. intros (X & b & E & H). split; auto. exists b. auto.
Qed.
Lemma refines_new c n sd h : refines Rref h (h_new c n sd h) (b_new c n sd).
Proof. apply ref_refines_new. Qed.
Lemma refines_add l r lb rb h : Rref h l lb -> Rref h r rb -> refines Rref h (h_add l r h) (b_add lb rb).
Proof. apply h_add_full. Qed.
Lemma refines_getitem r s e b h : Rref h r b -> refines Rref h (h_getitem r s e h) (b_getitem b s e).
Proof.
  intro E. pose proof (h_getitem_refines r s e h b E) as H. unfold refines.
  destruct (h_getitem r s e h) as [[x|x|] h'].
  - destruct H as (v & -> & Hx & -> & ->). split. apply extends_app. eauto.
  - destruct H as (-> & ->). split. apply extends_refl. auto.
  - destruct H as (-> & ->). split. apply extends_refl. auto.
Qed.
Lemma refines_eq a b ab bb h : Rref h a ab -> Rref h b bb -> refines Rval h (h_eq a b h) (b_eq ab bb).
Proof. intros Ea Eb. destruct (h_eq_refines a b h ab bb Ea Eb). now apply refines_val. Qed.
Lemma refines_hash a ab h : Rref h a ab -> refines Rval h (h_hash_key a h) (b_hash_key ab).
Proof. intros Ea. destruct (h_hash_key_refines a h ab Ea). now apply refines_val. Qed.

(* the frame calculus of BufferHeapSpec with the case analyses of this file *)
Ltac hpure_step :=
  first
    [ apply pv_ret | apply pv_lift | apply pv_get
    | apply pr_alloc | apply pr_lift_exc | apply pr_new | apply pr_copy | apply pr_pad | apply pr_getitem
    | apply pr_add | apply pr_shift_copy | apply pv_eq | apply pv_hash
    | apply pure_ref_val;
      first [ apply pr_new | apply pr_copy | apply pr_pad | apply pr_getitem | apply pr_add | apply pr_shift_copy ]
    | apply pv_bind; [ | intro ]
    | apply pr_bind; [ | intro ]
    | match goal with
      | |- pure_val (match ?c with _ => _ end) => destruct c
      | |- pure_ref (match ?c with _ => _ end) => destruct c
      end ].
Ltac hpure := repeat hpure_step.

(* ================================================================================================ *)
(* 2. compress                                                                                      *)
(* ================================================================================================ *)

(* _encode_length: Buffer(content, length), left padded: a new object *)
Definition h_encode_length (n : Z) : hm oref :=
  if negb (n <? 65536) then hlift (Exc AssertionError)
  else if n <? 15 then h_new [n] 4 LEFT
  else if n <? 255 then h_new [15; n] 12 LEFT
  else h_new ([15; 255] ++ bytes_of 2 n) 28 LEFT.

(* least_significant_bits: reads field_value.content, returns Buffer(content=residue, length=residue_length) *)
Definition h_lsb (v : oref) (bit_length : Z) : hm oref :=
  hdo fv <- hget v ;; hdo r <- hlift (lsb_bytes fv bit_length) ;; halloc r.

(* dict lookup with a Buffer key: hash of the stored key and of the probe (each a pad(LEFT, inplace=False)), then == *)
Definition h_key_match (stored probe : oref) : hm bool :=
  hdo hs <- h_hash_key stored ;; hdo hp <- h_hash_key probe ;;
  if bytes_eqb hs hp then h_eq stored probe else hret false.
Fixpoint h_dict_get (d : list (oref * oref)) (probe : oref) : hm (option oref) :=
  match d with
  | [] => hret None
  | (k, v) :: r => hdo m <- h_key_match k probe ;; if m then hret (Some v) else h_dict_get r probe
  end.

(* the residue: value_sent returns the field's own value object, mapping_sent the index object stored in the mapping *)
Definition h_residue_of (pf : ofield) (rf : orfd) : hm (option oref) :=
  match or_cda rf with
  | NotSent | Compute => hret None
  | LSB =>
    match or_tv rf with
    | OTVbuf pat =>
      hdo vb <- hget (of_val pf) ;; hdo pb <- hget pat ;;
      hdo r <- h_lsb (of_val pf) (blen vb - blen pb) ;; hret (Some r)
    | OTVmap _ => hlift (Exc AssertionError)
    end
  | MappingSent =>
    match or_tv rf with
    | OTVmap fw => hdo o <- h_dict_get fw (of_val pf) ;;
                   match o with Some i => hret (Some i) | None => hlift (Exc KeyError) end
    | OTVbuf _ => hlift (Exc AssertionError)
    end
  | ValueSent => hret (Some (of_val pf))
  end.

Definition oannounces_length (rf : orfd) : bool :=
  match or_cda rf with LSB | ValueSent => or_len rf =? 0 | _ => false end.

(* schc_packet += encoded_length ; schc_packet += field_residue : the name is rebound to the object __add__ returns *)
Fixpoint h_compress_fields (pfs : list ofield) (rfs : list orfd) (acc : oref) : hm oref :=
  match pfs, rfs with
  | pf :: pfs', rf :: rfs' =>
    hdo ro <- h_residue_of pf rf ;;
    match ro with
    | None => h_compress_fields pfs' rfs' acc
    | Some residue =>
      hdo acc1 <- (if oannounces_length rf then
                     hdo rb <- hget residue ;; hdo pre <- h_encode_length (blen rb) ;; h_add acc pre
                   else hret acc) ;;
      hdo acc2 <- h_add acc1 residue ;;
      h_compress_fields pfs' rfs' acc2
    end
  | _, _ => hret acc
  end.

Fixpoint h_add_all (acc : oref) (l : list oref) : hm oref :=
  match l with [] => hret acc | x :: r => hdo a <- h_add acc x ;; h_add_all a r end.

Definition h_compress (pd : opdesc) (r : orule) (direction : option dir) : hm oref :=
  hdo e <- h_new [] 0 RIGHT ;;
  hdo s0 <- h_add e (orule_id r) ;;
  match orule_nature r with
  | Compression =>
    hdo body <- h_compress_fields (opd_fields pd) (oselect_fds direction (orule_fds r)) s0 ;;
    h_add body (opd_payload pd)
  | NoCompression =>
    hdo body <- h_add_all s0 (map of_val (opd_fields pd)) ;;
    h_add body (opd_payload pd)
  | Fragmentation => hret s0
  end.

(* ---- frame ---- *)
Lemma pr_encode_length n : pure_ref (h_encode_length n).
Proof. unfold h_encode_length. hpure. Qed.
Lemma pr_lsb v n : pure_ref (h_lsb v n).
Proof. unfold h_lsb. hpure. Qed.
Lemma pv_key_match a b : pure_val (h_key_match a b).
Proof. unfold h_key_match. hpure. Qed.
Lemma pv_dict_get d p : pure_val (h_dict_get d p).
Proof.
  induction d as [|[k v] d IH]; cbn [h_dict_get]. apply pv_ret.
  apply pv_bind. apply pv_key_match. intros [|]; auto. apply pv_ret.
Qed.
Lemma pv_residue_of pf rf : pure_val (h_residue_of pf rf).
Proof.
  unfold h_residue_of.
  destruct (or_cda rf); try apply pv_ret; destruct (or_tv rf); try apply pv_lift.
  - apply pv_bind. apply pv_get. intro. apply pv_bind. apply pv_get. intro.
    apply pv_bind. apply pure_ref_val, pr_lsb. intro. apply pv_ret.
  - apply pv_bind. apply pv_dict_get. intros [i|]. apply pv_ret. apply pv_lift.
Qed.
Lemma pv_compress_fields : forall pfs rfs acc, pure_val (h_compress_fields pfs rfs acc).
Proof.
  induction pfs as [|pf pfs IH]; intros [|rf rfs] acc; cbn [h_compress_fields]; try apply pv_ret.
  apply pv_bind. apply pv_residue_of. intros [residue|]; auto.
  apply pv_bind.
  { destruct (oannounces_length rf); [ | apply pv_ret].
    apply pv_bind. apply pv_get. intro. apply pv_bind. apply pure_ref_val, pr_encode_length. intro.
    apply pure_ref_val, pr_add. }
  intro. apply pv_bind. apply pure_ref_val, pr_add. intro. apply IH.
Qed.
Lemma pv_add_all : forall l acc, pure_val (h_add_all acc l).
Proof.
  induction l as [|x l IH]; intros acc; cbn [h_add_all]. apply pv_ret.
  apply pv_bind. apply pure_ref_val, pr_add. intro. apply IH.
Qed.
Lemma pr_bind_ret (m : hm oref) : pure_ref m -> pure_ref (hbind m (fun x => hret x)).
Proof.
  intros P h x h' H. rewrite hbind_eq in H. destruct (m h) as [[a|e|] h1] eqn:E; unfold hret in H; inversion H; subst;
    eapply P; eauto.
Qed.

Lemma pr_compress pd r d : pure_ref (h_compress pd r d).
Proof.
  unfold h_compress. apply pr_bind. apply pure_ref_val, pr_new. intro e.
  destruct (orule_nature r).
  - apply pr_bind. apply pure_ref_val, pr_add. intro.
    apply pr_bind. apply pv_compress_fields. intro. apply pr_add.
  - apply pr_bind. apply pure_ref_val, pr_add. intro.
    apply pr_bind. apply pv_add_all. intro. apply pr_add.
  - apply pr_bind_ret. apply pr_add.
Qed.

(* compress changes no existing object: packet field values, payload, rule id, target values, mapping keys and
   indices -- for every heap and every outcome, no scope assumption *)
Theorem h_compress_frame pd r d h res h' : h_compress pd r d h = (res, h') -> extends h h'.
Proof. intro H. now apply pr_compress in H. Qed.

(* the SCHC packet returned is a NEW object (also for a rule without fields, also for a fragmentation rule) *)
Theorem h_compress_fresh pd r d h x h' : h_compress pd r d h = (Ok x, h') -> (length h <= x < length h')%nat.
Proof. intro H. apply pr_compress in H. now apply H. Qed.

(* ---- refinement ---- *)
Ltac ext := solve [ apply extends_refl | assumption | ext_solve ].

Lemma Rfields_mono h h' l lb : extends h h' -> Forall2 (Rfield h) l lb -> Forall2 (Rfield h') l lb.
Proof. intro X. apply Forall2_mono. intros; eapply Rfield_mono; eauto. Qed.
Lemma Rrfds_mono h h' l lb : extends h h' -> Forall2 (Rrfd h) l lb -> Forall2 (Rrfd h') l lb.
Proof. intro X. apply Forall2_mono. intros; eapply Rrfd_mono; eauto. Qed.
Lemma Rrefs_mono h h' l lb : extends h h' -> Forall2 (Rref h) l lb -> Forall2 (Rref h') l lb.
Proof. intro X. apply Forall2_mono. intros; eapply Rref_mono; eauto. Qed.
Lemma Rrules_mono h h' l lb : extends h h' -> Forall2 (Rrule h) l lb -> Forall2 (Rrule h') l lb.
Proof. intro X. apply Forall2_mono. intros; eapply Rrule_mono; eauto. Qed.

Ltac mono :=
  solve [ assumption
        | match goal with
          | H : Rref ?h ?x _ |- Rref ?h' ?x _ => apply (Rref_mono h h'); [ext | exact H]
          | H : Rpairs ?h ?d _ |- Rpairs ?h' ?d _ => apply (Rpairs_mono h h'); [ext | exact H]
          | H : Rtv ?h ?d _ |- Rtv ?h' ?d _ => apply (Rtv_mono h h'); [ext | exact H]
          | H : Rrfd ?h ?d _ |- Rrfd ?h' ?d _ => apply (Rrfd_mono h h'); [ext | exact H]
          | H : Rfield ?h ?d _ |- Rfield ?h' ?d _ => apply (Rfield_mono h h'); [ext | exact H]
          | H : Rrule ?h ?d _ |- Rrule ?h' ?d _ => apply (Rrule_mono h h'); [ext | exact H]
          | H : Forall2 (Rfield ?h) ?l _ |- Forall2 (Rfield ?h') ?l _ => apply (Rfields_mono h h'); [ext | exact H]
          | H : Forall2 (Rrfd ?h) ?l _ |- Forall2 (Rrfd ?h') ?l _ => apply (Rrfds_mono h h'); [ext | exact H]
          | H : Forall2 (Rref ?h) ?l _ |- Forall2 (Rref ?h') ?l _ => apply (Rrefs_mono h h'); [ext | exact H]
          | H : Forall2 (Rrule ?h) ?l _ |- Forall2 (Rrule ?h') ?l _ => apply (Rrules_mono h h'); [ext | exact H]
          end ].

Definition Ropt {A B} (R : heap -> A -> B -> Prop) (h : heap) (o : option A) (ob : option B) : Prop :=
  match o, ob with Some a, Some b => R h a b | None, None => True | _, _ => False end.

Lemma refines_encode_length n h : refines Rref h (h_encode_length n h) (bencode_length n).
Proof.
  unfold h_encode_length, bencode_length. destruct (negb (n <? 65536)). apply refines_exc.
  destruct (n <? 15). apply refines_new. destruct (n <? 255); apply refines_new.
Qed.

Lemma h_lsb_eq v n h :
  h_lsb v n h = match nth_error h v with
                | None => (Exc Unmodelled, h)
                | Some b => match lsb_bytes b n with
                            | Ok r => (Ok (length h), h ++ [r]) | Exc e => (Exc e, h) | Diverge => (Diverge, h) end
                end.
Proof.
  unfold h_lsb. destruct (nth_error h v) as [b|] eqn:E.
  - rewrite (hbind_get _ _ _ _ E), hbind_lift. destruct (lsb_bytes b n); reflexivity.
  - now rewrite hbind_get_none.
Qed.
Lemma refines_lsb v n vb h : Rref h v vb -> refines Rref h (h_lsb v n h) (lsb_bytes vb n).
Proof.
  intro E. rewrite h_lsb_eq, E. destruct (lsb_bytes vb n); simpl.
  - split. apply extends_app. eexists; split; eauto. apply nth_snoc_last.
  - split; auto using extends_refl.
  - split; auto using extends_refl.
Qed.

Lemma refines_key_match k p kb pb h : Rref h k kb -> Rref h p pb ->
  refines Rval h (h_key_match k p h) (key_match kb pb).
Proof.
  intros Ek Ep. unfold h_key_match, key_match.
  apply refines_bind with (R := Rval). now apply refines_hash.
  intros hs hs' h1 X1 E. unfold Rval in E; subst hs'.
  apply refines_bind with (R := Rval). apply refines_hash. mono.
  intros hp hp' h2 X2 E. unfold Rval in E; subst hp'.
  destruct (bytes_eqb hs hp).
  - apply refines_eq; mono.
  - apply refines_ret. reflexivity.
Qed.

Lemma refines_dict_get : forall d db p pb h, Rpairs h d db -> Rref h p pb ->
  refines (Ropt Rref) h (h_dict_get d p h) (dict_get db pb).
Proof.
  induction d as [|[k v] d IH]; intros db p pb h F Ep; inversion F as [|? y ? l' Hh Ht]; subst;
    cbn [h_dict_get dict_get].
  - apply refines_ret. exact I.
  - destruct y as [kb vb]. destruct Hh as [Hk Hv]. cbn [fst snd] in *.
    apply refines_bind with (R := Rval). now apply refines_key_match.
    intros m m' h1 X1 E. unfold Rval in E; subst m'. destruct m.
    + apply refines_ret. simpl. mono.
    + apply IH. unfold Rpairs in *. eapply Rpairs_mono; eauto. mono.
Qed.

Lemma refines_residue_of pf rf bpf brf h : Rfield h pf bpf -> Rrfd h rf brf ->
  refines (Ropt Rref) h (h_residue_of pf rf h) (bresidue_of bpf brf).
Proof.
  intros (F1 & F2 & Fv) (A1 & A2 & A3 & A4 & A5 & A6 & T). unfold h_residue_of, bresidue_of. rewrite A6.
  destruct (or_cda rf).
  - apply refines_ret. exact I.
  - destruct (or_tv rf) as [pat|fw], (br_tv brf) as [patb|fwb]; simpl in T; try contradiction.
    + rewrite (hbind_get _ _ _ _ Fv), (hbind_get _ _ _ _ T).
      apply refines_bind with (R := Rref). now apply refines_lsb.
      intros r rb h1 X1 Er. apply refines_ret. exact Er.
    + apply refines_exc.
  - destruct (or_tv rf) as [pat|fw], (br_tv brf) as [patb|fwb]; simpl in T; try contradiction.
    + apply refines_exc.
    + apply refines_bind with (R := Ropt Rref). now apply refines_dict_get.
      intros o ob h1 X1 Ro. destruct o, ob; simpl in Ro; try contradiction.
      * apply refines_ret. exact Ro.
      * apply refines_exc.
  - apply refines_ret. exact Fv.
  - apply refines_ret. exact I.
Qed.

Lemma refines_compress_fields : forall pfs bpfs rfs brfs acc accb h,
  Forall2 (Rfield h) pfs bpfs -> Forall2 (Rrfd h) rfs brfs -> Rref h acc accb ->
  refines Rref h (h_compress_fields pfs rfs acc h) (bcompress_fields bpfs brfs accb).
Proof.
  induction pfs as [|pf pfs IH]; intros bpfs rfs brfs acc accb h FP FR Ea;
    inversion FP as [|? bpf ? bpfs' Hp FP']; subst;
    inversion FR as [|rf brf rfs' brfs' Hr FR']; subst; cbn [h_compress_fields bcompress_fields];
    try (apply refines_ret; exact Ea).
  apply refines_bind with (R := Ropt Rref). now apply refines_residue_of.
  intros ro rob h1 X1 Ro. destruct ro as [residue|], rob as [resb|]; simpl in Ro; try contradiction.
  - apply refines_bind with (R := Rref).
    { assert (oannounces_length rf = bannounces_length brf) as ->.
      { unfold oannounces_length, bannounces_length. destruct Hr as (_ & -> & _ & _ & _ & -> & _). reflexivity. }
      destruct (bannounces_length brf).
      - rewrite (hbind_get _ _ _ _ Ro). apply refines_bind with (R := Rref). apply refines_encode_length.
        intros pre preb h2 X2 Epre. apply refines_add; mono.
      - apply refines_ret. mono. }
    intros acc1 acc1b h2 X2 E1. apply refines_bind with (R := Rref). apply refines_add; mono.
    intros acc2 acc2b h3 X3 E2. apply IH; mono.
  - apply IH; mono.
Qed.

Lemma refines_add_all : forall l lb acc accb h, Forall2 (Rref h) l lb -> Rref h acc accb ->
  refines Rref h (h_add_all acc l h) (badd_all accb lb).
Proof.
  induction l as [|x l IH]; intros lb acc accb h F Ea; inversion F as [|? xb ? lb' Hx F']; subst;
    cbn [h_add_all badd_all].
  - apply refines_ret. exact Ea.
  - apply refines_bind with (R := Rref). now apply refines_add.
    intros a ab h1 X1 E1. apply IH; mono.
Qed.

Lemma Rfields_vals h l lb : Forall2 (Rfield h) l lb -> Forall2 (Rref h) (map of_val l) (map bf_val lb).
Proof. intro F. induction F; simpl; constructor; auto. apply H. Qed.

Lemma refines_compress pd r d bpd br h : Rpdesc h pd bpd -> Rrule h r br ->
  refines Rref h (h_compress pd r d h) (bcompress bpd br d).
Proof.
  intros (D1 & DF & DP) (R1 & R2 & RF). unfold h_compress, bcompress.
  apply refines_bind with (R := Rref). apply refines_new.
  intros e eb h1 X1 Ee. apply refines_bind with (R := Rref). apply refines_add; mono.
  intros s0 s0b h2 X2 E0. rewrite R2. destruct (orule_nature r).
  - apply refines_bind with (R := Rref).
    + apply refines_compress_fields; try mono. apply Rselect_fds. mono.
    + intros body bodyb h3 X3 Eb. apply refines_add; mono.
  - apply refines_bind with (R := Rref).
    + apply refines_add_all; try mono. apply Rfields_vals. mono.
    + intros body bodyb h3 X3 Eb. apply refines_add; mono.
  - apply refines_ret. exact E0.
Qed.

(* on in-scope inputs compress is the value-level bcompress of the dereferenced inputs: the Buffer returned holds
   the value bcompress computes, the same exception is raised otherwise *)
Theorem h_compress_refines pd r d h bpd br : deref_pdesc h pd = Some bpd -> deref_rule h r = Some br ->
  match h_compress pd r d h with
  | (Ok x, h') => exists v, bcompress bpd br d = Ok v /\ nth_error h' x = Some v
  | (Exc e, _) => bcompress bpd br d = Exc e
  | (Diverge, _) => bcompress bpd br d = Diverge
  end.
Proof.
  intros Hp Hr. apply deref_pdesc_inv in Hp. apply deref_rule_inv in Hr.
  pose proof (refines_compress pd r d bpd br h Hp Hr) as R. unfold refines, Rref in R.
  destruct (h_compress pd r d h) as [[x|e|] h']; tauto.
Qed.

(* ---- a concrete instance: value-sent (fixed length), LSB with FL = 0 (length announced), mapping-sent ---- *)
Definition ex_heap : heap :=
  [ mkbuf [3] 2 LEFT 6;            (* 0  rule id 0b11 *)
    mkbuf [171] 8 LEFT 0;          (* 1  value of field 1 *)
    mkbuf [18; 52] 16 LEFT 0;      (* 2  value of field 2 *)
    mkbuf [18] 8 LEFT 0;           (* 3  MSB pattern of field 2 *)
    mkbuf [2] 8 LEFT 0;            (* 4  value of field 3 *)
    mkbuf [1] 8 LEFT 0;            (* 5  mapping key *)
    mkbuf [0] 1 LEFT 7;            (* 6  its index *)
    mkbuf [2] 8 LEFT 0;            (* 7  mapping key *)
    mkbuf [1] 1 LEFT 7;            (* 8  its index *)
    mkbuf [255] 8 LEFT 0;          (* 9  payload *)
    mkbuf [] 0 LEFT 0 ].           (* 10 target value of field 1 *)
Definition ex_f1 := mkfid P_UDP 0.
Definition ex_f2 := mkfid P_UDP 1.
Definition ex_f3 := mkfid P_UDP 2.
Definition ex_rule : orule :=
  mkorule 0%nat Compression
    [ mkorfd ex_f1 8 1 Bi (OTVbuf 10%nat) MO_ignore ValueSent;
      mkorfd ex_f2 0 1 Bi (OTVbuf 3%nat) MO_msb LSB;
      mkorfd ex_f3 8 1 Bi (OTVmap [(5%nat, 6%nat); (7%nat, 8%nat)]) MO_mapping MappingSent ].
Definition ex_pd : opdesc :=
  mkopdesc Up [ mkofield ex_f1 1%nat 1; mkofield ex_f2 2%nat 1; mkofield ex_f3 4%nat 1 ] 9%nat.
(* rule id 11, field 1 10101011, length 1000 and residue 00110100, index 1, payload 11111111 *)
Definition ex_schc : buf := mkbuf [234; 224; 211; 254] 31 RIGHT 1.

Example ex_compress_frame_fresh :
  let p := h_compress ex_pd ex_rule (Some Up) ex_heap in
  fst p = Ok 25%nat /\ firstn (length ex_heap) (snd p) = ex_heap /\ length (snd p) = 26%nat /\
  nth_error (snd p) 25 = Some ex_schc.
Proof. vm_compute. repeat split; reflexivity. Qed.

Example ex_compress_refines :
  match deref_pdesc ex_heap ex_pd, deref_rule ex_heap ex_rule with
  | Some bpd, Some br => bcompress bpd br (Some Up) = Ok ex_schc
  | _, _ => False
  end.
Proof. vm_compute. reflexivity. Qed.

(* ================================================================================================ *)
(* 3. match_schc_packet                                                                             *)
(* ================================================================================================ *)

(* for rule in self.rules: rule_id = rule.id; if rule_id.length > schc_packet.length: continue;
   if rule_id == schc_packet[0:rule_id.length]: return rule *)
Fixpoint h_match_schc_loop (rules : list orule) (s : oref) : hm (option orule) :=
  match rules with
  | [] => hret None
  | r :: rs =>
    hdo rb <- hget (orule_id r) ;; hdo sb <- hget s ;;
    if blen sb <? blen rb then h_match_schc_loop rs s
    else
      hdo sl <- h_getitem s (Some 0) (Some (blen rb)) ;;
      hdo e <- h_eq (orule_id r) sl ;;
      if e then hret (Some r) else h_match_schc_loop rs s
  end.
(* raise RuleIDMatchError(rule_id=rule_id): the name is unbound when there is no rule *)
Definition h_match_schc_packet (rules : list orule) (s : oref) : hm orule :=
  hdo o <- h_match_schc_loop rules s ;;
  match o with Some r => hret r | None => hlift (Exc RuleIDMatchError) end.     (* also for the empty rule list (rule_id = None before the loop) *)

Lemma pv_match_schc_loop s : forall rules, pure_val (h_match_schc_loop rules s).
Proof.
  induction rules as [|r rs IH]; cbn [h_match_schc_loop]. apply pv_ret.
  apply pv_bind. apply pv_get. intro rb. apply pv_bind. apply pv_get. intro sb.
  destruct (blen sb <? blen rb); auto.
  apply pv_bind. apply pure_ref_val, pr_getitem. intro. apply pv_bind. apply pv_eq. intros [|]; auto. apply pv_ret.
Qed.

Theorem h_match_schc_loop_frame rules s h res h' : h_match_schc_loop rules s h = (res, h') -> extends h h'.
Proof. apply pv_match_schc_loop. Qed.

Theorem h_match_schc_packet_frame rules s h res h' : h_match_schc_packet rules s h = (res, h') -> extends h h'.
Proof.
  revert h res h'. change (pure_val (h_match_schc_packet rules s)). unfold h_match_schc_packet.
  apply pv_bind. apply pv_match_schc_loop. intros [r|]. apply pv_ret. apply pv_lift.
Qed.

(* the rule returned is one of the rules given (the very record: rules are not copied) *)
Theorem h_match_schc_packet_member rules s h r h' : h_match_schc_packet rules s h = (Ok r, h') -> In r rules.
Proof.
  assert (L : forall rules h o h', h_match_schc_loop rules s h = (Ok o, h') -> forall r, o = Some r -> In r rules).
  { induction rules0 as [|r0 rs IH]; intros h0 o h0' H r1 Eo; cbn [h_match_schc_loop] in H.
    - unfold hret in H. inversion H; subst. discriminate.
    - apply hbind_inv in H. destruct H as [(rb & h1 & _ & H) | [(e & _ & E) | (_ & E)]]; try discriminate.
      apply hbind_inv in H. destruct H as [(sb & h2 & _ & H) | [(e & _ & E) | (_ & E)]]; try discriminate.
      destruct (blen sb <? blen rb). { right. eapply IH; eauto. }
      apply hbind_inv in H. destruct H as [(sl & h3 & _ & H) | [(e & _ & E) | (_ & E)]]; try discriminate.
      apply hbind_inv in H. destruct H as [(e0 & h4 & _ & H) | [(e & _ & E) | (_ & E)]]; try discriminate.
      destruct e0.
      + unfold hret in H. inversion H; subst. inversion H1; subst. now left.
      + right. eapply IH; eauto. }
  unfold h_match_schc_packet.
  intro H. apply hbind_inv in H. destruct H as [(o & h1 & Hl & H) | [(e & _ & E) | (_ & E)]]; try discriminate.
  destruct o as [r1|]; [ | unfold hlift in H; discriminate ].
  unfold hret in H. inversion H; subst. eapply L; eauto.
Qed.

Lemma refines_match_schc_loop s sb : forall rules brules h, Forall2 (Rrule h) rules brules -> Rref h s sb ->
  refines (Ropt Rrule) h (h_match_schc_loop rules s h) (bmatch_schc_loop brules sb).
Proof.
  induction rules as [|r rs IH]; intros brules h F Es; inversion F as [|? br ? brs Hr F']; subst;
    cbn [h_match_schc_loop bmatch_schc_loop].
  - apply refines_ret. exact I.
  - pose proof Hr as (R1 & R2 & R3).
    rewrite (hbind_get _ _ _ _ R1), (hbind_get _ _ _ _ Es).
    destruct (blen sb <? blen (brule_id br)). { now apply IH. }
    apply refines_bind with (R := Rref). now apply refines_getitem.
    intros sl slb h1 X1 El. apply refines_bind with (R := Rval). apply refines_eq; mono.
    intros e e' h2 X2 E. unfold Rval in E; subst e'. destruct e.
    + apply refines_ret. simpl. mono.
    + apply IH; mono.
Qed.

(* in scope: the outcome is that of bmatch_schc_loop; the rule found dereferences (in the final heap, hence in
   the initial one: frame) to the value-level rule found *)
Theorem h_match_schc_loop_refines rules s h brules sb :
  deref_list (deref_rule h) rules = Some brules -> nth_error h s = Some sb ->
  match h_match_schc_loop rules s h with
  | (Ok (Some r), h') => exists br, bmatch_schc_loop brules sb = Ok (Some br) /\ Rrule h' r br /\ In r rules
  | (Ok None, _) => bmatch_schc_loop brules sb = Ok None
  | (Exc e, _) => bmatch_schc_loop brules sb = Exc e
  | (Diverge, _) => bmatch_schc_loop brules sb = Diverge
  end.
Proof.
  intros Hr Hs. apply deref_list_Forall2 in Hr.
  assert (F : Forall2 (Rrule h) rules brules).
  { eapply Forall2_mono; [ | exact Hr]. apply deref_rule_inv. }
  pose proof (refines_match_schc_loop s sb rules brules h F Hs) as R. unfold refines in R.
  destruct (h_match_schc_loop rules s h) as [[[r|]|e|] h'] eqn:E; try tauto.
  - destruct R as (X & [br|] & Eb & Ro); simpl in Ro; try contradiction. exists br. repeat split; auto; try apply Ro.
    assert (M : h_match_schc_packet rules s h = (Ok r, h')).
    { unfold h_match_schc_packet. rewrite hbind_eq, E. reflexivity. }
    eapply h_match_schc_packet_member; eauto.
  - destruct R as (X & [br|] & Eb & Ro); simpl in Ro; try contradiction. exact Eb.
Qed.

Definition ex_rule2 : orule := mkorule 6%nat NoCompression [].   (* rule id: object 6 = 0b0 on one bit *)

Example ex_match_schc :
  let h := ex_heap ++ [ex_schc] in
  let p := h_match_schc_packet [ex_rule2; ex_rule] 11%nat h in
  fst p = Ok ex_rule /\ firstn (length h) (snd p) = h /\
  match deref_list (deref_rule h) [ex_rule2; ex_rule], deref_rule h ex_rule with
  | Some brs, Some br => bmatch_schc_loop brs ex_schc = Ok (Some br)
  | _, _ => False
  end.
Proof. vm_compute. repeat split; reflexivity. Qed.

(* ================================================================================================ *)
(* 4. _field_match                                                                                  *)
(* ================================================================================================ *)

(* most_significant_bits: field_value.shift(shift=..., inplace=False) == pattern *)
Definition h_msb_match (v pat : oref) : hm bool :=
  hdo vb <- hget v ;; hdo pb <- hget pat ;;
  if blen vb <? blen pb then hret false
  else hdo sh <- h_shift v (blen vb - blen pb) false ;; h_eq sh pat.

Definition h_field_match (pf : ofield) (rf : orfd) : hm bool :=
  if negb (fid_eqb (of_id pf) (or_id rf)) then hret false
  else match or_mo rf with
  | MO_ignore => hret true
  | MO_equal =>
    match or_tv rf with OTVbuf t => h_eq (of_val pf) t | OTVmap _ => hlift (Exc AssertionError) end
  | MO_msb =>
    hdo vb <- hget (of_val pf) ;;
    if negb (or_len rf =? 0) && negb (or_len rf =? blen vb) then hret false
    else match or_tv rf with OTVbuf pat => h_msb_match (of_val pf) pat | OTVmap _ => hlift (Exc AssertionError) end
  | MO_mapping =>
    match or_tv rf with
    | OTVmap fw => hdo o <- h_dict_get fw (of_val pf) ;; hret (match o with Some _ => true | None => false end)
    | OTVbuf _ => hlift (Exc AssertionError)
    end
  end.

Lemma pv_msb_match v pat : pure_val (h_msb_match v pat).
Proof. unfold h_msb_match. hpure. Qed.
Lemma pv_field_match pf rf : pure_val (h_field_match pf rf).
Proof.
  unfold h_field_match. destruct (negb (fid_eqb (of_id pf) (or_id rf))). apply pv_ret.
  destruct (or_mo rf).
  - destruct (or_tv rf). apply pv_eq. apply pv_lift.
  - apply pv_ret.
  - apply pv_bind. apply pv_get. intro vb. destruct (_ && _). apply pv_ret.
    destruct (or_tv rf). apply pv_msb_match. apply pv_lift.
  - destruct (or_tv rf). apply pv_lift. apply pv_bind. apply pv_dict_get. intro. apply pv_ret.
Qed.

Theorem h_field_match_frame pf rf h res h' : h_field_match pf rf h = (res, h') -> extends h h'.
Proof. apply pv_field_match. Qed.

Lemma refines_shift_copy r s b h : Rref h r b -> refines Rref h (h_shift r s false h) (b_shift b s false).
Proof.
  intro E. pose proof (h_shift_refines r s false h b E) as H. unfold refines.
  destruct (h_shift r s false h) as [[x|e|] h'].
  - destruct H as (v & -> & Hx & -> & ->). split. apply extends_app. eauto.
  - destruct H; split; auto.
  - destruct H; split; auto.
Qed.

Lemma refines_msb_match v pat vb pb h : Rref h v vb -> Rref h pat pb ->
  refines Rval h (h_msb_match v pat h) (bmsb_match vb pb).
Proof.
  intros Ev Ep. unfold h_msb_match, bmsb_match. rewrite (hbind_get _ _ _ _ Ev), (hbind_get _ _ _ _ Ep).
  destruct (blen vb <? blen pb). { apply refines_ret. reflexivity. }
  apply refines_bind with (R := Rref). now apply refines_shift_copy.
  intros sh shb h1 X1 Es. apply refines_eq; mono.
Qed.

Lemma refines_field_match pf rf bpf brf h : Rfield h pf bpf -> Rrfd h rf brf ->
  refines Rval h (h_field_match pf rf h) (bfield_match bpf brf).
Proof.
  intros (F1 & F2 & Fv) (A1 & A2 & A3 & A4 & A5 & A6 & T). unfold h_field_match, bfield_match.
  rewrite F1, A1, A2, A5.
  destruct (negb (fid_eqb (of_id pf) (or_id rf))). { apply refines_ret. reflexivity. }
  destruct (or_mo rf).
  - destruct (or_tv rf) as [t|fw], (br_tv brf) as [tb|fwb]; simpl in T; try contradiction.
    + now apply refines_eq.
    + apply refines_exc.
  - apply refines_ret. reflexivity.
  - rewrite (hbind_get _ _ _ _ Fv). destruct (_ && _). { apply refines_ret. reflexivity. }
    destruct (or_tv rf) as [t|fw], (br_tv brf) as [tb|fwb]; simpl in T; try contradiction.
    + now apply refines_msb_match.
    + apply refines_exc.
  - destruct (or_tv rf) as [t|fw], (br_tv brf) as [tb|fwb]; simpl in T; try contradiction.
    + apply refines_exc.
    + apply refines_bind with (R := Ropt Rref). now apply refines_dict_get.
      intros o ob h1 X1 Ro. apply refines_ret. destruct o, ob; simpl in Ro; try contradiction; reflexivity.
Qed.

Lemma refines_val_inv {A} h (p : res A * heap) q : refines Rval h p q -> fst p = q /\ extends h (snd p).
Proof.
  destruct p as [[a|e|] h']; simpl.
  - intros (X & b & -> & <-). auto.
  - intros (X & ->). auto.
  - intros (X & ->). auto.
Qed.

(* in scope: same boolean, same exception as the value-level bfield_match *)
Theorem h_field_match_refines pf rf h bpf brf : deref_field h pf = Some bpf -> deref_rfd h rf = Some brf ->
  fst (h_field_match pf rf h) = bfield_match bpf brf.
Proof.
  intros Hf Hr. apply deref_field_inv in Hf. apply deref_rfd_inv in Hr.
  now apply (refines_val_inv h), refines_field_match.
Qed.

Example ex_field_match :
  (* MSB on field 2 (a shifted copy is allocated and compared), mapping on field 3 (hash and == allocate) *)
  let p2 := h_field_match (mkofield ex_f2 2%nat 1) (mkorfd ex_f2 0 1 Bi (OTVbuf 3%nat) MO_msb LSB) ex_heap in
  let p3 := h_field_match (mkofield ex_f3 4%nat 1)
                          (mkorfd ex_f3 8 1 Bi (OTVmap [(5%nat, 6%nat); (7%nat, 8%nat)]) MO_mapping MappingSent) ex_heap in
  fst p2 = Ok true /\ firstn (length ex_heap) (snd p2) = ex_heap /\ (length ex_heap < length (snd p2))%nat /\
  fst p3 = Ok true /\ firstn (length ex_heap) (snd p3) = ex_heap /\ (length ex_heap < length (snd p3))%nat.
Proof. vm_compute. repeat split; try reflexivity; lia. Qed.

(* ================================================================================================ *)
(* 5. decompress: field stage and final concatenation (rules without compute actions)              *)
(* ================================================================================================ *)

(* length_buffer = schc_packet[a:b]; length_buffer.pad(padding=Padding.LEFT, inplace=True)  -- the object pad returns
   is dropped --; int.from_bytes(length_buffer.content, 'big')  -- the receiver is read *)
Definition h_slice_value (s : oref) (a b : Z) : hm Z :=
  hdo l <- h_getitem s (Some a) (Some b) ;;
  hdo _ <- h_pad l LEFT true ;;
  hdo lb <- hget l ;;
  hret (val (content lb)).

(* _decode_variable_length_residue *)
Definition h_decode_var (s : oref) : hm (oref * Z) :=
  hdo v <- h_slice_value s 0 4 ;;
  if v <? 15 then hdo r <- h_getitem s (Some 4) (Some (4 + v)) ;; hret (r, 4 + v)
  else
    hdo v <- h_slice_value s 4 12 ;;
    if v <? 255 then hdo r <- h_getitem s (Some 12) (Some (12 + v)) ;; hret (r, 12 + v)
    else
      hdo v <- h_slice_value s 12 28 ;;
      hdo r <- h_getitem s (Some 28) (Some (28 + v)) ;; hret (r, 28 + v).

(* MatchMapping.reverse = {v: k for k, v in forward.items()}: the dict holds the index and key OBJECTS of forward.
   (Python builds it when the MatchMapping is created; building it at use gives the same dict as long as the
   objects have not changed, which is what the frame theorems say.) *)
Fixpoint h_dict_set (d : list (oref * oref)) (key v : oref) : hm (list (oref * oref)) :=
  match d with
  | [] => hret [(key, v)]
  | (k, v0) :: r =>
    hdo m <- h_key_match k key ;;
    if m then hret ((k, v) :: r) else hdo r' <- h_dict_set r key v ;; hret ((k, v0) :: r')
  end.
Fixpoint h_dict_of_list (acc l : list (oref * oref)) : hm (list (oref * oref)) :=
  match l with
  | [] => hret acc
  | (k, v) :: r => hdo acc' <- h_dict_set acc k v ;; h_dict_of_list acc' r
  end.
Definition h_reverse_of (fw : list (oref * oref)) : hm (list (oref * oref)) :=
  h_dict_of_list [] (map (fun kv => (snd kv, fst kv)) fw).

(* for key, value in reverse.items(): if key == schc_packet[0:key.length]: ... break *)
Fixpoint h_reverse_lookup (rev : list (oref * oref)) (s : oref) : hm (option (oref * oref)) :=
  match rev with
  | [] => hret None
  | (key, value) :: r =>
    hdo kb <- hget key ;;
    hdo sl <- h_getitem s (Some 0) (Some (blen kb)) ;;
    hdo e <- h_eq key sl ;;
    if e then hret (Some (key, value)) else h_reverse_lookup r s
  end.

(* one rule field: (the decompressed field object, residue bits consumed) *)
Definition h_decompress_field (rf : orfd) (s : oref) : hm (oref * Z) :=
  hdo e <- h_new [] 0 RIGHT ;;
  match or_cda rf with
  | NotSent =>
    match or_tv rf with OTVbuf t => hdo f <- h_add e t ;; hret (f, 0) | OTVmap _ => hlift (Exc TypeError) end
  | LSB =>
    match or_tv rf with
    | OTVmap _ => hlift (Exc AssertionError)
    | OTVbuf t =>
      hdo rr <- (if negb (or_len rf =? 0) then
                   hdo tb <- hget t ;;
                   let n := or_len rf - blen tb in
                   hdo r <- h_getitem s None (Some n) ;; hret (r, n)
                 else h_decode_var s) ;;
      hdo f1 <- h_add e t ;; hdo f2 <- h_add f1 (fst rr) ;; hret (f2, snd rr)
    end
  | MappingSent =>
    match or_tv rf with
    | OTVbuf _ => hlift (Exc AssertionError)
    | OTVmap fw =>
      hdo rv <- h_reverse_of fw ;;
      hdo o <- h_reverse_lookup rv s ;;
      match o with
      | Some (key, value) => hdo f <- h_add e value ;; hdo kb <- hget key ;; hret (f, blen kb)
      | None => hret (e, 0)
      end
    end
  | ValueSent =>
    match or_tv rf with
    | OTVmap _ => hlift (Exc AssertionError)
    | OTVbuf _ =>
      hdo rr <- (if negb (or_len rf =? 0) then
                   hdo r <- h_getitem s (Some 0) (Some (or_len rf)) ;; hret (r, or_len rf)
                 else h_decode_var s) ;;
      hdo f <- h_add e (fst rr) ;; hret (f, snd rr)
    end
  | Compute => hlift (Exc Unmodelled)
  end.

(* schc_packet = schc_packet[residue_bitlength:] rebinds the name to a new slice each round *)
Fixpoint h_decompress_fields (rfs : list orfd) (s : oref) : hm (list oref * oref) :=
  match rfs with
  | [] => hret ([], s)
  | rf :: rfs' =>
    hdo x <- h_decompress_field rf s ;;
    hdo s' <- h_getitem s (Some (snd x)) None ;;
    hdo rest <- h_decompress_fields rfs' s' ;;
    hret (fst x :: fst rest, snd rest)
  end.

Definition h_decompress (s : oref) (r : orule) (direction : option dir) : hm oref :=
  hdo rb <- hget (orule_id r) ;;
  hdo s1 <- h_getitem s (Some (blen rb)) None ;;
  hdo x <- h_decompress_fields (oselect_fds direction (orule_fds r)) s1 ;;
  hdo e <- h_new [] 0 RIGHT ;;
  h_add_all e (fst x ++ [snd x]).

(* ---- the in-place pad on the slice just created ---- *)
Definition bslice_value (sb : buf) (a b : Z) : res Z := do l <- b_getitem sb (Some a) (Some b) ;; prefix_value l.

Lemma refines_slice_value s sb a b h : Rref h s sb ->
  refines Rval h (h_slice_value s a b h) (bslice_value sb a b).
Proof.
  intro Es. unfold h_slice_value, bslice_value. rewrite hbind_eq, h_getitem_eq, Es.
  destruct (b_getitem sb (Some a) (Some b)) as [lv|e|]; cbn [bind];
    [ | split; [apply extends_refl | reflexivity] .. ].
  pose proof (h_pad_spec (length h) LEFT true (h ++ [lv]) lv (nth_snoc_last h lv)) as S.
  rewrite hbind_eq. unfold prefix_value.
  destruct (h_pad (length h) LEFT true (h ++ [lv])) as [[y|e|] h2].
  - destruct S as (v & Hv & S). rewrite Hv. cbn [bind]. destruct (side_eqb LEFT (bside lv)).
    + destruct S as (-> & -> & ->). rewrite (hbind_get _ _ _ _ (nth_snoc_last h lv)).
      apply refines_val. reflexivity. apply extends_app.
    + destruct S as (-> & ->). rewrite upd_snoc_last.
      rewrite (hbind_get _ _ _ _ (nth_snoc_old _ v _ _ (nth_snoc_last h _))).
      apply refines_val. reflexivity. cbn [snd hret]. rewrite <- app_assoc. apply extends_app.
  - destruct S as (-> & X). cbn [bind]. split; auto. eapply extends_trans; [apply extends_app | exact X].
  - destruct S as (-> & X). cbn [bind]. split; auto. eapply extends_trans; [apply extends_app | exact X].
Qed.

Lemma pv_slice_value s a b : pure_val (h_slice_value s a b).
Proof.
  intros h x h' H. destruct (nth_error h s) as [sb|] eqn:E.
  - pose proof (refines_slice_value s sb a b h E) as R. rewrite H in R.
    destruct x; simpl in R; tauto.
  - unfold h_slice_value in H. rewrite hbind_eq, h_getitem_eq, E in H. inversion H; subst. apply extends_refl.
Qed.
Lemma pv_decode_var s : pure_val (h_decode_var s).
Proof.
  unfold h_decode_var.
  apply pv_bind. apply pv_slice_value. intro v. destruct (v <? 15). hpure.
  apply pv_bind. apply pv_slice_value. intro v2. destruct (v2 <? 255). hpure.
  apply pv_bind. apply pv_slice_value. intro v3. hpure.
Qed.

(* ---- frame and freshness ---- *)
Lemma pv_dict_set key v : forall d, pure_val (h_dict_set d key v).
Proof.
  induction d as [|[k v0] d IH]; cbn [h_dict_set]. apply pv_ret.
  apply pv_bind. apply pv_key_match. intros [|]. apply pv_ret.
  apply pv_bind. apply IH. intro. apply pv_ret.
Qed.
Lemma pv_dict_of_list : forall l acc, pure_val (h_dict_of_list acc l).
Proof.
  induction l as [|[k v] l IH]; intro acc; cbn [h_dict_of_list]. apply pv_ret.
  apply pv_bind. apply pv_dict_set. intro. apply IH.
Qed.
Lemma pv_reverse_lookup s : forall rev, pure_val (h_reverse_lookup rev s).
Proof.
  induction rev as [|[key value] rev IH]; cbn [h_reverse_lookup]. apply pv_ret.
  apply pv_bind. apply pv_get. intro. apply pv_bind. apply pure_ref_val, pr_getitem. intro.
  apply pv_bind. apply pv_eq. intros [|]; auto. apply pv_ret.
Qed.
Lemma pv_decompress_field rf s : pure_val (h_decompress_field rf s).
Proof.
  unfold h_decompress_field. apply pv_bind. apply pure_ref_val, pr_new. intro e.
  destruct (or_cda rf); destruct (or_tv rf) as [t|fw]; try apply pv_lift.
  - hpure.
  - apply pv_bind. { destruct (negb (or_len rf =? 0)). hpure. apply pv_decode_var. } intro. hpure.
  - apply pv_bind. apply pv_dict_of_list. intro. apply pv_bind. apply pv_reverse_lookup. intros [[key value]|]; hpure.
  - apply pv_bind. { destruct (negb (or_len rf =? 0)). hpure. apply pv_decode_var. } intro. hpure.
Qed.
Lemma pv_decompress_fields : forall rfs s, pure_val (h_decompress_fields rfs s).
Proof.
  induction rfs as [|rf rfs IH]; intro s; cbn [h_decompress_fields]. apply pv_ret.
  apply pv_bind. apply pv_decompress_field. intro. apply pv_bind. apply pure_ref_val, pr_getitem. intro.
  apply pv_bind. apply IH. intro. apply pv_ret.
Qed.
Lemma pr_add_all_cons : forall l x acc, pure_ref (h_add_all acc (x :: l)).
Proof.
  induction l as [|y l IH]; intros x acc; cbn [h_add_all].
  - apply pr_bind_ret. apply pr_add.
  - apply pr_bind. apply pure_ref_val, pr_add. intro a. apply (IH y a).
Qed.
Lemma pr_decompress s r d : pure_ref (h_decompress s r d).
Proof.
  unfold h_decompress. apply pr_bind. apply pv_get. intro. apply pr_bind. apply pure_ref_val, pr_getitem. intro.
  apply pr_bind. apply pv_decompress_fields. intros [fs rest]. apply pr_bind. apply pure_ref_val, pr_new. intro e.
  cbn [fst snd]. destruct fs as [|f fs]; cbn [app]; apply pr_add_all_cons.
Qed.

(* decompress changes no existing object (SCHC packet, rule id, target values, mapping keys and indices): the in-place
   pad of _decode_variable_length_residue hits a slice created there.  Every heap, every outcome, no scope assumption. *)
Theorem h_decompress_frame s r d h res h' : h_decompress s r d h = (res, h') -> extends h h'.
Proof. intro H. now apply pr_decompress in H. Qed.

(* the Buffer returned is a NEW object (also for a rule without fields: it is Buffer(b'',0) + the remaining slice) *)
Theorem h_decompress_fresh s r d h x h' : h_decompress s r d h = (Ok x, h') -> (length h <= x < length h')%nat.
Proof. intro H. apply pr_decompress in H. now apply H. Qed.

(* ---- refinement ---- *)
Definition bdecode_var' (s : buf) : res (buf * Z) :=
  do v <- bslice_value s 0 4 ;;
  if v <? 15 then do r <- b_getitem s (Some 4) (Some (4 + v)) ;; Ok (r, 4 + v)
  else
    do v <- bslice_value s 4 12 ;;
    if v <? 255 then do r <- b_getitem s (Some 12) (Some (12 + v)) ;; Ok (r, 12 + v)
    else
      do v <- bslice_value s 12 28 ;;
      do r <- b_getitem s (Some 28) (Some (28 + v)) ;; Ok (r, 28 + v).
Lemma bdecode_var_eq s : bdecode_var s = bdecode_var' s.
Proof.
  unfold bdecode_var, bdecode_var', bslice_value.
  destruct (b_getitem s (Some 0) (Some 4)) as [l4| |]; cbn [bind]; try reflexivity.
  destruct (prefix_value l4) as [v| |]; cbn [bind]; try reflexivity.
  destruct (v <? 15); try reflexivity.
  destruct (b_getitem s (Some 4) (Some 12)) as [l8| |]; cbn [bind]; try reflexivity.
  destruct (prefix_value l8) as [v2| |]; cbn [bind]; try reflexivity.
  destruct (v2 <? 255); try reflexivity.
  destruct (b_getitem s (Some 12) (Some 28)) as [l16| |]; cbn [bind]; reflexivity.
Qed.

Definition Rpz (h : heap) (p : oref * Z) (q : buf * Z) : Prop := Rref h (fst p) (fst q) /\ snd p = snd q.
Definition Rpair (h : heap) (p : oref * oref) (q : buf * buf) : Prop := Rref h (fst p) (fst q) /\ Rref h (snd p) (snd q).

Lemma refines_decode_var s sb h : Rref h s sb -> refines Rpz h (h_decode_var s h) (bdecode_var sb).
Proof.
  intro Es. rewrite bdecode_var_eq. unfold h_decode_var, bdecode_var'.
  apply refines_bind with (R := Rval). now apply refines_slice_value.
  intros v v' h1 X1 E. unfold Rval in E; subst v'. destruct (v <? 15).
  { apply refines_bind with (R := Rref). apply refines_getitem; mono.
    intros r rb h2 X2 Er. apply refines_ret. split; auto. }
  apply refines_bind with (R := Rval). apply refines_slice_value; mono.
  intros v2 v' h2 X2 E. unfold Rval in E; subst v'. destruct (v2 <? 255).
  { apply refines_bind with (R := Rref). apply refines_getitem; mono.
    intros r rb h3 X3 Er. apply refines_ret. split; auto. }
  apply refines_bind with (R := Rval). apply refines_slice_value; mono.
  intros v3 v' h3 X3 E. unfold Rval in E; subst v'.
  apply refines_bind with (R := Rref). apply refines_getitem; mono.
  intros r rb h4 X4 Er. apply refines_ret. split; auto.
Qed.

Lemma refines_dict_set key v kb vb : forall d db h, Rpairs h d db -> Rref h key kb -> Rref h v vb ->
  refines Rpairs h (h_dict_set d key v h) (dict_set db kb vb).
Proof.
  induction d as [|[k v0] d IH]; intros db h F Ek Ev; inversion F as [|? y ? l' Hh Ht]; subst;
    cbn [h_dict_set dict_set].
  - apply refines_ret. constructor; [ split; assumption | constructor ].
  - destruct y as [k0b v0b]. destruct Hh as [Hk Hv]. cbn [fst snd] in *.
    apply refines_bind with (R := Rval). now apply refines_key_match.
    intros m m' h1 X1 E. unfold Rval in E; subst m'. destruct m.
    + apply refines_ret. constructor. { split; cbn [fst snd]; mono. } eapply Rpairs_mono; eauto.
    + apply refines_bind with (R := Rpairs).
      * apply IH; try mono. eapply Rpairs_mono; eauto.
      * intros r' rb' h2 X2 Rr. apply refines_ret. constructor; auto. split; cbn [fst snd]; mono.
Qed.

Lemma refines_dict_of_list : forall l lb acc accb h, Rpairs h l lb -> Rpairs h acc accb ->
  refines Rpairs h (h_dict_of_list acc l h) (dict_of_list accb lb).
Proof.
  induction l as [|[k v] l IH]; intros lb acc accb h F Fa; inversion F as [|? y ? l' Hh Ht]; subst;
    cbn [h_dict_of_list dict_of_list].
  - apply refines_ret. exact Fa.
  - destruct y as [kb vb]. destruct Hh as [Hk Hv]. cbn [fst snd] in *.
    apply refines_bind with (R := Rpairs). now apply refines_dict_set.
    intros acc' accb' h1 X1 Ra. apply IH; auto. eapply Rpairs_mono; eauto.
Qed.

Lemma refines_reverse_of fw fwb h : Rpairs h fw fwb -> refines Rpairs h (h_reverse_of fw h) (breverse_of fwb).
Proof.
  intro F. unfold h_reverse_of, breverse_of. apply refines_dict_of_list; [ | constructor ].
  induction F; simpl; constructor; auto. cbn [fst snd]. tauto.
Qed.

Lemma refines_reverse_lookup s sb : forall rev revb h, Rpairs h rev revb -> Rref h s sb ->
  refines (Ropt Rpair) h (h_reverse_lookup rev s h) (breverse_lookup revb sb).
Proof.
  induction rev as [|[key value] rev IH]; intros revb h F Es; inversion F as [|? y ? l' Hh Ht]; subst;
    cbn [h_reverse_lookup breverse_lookup].
  - apply refines_ret. exact I.
  - destruct y as [kb vb]. destruct Hh as [Hk Hv]. cbn [fst snd] in *.
    rewrite (hbind_get _ _ _ _ Hk).
    apply refines_bind with (R := Rref). now apply refines_getitem.
    intros sl slb h1 X1 El. apply refines_bind with (R := Rval). apply refines_eq; mono.
    intros e e' h2 X2 E. unfold Rval in E; subst e'. destruct e.
    + apply refines_ret. split; cbn [fst snd]; mono.
    + apply IH; try mono. eapply Rpairs_mono; [ | exact Ht]. ext.
Qed.

Lemma refines_decompress_field rf brf s sb h : Rrfd h rf brf -> Rref h s sb ->
  refines Rpz h (h_decompress_field rf s h) (bdecompress_field brf sb).
Proof.
  intros (A1 & A2 & A3 & A4 & A5 & A6 & T) Es. unfold h_decompress_field, bdecompress_field.
  apply refines_bind with (R := Rref). apply refines_new.
  intros e eb h1 X1 Ee. rewrite A6, A2.
  assert (T1 : Rtv h1 (or_tv rf) (br_tv brf)) by mono. clear T.
  destruct (or_cda rf); destruct (or_tv rf) as [t|fw], (br_tv brf) as [tb|fwb]; simpl in T1; try contradiction;
    try apply refines_exc.
  - (* not-sent *)
    apply refines_bind with (R := Rref). apply refines_add; mono.
    intros f fb h2 X2 Ef. apply refines_ret. split; auto.
  - (* LSB *)
    apply refines_bind with (R := Rpz).
    { destruct (negb (or_len rf =? 0)).
      - rewrite (hbind_get _ _ _ _ T1). cbv zeta. apply refines_bind with (R := Rref). apply refines_getitem; mono.
        intros r rb h2 X2 Er. apply refines_ret. split; auto.
      - apply refines_decode_var; mono. }
    intros rr rrb h2 X2 [Er Ez]. apply refines_bind with (R := Rref). apply refines_add; mono.
    intros f1 f1b h3 X3 E1. apply refines_bind with (R := Rref). apply refines_add; mono.
    intros f2 f2b h4 X4 E2. apply refines_ret. split; auto.
  - (* mapping-sent *)
    apply refines_bind with (R := Rpairs). now apply refines_reverse_of.
    intros rv rvb h2 X2 Rv. apply refines_bind with (R := Ropt Rpair). apply refines_reverse_lookup; mono.
    intros o ob h3 X3 Ro. destruct o as [[key value]|], ob as [[kb vb]|]; simpl in Ro; try contradiction.
    + destruct Ro as [Rk Rvv]. cbn [fst snd] in *.
      apply refines_bind with (R := Rref). apply refines_add; mono.
      intros f fb h4 X4 Ef. assert (Rk4 : Rref h4 key kb) by mono.
      rewrite (hbind_get _ _ _ _ Rk4). apply refines_ret. split; auto.
    + apply refines_ret. split; cbn [fst snd]; auto. mono.
  - (* value-sent *)
    apply refines_bind with (R := Rpz).
    { destruct (negb (or_len rf =? 0)).
      - apply refines_bind with (R := Rref). apply refines_getitem; mono.
        intros r rb h2 X2 Er. apply refines_ret. split; auto.
      - apply refines_decode_var; mono. }
    intros rr rrb h2 X2 [Er Ez]. apply refines_bind with (R := Rref). apply refines_add; mono.
    intros f fb h3 X3 Ef. apply refines_ret. split; auto.
Qed.

Definition Rfs (h : heap) (x : list oref * oref) (y : list buf * buf) : Prop :=
  Forall2 (Rref h) (fst x) (fst y) /\ Rref h (snd x) (snd y).

Lemma refines_decompress_fields : forall rfs brfs s sb h, Forall2 (Rrfd h) rfs brfs -> Rref h s sb ->
  refines Rfs h (h_decompress_fields rfs s h) (bdecompress_fields brfs sb).
Proof.
  induction rfs as [|rf rfs IH]; intros brfs s sb h F Es; inversion F as [|? brf ? brfs' Hr F']; subst;
    cbn [h_decompress_fields bdecompress_fields].
  - apply refines_ret. split; cbn [fst snd]; auto.
  - apply refines_bind with (R := Rpz). now apply refines_decompress_field.
    intros x xb h1 X1 [Ex Ez]. rewrite Ez.
    apply refines_bind with (R := Rref). apply refines_getitem; mono.
    intros s' sb' h2 X2 Es'. apply refines_bind with (R := Rfs). apply IH; mono.
    intros rest restb h3 X3 [Rl Rr]. apply refines_ret. split; cbn [fst snd]; auto.
    constructor; auto. mono.
Qed.

Lemma refines_decompress s r d sb br h : Rref h s sb -> Rrule h r br ->
  refines Rref h (h_decompress s r d h) (bdecompress sb br d).
Proof.
  intros Es (R1 & R2 & RF). unfold h_decompress, bdecompress. rewrite (hbind_get _ _ _ _ R1).
  apply refines_bind with (R := Rref). now apply refines_getitem.
  intros s1 s1b h1 X1 E1. apply refines_bind with (R := Rfs).
  { apply refines_decompress_fields; auto. apply Rselect_fds. mono. }
  intros x xb h2 X2 [Rl Rr]. apply refines_bind with (R := Rref). apply refines_new.
  intros e eb h3 X3 Ee. apply refines_add_all; auto. apply Forall2_app. mono. constructor; [mono | constructor].
Qed.

(* on in-scope inputs decompress (field stage + concatenation) is the value-level bdecompress *)
Theorem h_decompress_refines s r d h sb br : nth_error h s = Some sb -> deref_rule h r = Some br ->
  match h_decompress s r d h with
  | (Ok x, h') => exists v, bdecompress sb br d = Ok v /\ nth_error h' x = Some v
  | (Exc e, _) => bdecompress sb br d = Exc e
  | (Diverge, _) => bdecompress sb br d = Diverge
  end.
Proof.
  intros Hs Hr. apply deref_rule_inv in Hr.
  pose proof (refines_decompress s r d sb br h Hs Hr) as R. unfold refines, Rref in R.
  destruct (h_decompress s r d h) as [[x|e|] h']; tauto.
Qed.

(* round trip of the instance: the SCHC packet of section 2 placed in the heap as object 11 *)
Example ex_decompress_frame_fresh :
  let h := ex_heap ++ [ex_schc] in
  let p := h_decompress 11%nat ex_rule (Some Up) h in
  fst p = Ok 37%nat /\ firstn (length h) (snd p) = h /\ length (snd p) = 38%nat /\
  nth_error (snd p) 37 = Some (mkbuf [171; 18; 52; 2; 255] 40 RIGHT 0).
Proof. vm_compute. repeat split; reflexivity. Qed.

Example ex_decompress_refines :
  match deref_rule (ex_heap ++ [ex_schc]) ex_rule with
  | Some br => bdecompress ex_schc br (Some Up) = Ok (mkbuf [171; 18; 52; 2; 255] 40 RIGHT 0)
  | None => False
  end.
Proof. vm_compute. reflexivity. Qed.

(* the in-place pad of _decode_variable_length_residue: bits 10..14 of the SCHC packet (the announced length 1000) are
   sliced into a new right-padded object (12), which pad turns into a left-padded one IN PLACE, returning yet another
   new object (13) that is dropped; the value is read from 12; objects 0..11 are as they were *)
Example ex_slice_value :
  let h := ex_heap ++ [ex_schc] in
  h_slice_value 11%nat 10 14 h = (Ok 8, h ++ [mkbuf [8] 4 LEFT 4; mkbuf [8] 4 LEFT 4]) /\
  h_getitem 11%nat (Some 10) (Some 14) h = (Ok 12%nat, h ++ [mkbuf [128] 4 RIGHT 4]).
Proof. vm_compute. split; reflexivity. Qed.

(* a fragmentation rule: neither branch runs, the result is still a new object (Buffer(b'',0) + rule id) *)
Example ex_compress_fragmentation :
  let p := h_compress ex_pd (mkorule 0%nat Fragmentation []) None ex_heap in
  fst p = Ok 13%nat /\ firstn (length ex_heap) (snd p) = ex_heap /\ nth_error (snd p) 13 = Some (mkbuf [192] 2 RIGHT 6).
Proof. vm_compute. repeat split; reflexivity. Qed.

(* ================================================================================================ *)
(* 6. where existing objects are handed on (never as a result of compress / decompress)            *)
(* ================================================================================================ *)

Lemma h_dict_get_member p : forall d h o h', h_dict_get d p h = (Ok (Some o), h') -> In o (map snd d).
Proof.
  induction d as [|[k v] d IH]; intros h o h' H; cbn [h_dict_get] in H.
  - unfold hret in H. inversion H.
  - apply hbind_inv in H. destruct H as [(m & h1 & _ & H) | [(e & _ & E) | (_ & E)]]; try discriminate.
    destruct m.
    + unfold hret in H. inversion H; subst. now left.
    + right. eapply IH; eauto.
Qed.

(* the field residue inside compress: value-sent hands on the packet field's own value object, mapping-sent the index
   object stored in the rule's mapping, LSB a new object.  compress only reads them (right operand of +). *)
Theorem h_residue_of_alias pf rf h x h' : h_residue_of pf rf h = (Ok (Some x), h') ->
  match or_cda rf with
  | ValueSent => x = of_val pf /\ h' = h
  | MappingSent => exists fw, or_tv rf = OTVmap fw /\ In x (map snd fw)
  | LSB => (length h <= x < length h')%nat
  | _ => False
  end.
Proof.
  unfold h_residue_of. destruct (or_cda rf); intro H.
  - unfold hret in H. inversion H.
  - destruct (or_tv rf) as [pat|fw]; [ | unfold hlift in H; discriminate ].
    apply hbind_inv in H. destruct H as [(vb & h1 & Hg & H) | [(e & _ & E) | (_ & E)]]; try discriminate.
    unfold hget in Hg. inversion Hg; subst h1.
    apply hbind_inv in H. destruct H as [(pb & h2 & Hg2 & H) | [(e & _ & E) | (_ & E)]]; try discriminate.
    unfold hget in Hg2. inversion Hg2; subst h2.
    apply hbind_inv in H. destruct H as [(r & h3 & Hl & H) | [(e & _ & E) | (_ & E)]]; try discriminate.
    unfold hret in H. inversion H; subst. apply pr_lsb in Hl. now apply Hl.
  - destruct (or_tv rf) as [pat|fw]; [ unfold hlift in H; discriminate | ].
    apply hbind_inv in H. destruct H as [(o & h1 & Hd & H) | [(e & _ & E) | (_ & E)]]; try discriminate.
    destruct o as [i|]; [ | unfold hlift in H; discriminate ].
    unfold hret in H. inversion H; subst. exists fw. split; auto. eapply h_dict_get_member; eauto.
  - unfold hret in H. inversion H; subst. auto.
  - unfold hret in H. inversion H.
Qed.

Example ex_residue_alias :
  fst (h_residue_of (mkofield ex_f1 1%nat 1) (mkorfd ex_f1 8 1 Bi (OTVbuf 10%nat) MO_ignore ValueSent) ex_heap) = Ok (Some 1%nat) /\
  fst (h_residue_of (mkofield ex_f3 4%nat 1)
                    (mkorfd ex_f3 8 1 Bi (OTVmap [(5%nat, 6%nat); (7%nat, 8%nat)]) MO_mapping MappingSent) ex_heap) = Ok (Some 8%nat).
Proof. vm_compute. split; reflexivity. Qed.

(* ---- the decompressed fields (what Python hands to the compute functions and to the unparser) are all new objects ---- *)
Definition fresh_or (e : oref) (m : hm (oref * Z)) : Prop :=
  forall h x h', m h = (x, h') ->
    extends h h' /\ forall p, x = Ok p -> fst p = e \/ (length h <= fst p < length h')%nat.

Lemma fo_bind {A} e (m : hm A) (K : A -> hm (oref * Z)) :
  pure_val m -> (forall a, fresh_or e (K a)) -> fresh_or e (hbind m K).
Proof.
  intros Hm HK h x h' H. apply hbind_inv in H.
  destruct H as [(a & h1 & Hm1 & Hf1) | [(e0 & Hm1 & ->) | (Hm1 & ->)]].
  - apply Hm in Hm1. destruct (HK a _ _ _ Hf1) as [E2 F]. split. eapply extends_trans; eauto.
    intros p Hp. destruct (F p Hp) as [-> | L]; auto. right. apply extends_length in Hm1. lia.
  - split. eapply Hm; eauto. discriminate.
  - split. eapply Hm; eauto. discriminate.
Qed.
Lemma fo_ret e c : fresh_or e (hret (e, c)).
Proof. intros h x h' H. unfold hret in H. inversion H; subst. split. apply extends_refl. intros p E; inversion E; auto. Qed.
Lemma fo_exc e x : fresh_or e (hlift (Exc x)).
Proof. intros h y h' H. unfold hlift in H. inversion H; subst. split. apply extends_refl. discriminate. Qed.
Lemma fo_ref e (m : hm oref) (K : oref -> hm Z) :
  pure_ref m -> (forall f, pure_val (K f)) -> fresh_or e (hdo f <- m ;; hdo z <- K f ;; hret (f, z)).
Proof.
  intros Pm PK h x h' H. apply hbind_inv in H.
  destruct H as [(f & h1 & Hm1 & H) | [(e0 & Hm1 & ->) | (Hm1 & ->)]];
    [ | split; [ eapply Pm; eauto | discriminate ] .. ].
  apply Pm in Hm1. destruct Hm1 as [X1 F1]. specialize (F1 f eq_refl).
  apply hbind_inv in H. destruct H as [(z & h2 & HK & H) | [(e0 & HK & ->) | (HK & ->)]];
    apply PK in HK; [ | split; [ eapply extends_trans; eauto | discriminate ] .. ].
  unfold hret in H. inversion H; subst. split. eapply extends_trans; eauto.
  intros p E; inversion E; subst. right. cbn [fst]. apply extends_length in HK. lia.
Qed.
Lemma fo_ref_ret e (m : hm oref) c : pure_ref m -> fresh_or e (hdo f <- m ;; hret (f, c)).
Proof.
  intros Pm h x h' H. apply (fo_ref e m (fun _ => hret c) Pm (fun _ => pv_ret c) h x h').
  rewrite hbind_eq in *. destruct (m h) as [[f|e0|] h1]; auto.
Qed.

Lemma fo_decompress_body rf s e :
  fresh_or e (match or_cda rf with
              | NotSent =>
                match or_tv rf with OTVbuf t => hdo f <- h_add e t ;; hret (f, 0) | OTVmap _ => hlift (Exc TypeError) end
              | LSB =>
                match or_tv rf with
                | OTVmap _ => hlift (Exc AssertionError)
                | OTVbuf t =>
                  hdo rr <- (if negb (or_len rf =? 0) then
                               hdo tb <- hget t ;;
                               let n := or_len rf - blen tb in
                               hdo r <- h_getitem s None (Some n) ;; hret (r, n)
                             else h_decode_var s) ;;
                  hdo f1 <- h_add e t ;; hdo f2 <- h_add f1 (fst rr) ;; hret (f2, snd rr)
                end
              | MappingSent =>
                match or_tv rf with
                | OTVbuf _ => hlift (Exc AssertionError)
                | OTVmap fw =>
                  hdo rv <- h_reverse_of fw ;;
                  hdo o <- h_reverse_lookup rv s ;;
                  match o with
                  | Some (key, value) => hdo f <- h_add e value ;; hdo kb <- hget key ;; hret (f, blen kb)
                  | None => hret (e, 0)
                  end
                end
              | ValueSent =>
                match or_tv rf with
                | OTVmap _ => hlift (Exc AssertionError)
                | OTVbuf _ =>
                  hdo rr <- (if negb (or_len rf =? 0) then
                               hdo r <- h_getitem s (Some 0) (Some (or_len rf)) ;; hret (r, or_len rf)
                             else h_decode_var s) ;;
                  hdo f <- h_add e (fst rr) ;; hret (f, snd rr)
                end
              | Compute => hlift (Exc Unmodelled)
              end).
Proof.
  destruct (or_cda rf); destruct (or_tv rf) as [t|fw]; try apply fo_exc.
  - apply fo_ref_ret. apply pr_add.
  - apply fo_bind. { destruct (negb (or_len rf =? 0)). hpure. apply pv_decode_var. }
    intro rr. apply fo_bind. apply pure_ref_val, pr_add. intro f1. apply fo_ref_ret. apply pr_add.
  - apply fo_bind. apply pv_dict_of_list. intro rv. apply fo_bind. apply pv_reverse_lookup.
    intros [[key value]|]; [ | apply fo_ret ].
    intros h x h' H. apply (fo_ref e (h_add e value) (fun _ => hdo kb <- hget key ;; hret (blen kb)) (pr_add _ _)
                                   (fun _ => pv_bind _ _ (pv_get key) (fun _ => pv_ret _)) h x h').
    rewrite hbind_eq in *. destruct (h_add e value h) as [[f|e0|] h1]; auto.
    rewrite hbind_assoc. rewrite hbind_eq in *. destruct (hget key h1) as [[kb|e0|] h2]; auto.
  - apply fo_bind. { destruct (negb (or_len rf =? 0)). hpure. apply pv_decode_var. }
    intro rr. apply fo_ref_ret. apply pr_add.
Qed.

Theorem h_decompress_field_fresh rf s h f n h' : h_decompress_field rf s h = (Ok (f, n), h') ->
  (length h <= f < length h')%nat.
Proof.
  unfold h_decompress_field. intro H. apply hbind_inv in H.
  destruct H as [(e & h1 & He & H) | [(e0 & _ & E) | (_ & E)]]; try discriminate.
  apply pr_new in He. destruct He as [X1 F1]. specialize (F1 e eq_refl).
  apply fo_decompress_body in H. destruct H as [X2 F2]. apply extends_length in X2.
  destruct (F2 (f, n) eq_refl) as [E | L]; cbn [fst] in *; subst; lia.
Qed.

Theorem h_decompress_fields_fresh : forall rfs s h fs rest h', h_decompress_fields rfs s h = (Ok (fs, rest), h') ->
  Forall (fun f => (length h <= f < length h')%nat) fs /\
  ((rfs = [] /\ rest = s /\ h' = h) \/ (length h <= rest < length h')%nat).
Proof.
  induction rfs as [|rf rfs IH]; intros s h fs rest h' H; cbn [h_decompress_fields] in H.
  - unfold hret in H. inversion H; subst. split; auto.
  - apply hbind_inv in H. destruct H as [(x & h1 & Hx & H) | [(e0 & _ & E) | (_ & E)]]; try discriminate.
    destruct x as [f n]. pose proof (pv_decompress_field _ _ _ _ _ Hx) as X1. apply extends_length in X1.
    apply h_decompress_field_fresh in Hx.
    apply hbind_inv in H. destruct H as [(s' & h2 & Hs & H) | [(e0 & _ & E) | (_ & E)]]; try discriminate.
    apply pr_getitem in Hs. destruct Hs as [X2 F2]. specialize (F2 s' eq_refl). apply extends_length in X2.
    apply hbind_inv in H. destruct H as [(r & h3 & Hr & H) | [(e0 & _ & E) | (_ & E)]]; try discriminate.
    destruct r as [fs' rest']. pose proof (pv_decompress_fields _ _ _ _ _ Hr) as X3. apply extends_length in X3.
    apply IH in Hr. destruct Hr as [FA FR]. unfold hret in H. inversion H; subst. cbn [fst snd] in *. split.
    + constructor. lia. eapply Forall_impl; [ | exact FA]. cbn beta. intros; lia.
    + right. destruct FR as [(_ & -> & ->) | L]; lia.
Qed.
