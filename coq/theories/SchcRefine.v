(* SchcRefine.v -- the byte-level SCHC functions of SchcBytes.v (written with the Buffer operations)
   refine the bit-level functions of Schc.v through abs: on canonical buffers the byte-level
   compressor / decompressor / matching operators compute a canonical buffer (or the same boolean /
   exception) that denotes exactly what the bit-level function computes.  This composes the Buffer
   layer (Buffer.v + BufferSpec.v) with the SCHC layer (Schc.v + SchcSpec.v). *)
From Coq Require Import ZArith List Bool Lia.
From MS Require Import PyBase Buffer Bits ByteFacts BufferAbs BufNew BufferSpec Schc SchcBytes.
Import ListNotations.
Open Scope Z_scope.

(* ---- canonical-form invariants of the byte-level data --------------------------------------- *)
Definition canon_tv (t : btv) : Prop :=
  match t with
  | BTVbuf b => canon b
  | BTVmap fw => Forall (fun kv => canon (fst kv) /\ canon (snd kv)) fw
  end.
Definition canon_rfd (f : brfd) : Prop := canon_tv (br_tv f).
Definition canon_rule (r : brule) : Prop := canon (brule_id r) /\ Forall canon_rfd (brule_fds r).
(* packet fields are left-padded (what the parsers produce from the default left-padded packet
   buffer; least_significant_bits assumes it) *)
Definition canon_field (f : bfield) : Prop := canon (bf_val f) /\ bside (bf_val f) = LEFT.
Definition canon_pdesc (p : bpdesc) : Prop := Forall canon_field (bpd_fields p) /\ canon (bpd_payload p).

Ltac splits := repeat match goal with |- _ /\ _ => split end.

(* ---- small facts ---------------------------------------------------------------------------- *)
Lemma canon_nonneg b : canon b -> 0 <= blen b.
Proof. intros (H & _). exact H. Qed.

Definition ab2 (kv : buf * buf) : bits * bits := (abs (fst kv), abs (snd kv)).

Lemma abs_tv_map fw : abs_tv abs (BTVmap fw) = TVmap (map ab2 fw).
Proof. reflexivity. Qed.

Lemma select_fds_abs d fds : select_fds d (map (abs_rfd abs) fds) = map (abs_rfd abs) (bselect_fds d fds).
Proof.
  destruct d as [d|]; [|reflexivity]. cbn [select_fds bselect_fds].
  induction fds as [|f fds IH]; [reflexivity|]. cbn [map filter].
  change (applies d (abs_rfd abs f)) with (bapplies d f).
  destruct (bapplies d f); cbn [map]; now rewrite IH.
Qed.

Lemma bselect_fds_canon d fds : Forall canon_rfd fds -> Forall canon_rfd (bselect_fds d fds).
Proof.
  intros H. destruct d as [d|]; [|exact H]. cbn [bselect_fds].
  induction H as [|f fds Hf H IH]; cbn [filter]; [constructor|].
  destruct (bapplies d f); [constructor; auto|auto].
Qed.

(* the empty accumulator Buffer(b'', 0, RIGHT) *)
Lemma empty_buf : exists e, b_new [] 0 RIGHT = Ok e /\ canon e /\ abs e = [].
Proof.
  destruct (new_right_bits [] 0 bytes_ok_nil ltac:(lia)) as (e & E & C & _ & _ & A).
  exists e. split; [exact E|]. split; [exact C|]. rewrite A. reflexivity.
Qed.

(* mapping values: the bit-level dict of a byte-level forward mapping *)
Lemma assoc_get_ab2 fw k : Forall (fun kv => canon (fst kv) /\ canon (snd kv)) fw ->
  match assoc_get (abs_keys fw) k with
  | Some i => canon i /\ assoc_get (map ab2 fw) k = Some (abs i)
  | None => assoc_get (map ab2 fw) k = None
  end.
Proof.
  induction 1 as [|[a v] fw [Ha Hv] H IH]; [reflexivity|].
  cbn [abs_keys map assoc_get ab2 fst snd] in *.
  destruct (bits_eqb (abs a) k); [split; [exact Hv|reflexivity]|exact IH].
Qed.

Lemma Forall_fst_canon (fw : list (buf * buf)) :
  Forall (fun kv => canon (fst kv) /\ canon (snd kv)) fw -> Forall (fun kv => canon (fst kv)) fw.
Proof. intros H. eapply Forall_impl; [|exact H]. cbv beta. intros kv [Hk _]. exact Hk. Qed.

(* ---- slices: b_getitem computes the Python slice of the bit sequence, for ALL bounds (negative,
        missing, beyond the end) as long as the clamped start does not exceed the clamped stop ---- *)
Lemma clamp_range len i d : 0 <= len -> 0 <= d <= len -> 0 <= clamp_index len i d <= len.
Proof.
  intros Hl Hd. unfold clamp_index. destruct i as [i|]; [|exact Hd].
  destruct (Z.ltb_spec i 0); [destruct (Z.ltb_spec (i + len) 0); lia|].
  destruct (Z.ltb_spec len i); lia.
Qed.

Lemma getitem_bits_raw b s e : canon b -> 0 <= s <= e -> e <= blen b ->
  exists r, b_getitem_bits b s e = Ok r /\ canon r /\ bside r = bside b /\
            abs r = firstn (Z.to_nat (e - s)) (skipn (Z.to_nat s) (abs b)).
Proof.
  intros Hb Hse He. destruct (getitem_bits b s e Hb Hse) as (r & E & R).
  exists r. split; [|exact R]. rewrite <- E. unfold b_getitem, slice_indices, clamp_index.
  destruct (Z.ltb_spec s 0); [lia|]. destruct (Z.ltb_spec (blen b) s); [lia|].
  destruct (Z.ltb_spec e 0); [lia|]. destruct (Z.ltb_spec (blen b) e); [lia|]. reflexivity.
Qed.

Definition slice_ordered (len : Z) (st sp : option Z) : Prop :=
  fst (slice_indices len st sp) <= snd (slice_indices len st sp).

Theorem getitem_slice b st sp : canon b -> slice_ordered (blen b) st sp ->
  exists r, b_getitem b st sp = Ok r /\ canon r /\ bside r = bside b /\ abs r = py_slice (abs b) st sp.
Proof.
  intros Hb Ho. pose proof (canon_nonneg b Hb) as HL. unfold b_getitem, py_slice. rewrite zlen_abs by exact Hb.
  unfold slice_ordered in Ho. unfold slice_indices in *. cbn [fst snd] in Ho.
  pose proof (clamp_range (blen b) st 0 HL ltac:(lia)). pose proof (clamp_range (blen b) sp (blen b) HL ltac:(lia)).
  apply getitem_bits_raw; [exact Hb|lia|lia].
Qed.

Lemma ordered_from len st : 0 <= len -> slice_ordered len st None.
Proof.
  intros H. unfold slice_ordered, slice_indices. cbn [fst snd].
  pose proof (clamp_range len st 0 H ltac:(lia)). cbn [clamp_index]. lia.
Qed.
Lemma ordered_to len sp : 0 <= len -> slice_ordered len None sp.
Proof.
  intros H. unfold slice_ordered, slice_indices. cbn [fst snd].
  pose proof (clamp_range len sp len H ltac:(lia)). cbn [clamp_index] in *. lia.
Qed.
Lemma ordered_0 len sp : 0 <= len -> slice_ordered len (Some 0) sp.
Proof.
  intros H. unfold slice_ordered, slice_indices. cbn [fst snd].
  pose proof (clamp_range len sp len H ltac:(lia)). unfold clamp_index at 1. cbn [Z.ltb Z.compare].
  destruct (Z.ltb_spec len 0); lia.
Qed.
Lemma ordered_mid len a c : 0 <= len -> 0 <= a <= c -> slice_ordered len (Some a) (Some c).
Proof.
  intros H Hac. unfold slice_ordered, slice_indices, clamp_index. cbn [fst snd].
  destruct (Z.ltb_spec a 0); [lia|]. destruct (Z.ltb_spec c 0); [lia|].
  destruct (Z.ltb_spec len a); destruct (Z.ltb_spec len c); lia.
Qed.

(* concatenating a list of buffers *)
Lemma badd_all_bits l : Forall canon l -> forall acc, canon acc ->
  exists x, badd_all acc l = Ok x /\ canon x /\ abs x = abs acc ++ concat (map abs l).
Proof.
  induction 1 as [|b l Hb Hl IH]; intros acc Ha; cbn [badd_all map concat].
  - exists acc. split; [reflexivity|]. split; [exact Ha|]. now rewrite app_nil_r.
  - destruct (add_bits acc b Ha Hb) as (a & E & C & _ & A). rewrite E. cbn [bind].
    destruct (IH a C) as (x & Ex & Cx & Ax). exists x. split; [exact Ex|]. split; [exact Cx|].
    rewrite Ax, A. now rewrite app_assoc.
Qed.

(* ---- the size announcement ------------------------------------------------------------------ *)
Lemma b_new_nibble n : b_new [n] 4 LEFT = Ok (mkbuf [n mod 16] 4 LEFT 4).
Proof.
  change (b_new [n] 4 LEFT) with (do c3 <- (do fb <- to_byte (Z.land n 15) ;; Ok [fb]) ;; Ok (mkbuf c3 4 LEFT 4)).
  change 15 with (Z.ones 4). rewrite Z.land_ones by lia. change (2 ^ 4) with 16.
  rewrite to_byte_ok by (pose proof (Z.mod_pos_bound n 16 ltac:(lia)); lia). reflexivity.
Qed.

Lemma val_bytes_of_2 n : 0 <= n < 65536 -> val (bytes_of 2 n) = n.
Proof.
  intros H. cbn [bytes_of]. rewrite val_cons, val_single. change (zlen [n / 256 ^ Z.of_nat 0 mod 256]) with 1.
  change (256 ^ Z.of_nat 1) with 256. change (256 ^ Z.of_nat 0) with 1. change (256 ^ 1) with 256.
  rewrite Z.div_1_r. rewrite (Z.mod_small (n / 256) 256).
  - pose proof (Z.div_mod n 256 ltac:(lia)). lia.
  - split; [apply Z.div_pos; lia|apply Z.div_lt_upper_bound; lia].
Qed.

(* holds for every n (negative n below 15 included: Buffer.__init__ masks the single content byte) *)
Theorem bencode_length_refines n p : encode_length n = Ok p ->
  exists x, bencode_length n = Ok x /\ canon x /\ abs x = p.
Proof.
  unfold encode_length, bencode_length. destruct (Z.ltb_spec n 65536) as [H1|H1]; cbn [negb]; [|discriminate].
  destruct (Z.ltb_spec n 15) as [H2|H2].
  - intros [= <-]. rewrite b_new_nibble. eexists. split; [reflexivity|].
    pose proof (Z.mod_pos_bound n 16 ltac:(lia)) as Hm. split.
    + unfold canon. cbn [content blen bside bpl]. split; [lia|]. split; [reflexivity|]. split; [reflexivity|].
      split; [apply bytes_ok_cons; split; [lia|apply bytes_ok_nil]|]. rewrite val_single. change (2 ^ 4) with 16. lia.
    + unfold abs, num. cbn [content blen bside bpl]. rewrite val_single. change 16 with (2 ^ Z.of_nat 4).
      change (Z.to_nat 4) with 4%nat. apply bits_of_mod.
  - destruct (Z.ltb_spec n 255) as [H3|H3]; intros [= <-].
    + assert (bytes_ok [15; n]) as Hok by (repeat (apply bytes_ok_cons; split; [lia|]); apply bytes_ok_nil).
      destruct (new_left_bits [15; n] 12 Hok ltac:(lia)) as (x & E & C & _ & _ & A).
      exists x. split; [exact E|]. split; [exact C|]. rewrite A.
      rewrite val_cons, val_single. change (zlen [n]) with 1. change (256 ^ 1) with (2 ^ Z.of_nat 8).
      change (Z.to_nat 12) with (4 + 8)%nat. rewrite bits_of_app by (change (2 ^ Z.of_nat 8) with 256; lia).
      reflexivity.
    + assert (bytes_ok ([15; 255] ++ bytes_of 2 n)) as Hok.
      { cbn [bytes_of app]. repeat (apply bytes_ok_cons; split; [try lia|]); try apply bytes_ok_nil;
          apply Z.mod_pos_bound; lia. }
      destruct (new_left_bits _ 28 Hok ltac:(lia)) as (x & E & C & _ & _ & A).
      exists x. split; [exact E|]. split; [exact C|]. rewrite A.
      rewrite val_app, val_bytes_of_2 by lia. change (zlen (bytes_of 2 n)) with 2.
      change (val [15; 255]) with 4095. change (256 ^ 2) with (2 ^ Z.of_nat 16).
      change (Z.to_nat 28) with (12 + 16)%nat. rewrite bits_of_app by (change (2 ^ Z.of_nat 16) with 65536; lia).
      reflexivity.
Qed.

(* ---- matching operators --------------------------------------------------------------------- *)
Lemma bmsb_match_refines v pat : canon v -> canon pat -> bmsb_match v pat = Ok (msb_match (abs v) (abs pat)).
Proof.
  intros Hv Hp. unfold bmsb_match, msb_match. rewrite !zlen_abs by assumption.
  pose proof (canon_nonneg v Hv). pose proof (canon_nonneg pat Hp).
  destruct (Z.ltb_spec (blen v) (blen pat)); [reflexivity|].
  destruct (shift_right_bits v (blen v - blen pat) false Hv ltac:(lia)) as (sh & E & C & _ & A).
  rewrite E. cbn [bind]. rewrite eq_bits by assumption. rewrite A, abs_length by assumption.
  do 3 f_equal. lia.
Qed.

Theorem bfield_match_refines pf rf : canon (bf_val pf) -> canon_rfd rf ->
  bfield_match pf rf = field_match (abs_field abs pf) (abs_rfd abs rf).
Proof.
  intros Hv Hrf. unfold bfield_match, field_match, canon_rfd in *.
  cbn [abs_field abs_rfd f_id f_val r_id r_mo r_tv r_len].
  destruct (fid_eqb (bf_id pf) (br_id rf)); cbn [negb]; [|reflexivity].
  destruct (br_mo rf); [| reflexivity | |].
  - destruct (br_tv rf) as [t|fw]; cbn [abs_tv canon_tv] in *; [|reflexivity]. apply eq_bits; assumption.
  - rewrite zlen_abs by assumption.
    destruct (negb (br_len rf =? 0) && negb (br_len rf =? blen (bf_val pf))); [reflexivity|].
    destruct (br_tv rf) as [t|fw]; cbn [abs_tv canon_tv] in *; [|reflexivity]. apply bmsb_match_refines; assumption.
  - destruct (br_tv rf) as [t|fw]; cbn [abs_tv canon_tv] in *; [reflexivity|].
    rewrite (dict_get_bits fw (bf_val pf) (Forall_fst_canon fw Hrf) Hv). cbn [bind]. f_equal.
    pose proof (assoc_get_ab2 fw (abs (bf_val pf)) Hrf) as H. fold ab2.
    destruct (assoc_get (abs_keys fw) (abs (bf_val pf))); [destruct H as [_ ->]|rewrite H]; reflexivity.
Qed.

(* ---- the compressor ------------------------------------------------------------------------- *)
Lemma lsb_bits_bounds v n r : lsb_bits v n = Ok r -> 0 <= n <= zlen v.
Proof.
  unfold lsb_bits. destruct (Z.ltb_spec n 0); [discriminate|]. destruct (Z.ltb_spec (zlen v) n); [discriminate|].
  intros _. lia.
Qed.

Lemma bresidue_of_refines pf rf ro : canon_field pf -> canon_rfd rf ->
  residue_of (abs_field abs pf) (abs_rfd abs rf) = Ok ro ->
  exists bro, bresidue_of pf rf = Ok bro /\ option_map abs bro = ro /\
              match bro with Some x => canon x | None => True end.
Proof.
  intros [Hv Hs] Hrf. unfold residue_of, bresidue_of, canon_rfd in *.
  cbn [abs_field abs_rfd f_val r_cda r_tv].
  destruct (br_cda rf).
  - intros [= <-]. exists None. auto.
  - destruct (br_tv rf) as [pat|fw]; cbn [abs_tv canon_tv] in *; [|discriminate].
    rewrite !zlen_abs by assumption.
    destruct (lsb_bits (abs (bf_val pf)) (blen (bf_val pf) - blen pat)) as [r| |] eqn:E; cbn [bind]; try discriminate.
    intros [= <-]. pose proof (lsb_bits_bounds _ _ _ E) as Hb. rewrite zlen_abs in Hb by assumption.
    destruct (lsb_bits_spec (bf_val pf) _ Hv Hs Hb) as (x & Ex & Cx & _ & Ax).
    rewrite Ex. cbn [bind]. exists (Some x). split; [reflexivity|]. split; [|exact Cx].
    cbn [option_map]. congruence.
  - destruct (br_tv rf) as [pat|fw]; cbn [abs_tv canon_tv] in *; [discriminate|].
    rewrite (dict_get_bits fw (bf_val pf) (Forall_fst_canon fw Hrf) Hv). cbn [bind].
    pose proof (assoc_get_ab2 fw (abs (bf_val pf)) Hrf) as H. fold ab2.
    destruct (assoc_get (abs_keys fw) (abs (bf_val pf))) as [i|].
    + destruct H as [Ci ->]. intros [= <-]. exists (Some i). auto.
    + rewrite H. discriminate.
  - intros [= <-]. exists (Some (bf_val pf)). auto.
  - intros [= <-]. exists None. auto.
Qed.

Lemma bcompress_fields_refines pfs : forall rfs acc s,
  Forall canon_field pfs -> Forall canon_rfd rfs -> canon acc ->
  compress_fields (map (abs_field abs) pfs) (map (abs_rfd abs) rfs) (abs acc) = Ok s ->
  exists x, bcompress_fields pfs rfs acc = Ok x /\ canon x /\ abs x = s.
Proof.
  induction pfs as [|pf pfs IH]; intros rfs acc s Hp Hr Ha.
  - cbn [map compress_fields bcompress_fields]. intros [= <-]. exists acc. auto.
  - destruct rfs as [|rf rfs].
    + cbn [map compress_fields bcompress_fields]. intros [= <-]. exists acc. auto.
    + inversion Hp as [|? ? Hpf Hp']; subst. inversion Hr as [|? ? Hrf Hr']; subst.
      cbn [map compress_fields bcompress_fields].
      destruct (residue_of (abs_field abs pf) (abs_rfd abs rf)) as [ro| |] eqn:E; cbn [bind]; try discriminate.
      destruct (bresidue_of_refines pf rf ro Hpf Hrf E) as (bro & Eb & <- & Cb). rewrite Eb. cbn [bind].
      destruct bro as [x|]; cbn [option_map]; [|apply IH; assumption].
      change (announces_length (abs_rfd abs rf)) with (bannounces_length rf).
      rewrite zlen_abs by exact Cb.
      destruct (bannounces_length rf).
      * destruct (encode_length (blen x)) as [pre| |] eqn:El; cbn [bind]; try discriminate.
        destruct (bencode_length_refines _ _ El) as (bp & Ep & Cp & <-). rewrite Ep. cbn [bind].
        destruct (add_bits acc bp Ha Cp) as (a1 & E1 & C1 & _ & A1). rewrite E1. cbn [bind].
        destruct (add_bits a1 x C1 Cb) as (a2 & E2 & C2 & _ & A2). rewrite E2. cbn [bind].
        intros H. apply IH; try assumption. rewrite A2, A1, <- app_assoc. exact H.
      * cbn [bind app].
        destruct (add_bits acc x Ha Cb) as (a2 & E2 & C2 & _ & A2). rewrite E2. cbn [bind].
        intros H. apply IH; try assumption. rewrite A2. exact H.
Qed.

Theorem bcompress_refines pd r d s : canon_pdesc pd -> canon_rule r ->
  compress (abs_pdesc abs pd) (abs_rule abs r) d = Ok s ->
  exists x, bcompress pd r d = Ok x /\ canon x /\ abs x = s.
Proof.
  intros [Hf Hpl] [Hid Hfds]. unfold compress, bcompress.
  cbn [abs_pdesc abs_rule rule_nature rule_fds rule_id pd_fields pd_payload].
  destruct empty_buf as (e & Ee & Ce & Ae). rewrite Ee. cbn [bind].
  destruct (add_bits e (brule_id r) Ce Hid) as (s0 & E0 & C0 & _ & A0). rewrite E0. cbn [bind].
  rewrite Ae in A0. cbn [app] in A0.
  destruct (brule_nature r).
  - rewrite select_fds_abs. rewrite <- A0.
    destruct (compress_fields _ _ (abs s0)) as [body| |] eqn:E; cbn [bind]; try discriminate.
    intros [= <-].
    destruct (bcompress_fields_refines _ _ _ _ Hf (bselect_fds_canon d _ Hfds) C0 E) as (bb & Eb & Cb & <-).
    rewrite Eb. cbn [bind]. destruct (add_bits bb _ Cb Hpl) as (x & Ex & Cx & _ & Ax).
    exists x. auto.
  - intros [= <-].
    assert (Forall canon (map bf_val (bpd_fields pd))) as Hvs.
    { apply Forall_map. eapply Forall_impl; [|exact Hf]. intros f [H _]. exact H. }
    destruct (badd_all_bits _ Hvs s0 C0) as (bb & Eb & Cb & Ab). rewrite Eb. cbn [bind].
    destruct (add_bits bb _ Cb Hpl) as (x & Ex & Cx & _ & Ax).
    exists x. split; [exact Ex|]. split; [exact Cx|]. rewrite Ax, Ab, A0.
    rewrite !map_map. cbn [abs_field f_val]. now rewrite <- app_assoc.
  - intros [= <-]. exists s0. split; [reflexivity|]. split; [exact C0|]. exact A0.
Qed.

(* a fragmentation rule at the byte level: Buffer(b'', 0, RIGHT) + rule id, nothing else *)
Theorem bcompress_fragmentation pd r d : canon (brule_id r) -> brule_nature r = Fragmentation ->
  exists x, bcompress pd r d = Ok x /\ canon x /\ abs x = abs (brule_id r).
Proof.
  intros Hid HN. unfold bcompress.
  destruct empty_buf as (e & Ee & Ce & Ae). rewrite Ee. cbn [bind].
  destruct (add_bits e (brule_id r) Ce Hid) as (s0 & E0 & C0 & _ & A0). rewrite E0. cbn [bind].
  rewrite Ae in A0. cbn [app] in A0. rewrite HN. exists s0. auto.
Qed.

(* ---- rule-id dispatch ----------------------------------------------------------------------- *)
Theorem bmatch_schc_loop_refines rules s : canon s -> Forall canon_rule rules ->
  exists o, bmatch_schc_loop rules s = Ok o /\
            option_map (abs_rule abs) o = match_schc_loop (map (abs_rule abs) rules) (abs s) /\
            match o with Some r => In r rules | None => True end.
Proof.
  intros Hs. induction 1 as [|r rules [Hid _] Hr IH]; cbn [bmatch_schc_loop map match_schc_loop].
  - exists None. auto.
  - cbn [abs_rule rule_id]. rewrite !zlen_abs by assumption.
    destruct IH as (o & Eo & Ao & Io).
    destruct (Z.ltb_spec (blen s) (blen (brule_id r))).
    + exists o. split; [exact Eo|]. split; [exact Ao|]. destruct o; [right; exact Io|exact I].
    + pose proof (canon_nonneg s Hs) as HL.
      destruct (getitem_slice s (Some 0) (Some (blen (brule_id r))) Hs (ordered_0 _ _ HL)) as (sl & E & C & _ & A).
      rewrite E. cbn [bind]. rewrite eq_bits by assumption. cbn [bind]. rewrite A.
      destruct (bits_eqb (abs (brule_id r)) _).
      * exists (Some r). split; [reflexivity|]. split; [reflexivity|left; reflexivity].
      * exists o. split; [exact Eo|]. split; [exact Ao|]. destruct o; [right; exact Io|exact I].
Qed.

(* ---- the decompressor ----------------------------------------------------------------------- *)
Theorem bdecode_var_refines s : canon s ->
  exists r n, bdecode_var s = Ok (r, n) /\ canon r /\ decode_var (abs s) = (abs r, n).
Proof.
  intros Hs. pose proof (canon_nonneg s Hs) as HL. unfold bdecode_var, decode_var. cbv zeta.
  destruct (getitem_slice s (Some 0) (Some 4) Hs (ordered_0 _ _ HL)) as (l4 & E4 & C4 & _ & A4).
  rewrite E4. cbn [bind]. rewrite (prefix_value_bits l4 C4). cbn [bind]. rewrite A4.
  set (v4 := Z_of_bits (py_slice (abs s) (Some 0) (Some 4))).
  assert (0 <= v4) as H4 by apply Z_of_bits_range. clearbody v4.
  destruct (v4 <? 15).
  - destruct (getitem_slice s (Some 4) (Some (4 + v4)) Hs (ordered_mid (blen s) 4 (4 + v4) HL ltac:(lia))) as (r & E & C & _ & A).
    rewrite E. cbn [bind]. exists r, (4 + v4). split; [reflexivity|]. split; [exact C|]. now rewrite A.
  - destruct (getitem_slice s (Some 4) (Some 12) Hs (ordered_mid (blen s) 4 12 HL ltac:(lia))) as (l8 & E8 & C8 & _ & A8).
    rewrite E8. cbn [bind]. rewrite (prefix_value_bits l8 C8). cbn [bind]. rewrite A8.
    set (v8 := Z_of_bits (py_slice (abs s) (Some 4) (Some 12))).
    assert (0 <= v8) as H8 by apply Z_of_bits_range. clearbody v8.
    destruct (v8 <? 255).
    + destruct (getitem_slice s (Some 12) (Some (12 + v8)) Hs (ordered_mid (blen s) 12 (12 + v8) HL ltac:(lia))) as (r & E & C & _ & A).
      rewrite E. cbn [bind]. exists r, (12 + v8). split; [reflexivity|]. split; [exact C|]. now rewrite A.
    + destruct (getitem_slice s (Some 12) (Some 28) Hs (ordered_mid (blen s) 12 28 HL ltac:(lia))) as (l16 & E16 & C16 & _ & A16).
      rewrite E16. cbn [bind]. rewrite (prefix_value_bits l16 C16). cbn [bind]. rewrite A16.
      set (v16 := Z_of_bits (py_slice (abs s) (Some 12) (Some 28))).
      assert (0 <= v16) as H16 by apply Z_of_bits_range. clearbody v16.
      destruct (getitem_slice s (Some 28) (Some (28 + v16)) Hs (ordered_mid (blen s) 28 (28 + v16) HL ltac:(lia))) as (r & E & C & _ & A).
      rewrite E. cbn [bind]. exists r, (28 + v16). split; [reflexivity|]. split; [exact C|]. now rewrite A.
Qed.

(* the reverse mapping {v: k for k, v in forward.items()} *)
Definition both_canon (kv : buf * buf) : Prop := canon (fst kv) /\ canon (snd kv).

Lemma dict_set_ab2 d k v : Forall both_canon d -> canon k -> canon v ->
  exists d', dict_set d k v = Ok d' /\ Forall both_canon d' /\ map ab2 d' = assoc_set (map ab2 d) (abs k) (abs v).
Proof.
  intros Hd Hk Hv. induction Hd as [|[k0 v0] d [Hk0 Hv0] Hd IH]; cbn [fst snd] in *.
  - exists [(k, v)]. split; [reflexivity|]. split; [constructor; [split; assumption|constructor]|reflexivity].
  - cbn [dict_set map assoc_set ab2 fst snd]. rewrite key_match_bits by assumption. cbn [bind].
    destruct (bits_eqb (abs k0) (abs k)).
    + exists ((k0, v) :: d). split; [reflexivity|]. split; [constructor; [split; assumption|exact Hd]|reflexivity].
    + destruct IH as (d' & E & F & A). rewrite E. cbn [bind].
      exists ((k0, v0) :: d'). split; [reflexivity|]. split; [constructor; [split; assumption|exact F]|].
      cbn [map ab2 fst snd]. now rewrite A.
Qed.

Lemma breverse_gen fw : Forall both_canon fw -> forall acc, Forall both_canon acc ->
  exists d', dict_of_list acc (map (fun kv => (snd kv, fst kv)) fw) = Ok d' /\ Forall both_canon d' /\
             map ab2 d' = fold_left (fun a kv => assoc_set a (snd kv) (fst kv)) (map ab2 fw) (map ab2 acc).
Proof.
  induction 1 as [|[k v] fw [Hk Hv] Hfw IH]; intros acc Hacc; cbn [map dict_of_list fold_left fst snd] in *.
  - exists acc. auto.
  - destruct (dict_set_ab2 acc v k Hacc Hv Hk) as (a' & E & F & A). rewrite E. cbn [bind].
    destruct (IH a' F) as (d' & E' & F' & A'). exists d'. split; [exact E'|]. split; [exact F'|].
    rewrite A', A. reflexivity.
Qed.

Lemma breverse_of_refines fw : Forall both_canon fw ->
  exists rv, breverse_of fw = Ok rv /\ Forall both_canon rv /\ map ab2 rv = reverse_of (map ab2 fw).
Proof. intros H. exact (breverse_gen fw H [] (Forall_nil _)). Qed.

Lemma breverse_lookup_refines rv s : Forall both_canon rv -> canon s ->
  exists o, breverse_lookup rv s = Ok o /\ option_map ab2 o = reverse_lookup (map ab2 rv) (abs s) /\
            match o with Some kv => both_canon kv | None => True end.
Proof.
  intros Hrv Hs. pose proof (canon_nonneg s Hs) as HL.
  induction Hrv as [|[k v] rv [Hk Hv] Hrv IH]; cbn [breverse_lookup map reverse_lookup ab2 fst snd] in *.
  - exists None. auto.
  - destruct (getitem_slice s (Some 0) (Some (blen k)) Hs (ordered_0 _ _ HL)) as (sl & E & C & _ & A).
    rewrite E. cbn [bind]. rewrite eq_bits by assumption. cbn [bind]. rewrite A, zlen_abs by assumption.
    destruct (bits_eqb (abs k) _); [|exact IH].
    exists (Some (k, v)). split; [reflexivity|]. split; [reflexivity|]. split; assumption.
Qed.

Lemma bdecompress_field_refines ct pos rf s v rb ce : canon s -> canon_rfd rf ->
  match br_cda rf with Compute => false | _ => true end = true ->
  decompress_field ct pos (abs_rfd abs rf) (abs s) = Ok (v, rb, ce) ->
  exists f, bdecompress_field rf s = Ok (f, rb) /\ canon f /\ abs f = v /\ ce = None.
Proof.
  intros Hs Hrf Hnc. pose proof (canon_nonneg s Hs) as HL.
  unfold decompress_field, bdecompress_field, canon_rfd in *. cbn [abs_rfd r_cda r_tv r_len r_id].
  destruct empty_buf as (e & Ee & Ce & Ae). rewrite Ee. cbn [bind].
  destruct (br_cda rf); [| | | |discriminate].
  - (* not-sent *)
    destruct (br_tv rf) as [t|fw]; cbn [abs_tv canon_tv] in *; [|discriminate]. intros [= <- <- <-].
    destruct (add_bits e t Ce Hrf) as (f & E & C & _ & A). rewrite E. cbn [bind].
    exists f. split; [reflexivity|]. split; [exact C|]. rewrite A, Ae. auto.
  - (* LSB *)
    destruct (br_tv rf) as [t|fw]; cbn [abs_tv canon_tv] in *; [|discriminate].
    destruct (add_bits e t Ce Hrf) as (f1 & E1 & C1 & _ & A1). rewrite Ae in A1. cbn [app] in A1.
    destruct (negb (br_len rf =? 0)).
    + rewrite zlen_abs by assumption. intros [= <- <- <-].
      destruct (getitem_slice s None (Some (br_len rf - blen t)) Hs (ordered_to _ _ HL)) as (r & E & C & _ & A).
      rewrite E. cbn [bind fst snd]. rewrite E1. cbn [bind].
      destruct (add_bits f1 r C1 C) as (f2 & E2 & C2 & _ & A2). rewrite E2. cbn [bind].
      exists f2. split; [reflexivity|]. split; [exact C2|]. rewrite A2, A1, A. auto.
    + destruct (bdecode_var_refines s Hs) as (r & n & E & C & A). rewrite E, A. cbn [bind fst snd].
      intros [= <- <- <-]. rewrite E1. cbn [bind].
      destruct (add_bits f1 r C1 C) as (f2 & E2 & C2 & _ & A2). rewrite E2. cbn [bind].
      exists f2. split; [reflexivity|]. split; [exact C2|]. rewrite A2, A1. auto.
  - (* mapping-sent *)
    destruct (br_tv rf) as [t|fw]; cbn [abs_tv canon_tv] in *; [discriminate|]. fold ab2.
    destruct (breverse_of_refines fw Hrf) as (rv & Er & Fr & Ar). rewrite Er. cbn [bind]. rewrite <- Ar.
    destruct (breverse_lookup_refines rv s Fr Hs) as (o & Eo & Ao & Co). rewrite Eo. cbn [bind]. rewrite <- Ao.
    destruct o as [[key value]|]; cbn [option_map ab2 fst snd].
    + destruct Co as [Ck Cv]. cbn [fst snd] in *. rewrite zlen_abs by assumption. intros [= <- <- <-].
      destruct (add_bits e value Ce Cv) as (f & E & C & _ & A). rewrite E. cbn [bind].
      exists f. split; [reflexivity|]. split; [exact C|]. rewrite A, Ae. auto.
    + intros [= <- <- <-]. exists e. auto.
  - (* value-sent *)
    destruct (br_tv rf) as [t|fw]; cbn [abs_tv canon_tv] in *; [|discriminate].
    destruct (negb (br_len rf =? 0)).
    + intros [= <- <- <-].
      destruct (getitem_slice s (Some 0) (Some (br_len rf)) Hs (ordered_0 _ _ HL)) as (r & E & C & _ & A).
      rewrite E. cbn [bind fst snd].
      destruct (add_bits e r Ce C) as (f & E2 & C2 & _ & A2). rewrite E2. cbn [bind].
      exists f. split; [reflexivity|]. split; [exact C2|]. rewrite A2, Ae, A. auto.
    + destruct (bdecode_var_refines s Hs) as (r & n & E & C & A). rewrite E, A. cbn [bind fst snd].
      intros [= <- <- <-].
      destruct (add_bits e r Ce C) as (f & E2 & C2 & _ & A2). rewrite E2. cbn [bind].
      exists f. split; [reflexivity|]. split; [exact C2|]. rewrite A2, Ae. auto.
Qed.

Definition no_compute (rf : brfd) : bool := match br_cda rf with Compute => false | _ => true end.

Lemma bdecompress_fields_refines ct rfs : forall pos s fs ces rest,
  canon s -> Forall canon_rfd rfs -> forallb no_compute rfs = true ->
  decompress_fields ct pos (map (abs_rfd abs) rfs) (abs s) = Ok (fs, ces, rest) ->
  exists bl s', bdecompress_fields rfs s = Ok (bl, s') /\ Forall canon bl /\ canon s' /\
                map abs bl = map snd fs /\ ces = [] /\ abs s' = rest.
Proof.
  induction rfs as [|rf rfs IH]; intros pos s fs ces rest Hs Hr Hnc; cbn [map decompress_fields bdecompress_fields].
  - intros [= <- <- <-]. exists [], s. splits; auto.
  - inversion Hr as [|? ? Hrf Hr']; subst. cbn [forallb] in Hnc. apply andb_true_iff in Hnc as [Hn1 Hn2].
    destruct (decompress_field ct pos (abs_rfd abs rf) (abs s)) as [[[v rb] ce]| |] eqn:E; cbn [bind]; try discriminate.
    destruct (bdecompress_field_refines ct pos rf s v rb ce Hs Hrf Hn1 E) as (f & Ef & Cf & Af & ->).
    rewrite Ef. cbn [bind fst snd].
    destruct (getitem_slice s (Some rb) None Hs (ordered_from _ _ (canon_nonneg s Hs))) as (s1 & E1 & C1 & _ & A1).
    rewrite E1. cbn [bind]. rewrite <- A1.
    destruct (decompress_fields ct (pos + 1) (map (abs_rfd abs) rfs) (abs s1)) as [[[fs1 ces1] rest1]| |] eqn:E2;
      cbn [bind]; try discriminate.
    intros [= <- <- <-].
    destruct (IH _ _ _ _ _ C1 Hr' Hn2 E2) as (bl & s' & Eb & Fb & Cs & Ab & -> & As).
    rewrite Eb. cbn [bind fst snd]. exists (f :: bl), s'. split; [reflexivity|].
    split; [constructor; assumption|]. split; [exact Cs|]. cbn [map snd app]. rewrite Ab, Af. splits; auto.
Qed.

Theorem bdecompress_refines ct s r d p : canon s -> canon_rule r ->
  forallb (fun rf => match br_cda rf with Compute => false | _ => true end) (bselect_fds d (brule_fds r)) = true ->
  decompress ct (abs s) (abs_rule abs r) d = Ok p ->
  exists x, bdecompress s r d = Ok x /\ canon x /\ abs x = p.
Proof.
  intros Hs [Hid Hfds] Hnc. unfold decompress, bdecompress. cbv zeta.
  cbn [abs_rule rule_id rule_fds]. rewrite zlen_abs by assumption. rewrite select_fds_abs.
  destruct (getitem_slice s (Some (blen (brule_id r))) None Hs (ordered_from _ _ (canon_nonneg s Hs))) as (s1 & E1 & C1 & _ & A1).
  rewrite E1. cbn [bind]. rewrite <- A1.
  destruct (decompress_fields ct 0 _ (abs s1)) as [[[fs ces] rest]| |] eqn:E; cbn [bind]; try discriminate.
  destruct (bdecompress_fields_refines ct _ _ _ _ _ _ C1 (bselect_fds_canon d _ Hfds) Hnc E) as (bl & s' & Eb & Fb & Cs & Ab & -> & As).
  rewrite Eb. cbn [bind fst snd ce_sorted negb run_computes]. intros [= <-].
  destruct empty_buf as (e & Ee & Ce & Ae). rewrite Ee. cbn [bind].
  assert (Forall canon (bl ++ [s'])) as Hall by (apply Forall_app; split; [exact Fb|constructor; [exact Cs|constructor]]).
  destruct (badd_all_bits _ Hall e Ce) as (x & Ex & Cx & Ax). exists x. split; [exact Ex|]. split; [exact Cx|].
  rewrite Ax, Ae. cbn [app]. rewrite !map_app. cbn [map snd]. now rewrite Ab, As.
Qed.

