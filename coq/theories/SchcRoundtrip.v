From Coq Require Import ZArith List Bool Lia. From MS Require Import PyBase Bits ByteFacts BufferAbs Schc SchcSpec SchcCodec SchcRules Compute. Import ListNotations. Open Scope Z_scope.
(* SchcRoundtrip.v -- property C01 / C18: compressing a packet descriptor with a rule that applies to
   it and whose matching-operator / action pairs are lossless, then decompressing the result with
   the same rule and direction, gives back the packet.  Built on SchcCodec (layout theorems) and
   SchcRules (matcher and context manager theorems). *)

Fixpoint map2 {A B C} (f : A -> B -> C) (a : list A) (b : list B) : list C :=
  match a, b with
  | x :: a', y :: b' => f x y :: map2 f a' b'
  | _, _ => []
  end.

(* per selected descriptor / packet field pair: the rule field length is 0 (size sent with the residue) or the field's length *)
Definition len_ok (rf : rfd) (pf : field) : bool :=
  match r_cda rf with
  | ValueSent | LSB => (r_len rf =? 0) || (r_len rf =? zlen (f_val pf))
  | Compute => r_len rf =? zlen (f_val pf)
  | _ => true
  end.
Definition size_ok (pf : field) : bool := zlen (f_val pf) <? 65536.
Definition map_ok (rf : rfd) : bool := match r_tv rf with TVmap fw => mapping_wf fw | TVbuf _ => true end.
(* the value the decompressor holds for a field before the compute stage: zeros for compute fields *)
Definition pre_value (rf : rfd) (pf : field) : bits :=
  match r_cda rf with Compute => repeat false (Z.to_nat (r_len rf)) | _ => f_val pf end.

Definition compute_known (ct : compute_table) (rf : rfd) : bool :=
  match r_cda rf, ct (r_id rf) with Compute, None => false | _, _ => true end.

Definition rule_ok (ct : compute_table) (d : dir) (pd : pdesc) (r : rule) : Prop :=
  let rfs := select_fds (Some d) (rule_fds r) in
  rule_nature r = Compression /\ rule_typed r = true /\ forallb lossless_pair rfs = true /\ forallb map_ok rfs = true /\
  forallb2 len_ok rfs (pd_fields pd) = true /\ forallb size_ok (pd_fields pd) = true /\
  forallb (fun rf => match r_cda rf, ct (r_id rf) with Compute, None => false | _, _ => true end) rfs = true.

(* ADDED (the task's rule_ok is not enough for the way back, see value_sent_mapping_counterexample):
   the decompressor asserts that the target value of a value-sent field is a Buffer, the compressor
   does not look at it, and rule_typed accepts any target value under MO_ignore. *)
Definition vs_typed (rf : rfd) : bool :=
  match r_cda rf, r_tv rf with ValueSent, TVmap _ => false | _, _ => true end.
Definition rule_ok_dec (ct : compute_table) (d : dir) (pd : pdesc) (r : rule) : Prop :=
  rule_ok ct d pd r /\ forallb vs_typed (select_fds (Some d) (rule_fds r)) = true.

(* ---- one field ---------------------------------------------------------------------------------- *)
Lemma zlen_skipn_le {A} n (l : list A) : zlen (skipn n l) <= zlen l.
Proof. unfold zlen. rewrite skipn_length. lia. Qed.

Lemma zlen_repeat {A} (x : A) n : 0 <= n -> zlen (repeat x (Z.to_nat n)) = n.
Proof. intros H. unfold zlen. rewrite repeat_length. lia. Qed.

(* the residue exists; it is the same for the original value and for the placeholder value *)
Lemma field_residue ct rf pf :
  spec_field_applies pf rf = true -> lossless_pair rf = true -> len_ok rf pf = true -> size_ok pf = true ->
  exists a, spec_residue (f_val pf) rf = Some a /\ spec_residue (pre_value rf pf) rf = Some a /\
            (map_ok rf = true -> vs_typed rf = true -> compute_known ct rf = true -> wf_field ct rf (pre_value rf pf) = true).
Proof.
  unfold spec_field_applies, lossless_pair, len_ok, size_ok, map_ok, vs_typed, compute_known, pre_value,
    spec_residue, wf_field, with_size, var_len.
  destruct rf as [id len p dr tv mo cd]. cbn [r_cda r_tv r_len r_id r_mo].
  intros HA HL HN HS. apply andb_prop in HA as [_ HA]. apply Z.ltb_lt in HS.
  destruct mo, cd; try discriminate HL.
  - (* equal / not-sent *)
    destruct tv as [t|fw]; [|discriminate]. exists []. repeat split. intros _ _ _. exact HA.
  - (* ignore / value-sent *)
    destruct (len =? 0) eqn:El.
    + destruct (Z.ltb_spec (zlen (f_val pf)) 65536); [|lia].
      eexists. repeat split. intros _ HT _. destruct tv; [|discriminate]. reflexivity.
    + cbn [orb] in HN. eexists. repeat split. intros _ HT _. destruct tv; [|discriminate].
      apply Z.eqb_eq in HN. apply Z.eqb_eq. lia.
  - (* ignore / compute *)
    exists []. repeat split. intros _ _ HC. apply Z.eqb_eq in HN.
    pose proof (zlen_nonneg (f_val pf)).
    destruct (Z.leb_spec 0 len); [|lia]. rewrite bits_eqb_refl. cbn [andb].
    destruct (ct id); [reflexivity|discriminate].
  - (* msb / lsb *)
    destruct tv as [pat|fw]; [|discriminate].
    apply andb_prop in HA as [HA H3]. apply andb_prop in HA as [H1 H2].
    rewrite H2. pose proof (zlen_skipn_le (length pat) (f_val pf)).
    destruct (len =? 0) eqn:El.
    + destruct (Z.ltb_spec (zlen (skipn (length pat) (f_val pf))) 65536); [|lia].
      eexists. repeat split. intros _ _ _. rewrite H3. cbn [andb].
      apply Z.ltb_lt. pose proof (zlen_nonneg pat). lia.
    + cbn [orb] in HN. eexists. repeat split. intros _ _ _. rewrite H3. cbn [andb].
      apply Z.eqb_eq in HN. apply Z.eqb_eq. lia.
  - (* mapping / mapping-sent *)
    destruct tv as [t|fw]; [discriminate|].
    rewrite <- assoc_get_existsb in HA.
    destruct (assoc_get fw (f_val pf)) as [i|] eqn:EG; [|discriminate].
    exists i. repeat split. intros HM _ _. rewrite HM. reflexivity.
Qed.

(* ---- field lists -------------------------------------------------------------------------------- *)
Lemma map2_length {A B C} (f : A -> B -> C) a : forall b, length a = length b -> length (map2 f a b) = length a.
Proof. induction a as [|x a IH]; intros [|y b] H; cbn in *; try discriminate; auto. Qed.

Lemma fields_residues ct rfs : forall pfs,
  forallb2 spec_field_applies pfs rfs = true -> forallb lossless_pair rfs = true ->
  forallb2 len_ok rfs pfs = true -> forallb size_ok pfs = true ->
  exists rs, spec_residues (map f_val pfs) rfs = Some rs /\
             spec_residues (map2 pre_value rfs pfs) rfs = Some rs /\
             length (map2 pre_value rfs pfs) = length rfs /\
             (forallb map_ok rfs = true -> forallb vs_typed rfs = true -> forallb (compute_known ct) rfs = true ->
              forallb2 (fun rf v => wf_field ct rf v) rfs (map2 pre_value rfs pfs) = true).
Proof.
  induction rfs as [|rf rfs IH]; intros [|pf pfs] HA HL HN HS; try discriminate HA.
  - exists []. repeat split.
  - cbn [forallb2 forallb] in *.
    apply andb_prop in HA as [HA1 HA2]. apply andb_prop in HL as [HL1 HL2].
    apply andb_prop in HN as [HN1 HN2]. apply andb_prop in HS as [HS1 HS2].
    destruct (field_residue ct rf pf HA1 HL1 HN1 HS1) as (a & E1 & E2 & W).
    destruct (IH pfs HA2 HL2 HN2 HS2) as (rs & F1 & F2 & F3 & F4).
    exists (a ++ rs). cbn [map map2 spec_residues length]. rewrite E1, E2, F1, F2, F3.
    repeat split. intros HM HT HC.
    apply andb_prop in HM as [HM1 HM2]. apply andb_prop in HT as [HT1 HT2]. apply andb_prop in HC as [HC1 HC2].
    cbn [forallb2]. rewrite (W HM1 HT1 HC1), (F4 HM2 HT2 HC2). reflexivity.
Qed.

Lemma map2_nocompute rfs : forall pfs, length rfs = length pfs ->
  forallb (fun rf => match r_cda rf with Compute => false | _ => true end) rfs = true ->
  map2 pre_value rfs pfs = map f_val pfs.
Proof.
  induction rfs as [|rf rfs IH]; intros [|pf pfs] HL HN; cbn in HL; try discriminate; [reflexivity|].
  cbn [forallb] in HN. apply andb_prop in HN as [H1 H2]. cbn [map2 map]. rewrite IH by (auto; lia).
  f_equal. unfold pre_value. destruct (r_cda rf); try reflexivity. discriminate.
Qed.

(* unpack rule_ok for a descriptor of direction d *)
Lemma rule_ok_fields ct d pd r : pd_dir pd = d -> rule_ok ct d pd r -> spec_rule_applies pd r = true ->
  let rfs := select_fds (Some d) (rule_fds r) in
  exists rs, spec_residues (map f_val (pd_fields pd)) rfs = Some rs /\
             spec_residues (map2 pre_value rfs (pd_fields pd)) rfs = Some rs /\
             length (map2 pre_value rfs (pd_fields pd)) = length rfs /\
             length rfs = length (pd_fields pd) /\
             (forallb vs_typed rfs = true ->
              forallb2 (fun rf v => wf_field ct rf v) rfs (map2 pre_value rfs (pd_fields pd)) = true).
Proof.
  intros Hd (HN & HT & HL & HM & HLen & HS & HC) HA rfs.
  unfold spec_rule_applies in HA. rewrite HN, Hd in HA. change (filter (applies d) (rule_fds r)) with rfs in HA.
  fold rfs in HL, HM, HLen, HC.
  destruct (fields_residues ct rfs (pd_fields pd) HA HL HLen HS) as (rs & F1 & F2 & F3 & F4).
  exists rs. repeat split; auto.
  symmetry. apply (forallb2_length _ _ _ HA).
Qed.

(* ---- C01 ---------------------------------------------------------------------------------------- *)
(* a matched lossless rule: compress succeeds with the RFC layout *)
Theorem c01_compress_ok ct d pd r : pd_dir pd = d -> rule_ok ct d pd r -> spec_rule_applies pd r = true ->
  exists rs, spec_residues (map f_val (pd_fields pd)) (select_fds (Some d) (rule_fds r)) = Some rs /\
             compress pd r (Some d) = Ok (rule_id r ++ rs ++ pd_payload pd).
Proof.
  intros Hd Hok HA. destruct (rule_ok_fields ct d pd r Hd Hok HA) as (rs & F1 & _).
  exists rs. split; [exact F1|]. apply compress_layout. unfold layout.
  destruct Hok as (HN & _). rewrite HN, F1. reflexivity.
Qed.

(* ... and the layout is well-formed for decompression (placeholder values for compute fields) *)
Theorem c01_layout_wf ct d pd r : pd_dir pd = d -> rule_ok_dec ct d pd r -> spec_rule_applies pd r = true ->
  let rfs := select_fds (Some d) (rule_fds r) in
  let vs := map2 pre_value rfs (pd_fields pd) in
  exists rs, compress pd r (Some d) = Ok (rule_id r ++ rs ++ pd_payload pd) /\
             spec_residues vs rfs = Some rs /\ length vs = length rfs /\
             forallb2 (fun rf v => wf_field ct rf v) rfs vs = true.
Proof.
  intros Hd [Hok HT] HA rfs vs.
  destruct (rule_ok_fields ct d pd r Hd Hok HA) as (rs & F1 & F2 & F3 & F4 & F5).
  destruct (c01_compress_ok ct d pd r Hd Hok HA) as (rs' & G1 & G2).
  rewrite F1 in G1. injection G1 as <-.
  exists rs. repeat split; auto.
Qed.

(* the task's statement of the round trip (with rule_ok instead of rule_ok_dec) is false: *)
Example value_sent_mapping_counterexample :
  let f := mkfid P_UDP 0 in
  let r := mkrule [true] Compression [mkrfd f 8 1 Bi (TVmap []) MO_ignore ValueSent] in
  let pd := mkpdesc Up [mkfield f (bits_of 8 5) 1] [] in
  spec_rule_applies pd r = true /\
  (rule_nature r = Compression /\ rule_typed r = true /\
   forallb lossless_pair (select_fds (Some Up) (rule_fds r)) = true /\
   forallb map_ok (select_fds (Some Up) (rule_fds r)) = true /\
   forallb2 len_ok (select_fds (Some Up) (rule_fds r)) (pd_fields pd) = true /\
   forallb size_ok (pd_fields pd) = true) /\
  compress pd r (Some Up) = Ok ([true] ++ bits_of 8 5) /\
  decompress (fun _ => None) ([true] ++ bits_of 8 5) r (Some Up) = Exc AssertionError.
Proof. vm_compute. repeat split. Qed.

(* round trip without compute fields *)
Theorem c01_roundtrip_nocompute ct d pd r : pd_dir pd = d -> rule_ok_dec ct d pd r -> spec_rule_applies pd r = true ->
  forallb (fun rf => match r_cda rf with Compute => false | _ => true end) (select_fds (Some d) (rule_fds r)) = true ->
  exists s, compress pd r (Some d) = Ok s /\
            decompress ct s r (Some d) = Ok (concat (map f_val (pd_fields pd)) ++ pd_payload pd).
Proof.
  intros Hd Hok HA HNC.
  destruct (c01_layout_wf ct d pd r Hd Hok HA) as (rs & C & F2 & F3 & F5).
  destruct Hok as [Hok HT].
  destruct (rule_ok_fields ct d pd r Hd Hok HA) as (_ & _ & _ & _ & F4 & _).
  rewrite (map2_nocompute _ _ F4 HNC) in F2, F3, F5.
  eexists. split; [exact C|].
  apply decompress_layout_nocompute; assumption.
Qed.

(* round trip with compute fields: provided the compute stage, run in the order list.sort puts the
   entries in, regenerates the original values (C09) *)
Theorem c01_roundtrip_sort ct d pd r ces : pd_dir pd = d -> rule_ok_dec ct d pd r -> spec_rule_applies pd r = true ->
  let rfs := select_fds (Some d) (rule_fds r) in
  let ids := map r_id rfs in
  py_sort_ces (centries_of ct 0 rfs) = Some ces ->
  run_computes ces (combine ids (map2 pre_value rfs (pd_fields pd)) ++ [(payload_fid, pd_payload pd)])
    = Ok (combine ids (map f_val (pd_fields pd)) ++ [(payload_fid, pd_payload pd)]) ->
  exists s, compress pd r (Some d) = Ok s /\
            decompress ct s r (Some d) = Ok (concat (map f_val (pd_fields pd)) ++ pd_payload pd).
Proof.
  intros Hd Hok HA rfs ids HSo HRun. subst ids rfs.
  destruct (c01_layout_wf ct d pd r Hd Hok HA) as (rs & C & F2 & F3 & F5).
  destruct Hok as [Hok HT].
  destruct (rule_ok_fields ct d pd r Hd Hok HA) as (_ & _ & _ & _ & F4 & _).
  eexists. split; [exact C|].
  rewrite (decompress_layout_sort ct r (Some d) _ rs (pd_payload pd) ces F3 F5 F2 HSo).
  cbv zeta. unfold bits in *. rewrite HRun. cbn [bind]. f_equal.
  apply concat_fields. rewrite !map_length. symmetry. exact F4.
Qed.

(* the entries already in the order of the comparison (rule in packet order, no dependency on a later
   field).  ADDED premise: fewer than 64 compute entries (the model of list.sort covers no more; it
   follows from length rfs < 64 by SchcCodec.centries_length_le) *)
Theorem c01_roundtrip ct d pd r : pd_dir pd = d -> rule_ok_dec ct d pd r -> spec_rule_applies pd r = true ->
  let rfs := select_fds (Some d) (rule_fds r) in
  let ids := map r_id rfs in
  ce_sorted (centries_of ct 0 rfs) = true ->
  (length (centries_of ct 0 rfs) < 64)%nat ->
  run_computes (centries_of ct 0 rfs) (combine ids (map2 pre_value rfs (pd_fields pd)) ++ [(payload_fid, pd_payload pd)])
    = Ok (combine ids (map f_val (pd_fields pd)) ++ [(payload_fid, pd_payload pd)]) ->
  exists s, compress pd r (Some d) = Ok s /\
            decompress ct s r (Some d) = Ok (concat (map f_val (pd_fields pd)) ++ pd_payload pd).
Proof.
  intros Hd Hok HA rfs ids HSo Hn HRun.
  exact (c01_roundtrip_sort ct d pd r _ Hd Hok HA (py_sort_sorted _ HSo Hn) HRun).
Qed.

(* no-compression rule *)
Theorem c01_roundtrip_nocompression ct d pd r : rule_nature r = NoCompression -> rule_fds r = [] ->
  exists s, compress pd r (Some d) = Ok s /\ decompress ct s r (Some d) = Ok (concat (map f_val (pd_fields pd)) ++ pd_payload pd).
Proof.
  intros HN HF. eexists. split.
  - unfold compress. rewrite HN. reflexivity.
  - apply decompress_nocompression. exact HF.
Qed.

(* ---- compress always starts its output with the rule id ------------------------------------------ *)
Lemma compress_fields_prefix pfs : forall rfs acc b, compress_fields pfs rfs acc = Ok b -> exists c, b = acc ++ c.
Proof.
  induction pfs as [|pf pfs IH]; intros rfs acc b H.
  - cbn in H. injection H as <-. exists []. now rewrite app_nil_r.
  - destruct rfs as [|rf rfs].
    + cbn in H. injection H as <-. exists []. now rewrite app_nil_r.
    + cbn [compress_fields] in H.
      destruct (residue_of pf rf) as [[res|]|e|]; cbn [bind] in H; try discriminate.
      * destruct (if announces_length rf then encode_length (zlen res) else Ok []) as [pre|e|];
          cbn [bind] in H; try discriminate.
        apply IH in H as [c ->]. exists ((pre ++ res) ++ c). now rewrite <- !app_assoc.
      * now apply IH in H.
Qed.

Theorem compress_prefix pd r d s : compress pd r d = Ok s -> is_prefix (rule_id r) s = true.
Proof.
  unfold compress. destruct (rule_nature r).
  - destruct (compress_fields _ _ _) as [body|e|] eqn:E; cbn [bind]; try discriminate.
    intros H. injection H as <-. apply compress_fields_prefix in E as [c ->].
    rewrite <- app_assoc. apply is_prefix_app.
  - intros H. injection H as <-. apply is_prefix_app.
  - intros H. injection H as <-. rewrite <- (app_nil_r (rule_id r)) at 2. apply is_prefix_app.
Qed.

(* ---- through the context manager ---------------------------------------------------------------- *)
(* the premise on the rule set without the prefix fact (compress_prefix provides it) *)
Theorem c01_manager_gen ct parse rules packet d st fs pl :
  parse packet = Ok (fs, pl) ->
  prefix_free rules -> forallb rule_typed rules = true ->
  (forall r, In r rules -> spec_rule_applies (mkpdesc d fs pl) r = true ->
     exists s, compress (mkpdesc d fs pl) r (Some d) = Ok s /\ decompress ct s r (Some d) = Ok packet) ->
  forall s, cm_compress parse rules packet d st = Ok s -> cm_decompress ct rules s (Some d) = Ok packet.
Proof.
  intros HP PF T All s HC.
  set (pd := mkpdesc d fs pl) in *.
  assert (Sel : exists r, In r rules /\ spec_rule_applies pd r = true /\ compress pd r (Some d) = Ok s).
  { destruct st.
    - rewrite (cm_compress_first parse rules packet d fs pl HP T) in HC. cbv zeta in HC. fold pd in HC.
      destruct (filter (spec_rule_applies pd) rules) as [|r l] eqn:EF; [discriminate|].
      assert (I : In r (filter (spec_rule_applies pd) rules)) by (rewrite EF; now left).
      apply filter_In in I as [I1 I2]. exists r. auto.
    - pose proof (cm_compress_best parse rules packet d fs pl HP T) as B. cbv zeta in B. fold pd in B.
      assert (AllC : forall r, In r (filter (spec_rule_applies pd) rules) -> exists s0, compress pd r (Some d) = Ok s0).
      { intros r I. apply filter_In in I as [I1 I2]. destruct (All r I1 I2) as (s0 & H0 & _). now exists s0. }
      specialize (B AllC).
      destruct (filter (spec_rule_applies pd) rules) as [|r0 l] eqn:EF.
      + rewrite B in HC. discriminate.
      + destruct B as (r & s0 & I & Hr & Hb & _). rewrite Hb in HC. injection HC as <-.
        rewrite <- EF in I. apply filter_In in I as [I1 I2]. exists r. auto. }
  destruct Sel as (r & I & A & C).
  destruct (All r I A) as (s0 & C0 & D0). rewrite C in C0. injection C0 as <-.
  pose proof (compress_prefix _ _ _ _ C) as P. apply is_prefix_split in P as [rest ->].
  rewrite cm_decompress_dispatch by assumption. exact D0.
Qed.

Theorem c01_manager ct parse rules packet d st fs pl :
  parse packet = Ok (fs, pl) -> concat (map f_val fs) ++ pl = packet ->
  prefix_free rules -> forallb rule_typed rules = true ->
  (forall r, In r rules -> spec_rule_applies (mkpdesc d fs pl) r = true ->
     exists s, compress (mkpdesc d fs pl) r (Some d) = Ok s /\ is_prefix (rule_id r) s = true /\ decompress ct s r (Some d) = Ok packet) ->
  forall s, cm_compress parse rules packet d st = Ok s -> cm_decompress ct rules s (Some d) = Ok packet.
Proof.
  intros HP _ PF T All. apply (c01_manager_gen ct parse rules packet d st fs pl HP PF T).
  intros r I A. destruct (All r I A) as (s & H1 & _ & H2). now exists s.
Qed.

(* the manager round trip for a rule set made of lossless compression rules without compute fields
   and no-compression rules without descriptors: all premises are checkable on the rules and the
   parsed packet *)
Theorem c01_manager_nocompute ct parse rules packet d st fs pl :
  parse packet = Ok (fs, pl) -> concat (map f_val fs) ++ pl = packet ->
  prefix_free rules -> forallb rule_typed rules = true ->
  (forall r, In r rules -> spec_rule_applies (mkpdesc d fs pl) r = true ->
     (rule_nature r = NoCompression /\ rule_fds r = []) \/
     (rule_ok_dec ct d (mkpdesc d fs pl) r /\
      forallb (fun rf => match r_cda rf with Compute => false | _ => true end) (select_fds (Some d) (rule_fds r)) = true)) ->
  forall s, cm_compress parse rules packet d st = Ok s -> cm_decompress ct rules s (Some d) = Ok packet.
Proof.
  intros HP HT PF T All. apply (c01_manager_gen ct parse rules packet d st fs pl HP PF T).
  intros r I A. rewrite <- HT. destruct (All r I A) as [[HN HF]|[Hok HNC]].
  - apply (c01_roundtrip_nocompression ct d (mkpdesc d fs pl) r HN HF).
  - apply (c01_roundtrip_nocompute ct d (mkpdesc d fs pl) r eq_refl Hok A HNC).
Qed.

(* the general form: every applying rule is a no-compression rule or a lossless rule whose compute
   stage regenerates the computed fields (C09) *)
Theorem c01_manager_rules ct parse rules packet d st fs pl :
  parse packet = Ok (fs, pl) -> concat (map f_val fs) ++ pl = packet ->
  prefix_free rules -> forallb rule_typed rules = true ->
  (forall r, In r rules -> spec_rule_applies (mkpdesc d fs pl) r = true ->
     (rule_nature r = NoCompression /\ rule_fds r = []) \/
     (rule_ok_dec ct d (mkpdesc d fs pl) r /\
      let rfs := select_fds (Some d) (rule_fds r) in
      ce_sorted (centries_of ct 0 rfs) = true /\ (length (centries_of ct 0 rfs) < 64)%nat /\
      run_computes (centries_of ct 0 rfs) (combine (map r_id rfs) (map2 pre_value rfs fs) ++ [(payload_fid, pl)])
        = Ok (combine (map r_id rfs) (map f_val fs) ++ [(payload_fid, pl)]))) ->
  forall s, cm_compress parse rules packet d st = Ok s -> cm_decompress ct rules s (Some d) = Ok packet.
Proof.
  intros HP HT PF T All. apply (c01_manager_gen ct parse rules packet d st fs pl HP PF T).
  intros r I A. rewrite <- HT. destruct (All r I A) as [[HN HF]|[Hok [HSo [Hn HRun]]]].
  - apply (c01_roundtrip_nocompression ct d (mkpdesc d fs pl) r HN HF).
  - apply (c01_roundtrip ct d (mkpdesc d fs pl) r eq_refl Hok A HSo Hn HRun).
Qed.

(* the same with the entries in the order list.sort puts them in *)
Theorem c01_manager_rules_sort ct parse rules packet d st fs pl :
  parse packet = Ok (fs, pl) -> concat (map f_val fs) ++ pl = packet ->
  prefix_free rules -> forallb rule_typed rules = true ->
  (forall r, In r rules -> spec_rule_applies (mkpdesc d fs pl) r = true ->
     (rule_nature r = NoCompression /\ rule_fds r = []) \/
     (rule_ok_dec ct d (mkpdesc d fs pl) r /\
      let rfs := select_fds (Some d) (rule_fds r) in
      exists ces, py_sort_ces (centries_of ct 0 rfs) = Some ces /\
      run_computes ces (combine (map r_id rfs) (map2 pre_value rfs fs) ++ [(payload_fid, pl)])
        = Ok (combine (map r_id rfs) (map f_val fs) ++ [(payload_fid, pl)]))) ->
  forall s, cm_compress parse rules packet d st = Ok s -> cm_decompress ct rules s (Some d) = Ok packet.
Proof.
  intros HP HT PF T All. apply (c01_manager_gen ct parse rules packet d st fs pl HP PF T).
  intros r I A. rewrite <- HT. destruct (All r I A) as [[HN HF]|[Hok (ces & HSo & HRun)]].
  - apply (c01_roundtrip_nocompression ct d (mkpdesc d fs pl) r HN HF).
  - apply (c01_roundtrip_sort ct d (mkpdesc d fs pl) r ces eq_refl Hok A HSo HRun).
Qed.

