(* SchcRules.v -- rule matcher (C04, C18), rule-id dispatch (C11), context manager rule selection
   (C10, C15) and the multi-context front end (C15): the model functions of Schc.v against the
   declarative definitions of SchcSpec.v. *)
From Coq Require Import ZArith List Bool Lia.
From MS Require Import PyBase Bits BufferAbs Schc SchcSpec.
Import ListNotations.
Open Scope Z_scope.

(* ---- reflection of the boolean equalities and of is_prefix ---------------------------------- *)
Lemma bool_eqb_sym (a b : bool) : Bool.eqb a b = Bool.eqb b a.
Proof. destruct a, b; reflexivity. Qed.

Lemma bits_eqb_true a b : bits_eqb a b = true <-> a = b.
Proof.
  unfold bits_eqb. revert b. induction a as [|x a IH]; intros [|y b]; cbn [list_eqb]; split; intro H;
    try reflexivity; try discriminate.
  - apply andb_prop in H as [H1 H2]. apply eqb_prop in H1. apply IH in H2. subst. reflexivity.
  - inversion H; subst. rewrite eqb_reflx. cbn [andb]. apply IH. reflexivity.
Qed.

Lemma bits_eqb_refl a : bits_eqb a a = true.
Proof. apply bits_eqb_true. reflexivity. Qed.

Lemma bits_eqb_sym a b : bits_eqb a b = bits_eqb b a.
Proof.
  unfold bits_eqb. revert b. induction a as [|x a IH]; intros [|y b]; cbn [list_eqb]; try reflexivity.
  rewrite IH, bool_eqb_sym. reflexivity.
Qed.

Lemma dir_eqb_true a b : dir_eqb a b = true <-> a = b.
Proof. destruct a, b; cbn; split; intro H; try reflexivity; discriminate. Qed.

Lemma proto_eqb_true a b : proto_eqb a b = true <-> a = b.
Proof. destruct a, b; cbn; split; intro H; try reflexivity; discriminate. Qed.

Lemma fid_eqb_true a b : fid_eqb a b = true <-> a = b.
Proof.
  unfold fid_eqb. destruct a as [pa ia], b as [pb ib]. cbn [fproto fidx]. split; intro H.
  - apply andb_prop in H as [H1 H2]. apply proto_eqb_true in H1. apply Z.eqb_eq in H2. subst. reflexivity.
  - inversion H; subst. rewrite Z.eqb_refl. destruct pb; reflexivity.
Qed.

Lemma is_prefix_app a b : is_prefix a (a ++ b) = true.
Proof. induction a as [|x a IH]; cbn [is_prefix app]; [reflexivity|]. rewrite eqb_reflx, IH. reflexivity. Qed.

Lemma is_prefix_refl a : is_prefix a a = true.
Proof. rewrite <- (app_nil_r a) at 2. apply is_prefix_app. Qed.

Lemma is_prefix_split a b : is_prefix a b = true -> exists c, b = a ++ c.
Proof.
  revert b. induction a as [|x a IH]; intros b H.
  - exists b. reflexivity.
  - destruct b as [|y b]; cbn [is_prefix] in H; [discriminate|].
    apply andb_prop in H as [H1 H2]. apply eqb_prop in H1. apply IH in H2 as [c Hc]. subst.
    exists c. reflexivity.
Qed.

Lemma is_prefix_iff a b : is_prefix a b = true <-> exists c, b = a ++ c.
Proof. split; [apply is_prefix_split|]. intros [c ->]. apply is_prefix_app. Qed.

Lemma is_prefix_len a b : is_prefix a b = true -> zlen a <= zlen b.
Proof. intros H. apply is_prefix_split in H as [c ->]. unfold zlen. rewrite app_length. lia. Qed.

(* two prefixes of the same sequence are comparable *)
Lemma is_prefix_comparable a b rest :
  is_prefix a (b ++ rest) = true -> is_prefix a b = true \/ is_prefix b a = true.
Proof.
  revert b. induction a as [|x a IH]; intros b H.
  - left. reflexivity.
  - destruct b as [|y b]; [right; reflexivity|].
    cbn [app is_prefix] in H. apply andb_prop in H as [H1 H2]. apply eqb_prop in H1. subst y.
    cbn [is_prefix]. rewrite eqb_reflx. cbn [andb]. apply IH. exact H2.
Qed.

(* the comparison the code performs: pattern against the leading bits of the value *)
Lemma bits_eqb_firstn pat v : bits_eqb pat (firstn (length pat) v) = is_prefix pat v.
Proof.
  unfold bits_eqb. revert v. induction pat as [|x pat IH]; intros v.
  - reflexivity.
  - destruct v as [|y v]; cbn [length firstn list_eqb is_prefix]; [reflexivity|]. rewrite IH. reflexivity.
Qed.

Lemma zlen_to_nat {A} (l : list A) : Z.to_nat (zlen l) = length l.
Proof. unfold zlen. apply Nat2Z.id. Qed.

(* Remark (1): the model's msb comparison is the specification's "long enough and a prefix" *)
Lemma msb_match_spec v pat : msb_match v pat = (zlen pat <=? zlen v) && is_prefix pat v.
Proof.
  unfold msb_match. destruct (zlen v <? zlen pat) eqn:E.
  - apply Z.ltb_lt in E. replace (zlen pat <=? zlen v) with false; [reflexivity|].
    symmetry. apply Z.leb_gt. exact E.
  - apply Z.ltb_ge in E. replace (zlen pat <=? zlen v) with true by (symmetry; apply Z.leb_le; exact E).
    cbn [andb]. rewrite bits_eqb_sym. apply bits_eqb_firstn.
Qed.

Lemma assoc_get_existsb {V} (fw : list (bits * V)) v :
  (match assoc_get fw v with Some _ => true | None => false end)
  = existsb (fun kv => bits_eqb (fst kv) v) fw.
Proof.
  induction fw as [|[k x] fw IH]; cbn [assoc_get existsb fst]; [reflexivity|].
  destruct (bits_eqb k v); cbn [orb]; [reflexivity|exact IH].
Qed.

(* ---- C04 ----------------------------------------------------------------------------------- *)
Theorem field_match_spec pf rf : rfd_typed rf = true -> field_match pf rf = Ok (spec_field_applies pf rf).
Proof.
  unfold rfd_typed, field_match, spec_field_applies. intros T.
  destruct (fid_eqb (f_id pf) (r_id rf)); cbn [negb andb]; [|reflexivity].
  destruct (r_mo rf); destruct (r_tv rf) as [t|fw]; try discriminate; try reflexivity.
  - (* msb *)
    rewrite msb_match_spec.
    destruct (r_len rf =? 0); cbn [negb andb orb]; [reflexivity|].
    destruct (r_len rf =? zlen (f_val pf)); cbn [negb andb]; [reflexivity|reflexivity].
  - (* mapping *)
    rewrite assoc_get_existsb. reflexivity.
Qed.

Lemma any_mismatch_spec pfs rfs : forallb rfd_typed rfs = true -> length pfs = length rfs ->
  any_mismatch pfs rfs = Ok (negb (forallb2 spec_field_applies pfs rfs)).
Proof.
  revert rfs. induction pfs as [|pf pfs IH]; intros [|rf rfs] T L; try discriminate L.
  - reflexivity.
  - cbn [forallb] in T. apply andb_prop in T as [T1 T2]. cbn [length] in L.
    cbn [any_mismatch forallb2]. rewrite field_match_spec by exact T1. cbn [bind].
    destruct (spec_field_applies pf rf); cbn [andb negb]; [|reflexivity].
    apply IH; [exact T2|congruence].
Qed.

Lemma forallb2_length {A B} (p : A -> B -> bool) a b : forallb2 p a b = true -> length a = length b.
Proof.
  revert b. induction a as [|x a IH]; intros [|y b] H; cbn [forallb2] in H; try discriminate; [reflexivity|].
  apply andb_prop in H as [_ H]. cbn [length]. f_equal. apply IH. exact H.
Qed.

Lemma forallb_filter {A} (p q : A -> bool) l : forallb p l = true -> forallb p (filter q l) = true.
Proof.
  induction l as [|x l IH]; cbn [forallb filter]; [reflexivity|]. intros H.
  apply andb_prop in H as [H1 H2]. destruct (q x); cbn [forallb]; [rewrite H1|]; auto.
Qed.

Theorem rule_matches_spec pd r : rule_typed r = true -> rule_matches pd r = Ok (spec_rule_applies pd r).
Proof.
  unfold rule_typed, rule_matches, spec_rule_applies. intros T.
  destruct (rule_nature r); [|reflexivity|reflexivity]. cbv zeta.
  destruct (length (pd_fields pd) =? length (filter (applies (pd_dir pd)) (rule_fds r)))%nat eqn:E; cbn [negb].
  - apply Nat.eqb_eq in E. rewrite any_mismatch_spec; [|apply forallb_filter; exact T|exact E].
    cbn [bind]. rewrite negb_involutive. reflexivity.
  - apply Nat.eqb_neq in E.
    destruct (forallb2 spec_field_applies (pd_fields pd) (filter (applies (pd_dir pd)) (rule_fds r))) eqn:F;
      [|reflexivity].
    apply forallb2_length in F. contradiction.
Qed.

Theorem match_packet_descriptor_spec rules pd : forallb rule_typed rules = true ->
  match_packet_descriptor rules pd = gen_of_list (filter (spec_rule_applies pd) rules).
Proof.
  induction rules as [|r rules IH]; intros T; [reflexivity|].
  cbn [forallb] in T. apply andb_prop in T as [T1 T2].
  cbn [match_packet_descriptor filter]. rewrite rule_matches_spec by exact T1.
  destruct (spec_rule_applies pd r); cbn [gen_of_list]; rewrite IH by exact T2; reflexivity.
Qed.

Theorem nocompression_always_applies pd r : rule_nature r = NoCompression -> spec_rule_applies pd r = true.
Proof. unfold spec_rule_applies. intros ->. reflexivity. Qed.

(* a fragmentation rule (RuleNature.FRAGMENTATION) is neither branch of the loop body of
   Ruler.match_packet_descriptor: it never applies, is never yielded, whatever its field descriptors
   (no typing hypothesis: the descriptors are not looked at) *)
Theorem fragmentation_never_applies pd r : rule_nature r = Fragmentation -> spec_rule_applies pd r = false.
Proof. unfold spec_rule_applies. intros ->. reflexivity. Qed.
Theorem fragmentation_never_matches pd r : rule_nature r = Fragmentation -> rule_matches pd r = Ok false.
Proof. unfold rule_matches. intros ->. reflexivity. Qed.
Theorem fragmentation_never_yielded rules pd r :
  In r (gen_list (match_packet_descriptor rules pd)) -> rule_nature r <> Fragmentation.
Proof.
  induction rules as [|r0 rules IH]; cbn [match_packet_descriptor gen_list]; [intros []|].
  destruct (rule_matches pd r0) as [[|]| |] eqn:E; cbn [gen_list]; try (now intros []); [|exact IH].
  intros [<-|H]; [|exact (IH H)]. intros N. rewrite (fragmentation_never_matches pd r0 N) in E. discriminate.
Qed.
(* ... and the matcher behaves as if the fragmentation rules were not in the rule set *)
Definition not_fragmentation (r : rule) : bool := match rule_nature r with Fragmentation => false | _ => true end.
Theorem match_packet_descriptor_skips_fragmentation rules pd :
  match_packet_descriptor rules pd = match_packet_descriptor (filter not_fragmentation rules) pd.
Proof.
  induction rules as [|r rules IH]; [reflexivity|]. cbn [filter]. unfold not_fragmentation at 1.
  destruct (rule_nature r) eqn:N; cbn [match_packet_descriptor]; rewrite IH; try reflexivity.
  now rewrite (fragmentation_never_matches pd r N).
Qed.

(* ---- C18 ----------------------------------------------------------------------------------- *)
Theorem select_fds_spec d fds :
  select_fds (Some d) fds = filter (fun f => dir_eqb (r_dir f) d || dir_eqb (r_dir f) Bi) fds.
Proof. reflexivity. Qed.

Theorem matcher_uses_select pd r : rule_nature r = Compression -> rule_typed r = true ->
  rule_matches pd r = Ok (forallb2 spec_field_applies (pd_fields pd) (select_fds (Some (pd_dir pd)) (rule_fds r))).
Proof.
  intros N T. rewrite rule_matches_spec by exact T. unfold spec_rule_applies, select_fds. rewrite N. reflexivity.
Qed.

(* ---- C11 ----------------------------------------------------------------------------------- *)
(* Remark (3): the loop is "first rule whose id is a prefix of the packet" *)
Lemma match_schc_loop_find rules s :
  match_schc_loop rules s = find (fun r => is_prefix (rule_id r) s) rules.
Proof.
  induction rules as [|r rules IH]; [reflexivity|]. cbn [match_schc_loop find].
  destruct (zlen s <? zlen (rule_id r)) eqn:E.
  - apply Z.ltb_lt in E. destruct (is_prefix (rule_id r) s) eqn:P; [|exact IH].
    apply is_prefix_len in P. lia.
  - apply Z.ltb_ge in E. rewrite py_slice_to by (unfold zlen in *; lia).
    rewrite zlen_to_nat, bits_eqb_firstn. destruct (is_prefix (rule_id r) s); [reflexivity|exact IH].
Qed.

Theorem match_schc_packet_dispatch rules r rest : prefix_free rules -> In r rules ->
  match_schc_packet rules (rule_id r ++ rest) = Ok r.
Proof.
  intros PF I. unfold match_schc_packet.
  rewrite match_schc_loop_find.
  destruct (find (fun r' => is_prefix (rule_id r') (rule_id r ++ rest)) rules) as [r'|] eqn:F.
  - apply find_some in F as [I' P]. apply is_prefix_comparable in P as [P|P].
    + rewrite (PF r' r I' I P). reflexivity.
    + rewrite (PF r r' I I' P). reflexivity.
  - pose proof (find_none _ _ F r I) as N. cbv beta in N. rewrite is_prefix_app in N. discriminate.
Qed.

Theorem match_schc_packet_none rules s :
  (forall r, In r rules -> is_prefix (rule_id r) s = false) -> match_schc_packet rules s = Exc RuleIDMatchError.
Proof.
  intros H. unfold match_schc_packet.
  rewrite match_schc_loop_find.
  destruct (find (fun r' => is_prefix (rule_id r') s) rules) as [r'|] eqn:F; [|reflexivity].
  apply find_some in F as [I' P]. rewrite (H r' I') in P. discriminate.
Qed.

Theorem match_schc_packet_sound rules s r : match_schc_packet rules s = Ok r -> In r rules /\ is_prefix (rule_id r) s = true.
Proof.
  unfold match_schc_packet.
  rewrite match_schc_loop_find.
  destruct (find (fun r' => is_prefix (rule_id r') s) rules) as [r'|] eqn:F; [|discriminate].
  intros H. inversion H; subst r'. apply find_some in F. exact F.
Qed.

(* the "first such rule" part: every rule before the returned one has an id that is not a prefix *)
Theorem match_schc_packet_first rules s r : match_schc_packet rules s = Ok r ->
  exists pre post, rules = pre ++ r :: post /\ is_prefix (rule_id r) s = true /\
                   forall r', In r' pre -> is_prefix (rule_id r') s = false.
Proof.
  unfold match_schc_packet.
  rewrite match_schc_loop_find.
  destruct (find (fun r' => is_prefix (rule_id r') s) rules) as [r'|] eqn:F; [|discriminate].
  intros H. inversion H; subst r'. clear H. revert F.
  induction rules as [|x rules IH]; cbn [find]; [discriminate|].
  destruct (is_prefix (rule_id x) s) eqn:P; intros F.
  - inversion F; subst x. exists [], rules. split; [reflexivity|]. split; [exact P|]. intros r' [].
  - destruct (IH F) as (pre & post & E & P' & N). exists (x :: pre), post. split; [rewrite E; reflexivity|].
    split; [exact P'|]. intros r' [<-|I]; [exact P|apply N; exact I].
Qed.

(* ---- C10 / C15: the context manager -------------------------------------------------------- *)
Theorem cm_compress_first parse rules packet d fs pl :
  parse packet = Ok (fs, pl) -> forallb rule_typed rules = true ->
  let pd := mkpdesc d fs pl in
  cm_compress parse rules packet d FIRST =
    match filter (spec_rule_applies pd) rules with
    | r :: _ => compress pd r (Some d)
    | [] => Exc RuleDescriptorMatchError
    end.
Proof.
  intros HP T pd. unfold cm_compress. rewrite HP. cbn [bind fst snd]. fold pd.
  rewrite match_packet_descriptor_spec by exact T.
  destruct (filter (spec_rule_applies pd) rules); reflexivity.
Qed.


(* BEST: the loop over a generator that yields a list of rules each of which compresses.
   Starting from a current best b0, the loop either keeps b0 (and no yielded rule is strictly
   shorter), or ends with the output of a yielded rule that is strictly shorter than b0 and than the
   output of every rule yielded before it, and no longer than the output of every rule after it. *)
Lemma best_loop_some pd d l : forall b0,
  (forall r, In r l -> exists s, compress pd r (Some d) = Ok s) ->
  exists b, best_loop pd d (gen_of_list l) (Some b0) = Ok (Some b) /\
    ((b = b0 /\ forall r' s', In r' l -> compress pd r' (Some d) = Ok s' -> zlen b0 <= zlen s') \/
     (exists pre r post, l = pre ++ r :: post /\ compress pd r (Some d) = Ok b /\ zlen b < zlen b0 /\
        (forall r' s', In r' pre -> compress pd r' (Some d) = Ok s' -> zlen b < zlen s') /\
        (forall r' s', In r' post -> compress pd r' (Some d) = Ok s' -> zlen b <= zlen s'))).
Proof.
  induction l as [|r l IH]; intros b0 All.
  - exists b0. split; [reflexivity|]. left. split; [reflexivity|]. intros r' s' [].
  - destruct (All r (or_introl eq_refl)) as [c Hc].
    assert (All' : forall r', In r' l -> exists s, compress pd r' (Some d) = Ok s)
      by (intros r' I; apply All; right; exact I).
    cbn [gen_of_list best_loop]. rewrite Hc. cbn [bind].
    destruct (zlen c <? zlen b0) eqn:E.
    + apply Z.ltb_lt in E. destruct (IH c All') as (b & Hb & [[-> Hmin]|(pre & r2 & post & El & Hr2 & Hlt & Hpre & Hpost)]).
      * exists c. split; [exact Hb|]. right. exists [], r, l. split; [reflexivity|]. split; [exact Hc|].
        split; [exact E|]. split; [intros r' s' []|exact Hmin].
      * exists b. split; [exact Hb|]. right. exists (r :: pre), r2, post. split; [rewrite El; reflexivity|].
        split; [exact Hr2|]. split; [lia|]. split; [|exact Hpost].
        intros r' s' [<-|I] Hs'; [rewrite Hc in Hs'; inversion Hs'; subst; exact Hlt|eapply Hpre; eauto].
    + apply Z.ltb_ge in E. destruct (IH b0 All') as (b & Hb & [[-> Hmin]|(pre & r2 & post & El & Hr2 & Hlt & Hpre & Hpost)]).
      * exists b0. split; [exact Hb|]. left. split; [reflexivity|].
        intros r' s' [<-|I] Hs'; [rewrite Hc in Hs'; inversion Hs'; subst; exact E|eapply Hmin; eauto].
      * exists b. split; [exact Hb|]. right. exists (r :: pre), r2, post. split; [rewrite El; reflexivity|].
        split; [exact Hr2|]. split; [exact Hlt|]. split; [|exact Hpost].
        intros r' s' [<-|I] Hs'; [rewrite Hc in Hs'; inversion Hs'; subst; lia|eapply Hpre; eauto].
Qed.

Lemma best_loop_none pd d l :
  (forall r, In r l -> exists s, compress pd r (Some d) = Ok s) ->
  match l with
  | [] => best_loop pd d (gen_of_list l) None = Ok None
  | _ => exists pre r post b, l = pre ++ r :: post /\ compress pd r (Some d) = Ok b /\
        best_loop pd d (gen_of_list l) None = Ok (Some b) /\
        (forall r' s', In r' pre -> compress pd r' (Some d) = Ok s' -> zlen b < zlen s') /\
        (forall r' s', In r' post -> compress pd r' (Some d) = Ok s' -> zlen b <= zlen s')
  end.
Proof.
  destruct l as [|r l]; intros All; [reflexivity|].
  destruct (All r (or_introl eq_refl)) as [c Hc].
  assert (All' : forall r', In r' l -> exists s, compress pd r' (Some d) = Ok s)
    by (intros r' I; apply All; right; exact I).
  cbn [gen_of_list best_loop]. rewrite Hc. cbn [bind].
  destruct (best_loop_some pd d l c All') as (b & Hb & [[-> Hmin]|(pre & r2 & post & El & Hr2 & Hlt & Hpre & Hpost)]).
  - exists [], r, l, c. split; [reflexivity|]. split; [exact Hc|]. split; [exact Hb|].
    split; [intros r' s' []|exact Hmin].
  - exists (r :: pre), r2, post, b. split; [rewrite El; reflexivity|]. split; [exact Hr2|]. split; [exact Hb|].
    split; [|exact Hpost].
    intros r' s' [<-|I] Hs'; [rewrite Hc in Hs'; inversion Hs'; subst; exact Hlt|eapply Hpre; eauto].
Qed.

(* Remark (4), the tie-break: the chosen rule is strictly shorter than every applying rule before it *)
Theorem cm_compress_best_earliest parse rules packet d fs pl :
  parse packet = Ok (fs, pl) -> forallb rule_typed rules = true ->
  let pd := mkpdesc d fs pl in
  let cands := filter (spec_rule_applies pd) rules in
  (forall r, In r cands -> exists s, compress pd r (Some d) = Ok s) ->
  cands <> [] ->
  exists pre r post s, cands = pre ++ r :: post /\ compress pd r (Some d) = Ok s /\
    cm_compress parse rules packet d BEST = Ok s /\
    (forall r' s', In r' pre -> compress pd r' (Some d) = Ok s' -> zlen s < zlen s') /\
    (forall r' s', In r' post -> compress pd r' (Some d) = Ok s' -> zlen s <= zlen s').
Proof.
  intros HP T pd cands All NE. unfold cm_compress. rewrite HP. cbn [bind fst snd]. fold pd.
  rewrite match_packet_descriptor_spec by exact T. change (filter (spec_rule_applies pd) rules) with cands.
  pose proof (best_loop_none pd d cands All) as B.
  destruct cands as [|r0 c0] eqn:EC; [contradiction|]. rewrite <- EC in *.
  destruct B as (pre & r & post & b & El & Hr & Hb & Hpre & Hpost).
  exists pre, r, post, b. rewrite Hb. cbn [bind]. repeat split; assumption.
Qed.

Theorem cm_compress_best parse rules packet d fs pl :
  parse packet = Ok (fs, pl) -> forallb rule_typed rules = true ->
  let pd := mkpdesc d fs pl in
  let cands := filter (spec_rule_applies pd) rules in
  (forall r, In r cands -> exists s, compress pd r (Some d) = Ok s) ->
  match cands with
  | [] => cm_compress parse rules packet d BEST = Exc RuleDescriptorMatchError
  | _ => exists r s, In r cands /\ compress pd r (Some d) = Ok s /\ cm_compress parse rules packet d BEST = Ok s /\
                     (forall r' s', In r' cands -> compress pd r' (Some d) = Ok s' -> zlen s <= zlen s')
  end.
Proof.
  intros HP T pd cands All.
  pose proof (cm_compress_best_earliest parse rules packet d fs pl HP T) as E. cbv zeta in E.
  subst cands pd. specialize (E All).
  destruct (filter (spec_rule_applies (mkpdesc d fs pl)) rules) as [|r0 c0] eqn:EC.
  - unfold cm_compress. rewrite HP. cbn [bind fst snd].
    rewrite match_packet_descriptor_spec by exact T. rewrite EC. reflexivity.
  - destruct E as (pre & r & post & s & El & Hr & Hb & Hpre & Hpost); [discriminate|].
    exists r, s. split; [rewrite El; apply in_or_app; right; left; reflexivity|].
    split; [exact Hr|]. split; [exact Hb|].
    intros r' s' I Hs'. rewrite El in I. apply in_app_or in I as [I|[<-|I]].
    + pose proof (Hpre r' s' I Hs'). lia.
    + rewrite Hr in Hs'. inversion Hs'; subst. lia.
    + exact (Hpost r' s' I Hs').
Qed.

Theorem cm_compress_best_le_first parse rules packet d fs pl s1 s2 :
  parse packet = Ok (fs, pl) -> forallb rule_typed rules = true ->
  (forall r, In r (filter (spec_rule_applies (mkpdesc d fs pl)) rules) -> exists s, compress (mkpdesc d fs pl) r (Some d) = Ok s) ->
  cm_compress parse rules packet d FIRST = Ok s1 -> cm_compress parse rules packet d BEST = Ok s2 -> zlen s2 <= zlen s1.
Proof.
  intros HP T All H1 H2.
  pose proof (cm_compress_first parse rules packet d fs pl HP T) as F. cbv zeta in F.
  pose proof (cm_compress_best parse rules packet d fs pl HP T) as B. cbv zeta in B. specialize (B All).
  destruct (filter (spec_rule_applies (mkpdesc d fs pl)) rules) as [|r0 c0] eqn:EC.
  - rewrite F in H1. discriminate.
  - destruct B as (r & s & I & Hr & Hb & Hmin). rewrite Hb in H2. inversion H2; subst s2.
    rewrite F in H1. apply (Hmin r0 s1 (or_introl eq_refl) H1).
Qed.

Theorem cm_compress_parse_error parse rules packet d st e : parse packet = Exc e -> cm_compress parse rules packet d st = Exc e.
Proof. intros H. unfold cm_compress. rewrite H. reflexivity. Qed.

(* fragmentation rules are never selected by ContextManager.compress: the outcome (FIRST or BEST, result or
   exception) is that of the rule set without them -- no typing hypothesis, their descriptors are never read *)
Theorem cm_compress_ignores_fragmentation parse rules packet d st :
  cm_compress parse rules packet d st = cm_compress parse (filter not_fragmentation rules) packet d st.
Proof.
  unfold cm_compress. destruct (parse packet) as [p|e|]; cbn [bind]; try reflexivity.
  now rewrite (match_packet_descriptor_skips_fragmentation rules).
Qed.
(* in particular a rule set made of fragmentation rules only compresses no packet *)
Theorem cm_compress_only_fragmentation parse rules packet d st p :
  parse packet = Ok p -> Forall (fun r => rule_nature r = Fragmentation) rules ->
  cm_compress parse rules packet d st = Exc RuleDescriptorMatchError.
Proof.
  intros HP HF. rewrite cm_compress_ignores_fragmentation.
  assert (filter not_fragmentation rules = []) as ->.
  { induction HF as [|r rules Hr _ IH]; [reflexivity|]. cbn [filter]. unfold not_fragmentation at 1. now rewrite Hr. }
  unfold cm_compress. rewrite HP. cbn [bind match_packet_descriptor best_loop]. destruct st; reflexivity.
Qed.

Theorem cm_decompress_noid ct rules s d :
  (forall r, In r rules -> is_prefix (rule_id r) s = false) -> cm_decompress ct rules s d = Exc RuleIDMatchError.
Proof. intros H. unfold cm_decompress. rewrite match_schc_packet_none by assumption. reflexivity. Qed.

Theorem cm_decompress_dispatch ct rules r rest d : prefix_free rules -> In r rules ->
  cm_decompress ct rules (rule_id r ++ rest) d = decompress ct (rule_id r ++ rest) r d.
Proof. intros PF I. unfold cm_decompress. rewrite match_schc_packet_dispatch by assumption. reflexivity. Qed.

(* ---- C15: the multi-context front end ------------------------------------------------------ *)
Definition falls_through (x : res bits) : bool :=
  match x with Exc ParserError | Exc RuleDescriptorMatchError => true | _ => false end.

Theorem schc_compress_skip c cs p : falls_through (cm_compress (ctx_parse c) (ctx_rules c) p Up FIRST) = true ->
  schc_compress (c :: cs) p = schc_compress cs p.
Proof.
  cbn [schc_compress]. destruct (cm_compress (ctx_parse c) (ctx_rules c) p Up FIRST) as [a|e|]; cbn [falls_through];
    try discriminate. destruct e; try discriminate; reflexivity.
Qed.

Theorem schc_compress_take c cs p : falls_through (cm_compress (ctx_parse c) (ctx_rules c) p Up FIRST) = false ->
  schc_compress (c :: cs) p = cm_compress (ctx_parse c) (ctx_rules c) p Up FIRST.
Proof.
  cbn [schc_compress]. destruct (cm_compress (ctx_parse c) (ctx_rules c) p Up FIRST) as [a|e|]; cbn [falls_through];
    try reflexivity. destruct e; try discriminate; reflexivity.
Qed.

Theorem schc_compress_passthrough ctxs p :
  Forall (fun c => falls_through (cm_compress (ctx_parse c) (ctx_rules c) p Up FIRST) = true) ctxs -> schc_compress ctxs p = Ok p.
Proof.
  induction 1 as [|c cs H _ IH]; [reflexivity|]. rewrite schc_compress_skip by exact H. exact IH.
Qed.

Theorem schc_decompress_skip ct c cs p : cm_decompress ct (ctx_rules c) p (Some Up) = Exc RuleIDMatchError ->
  schc_decompress ct (c :: cs) p = schc_decompress ct cs p.
Proof. intros H. cbn [schc_decompress]. rewrite H. reflexivity. Qed.

Theorem schc_decompress_take ct c cs p : cm_decompress ct (ctx_rules c) p (Some Up) <> Exc RuleIDMatchError ->
  schc_decompress ct (c :: cs) p = cm_decompress ct (ctx_rules c) p (Some Up).
Proof.
  cbn [schc_decompress]. destruct (cm_decompress ct (ctx_rules c) p (Some Up)) as [a|e|]; try reflexivity.
  destruct e; try reflexivity. intros H. contradiction H. reflexivity.
Qed.

Theorem schc_decompress_passthrough ct ctxs p :
  Forall (fun c => cm_decompress ct (ctx_rules c) p (Some Up) = Exc RuleIDMatchError) ctxs -> schc_decompress ct ctxs p = Ok p.
Proof.
  induction 1 as [|c cs H _ IH]; [reflexivity|]. rewrite schc_decompress_skip by exact H. exact IH.
Qed.

