(* SchcSpec.v -- declarative specifications written from RFC 8724 section 7 and from the property
   statements, independent of the model functions of Schc.v: packet layout, residues, size
   prefix, applicability of a rule, well-formed rules.  Definitions only. *)
From Coq Require Import ZArith List Bool.
From MS Require Import PyBase Bits Schc.
Import ListNotations.
Open Scope Z_scope.

(* RFC 8724 section 7.4.2: size of a variable-length residue, on 4, 12 or 28 bits *)
Definition spec_size (n : Z) : bits :=
  if n <? 15 then bits_of 4 n
  else if n <? 255 then repeat true 4 ++ bits_of 8 n
  else repeat true 12 ++ bits_of 16 n.
Definition spec_size_width (n : Z) : Z := if n <? 15 then 4 else if n <? 255 then 12 else 28.

Definition var_len (rf : rfd) : bool := r_len rf =? 0.

Definition with_size (rf : rfd) (res : bits) : option bits :=
  if var_len rf then (if zlen res <? 65536 then Some (spec_size (zlen res) ++ res) else None) else Some res.

Fixpoint is_prefix (a b : bits) : bool :=
  match a, b with
  | [], _ => true
  | x :: a', y :: b' => Bool.eqb x y && is_prefix a' b'
  | _ :: _, [] => false
  end.

(* the residue RFC 8724 prescribes for field value v under descriptor rf; None: rf cannot encode v *)
Definition spec_residue (v : bits) (rf : rfd) : option bits :=
  match r_cda rf with
  | NotSent | Compute => Some []
  | ValueSent => with_size rf v
  | LSB =>
    match r_tv rf with
    | TVbuf pat => if zlen pat <=? zlen v then with_size rf (skipn (length pat) v) else None
    | TVmap _ => None
    end
  | MappingSent =>
    match r_tv rf with TVmap fw => assoc_get fw v | TVbuf _ => None end
  end.

Fixpoint spec_residues (vs : list bits) (rfs : list rfd) : option bits :=
  match vs, rfs with
  | v :: vs', rf :: rfs' =>
    match spec_residue v rf, spec_residues vs' rfs' with
    | Some a, Some b => Some (a ++ b)
    | _, _ => None
    end
  | _, _ => Some []
  end.

(* C02: rule id, residues in rule order, payload -- and nothing else.  None: the rule cannot lay out
   the packet (a residue is undefined; or the rule is a fragmentation rule: RFC 8724 section 7 gives
   no compressed-packet layout for it.  What the code does then is SchcCodec.compress_fragmentation) *)
Definition layout (pd : pdesc) (r : rule) (d : option dir) : option bits :=
  match rule_nature r with
  | Fragmentation => None
  | NoCompression => Some (rule_id r ++ concat (map f_val (pd_fields pd)) ++ pd_payload pd)
  | Compression =>
    match spec_residues (map f_val (pd_fields pd)) (select_fds d (rule_fds r)) with
    | Some rs => Some (rule_id r ++ rs ++ pd_payload pd)
    | None => None
    end
  end.

(* ---- C04: when does a rule apply to a packet ------------------------------------------------- *)
Definition spec_field_applies (pf : field) (rf : rfd) : bool :=
  fid_eqb (f_id pf) (r_id rf) &&
  match r_mo rf with
  | MO_ignore => true
  | MO_equal => match r_tv rf with TVbuf t => bits_eqb (f_val pf) t | TVmap _ => false end
  | MO_msb =>
    match r_tv rf with
    | TVbuf pat => ((r_len rf =? 0) || (r_len rf =? zlen (f_val pf))) && (zlen pat <=? zlen (f_val pf)) && is_prefix pat (f_val pf)
    | TVmap _ => false
    end
  | MO_mapping =>
    match r_tv rf with TVmap fw => existsb (fun kv => bits_eqb (fst kv) (f_val pf)) fw | TVbuf _ => false end
  end.

Fixpoint forallb2 {A B} (p : A -> B -> bool) (a : list A) (b : list B) : bool :=
  match a, b with
  | x :: a', y :: b' => p x y && forallb2 p a' b'
  | [], [] => true
  | _, _ => false
  end.

Definition spec_rule_applies (pd : pdesc) (r : rule) : bool :=
  match rule_nature r with
  | NoCompression => true
  | Compression => forallb2 spec_field_applies (pd_fields pd) (filter (applies (pd_dir pd)) (rule_fds r))
  | Fragmentation => false            (* a fragmentation rule never applies to a packet to compress *)
  end.

(* the target value has the type its matching operator and action expect (the library asserts it) *)
Definition rfd_typed (rf : rfd) : bool :=
  match r_mo rf, r_tv rf with
  | MO_mapping, TVmap _ => true
  | MO_mapping, TVbuf _ => false
  | MO_ignore, _ => true
  | _, TVbuf _ => true
  | _, TVmap _ => false
  end.
Definition rule_typed (r : rule) : bool := forallb rfd_typed (rule_fds r).

Fixpoint gen_of_list {A} (l : list A) : gen A :=
  match l with [] => GDone | x :: r => GYield x (gen_of_list r) end.
(* the rules a generator yields before it stops or raises *)
Fixpoint gen_list {A} (g : gen A) : list A :=
  match g with GYield x r => x :: gen_list r | _ => [] end.
Fixpoint gen_raises {A} (g : gen A) : option exn :=
  match g with GYield _ r => gen_raises r | GRaise e => Some e | GDone => None end.

(* ---- C11: prefix-free rule ids ------------------------------------------------------------- *)
Definition prefix_free (rules : list rule) : Prop :=
  forall r1 r2, In r1 rules -> In r2 rules -> is_prefix (rule_id r1) (rule_id r2) = true -> r1 = r2.

(* ---- C03 / C01: well-formed (descriptor, value) pairs ---------------------------------------- *)
(* a mapping whose values are pairwise distinct and whose indices are prefix-free *)
Fixpoint mapping_wf (fw : list (bits * bits)) : bool :=
  match fw with
  | [] => true
  | (v, i) :: r =>
    forallb (fun kv => negb (bits_eqb (fst kv) v) && negb (is_prefix i (snd kv)) && negb (is_prefix (snd kv) i)) r
    && mapping_wf r
  end.

(* v is a value that descriptor rf can carry losslessly; for compute fields v is the placeholder *)
Definition wf_field (ct : compute_table) (rf : rfd) (v : bits) : bool :=
  match r_cda rf with
  | NotSent => match r_tv rf with TVbuf t => bits_eqb v t | TVmap _ => false end
  | ValueSent =>
    match r_tv rf with
    | TVbuf _ => if var_len rf then zlen v <? 65536 else zlen v =? r_len rf
    | TVmap _ => false
    end
  | LSB =>
    match r_tv rf with
    | TVbuf pat =>
      (zlen pat <=? zlen v) && is_prefix pat v &&
      (if var_len rf then zlen v - zlen pat <? 65536 else zlen v =? r_len rf)
    | TVmap _ => false
    end
  | MappingSent =>
    match r_tv rf with
    | TVmap fw => mapping_wf fw && (match assoc_get fw v with Some _ => true | None => false end)
    | TVbuf _ => false
    end
  | Compute =>
    (0 <=? r_len rf) && bits_eqb v (repeat false (Z.to_nat (r_len rf))) &&
    (match ct (r_id rf) with Some _ => true | None => false end)
  end.

(* lossless matching-operator / action pairings (C01) *)
Definition lossless_pair (rf : rfd) : bool :=
  match r_mo rf, r_cda rf with
  | MO_equal, NotSent | MO_ignore, ValueSent | MO_msb, LSB | MO_mapping, MappingSent | MO_ignore, Compute => true
  | _, _ => false
  end.

(* the compute entries of a field list, in rule order *)
Fixpoint centries_of (ct : compute_table) (pos : Z) (rfs : list rfd) : list centry :=
  match rfs with
  | [] => []
  | rf :: r =>
    (match r_cda rf, ct (r_id rf) with
     | Compute, Some (fn, deps) => [mkcentry pos (r_id rf) fn deps]
     | _, _ => []
     end) ++ centries_of ct (pos + 1) r
  end.
