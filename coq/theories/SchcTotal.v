From Coq Require Import ZArith List Bool Lia. From MS Require Import PyBase Bits ByteFacts BufferAbs Schc SchcSpec SchcCodec SchcRules Compute. Import ListNotations. Open Scope Z_scope.
From MS Require Import Crc32cTable PySort.
From Coq Require Import Permutation.
(* SchcTotal.v -- property C20: decompression is total.  Whatever bits arrive, a rule whose actions
   have the target-value types the decompressor expects yields a packet: first the field stage
   (decompress_fields never fails), then the compute stage with the table of Compute.v (lengths,
   checksums) on rules whose field ids have the shape of a supported protocol stack. *)

(* what a rule needs for decompression never to fail, whatever bits arrive *)
Definition cda_typed (ct : compute_table) (rf : rfd) : bool :=
  match r_cda rf, r_tv rf with
  | NotSent, TVbuf _ | LSB, TVbuf _ | ValueSent, TVbuf _ | MappingSent, TVmap _ => true
  | Compute, _ => (0 <=? r_len rf) && (match ct (r_id rf) with Some _ => true | None => false end)
  | _, _ => false
  end.

(* ---- sums of lengths ------------------------------------------------------------------------------ *)
Fixpoint sumz (l : list Z) : Z := match l with [] => 0 | x :: r => x + sumz r end.
Definition lens (l : list bits) : list Z := map (fun b => zlen b) l.

Lemma sumz_app a b : sumz (a ++ b) = sumz a + sumz b.
Proof. induction a as [|x a IH]; cbn [app sumz]; lia. Qed.

Lemma sumz_cons x l : sumz (x :: l) = x + sumz l.
Proof. reflexivity. Qed.

Lemma sumz_rev l : sumz (rev l) = sumz l.
Proof. induction l as [|x l IH]; [reflexivity|]. cbn [rev]. rewrite sumz_app, IH, !sumz_cons. cbn. lia. Qed.

Lemma zlen_concat (l : list bits) : zlen (concat l) = sumz (lens l).
Proof.
  induction l as [|x l IH]; [reflexivity|]. cbn [concat lens map]. rewrite zlen_app, sumz_cons. unfold lens in IH. lia.
Qed.

Lemma lens_nonneg l : Forall (fun x => 0 <= x) (lens l).
Proof. induction l; cbn; constructor; auto. apply zlen_nonneg. Qed.

Lemma sumz_nonneg l : Forall (fun x => 0 <= x) l -> 0 <= sumz l.
Proof. induction 1; [cbn; lia|]. rewrite sumz_cons. lia. Qed.

Lemma sumz_firstn_le l : Forall (fun x => 0 <= x) l -> forall n, sumz (firstn n l) <= sumz l.
Proof.
  induction 1 as [|x l Hx Hl IH]; intros n.
  - rewrite firstn_nil. lia.
  - destruct n; cbn [firstn]; rewrite ?sumz_cons.
    + pose proof (sumz_nonneg l Hl). cbn. lia.
    + specialize (IH n). lia.
Qed.

Lemma sumz_skipn_le l : Forall (fun x => 0 <= x) l -> forall n, sumz (skipn n l) <= sumz l.
Proof.
  induction 1 as [|x l Hx Hl IH]; intros n.
  - rewrite skipn_nil. lia.
  - destruct n; cbn [skipn]; rewrite ?sumz_cons; [lia|]. specialize (IH n). lia.
Qed.

Lemma Forall_firstn {A} (P : A -> Prop) l : Forall P l -> forall n, Forall P (firstn n l).
Proof. induction 1; intros [|n]; cbn [firstn]; constructor; auto. Qed.

Lemma Forall_skipn {A} (P : A -> Prop) l : Forall P l -> forall n, Forall P (skipn n l).
Proof. induction 1; intros [|n]; cbn [skipn]; auto. Qed.

Lemma lens_slice (l : list bits) a b : sumz (lens (py_slice l a b)) <= sumz (lens l).
Proof.
  unfold py_slice. destruct (slice_indices (zlen l) a b) as [s e]. unfold lens.
  rewrite <- firstn_map, <- skipn_map. fold (lens l).
  pose proof (lens_nonneg l) as H.
  pose proof (sumz_firstn_le _ (Forall_skipn _ _ H (Z.to_nat s)) (Z.to_nat (e - s))).
  pose proof (sumz_skipn_le _ H (Z.to_nat s)). unfold lens, bits in *. lia.
Qed.

(* ---- lengths of slices ----------------------------------------------------------------------------- *)
Ltac slice_len :=
  unfold py_slice, slice_indices, clamp_index;
  repeat match goal with |- context [Z.ltb ?a ?b] => destruct (Z.ltb_spec a b) end;
  unfold zlen in *; rewrite ?firstn_length, ?skipn_length; lia.

Lemma slice_split_len {A} (s : list A) a b : 0 <= a ->
  zlen (py_slice s (Some a) (Some b)) + zlen (py_slice s (Some b) None) <= zlen s.
Proof. intros H. slice_len. Qed.

Lemma slice_split_len_none {A} (s : list A) b :
  zlen (py_slice s None (Some b)) + zlen (py_slice s (Some b) None) <= zlen s.
Proof. slice_len. Qed.

Lemma slice_from_len {A} (s : list A) b : zlen (py_slice s (Some b) None) <= zlen s.
Proof. slice_len. Qed.

Lemma slice_from_nonempty {A} (l : list A) s : 0 < zlen l -> s < zlen l -> py_slice l (Some s) None <> [].
Proof.
  intros H1 H2 E. assert (0 < zlen (py_slice l (Some s) None)) by slice_len.
  rewrite E in H. cbn in H. lia.
Qed.

Lemma decode_var_size s residue rb : decode_var s = (residue, rb) ->
  zlen residue + zlen (py_slice s (Some rb) None) <= zlen s.
Proof.
  unfold decode_var. cbv zeta.
  destruct (_ <? 15).
  - intros H. injection H as <- <-. apply slice_split_len. lia.
  - destruct (_ <? 255).
    + intros H. injection H as <- <-. apply slice_split_len. lia.
    + intros H. injection H as <- <-. apply slice_split_len. lia.
Qed.

(* ---- static size of a rule: the bits a decompressed field can hold beyond those taken from the packet *)
Definition tv_bound (t : tv) : Z :=
  match t with
  | TVbuf b => zlen b
  | TVmap fw => fold_right (fun kv m => Z.max (zlen (fst kv)) m) 0 fw
  end.
Definition field_static (rf : rfd) : Z :=
  match r_cda rf with
  | ValueSent => 0
  | Compute => Z.max 0 (r_len rf)
  | _ => tv_bound (r_tv rf)
  end.
Definition static_bits (rfs : list rfd) : Z := sumz (map field_static rfs).

Lemma tv_bound_in (fw : list (bits * bits)) v : In v (map fst fw) -> zlen v <= tv_bound (TVmap fw).
Proof.
  cbn [tv_bound]. induction fw as [|[k i] fw IH]; cbn [map fst In fold_right]; [tauto|].
  intros [<-|H]; [lia|]. specialize (IH H). lia.
Qed.

Lemma tv_bound_nonneg t : 0 <= tv_bound t.
Proof.
  destruct t as [b|fw]; cbn [tv_bound]; [apply zlen_nonneg|].
  induction fw as [|kv fw IH]; cbn [fold_right]; lia.
Qed.

Lemma field_static_nonneg rf : 0 <= field_static rf.
Proof. unfold field_static. pose proof (tv_bound_nonneg (r_tv rf)). destruct (r_cda rf); lia. Qed.

(* the values of the reverse dictionary are keys of the forward one *)
Lemma assoc_set_in {V} (acc : list (bits * V)) k v e : In e (assoc_set acc k v) -> In e acc \/ snd e = v.
Proof.
  induction acc as [|[k' v'] acc IH]; cbn [assoc_set In].
  - intros [<-|[]]. now right.
  - destruct (bits_eqb k' k); cbn [In].
    + intros [<-|H]; [now right|left; now right].
    + intros [<-|H]; [left; now left|]. destruct (IH H); [left; now right|now right].
Qed.

Lemma reverse_of_vals fw e : In e (reverse_of fw) -> In (snd e) (map fst fw).
Proof.
  unfold reverse_of.
  assert (G : forall l acc, (forall e, In e acc -> In (snd e) (map fst fw)) -> (forall kv, In kv l -> In (fst kv) (map fst fw)) ->
              forall e, In e (fold_left (fun acc kv => assoc_set acc (snd kv) (fst kv)) l acc) -> In (snd e) (map fst fw)).
  { induction l as [|kv l IH]; intros acc Hacc Hl e0; cbn [fold_left]; [apply Hacc|].
    apply IH.
    - intros e1 H1. apply assoc_set_in in H1 as [H1| ->]; [now apply Hacc|]. apply Hl. now left.
    - intros kv' H'. apply Hl. now right. }
  apply G; [intros e0 []|]. intros kv H. now apply in_map.
Qed.

Lemma reverse_lookup_in rev s k v : reverse_lookup rev s = Some (k, v) -> In (k, v) rev.
Proof.
  induction rev as [|[key value] rev IH]; cbn [reverse_lookup]; [discriminate|].
  destruct (bits_eqb key _).
  - intros H. injection H as <- <-. now left.
  - intros H. right. auto.
Qed.

(* ---- the field stage is total ---------------------------------------------------------------------- *)
Lemma decompress_field_total ct pos rf s : cda_typed ct rf = true ->
  exists v rb, decompress_field ct pos rf s = Ok (v, rb, ce_of ct pos rf) /\
    zlen v + zlen (py_slice s (Some rb) None) <= field_static rf + zlen s /\
    (r_cda rf = Compute -> zlen v = r_len rf).
Proof.
  unfold cda_typed, decompress_field, ce_of, field_static.
  destruct rf as [id len p dr tv mo cd]. cbn [r_cda r_tv r_len r_id]. intros T.
  destruct cd.
  - (* NotSent *)
    destruct tv as [t|fw]; [|discriminate]. exists t, 0. repeat split; [|discriminate].
    pose proof (slice_from_len s 0). cbn [tv_bound]. lia.
  - (* LSB *)
    destruct tv as [t|fw]; [|discriminate]. cbn [tv_bound].
    destruct (negb (len =? 0)).
    + eexists. eexists. repeat split; [|discriminate]. rewrite zlen_app.
      pose proof (slice_split_len_none s (len - zlen t)). lia.
    + destruct (decode_var s) as [residue rb] eqn:E. eexists. eexists. repeat split; [|discriminate].
      rewrite zlen_app. pose proof (decode_var_size _ _ _ E). lia.
  - (* MappingSent *)
    destruct tv as [t|fw]; [discriminate|].
    destruct (reverse_lookup (reverse_of fw) s) as [[key value]|] eqn:E.
    + eexists. eexists. repeat split; [|discriminate].
      apply reverse_lookup_in, reverse_of_vals in E. cbn [snd] in E. apply tv_bound_in in E.
      pose proof (slice_from_len s (zlen key)). lia.
    + exists [], 0. repeat split; [|discriminate].
      pose proof (slice_from_len s 0). pose proof (tv_bound_nonneg (TVmap fw)). rewrite zlen_nil. lia.
  - (* ValueSent *)
    destruct tv as [t|fw]; [|discriminate].
    destruct (negb (len =? 0)).
    + eexists. eexists. repeat split; [|discriminate].
      pose proof (slice_split_len s 0 len). lia.
    + destruct (decode_var s) as [residue rb] eqn:E. eexists. eexists. repeat split; [|discriminate].
      pose proof (decode_var_size _ _ _ E). lia.
  - (* Compute *)
    apply andb_prop in T as [T1 T2]. apply Z.leb_le in T1.
    destruct (Z.ltb_spec len 0); [lia|].
    destruct (ct id) as [[fn deps]|]; [|discriminate].
    eexists. eexists. split; [reflexivity|].
    assert (zlen (repeat false (Z.to_nat len)) = len) by (unfold zlen; rewrite repeat_length; lia).
    pose proof (slice_from_len s 0). split; [lia|auto].
Qed.

Definition field_rel (rf : rfd) (f : fid * bits) : Prop :=
  fst f = r_id rf /\ (r_cda rf = Compute -> zlen (snd f) = r_len rf).

Theorem decompress_fields_total_strong ct rfs : forallb (cda_typed ct) rfs = true -> forall s pos,
  exists fs rest, decompress_fields ct pos rfs s = Ok (fs, centries_of ct pos rfs, rest) /\
    Forall2 field_rel rfs fs /\
    sumz (lens (map snd fs)) + zlen rest <= static_bits rfs + zlen s.
Proof.
  induction rfs as [|rf rfs IH]; intros T s pos.
  - exists [], s. cbn. repeat split; [constructor|lia].
  - cbn [forallb] in T. apply andb_prop in T as [T1 T2].
    destruct (decompress_field_total ct pos rf s T1) as (v & rb & E & Hsz & Hc).
    destruct (IH T2 (py_slice s (Some rb) None) (pos + 1)) as (fs & rest & E2 & HF & Hsz2).
    exists ((r_id rf, v) :: fs), rest.
    cbn [decompress_fields]. rewrite E. cbn [bind]. rewrite E2. cbn [bind].
    rewrite centries_of_cons. split; [reflexivity|]. split.
    + constructor; [|exact HF]. split; [reflexivity|exact Hc].
    + unfold static_bits in *. cbn [map lens snd]. rewrite !sumz_cons. unfold lens in Hsz2. lia.
Qed.

Lemma Forall2_field_rel_ids rfs fs : Forall2 field_rel rfs fs -> map fst fs = map r_id rfs.
Proof. induction 1 as [|rf f rfs fs [H _] _ IH]; [reflexivity|]. cbn [map]. now rewrite H, IH. Qed.

Theorem decompress_fields_total ct rfs : forallb (cda_typed ct) rfs = true -> forall s pos,
  exists fs rest, decompress_fields ct pos rfs s = Ok (fs, centries_of ct pos rfs, rest) /\ map fst fs = map r_id rfs.
Proof.
  intros T s pos. destruct (decompress_fields_total_strong ct rfs T s pos) as (fs & rest & E & HF & _).
  exists fs, rest. split; [exact E|]. now apply Forall2_field_rel_ids.
Qed.

Theorem c20_nocompute ct r d s : forallb (cda_typed ct) (select_fds d (rule_fds r)) = true ->
  forallb (fun rf => match r_cda rf with Compute => false | _ => true end) (select_fds d (rule_fds r)) = true ->
  exists p, decompress ct s r d = Ok p.
Proof.
  intros T NC. unfold decompress. cbv zeta.
  destruct (decompress_fields_total ct _ T (py_slice s (Some (zlen (rule_id r))) None) 0) as (fs & rest & E & _).
  rewrite E. cbn [bind]. rewrite (centries_nocompute ct _ 0 NC). cbn. eexists. reflexivity.
Qed.

(* ---- the compute functions of Compute.v are total on bounded field lists ---------------------------- *)
Lemma uint_bits_ok k n : 0 <= n < 2 ^ Z.of_nat k -> uint_bits k n = Ok (bits_of k n).
Proof.
  intros H. unfold uint_bits. destruct (Z.leb_spec 0 n); [|lia].
  destruct (Z.ltb_spec n (2 ^ Z.of_nat k)); [|lia]. reflexivity.
Qed.

Lemma uint16_ex n : 0 <= n < 65536 -> exists v, uint_bits 16 n = Ok v /\ zlen v = 16.
Proof. intros H. exists (bits_of 16 n). split; [apply uint_bits_ok; exact H|]. apply zlen_bits_of. Qed.

Lemma byte_len_bound b : 0 <= byte_len b /\ 8 * byte_len b <= zlen b + 7.
Proof.
  unfold byte_len. cbv zeta. pose proof (zlen_nonneg b).
  pose proof (Z.div_mod (zlen b) 8 ltac:(lia)). pose proof (Z.mod_pos_bound (zlen b) 8 ltac:(lia)).
  destruct (Z.eqb_spec (zlen b mod 8) 0); lia.
Qed.

(* the rebuilt packet fits the 16-bit length fields *)
Definition total_ok (fs : list (fid * bits)) : Prop := sumz (lens (vals fs)) <= 8 * 65535.

Lemma byte_len_slice fs a b : total_ok fs -> 0 <= byte_len (concat (py_slice (vals fs) a b)) < 65536.
Proof.
  unfold total_ok. intros H. pose proof (byte_len_bound (concat (py_slice (vals fs) a b))) as [H1 H2].
  rewrite zlen_concat in H2. pose proof (lens_slice (vals fs) a b). lia.
Qed.

Lemma reduce_concat_ok l : l <> [] -> reduce_concat l = Ok (concat l).
Proof. destruct l; [congruence|reflexivity]. Qed.

Lemma zlen_vals fs : zlen (vals fs) = zlen fs.
Proof. unfold vals, zlen. now rewrite map_length. Qed.

Lemma zlen_ids fs : zlen (ids fs) = zlen fs.
Proof. unfold ids, zlen. now rewrite map_length. Qed.

Theorem ipv6_payload_length_total fs pos : total_ok fs -> exists v, ipv6_payload_length fs pos = Ok v /\ zlen v = 16.
Proof. intros H. unfold ipv6_payload_length. apply uint16_ex. now apply byte_len_slice. Qed.

Theorem ipv4_total_length_total fs pos : total_ok fs -> exists v, ipv4_total_length fs pos = Ok v /\ zlen v = 16.
Proof. intros H. unfold ipv4_total_length. apply uint16_ex. now apply byte_len_slice. Qed.

Theorem udp_length_total fs pos : total_ok fs -> 0 <= pos < zlen fs -> exists v, udp_length fs pos = Ok v /\ zlen v = 16.
Proof.
  intros H Hp. unfold udp_length.
  rewrite reduce_concat_ok by (apply slice_from_nonempty; rewrite zlen_vals; lia).
  cbn [bind]. apply uint16_ex. now apply byte_len_slice.
Qed.

Lemma land_65535 x : 0 <= Z.land x 65535 < 65536.
Proof. change 65535 with (Z.ones 16). rewrite Z.land_ones by lia. apply Z.mod_pos_bound. lia. Qed.

Theorem ipv4_checksum_total fs pos : exists v, ipv4_checksum fs pos = Ok v /\ zlen v = 16.
Proof. unfold ipv4_checksum. cbv zeta. apply uint16_ex. apply land_65535. Qed.

(* CRC-32c stays on 32 bits *)
Lemma table_range : forallb (fun x => (0 <=? x) && (x <? 4294967296)) crc32c_table = true.
Proof. vm_compute. reflexivity. Qed.

Lemma table_nth i : 0 <= nth i crc32c_table 0 < 4294967296.
Proof.
  destruct (nth_in_or_default i crc32c_table 0) as [H|E]; [|rewrite E; lia].
  pose proof table_range as T. rewrite forallb_forall in T. apply T in H.
  apply andb_prop in H as [H1 H2]. apply Z.leb_le in H1. apply Z.ltb_lt in H2. lia.
Qed.

Lemma lxor_range a b n : 0 <= n -> 0 <= a < 2 ^ n -> 0 <= b < 2 ^ n -> 0 <= Z.lxor a b < 2 ^ n.
Proof.
  intros Hn Ha Hb. assert (NN : 0 <= Z.lxor a b) by (apply Z.lxor_nonneg; lia).
  split; [exact NN|].
  destruct (Z.eq_dec (Z.lxor a b) 0) as [E|NZ]; [rewrite E; apply Z.pow_pos_nonneg; lia|].
  apply Z.log2_lt_pow2; [lia|].
  pose proof (Z.log2_lxor a b ltac:(lia) ltac:(lia)) as HL.
  assert (Hn0 : 0 < n).
  { destruct (Z.eq_dec n 0) as [->|]; [|lia]. change (2 ^ 0) with 1 in *.
    assert (a = 0) by lia. assert (b = 0) by lia. subst. cbn in NZ. congruence. }
  assert (L : forall x, 0 <= x < 2 ^ n -> Z.log2 x < n).
  { intros x Hx. destruct (Z.eq_dec x 0) as [->|]; [cbn; lia|]. apply Z.log2_lt_pow2; lia. }
  pose proof (L a Ha). pose proof (L b Hb). lia.
Qed.

Lemma crc_step_range crc c : 0 <= crc < 4294967296 -> 0 <= crc_step crc c < 4294967296.
Proof.
  intros H. unfold crc_step. change 4294967296 with (2 ^ 32). apply lxor_range; [lia| |apply table_nth].
  rewrite Z.shiftr_div_pow2 by lia. change (2 ^ 32) with 4294967296. change (2 ^ 8) with 256.
  split; [apply Z.div_pos; lia|]. apply Z.div_lt_upper_bound; lia.
Qed.

Lemma crc32c_range b init : 0 <= init < 4294967296 -> 0 <= crc32c b init < 4294967296.
Proof.
  unfold crc32c. generalize (chunks 8 true b). intros l. revert init.
  induction l as [|c l IH]; intros init H; cbn [fold_left]; [exact H|]. apply IH. now apply crc_step_range.
Qed.

Lemma chunks_fuel_concat n : (0 < n)%nat -> forall fuel b, (length b < fuel)%nat -> concat (chunks_fuel fuel n false b) = b.
Proof.
  intros Hn. induction fuel as [|fuel IH]; intros b H; [lia|]. cbn [chunks_fuel].
  destruct (Nat.leb_spec (length b) n).
  - cbn [concat]. apply app_nil_r.
  - cbn [concat]. rewrite IH by (rewrite skipn_length; lia). apply firstn_skipn.
Qed.

Lemma lens_rev l : lens (rev l) = rev (lens l).
Proof. unfold lens. apply map_rev. Qed.

Theorem sctp_checksum_total fs pos : 0 <= pos < zlen fs -> exists v, sctp_checksum fs pos = Ok v /\ zlen v = 32.
Proof.
  intros Hp. unfold sctp_checksum.
  rewrite reduce_concat_ok by (apply slice_from_nonempty; rewrite zlen_vals; lia).
  cbn [bind]. set (b := concat _).
  rewrite uint_bits_ok by (change (2 ^ Z.of_nat 32) with 4294967296; apply crc32c_range; lia).
  cbn [bind]. eexists. split; [reflexivity|].
  rewrite zlen_concat, lens_rev, sumz_rev, <- zlen_concat.
  unfold chunks. rewrite chunks_fuel_concat by lia.
  unfold zlen. rewrite map_length, bits_of_length. reflexivity.
Qed.

(* UDP checksum: the pseudo-header needs an IP header in front.  The field list is fine at index k when
   4 <= k, the field k-4 (the last one of the layer below) belongs to IPv6 / IPv4, and the source
   address of that protocol occurs among the fields 1 .. k-4. *)
Definition udp_ck_ok (L : list fid) (k : nat) : bool :=
  (4 <=? k)%nat &&
  match nth_error L (k - 4) with
  | Some last =>
    match fproto last with
    | P_IPv6 => existsb (fid_eqb IPV6_SRC_ADDRESS) (skipn 1 (firstn (k - 3) L))
    | P_IPv4 => existsb (fid_eqb IPV4_SRC_ADDRESS) (skipn 1 (firstn (k - 3) L))
    | _ => false
    end
  | None => false
  end.

Lemma py_index_nth_error {A} (l : list A) n x : nth_error l n = Some x -> py_index l (Z.of_nat n) = Ok x.
Proof.
  intros H. assert (n < length l)%nat by (apply nth_error_Some; congruence).
  unfold py_index. destruct (Z.ltb_spec (Z.of_nat n) 0); [lia|].
  destruct (Z.ltb_spec (Z.of_nat n) 0); [lia|].
  destruct (Z.leb_spec (zlen l) (Z.of_nat n)); [unfold zlen in *; lia|]. cbn [orb].
  rewrite Nat2Z.id, H. reflexivity.
Qed.

Lemma py_index_ok {A} (l : list A) i : 0 <= i < zlen l -> exists x, py_index l i = Ok x.
Proof.
  intros H. destruct (nth_error l (Z.to_nat i)) as [x|] eqn:E.
  - exists x. rewrite <- (Z2Nat.id i) by lia. now apply py_index_nth_error.
  - apply nth_error_None in E. unfold zlen in H. lia.
Qed.

Lemma find_index_some p l : forall i, existsb p l = true ->
  exists off, find_index p l i = Some off /\ i <= off < i + zlen l.
Proof.
  induction l as [|a l IH]; intros i H; cbn [existsb] in H; [discriminate|]. cbn [find_index].
  rewrite zlen_cons. pose proof (zlen_nonneg l). destruct (p a) eqn:E.
  - exists i. split; [reflexivity|lia].
  - cbn [orb] in H. destruct (IH (i + 1) H) as (off & H1 & H2). exists off. split; [exact H1|lia].
Qed.

Lemma existsb_rev_true {A} (p : A -> bool) l : existsb p l = true -> existsb p (rev l) = true.
Proof. rewrite !existsb_exists. intros (x & H1 & H2). exists x. split; [|exact H2]. now rewrite <- in_rev. Qed.

Theorem udp_checksum_total fs k : udp_ck_ok (ids fs) k = true -> (k < length fs)%nat -> total_ok fs ->
  exists v, udp_checksum fs (Z.of_nat k) = Ok v /\ zlen v = 16.
Proof.
  unfold udp_ck_ok. intros H Hk Ht.
  apply andb_prop in H as [H4 H]. apply Nat.leb_le in H4.
  destruct (nth_error (ids fs) (k - 4)) as [last|] eqn:EL; [|discriminate].
  unfold udp_checksum. cbv zeta.
  replace (Z.of_nat k - 4) with (Z.of_nat (k - 4)) by lia.
  rewrite (py_index_nth_error _ _ _ EL). cbn [bind].
  rewrite reduce_concat_ok by (apply slice_from_nonempty; rewrite zlen_vals; unfold zlen; lia).
  cbn [bind]. set (hp := concat _).
  assert (Hhp : 0 <= byte_len hp < 65536) by (apply byte_len_slice; exact Ht).
  destruct (Z.ltb_spec (Z.of_nat (k - 4)) 0); [lia|].
  replace (Z.to_nat (Z.of_nat (k - 4) + 1)) with (k - 3)%nat by lia.
  set (X := skipn 1 (firstn (k - 3) (ids fs))) in *.
  assert (LX : zlen (rev X) = Z.of_nat (k - 4)).
  { unfold zlen, X, ids. rewrite rev_length, skipn_length, firstn_length, map_length. lia. }
  assert (Fin : forall c, exists v,
            uint_bits 16 (if Z.land (Z.lnot (Z.land (c + Z.shiftr c 16) 65535)) 65535 =? 0 then 65535
                          else Z.land (Z.lnot (Z.land (c + Z.shiftr c 16) 65535)) 65535) = Ok v /\ zlen v = 16).
  { intros c. apply uint16_ex. destruct (_ =? 0); [lia|apply land_65535]. }
  assert (Hlen : zlen (vals fs) = Z.of_nat (length fs)) by apply zlen_vals.
  destruct (fproto last); try discriminate.
  - destruct (find_index_some _ _ 0 (existsb_rev_true _ _ H)) as (off & E & R). rewrite E, LX in *.
    destruct (py_index_ok (vals fs) (Z.of_nat (k - 4) - off)) as [src ->]; [lia|].
    destruct (py_index_ok (vals fs) (Z.of_nat (k - 4) - off + 1)) as [dst ->]; [lia|].
    cbn [bind]. rewrite uint_bits_ok by (change (2 ^ Z.of_nat 16) with 65536; lia). cbn [bind]. apply Fin.
  - destruct (find_index_some _ _ 0 (existsb_rev_true _ _ H)) as (off & E & R). rewrite E, LX in *.
    destruct (py_index_ok (vals fs) (Z.of_nat (k - 4) - off)) as [src ->]; [lia|].
    destruct (py_index_ok (vals fs) (Z.of_nat (k - 4) - off + 1)) as [dst ->]; [lia|].
    cbn [bind]. rewrite uint_bits_ok by (change (2 ^ Z.of_nat 32) with 4294967296; lia). cbn [bind]. apply Fin.
Qed.

(* ---- the compute entries of a rule ------------------------------------------------------------------ *)
Lemma centries_in ct rfs : forall pos e, In e (centries_of ct pos rfs) ->
  exists k rf, nth_error rfs k = Some rf /\ ce_pos e = pos + Z.of_nat k /\ r_cda rf = Compute /\
               ce_id e = r_id rf /\ ct (r_id rf) = Some (ce_fn e, ce_deps e).
Proof.
  induction rfs as [|rf rfs IH]; intros pos e H; [destruct H|].
  rewrite centries_of_cons in H. apply in_app_or in H as [H|H].
  - unfold ce_of in H. destruct (r_cda rf) eqn:EC; try (now destruct H).
    destruct (ct (r_id rf)) as [[fn deps]|] eqn:ET; [|now destruct H].
    destruct H as [<-|[]]. exists 0%nat, rf. cbn [nth_error ce_pos ce_id ce_fn ce_deps].
    repeat split; auto; lia.
  - destruct (IH _ _ H) as (k & rf' & H1 & H2 & H3). exists (S k), rf'. cbn [nth_error].
    split; [exact H1|]. split; [lia|exact H3].
Qed.

(* sufficient for compute_function_sort to leave the entries in rule order: no computable field id
   occurs after a field whose compute function lists it as a dependency *)
Definition computable (f : fid) : bool := match compute_functions f with Some _ => true | None => false end.
Fixpoint order_ok (l : list fid) : bool :=
  match l with
  | [] => true
  | i :: r =>
    match compute_functions i with
    | None => true
    | Some (_, deps) => forallb (fun j => negb (computable j && in_fids j deps)) r
    end && order_ok r
  end.

Lemma ce_sorted_cons e l : ce_sorted l = true -> (forall e2, In e2 l -> (ce_cmp e2 e <? 0) = false) ->
  ce_sorted (e :: l) = true.
Proof.
  intros H1 H2. destruct l as [|e2 l]; [reflexivity|].
  change (ce_sorted (e :: e2 :: l)) with (negb (ce_cmp e2 e <? 0) && ce_sorted (e2 :: l)).
  rewrite (H2 e2 (or_introl eq_refl)), H1. reflexivity.
Qed.

Theorem centries_sorted rfs : forall pos, order_ok (map r_id rfs) = true ->
  ce_sorted (centries_of compute_functions pos rfs) = true.
Proof.
  induction rfs as [|rf rfs IH]; intros pos H; [reflexivity|].
  cbn [map order_ok] in H. apply andb_prop in H as [H1 H2].
  rewrite centries_of_cons. specialize (IH (pos + 1) H2).
  unfold ce_of. destruct (r_cda rf); try exact IH.
  destruct (compute_functions (r_id rf)) as [[fn deps]|] eqn:ET; [|exact IH].
  cbn [app]. apply ce_sorted_cons; [exact IH|].
  intros e2 I. apply centries_in in I as (k & rf2 & N & P & C & Iid & T).
  unfold ce_cmp. cbn [ce_id ce_deps ce_pos].
  rewrite forallb_forall in H1.
  assert (I2 : In (r_id rf2) (map r_id rfs)) by (apply in_map; eapply nth_error_In; eauto).
  apply H1 in I2. unfold computable in I2. rewrite T in I2. cbn [andb] in I2. apply negb_true_iff in I2.
  rewrite Iid, I2. destruct (in_fids (r_id rf) (ce_deps e2)); apply Z.ltb_ge; lia.
Qed.

Lemma order_ok_rest rest : Forall (fun f => compute_functions f = None) rest -> order_ok rest = true.
Proof. induction 1 as [|f rest H _ IH]; [reflexivity|]. cbn [order_ok]. now rewrite H, IH. Qed.

Lemma order_ok_app pre rest : order_ok pre = true -> Forall (fun f => compute_functions f = None) rest ->
  order_ok (pre ++ rest) = true.
Proof.
  intros H HR. induction pre as [|i pre IH]; [now apply order_ok_rest|].
  cbn [app order_ok] in *. apply andb_prop in H as [H1 H2]. rewrite (IH H2), andb_true_r.
  destruct (compute_functions i) as [[fn deps]|]; [|reflexivity].
  rewrite forallb_app, H1. cbn [andb]. apply forallb_forall. intros j Hj.
  rewrite Forall_forall in HR. unfold computable. now rewrite (HR j Hj).
Qed.

(* ---- the compute stage keeps ids and lengths -------------------------------------------------------- *)
Definition shape (fs : list (fid * bits)) : list (fid * Z) := map (fun f => (fst f, zlen (snd f))) fs.

Lemma shape_ids fs : ids fs = map fst (shape fs).
Proof. unfold ids, shape. rewrite map_map. reflexivity. Qed.

Lemma shape_lens fs : lens (vals fs) = map snd (shape fs).
Proof. unfold lens, vals, shape. rewrite !map_map. reflexivity. Qed.

Lemma shape_length fs : length (shape fs) = length fs.
Proof. apply map_length. Qed.

Lemma list_set_map {A B} (f : A -> B) l : forall k x, map f (list_set l k x) = list_set (map f l) k (f x).
Proof. induction l as [|y l IH]; intros [|k] x; cbn [list_set map]; try reflexivity. now rewrite IH. Qed.

Lemma list_set_same {A} (l : list A) : forall k x, nth_error l k = Some x -> list_set l k x = l.
Proof.
  induction l as [|y l IH]; intros [|k] x H; cbn in H; try discriminate; cbn [list_set].
  - now injection H as ->.
  - now rewrite IH.
Qed.

Lemma Forall2_len {A B} (R : A -> B -> Prop) la lb : Forall2 R la lb -> length la = length lb.
Proof. induction 1; cbn; auto. Qed.

Lemma Forall2_nth_l {A B} (R : A -> B -> Prop) la lb : Forall2 R la lb ->
  forall k a, nth_error la k = Some a -> exists b, nth_error lb k = Some b /\ R a b.
Proof.
  induction 1 as [|a0 b0 la lb H0 _ IH]; intros [|k] a H; cbn in H; try discriminate.
  - injection H as <-. exists b0. now split.
  - now apply IH.
Qed.

Lemma run_computes_total (P : list (fid * bits) -> Prop) ces :
  (forall e fs, In e ces -> P fs ->
     exists v, ce_fn e fs (ce_pos e) = Ok v /\ P (list_set fs (Z.to_nat (ce_pos e)) (ce_id e, v))) ->
  forall fs, P fs -> exists fs', run_computes ces fs = Ok fs' /\ P fs'.
Proof.
  induction ces as [|e ces IH]; intros H fs Hfs.
  - exists fs. now split.
  - destruct (H e fs (or_introl eq_refl) Hfs) as (v & E & HP). cbn [run_computes]. rewrite E. cbn [bind].
    apply IH; [|exact HP]. intros e' fs' I. apply H. now right.
Qed.

Lemma udp_ck_ok_app L X k : (k < length L)%nat -> udp_ck_ok L k = true -> udp_ck_ok (L ++ X) k = true.
Proof.
  unfold udp_ck_ok. intros Hk H. apply andb_prop in H as [H4 H]. rewrite H4. cbn [andb].
  apply Nat.leb_le in H4.
  rewrite nth_error_app1 by lia. rewrite firstn_app.
  replace (k - 3 - length L)%nat with 0%nat by lia. cbn [firstn]. rewrite app_nil_r. exact H.
Qed.

(* the protocol length of a computed field *)
Definition compute_len (f : fid) : Z := if fid_eqb f SCTP_CHECKSUM then 32 else 16.

Lemma compute_entry_total rfs fsA rest :
  (forall k rf, nth_error rfs k = Some rf -> r_cda rf = Compute -> r_id rf = UDP_CHECKSUM ->
                udp_ck_ok (map r_id rfs) k = true) ->
  (forall rf, In rf rfs -> r_cda rf = Compute -> r_len rf = compute_len (r_id rf)) ->
  Forall2 field_rel rfs fsA ->
  let fs0 := fsA ++ [(payload_fid, rest)] in
  total_ok fs0 ->
  forall e fs, In e (centries_of compute_functions 0 rfs) -> shape fs = shape fs0 ->
  exists v, ce_fn e fs (ce_pos e) = Ok v /\
            shape (list_set fs (Z.to_nat (ce_pos e)) (ce_id e, v)) = shape fs0.
Proof.
  intros HU HLen HF fs0 HT e fs I HS.
  apply centries_in in I as (k & rf & N & P & C & Iid & T).
  destruct (Forall2_nth_l _ _ _ HF k rf N) as (f & Nf & Hf1 & Hf2).
  specialize (Hf2 C). rewrite (HLen rf (nth_error_In _ _ N) C) in Hf2.
  assert (Kr : (k < length rfs)%nat) by (apply nth_error_Some; congruence).
  assert (LA : length fsA = length rfs) by (symmetry; apply (Forall2_len _ _ _ HF)).
  assert (L0 : length fs0 = S (length rfs)) by (unfold fs0; rewrite app_length; cbn [length]; lia).
  assert (Lfs : length fs = S (length rfs)) by (rewrite <- L0, <- !shape_length; now rewrite HS).
  assert (N0 : nth_error (shape fs0) k = Some (r_id rf, compute_len (r_id rf))).
  { unfold fs0, shape. rewrite map_app, nth_error_app1 by (rewrite map_length; lia).
    rewrite (map_nth_error _ _ _ Nf). cbv beta. f_equal. f_equal; [exact Hf1|exact Hf2]. }
  assert (TO : total_ok fs) by (unfold total_ok in *; now rewrite shape_lens, HS, <- shape_lens).
  assert (ID : ids fs = map r_id rfs ++ [payload_fid]).
  { rewrite shape_ids, HS, <- shape_ids. unfold fs0, ids. rewrite map_app.
    now rewrite (Forall2_field_rel_ids _ _ HF). }
  replace (ce_pos e) with (Z.of_nat k) by lia. rewrite Nat2Z.id.
  assert (G : exists v, ce_fn e fs (Z.of_nat k) = Ok v /\ zlen v = compute_len (r_id rf)).
  { assert (Zk : 0 <= Z.of_nat k < zlen fs) by (unfold zlen; lia).
    unfold compute_functions in T.
    repeat match type of T with
           | (if fid_eqb ?a ?b then _ else _) = _ =>
             let Q := fresh "Q" in destruct (fid_eqb a b) eqn:Q; [apply fid_eqb_true in Q|clear Q]
           end; try discriminate T; injection T as Hfn _; rewrite <- Hfn, Q.
    - apply ipv4_total_length_total; exact TO.
    - apply ipv4_checksum_total.
    - apply ipv6_payload_length_total; exact TO.
    - apply udp_length_total; assumption.
    - apply udp_checksum_total; [|lia|exact TO].
      rewrite ID. apply udp_ck_ok_app; [rewrite map_length; exact Kr|]. now apply (HU k rf).
    - apply sctp_checksum_total; assumption. }
  destruct G as (v & Gv & Gl). exists v. split; [exact Gv|].
  unfold shape at 1. rewrite list_set_map. fold (shape fs). cbn [fst snd]. rewrite HS, Iid, Gl.
  now apply list_set_same.
Qed.

(* ---- the number of compute entries ------------------------------------------------------------------ *)
Definition known (ct : compute_table) (f : fid) : bool := match ct f with Some _ => true | None => false end.

Lemma centries_count ct rfs : forall pos,
  (length (centries_of ct pos rfs) <= length (filter (known ct) (map r_id rfs)))%nat.
Proof.
  induction rfs as [|rf rfs IH]; intros pos; [apply Nat.le_refl|].
  rewrite centries_of_cons, app_length. specialize (IH (pos + 1)). cbn [map filter].
  unfold ce_of, known at 1. destruct (r_cda rf); destruct (ct (r_id rf)) as [[fn deps]|]; cbn [length]; lia.
Qed.

Lemma filter_known_none ct rest : Forall (fun f => ct f = None) rest -> filter (known ct) rest = [].
Proof. induction 1 as [|f rest H _ IH]; [reflexivity|]. cbn [filter]. unfold known at 1. now rewrite H. Qed.

Lemma filter_len_le {A} (p : A -> bool) l : (length (filter p l) <= length l)%nat.
Proof. induction l as [|x l IH]; [apply Nat.le_refl|]. cbn [filter]. destruct (p x); cbn [length]; lia. Qed.

(* the ids the table knows all lie in a prefix: no more entries than the prefix is long *)
Lemma centries_prefix_bound ct rfs pre rest pos : map r_id rfs = pre ++ rest -> Forall (fun f => ct f = None) rest ->
  (length (centries_of ct pos rfs) <= length pre)%nat.
Proof.
  intros E HR. pose proof (centries_count ct rfs pos) as H. rewrite E, filter_app, app_length in H.
  rewrite (filter_known_none ct rest HR) in H. pose proof (filter_len_le (known ct) pre). cbn [length] in H. lia.
Qed.

(* ---- C20 with the compute stage --------------------------------------------------------------------- *)
(* The compute entries are run in the order list.sort puts them in; each compute function succeeds on
   any field list with the ids and lengths of the rebuilt one (compute_entry_total), so the order does
   not matter for totality.  CHANGED premise: the former order_ok (map r_id rfs) = true (entries already
   sorted, the only case the model covered) is replaced by the bound the model of list.sort needs. *)
Theorem c20_total_gen r d s :
  let rfs := select_fds d (rule_fds r) in
  forallb (cda_typed compute_functions) rfs = true ->
  (length (centries_of compute_functions 0 rfs) < 64)%nat ->
  (forall k rf, nth_error rfs k = Some rf -> r_cda rf = Compute -> r_id rf = UDP_CHECKSUM ->
                udp_ck_ok (map r_id rfs) k = true) ->
  (forall rf, In rf rfs -> r_cda rf = Compute -> r_len rf = compute_len (r_id rf)) ->
  static_bits rfs + zlen s <= 8 * 65535 ->
  exists p, decompress compute_functions s r d = Ok p.
Proof.
  intros rfs T HN HU HLen HB. unfold decompress. cbv zeta. fold rfs.
  set (s' := py_slice s (Some (zlen (rule_id r))) None).
  assert (Ls' : zlen s' <= zlen s) by apply slice_from_len.
  destruct (decompress_fields_total_strong _ rfs T s' 0) as (fs & rest & E & HF & Hsz).
  rewrite E. cbn [bind].
  destruct (py_sort_ces_total _ HN) as (ces & ES). rewrite ES.
  assert (HT : total_ok (fs ++ [(payload_fid, rest)])).
  { unfold total_ok, vals, lens. rewrite !map_app, sumz_app. cbn [map snd sumz]. unfold lens in Hsz.
    clearbody s'. unfold bits in *. lia. }
  destruct (run_computes_total (fun x => shape x = shape (fs ++ [(payload_fid, rest)])) ces) with (fs := fs ++ [(payload_fid, rest)])
    as (fs' & R & _); [|reflexivity|].
  - intros e fs1 I. apply (compute_entry_total rfs fs rest HU HLen HF HT).
    apply Permutation_in with (l := ces); [symmetry; exact (py_sort_ces_perm _ _ ES)|exact I].
  - rewrite R. cbn [bind]. eexists. reflexivity.
Qed.

(* ---- rules with the field ids of a supported stack --------------------------------------------------- *)
Definition ids_ipv6 := map (fun i => mkfid P_IPv6 i) [0;1;2;3;4;5;6;7].
Definition ids_ipv4 := map (fun i => mkfid P_IPv4 i) [0;1;2;3;4;5;6;7;8;9;10;11].
Definition ids_udp  := map (fun i => mkfid P_UDP i) [0;1;2;3].
Definition ids_sctp_hdr := map (fun i => mkfid P_SCTP i) [0;1;2;3].

(* the computable ids may only occur inside these prefixes *)
Definition stack_shaped (rfs : list rfd) : Prop :=
  exists pre rest, map r_id rfs = pre ++ rest /\
    (pre = ids_ipv6 ++ ids_udp \/ pre = ids_ipv4 ++ ids_udp \/ pre = ids_ipv6 ++ ids_sctp_hdr \/ pre = ids_ipv4 ++ ids_sctp_hdr \/
     pre = ids_ipv6 \/ pre = ids_ipv4 \/ pre = ids_sctp_hdr \/ pre = []) /\
    Forall (fun f => compute_functions f = None) rest /\
    (pre = ids_udp -> False).

Theorem stack_shaped_order rfs : stack_shaped rfs -> order_ok (map r_id rfs) = true.
Proof.
  intros (pre & rest & E & HP & HR & _). rewrite E. apply order_ok_app; [|exact HR].
  destruct HP as [->|[->|[->|[->|[->|[->|[->| ->]]]]]]]; vm_compute; reflexivity.
Qed.

(* a stack-shaped rule has at most 16 compute entries *)
Theorem stack_shaped_entries rfs pos : stack_shaped rfs -> (length (centries_of compute_functions pos rfs) <= 16)%nat.
Proof.
  intros (pre & rest & E & HP & HR & _). pose proof (centries_prefix_bound compute_functions rfs pre rest pos E HR) as H.
  assert (length pre <= 16)%nat; [|lia].
  destruct HP as [->|[->|[->|[->|[->|[->|[->| ->]]]]]]]; vm_compute; lia.
Qed.

Ltac step_k k H :=
  destruct k as [|k]; [cbn in H; try discriminate H | cbn [nth_error app] in H].

Theorem stack_shaped_udp rfs k rf : stack_shaped rfs -> nth_error rfs k = Some rf -> r_id rf = UDP_CHECKSUM ->
  udp_ck_ok (map r_id rfs) k = true.
Proof.
  intros (pre & rest & E & HP & HR & _) N Hid.
  apply (map_nth_error r_id) in N. rewrite Hid, E in N. rewrite E. clear E Hid.
  assert (Rest : forall j, nth_error rest j = Some UDP_CHECKSUM -> False).
  { intros j Hj. apply nth_error_In in Hj. rewrite Forall_forall in HR. apply HR in Hj.
    assert (C : computable UDP_CHECKSUM = true) by (vm_compute; reflexivity).
    unfold computable in C. rewrite Hj in C. discriminate C. }
  unfold ids_ipv6, ids_ipv4, ids_udp, ids_sctp_hdr in HP. cbn [map app] in HP.
  destruct HP as [->|[->|[->|[->|[->|[->|[->| ->]]]]]]]; cbn [app] in N |- *.
  - do 12 (step_k k N); try (exfalso; exact (Rest _ N)). reflexivity.
  - do 16 (step_k k N); try (exfalso; exact (Rest _ N)). reflexivity.
  - do 12 (step_k k N); exfalso; exact (Rest _ N).
  - do 16 (step_k k N); exfalso; exact (Rest _ N).
  - do 8 (step_k k N); exfalso; exact (Rest _ N).
  - do 12 (step_k k N); exfalso; exact (Rest _ N).
  - do 4 (step_k k N); exfalso; exact (Rest _ N).
  - exfalso; exact (Rest _ N).
Qed.

(* C20 for stack-shaped rules.  ADDED premise: static_bits <= 4280 (the sizes of the target values and
   computed fields of the rule; see c20_total_needs_static_bound for why some bound is needed). *)
Theorem c20_total r d s :
  forallb (cda_typed compute_functions) (select_fds d (rule_fds r)) = true ->
  stack_shaped (select_fds d (rule_fds r)) -> zlen s < 8 * 65000 ->
  (forall rf, In rf (select_fds d (rule_fds r)) -> r_cda rf = Compute -> r_len rf = compute_len (r_id rf)) ->
  static_bits (select_fds d (rule_fds r)) <= 4280 ->
  exists p, decompress compute_functions s r d = Ok p.
Proof.
  intros T SS Ls HLen HSt. apply c20_total_gen; try assumption.
  - pose proof (stack_shaped_entries _ 0 SS). lia.
  - intros k rf N _ Hid. now apply (stack_shaped_udp _ k rf).
  - lia.
Qed.

Definition rule_total_ok (d : option dir) (r : rule) : Prop :=
  forallb (cda_typed compute_functions) (select_fds d (rule_fds r)) = true /\
  stack_shaped (select_fds d (rule_fds r)) /\
  (forall rf, In rf (select_fds d (rule_fds r)) -> r_cda rf = Compute -> r_len rf = compute_len (r_id rf)) /\
  static_bits (select_fds d (rule_fds r)) <= 4280.

Theorem c20_manager rules s d : (forall r, In r rules -> rule_total_ok d r) -> zlen s < 8 * 65000 ->
  (exists p, cm_decompress compute_functions rules s d = Ok p) \/
  cm_decompress compute_functions rules s d = Exc RuleIDMatchError.
Proof.
  intros All Ls.
  unfold cm_decompress. destruct (match_schc_packet rules s) as [r|e|] eqn:EM.
  - left. cbn [bind]. apply match_schc_packet_sound in EM as [I _].
    destruct (All r I) as (T & SS & HLen & HSt). now apply c20_total.
  - right. cbn [bind]. unfold match_schc_packet in EM.
    destruct (match_schc_loop rules s); [discriminate|]. injection EM as <-. reflexivity.
  - exfalso. unfold match_schc_packet in EM.
    destruct (match_schc_loop rules s); discriminate.
Qed.

(* a boolean form of the premise on the lengths of computed fields *)
Lemma compute_len_check rfs :
  forallb (fun rf => match r_cda rf with Compute => r_len rf =? compute_len (r_id rf) | _ => true end) rfs = true ->
  forall rf, In rf rfs -> r_cda rf = Compute -> r_len rf = compute_len (r_id rf).
Proof. intros H rf I C. rewrite forallb_forall in H. apply H in I. rewrite C in I. now apply Z.eqb_eq. Qed.

(* Without a bound on the target values the statement is false: an IPv6 rule whose payload length is
   computed, followed by a not-sent field with a 65536-byte target value. *)
Definition big_rule : rule :=
  mkrule [true] Compression
    (map (fun i => mkrfd (mkfid P_IPv6 i) (if i =? 3 then 16 else 0) 1 Bi (TVbuf []) MO_ignore
                         (if i =? 3 then Compute else NotSent)) [0;1;2;3;4;5;6;7]
     ++ [mkrfd (mkfid P_CoAP 0) 0 1 Bi (TVbuf (repeat false (Z.to_nat 524288))) MO_equal NotSent]).

Theorem c20_total_needs_static_bound :
  forallb (cda_typed compute_functions) (select_fds None (rule_fds big_rule)) = true /\
  stack_shaped (select_fds None (rule_fds big_rule)) /\ zlen [true] < 8 * 65000 /\
  (forall rf, In rf (select_fds None (rule_fds big_rule)) -> r_cda rf = Compute -> r_len rf = compute_len (r_id rf)) /\
  decompress compute_functions [true] big_rule None = Exc OverflowError.
Proof.
  split; [vm_compute; reflexivity|]. split.
  - exists ids_ipv6, [mkfid P_CoAP 0]. split; [vm_compute; reflexivity|]. split; [tauto|]. split.
    + constructor; [vm_compute; reflexivity|constructor].
    + intros H. vm_compute in H. discriminate H.
  - split; [vm_compute; reflexivity|]. split.
    + apply compute_len_check. vm_compute. reflexivity.
    + vm_compute. reflexivity.
Qed.


(* rules that do not compute the UDP checksum need no IP header in front: e.g. a bare UDP rule whose
   length field is computed.  CHANGED premise as in c20_total_gen: fewer than 64 compute entries
   instead of order_ok (map r_id rfs) = true *)
Theorem c20_total_no_udp_checksum r d s :
  let rfs := select_fds d (rule_fds r) in
  forallb (cda_typed compute_functions) rfs = true ->
  (length (centries_of compute_functions 0 rfs) < 64)%nat ->
  (forall rf, In rf rfs -> r_cda rf = Compute -> r_id rf <> UDP_CHECKSUM) ->
  (forall rf, In rf rfs -> r_cda rf = Compute -> r_len rf = compute_len (r_id rf)) ->
  static_bits rfs + zlen s <= 8 * 65535 ->
  exists p, decompress compute_functions s r d = Ok p.
Proof.
  intros rfs T HO HN HLen HB. apply c20_total_gen; try assumption.
  intros k rf N C Hid. exfalso. apply (HN rf (nth_error_In _ _ N) C Hid).
Qed.

Lemma static_bits_bound b rfs : Forall (fun rf => field_static rf <= b) rfs -> static_bits rfs <= b * zlen rfs.
Proof.
  unfold static_bits. induction 1 as [|rf rfs H _ IH]; [cbn; lia|].
  cbn [map sumz]. rewrite zlen_cons. lia.
Qed.

(* the premises of c20_total are satisfiable: an IPv6/UDP rule computing both lengths and the checksum *)
Definition sample_rule : rule :=
  mkrule [true; false] Compression
    (map (fun i => mkrfd (mkfid P_IPv6 i) (if i =? 3 then 16 else 0) 1 Bi (TVbuf []) MO_ignore
                         (if i =? 3 then Compute else ValueSent)) [0;1;2;3;4;5;6;7]
     ++ map (fun i => mkrfd (mkfid P_UDP i) 16 1 Bi (TVbuf []) MO_ignore
                         (if i <? 2 then ValueSent else Compute)) [0;1;2;3]).

Example sample_rule_total_ok : rule_total_ok None sample_rule.
Proof.
  split; [vm_compute; reflexivity|]. split.
  - exists (ids_ipv6 ++ ids_udp), []. split; [vm_compute; reflexivity|]. split; [tauto|]. split; [constructor|].
    intros H. vm_compute in H. discriminate H.
  - split; [apply compute_len_check; vm_compute; reflexivity|]. vm_compute. discriminate.
Qed.

