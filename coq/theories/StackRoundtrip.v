From Coq Require Import ZArith List Bool Lia. From MS Require Import PyBase Bits ByteFacts BufferAbs Schc SchcSpec SchcCodec SchcRules SchcRoundtrip Compute RfcChecksum ComputeSpec SchcTotal. Import ListNotations. Open Scope Z_scope.
(* StackRoundtrip.v -- property C01 end to end for the two protocol stacks the library ships:
   the premise of SchcRoundtrip.c01_roundtrip ("the compute stage regenerates the original values")
   is discharged for IPv6/UDP and IPv4/UDP packets whose length and checksum fields carry the values
   their RFCs define, with any subset of the computable fields marked compute in the rule. *)

Definition dummy_field : field := mkfield payload_fid [] 0.

(* ---- from the rule to a mask of compute flags ---------------------------------------------------- *)
Definition is_comp (c : cda) : bool := match c with Compute => true | _ => false end.
(* the placeholder the decompressor holds for a compute field *)
Definition ph (b : bool) (v : bits) : bits := if b then repeat false (length v) else v.

Fixpoint pre_m (m : list bool) (fs : list field) : list bits :=
  match m, fs with b :: m', f :: fs' => ph b (f_val f) :: pre_m m' fs' | _, _ => [] end.
Definition ce_m (ct : compute_table) (pos : Z) (b : bool) (i : fid) : list centry :=
  if b then match ct i with Some (fn, deps) => [mkcentry pos i fn deps] | None => [] end else [].
Fixpoint ces_m (ct : compute_table) (pos : Z) (m : list bool) (fs : list field) : list centry :=
  match m, fs with b :: m', f :: fs' => ce_m ct pos b (f_id f) ++ ces_m ct (pos + 1) m' fs' | _, _ => [] end.
Fixpoint mask_ok (ct : compute_table) (m : list bool) (fs : list field) : Prop :=
  match m, fs with
  | b :: m', f :: fs' => (b = true -> ct (f_id f) <> None) /\ mask_ok ct m' fs'
  | [], [] => True
  | _, _ => False
  end.

Lemma mask_of_rule ct rfs : forall fs,
  forallb2 spec_field_applies fs rfs = true -> forallb2 len_ok rfs fs = true ->
  forallb (compute_known ct) rfs = true ->
  let m := map (fun rf => is_comp (r_cda rf)) rfs in
  map r_id rfs = map f_id fs /\ map2 pre_value rfs fs = pre_m m fs /\
  (forall pos, centries_of ct pos rfs = ces_m ct pos m fs) /\ mask_ok ct m fs.
Proof.
  induction rfs as [|rf rfs IH]; intros [|f fs] HA HN HC; try discriminate HA.
  - cbn. repeat split.
  - cbn [forallb2 forallb] in *.
    apply andb_prop in HA as [HA1 HA2]. apply andb_prop in HN as [HN1 HN2]. apply andb_prop in HC as [HC1 HC2].
    destruct (IH fs HA2 HN2 HC2) as (I1 & I2 & I3 & I4).
    unfold spec_field_applies in HA1. apply andb_prop in HA1 as [HA1 _]. apply fid_eqb_true in HA1.
    cbv zeta. cbn [map map2 pre_m ces_m mask_ok]. rewrite I1, I2, HA1. repeat split.
    + f_equal. unfold pre_value, len_ok in *. destruct (r_cda rf); try reflexivity.
      cbn [is_comp ph]. apply Z.eqb_eq in HN1. now rewrite HN1, zlen_to_nat.
    + intros pos. cbn [centries_of]. rewrite I3. f_equal. unfold ce_m.
      destruct (r_cda rf); reflexivity.
    + intros Hb. unfold compute_known in HC1. destruct (r_cda rf); try discriminate Hb.
      destruct (ct (r_id rf)); [discriminate|discriminate HC1].
    + exact I4.
Qed.

(* fields the table does not know: no placeholder, no entry *)
Lemma mask_rest ct m : forall fs, mask_ok ct m fs -> Forall (fun f => ct (f_id f) = None) fs ->
  pre_m m fs = map f_val fs /\ forall pos, ces_m ct pos m fs = [].
Proof.
  induction m as [|b m IH]; intros [|f fs] HM HF; cbn [mask_ok] in HM; try contradiction.
  - split; reflexivity.
  - destruct HM as [H1 H2]. inversion HF as [|? ? F1 F2]; subst.
    destruct (IH fs H2 F2) as [I1 I2]. cbn [pre_m ces_m map]. rewrite I1. split.
    + f_equal. destruct b; [exfalso; now apply H1|reflexivity].
    + intros pos. rewrite I2. unfold ce_m. rewrite F1. destruct b; reflexivity.
Qed.

(* ---- lengths in bytes depend on the bit length only ---------------------------------------------- *)
Lemma nbytes_len (a b : bits) : zlen a = zlen b -> nbytes a = nbytes b.
Proof. unfold nbytes. now intros ->. Qed.

Lemma nbytes_mono (a b : bits) : zlen a <= zlen b -> nbytes a <= nbytes b.
Proof. unfold nbytes. intros H. apply Z.div_le_mono; lia. Qed.

Lemma zlen_ph b v : zlen (ph b v) = zlen v.
Proof. destruct b; [|reflexivity]. unfold ph, zlen. now rewrite repeat_length. Qed.

Lemma ph_bits_of b k x : ph b (bits_of k x) = if b then repeat false k else bits_of k x.
Proof. unfold ph. now rewrite bits_of_length. Qed.

Lemma zlen_mod16 (v : bits) n : zlen v = n -> n mod 16 = 0 -> (length v mod 16 = 0)%nat.
Proof.
  unfold zlen. intros <- H. apply Nat2Z.inj. rewrite Nat2Z.inj_mod. exact H.
Qed.

Lemma cf_v6_len : compute_functions (mkfid P_IPv6 3) = Some (ipv6_payload_length, []).
Proof. reflexivity. Qed.
Lemma cf_udp_len : compute_functions (mkfid P_UDP 2) = Some (udp_length, []).
Proof. reflexivity. Qed.
Lemma cf_udp_ck : compute_functions (mkfid P_UDP 3) =
  Some (udp_checksum, UDP_CHECKSUM_DEPS).
Proof. reflexivity. Qed.
Lemma cf_v4_len : compute_functions (mkfid P_IPv4 3) = Some (ipv4_total_length, []).
Proof. reflexivity. Qed.
Lemma cf_v4_ck : compute_functions (mkfid P_IPv4 9) =
  Some (ipv4_checksum, map (fun i => mkfid P_IPv4 i) [0; 1; 2; 3; 4; 5; 6; 7; 8; 10; 11]).
Proof. reflexivity. Qed.

(* ================================================================================================== *)
(* IPv6 / UDP                                                                                          *)
(* ================================================================================================== *)
(* an IPv6 / UDP / ... packet descriptor whose computable fields carry the values RFC 8200 and RFC 768 define *)
Definition v6_shape (fs : list field) : Prop :=
  map f_id (firstn 12 fs) = ids_ipv6 ++ ids_udp /\ (12 <= length fs)%nat /\
  Forall (fun f => compute_functions (f_id f) = None) (skipn 12 fs) /\
  zlen (f_val (nth 3 fs dummy_field)) = 16 /\ zlen (f_val (nth 6 fs dummy_field)) = 128 /\ zlen (f_val (nth 7 fs dummy_field)) = 128 /\
  zlen (f_val (nth 10 fs dummy_field)) = 16 /\ zlen (f_val (nth 11 fs dummy_field)) = 16.
Definition v6_correct (fs : list field) (pl : bits) : Prop :=
  let vs := map f_val fs in
  let upper := concat (skipn 8 vs) ++ pl in                  (* everything after the 40-byte IPv6 header *)
  let udp0 := concat (skipn 8 (list_set vs 11 (repeat false 16))) ++ pl in   (* the UDP datagram with a zero checksum field *)
  nbytes upper < 65536 /\
  nth 3 vs [] = bits_of 16 (nbytes upper) /\                 (* IPv6 payload length *)
  nth 10 vs [] = bits_of 16 (nbytes upper) /\                (* UDP length *)
  nth 11 vs [] = bits_of 16 (rfc_udp_checksum (pseudo_v6 (nth 6 vs []) (nth 7 vs []) (nbytes udp0)) udp0).   (* UDP checksum *)

Notation L6 o0 o1 o2 o3 o4 o5 o6 o7 o8 o9 o10 o11 T :=
  ((mkfid P_IPv6 0, o0) :: (mkfid P_IPv6 1, o1) :: (mkfid P_IPv6 2, o2) :: (mkfid P_IPv6 3, o3) ::
   (mkfid P_IPv6 4, o4) :: (mkfid P_IPv6 5, o5) :: (mkfid P_IPv6 6, o6) :: (mkfid P_IPv6 7, o7) ::
   (mkfid P_UDP 0, o8) :: (mkfid P_UDP 1, o9) :: (mkfid P_UDP 2, o10) :: (mkfid P_UDP 3, o11) :: T) (only parsing).

Lemma v6_step_len o0 o1 o2 x3 o4 o5 o6 o7 o8 o9 x10 x11 (T : list (fid * bits)) :
  nbytes (o8 ++ o9 ++ x10 ++ x11 ++ concat (map snd T)) < 65536 ->
  ipv6_payload_length (L6 o0 o1 o2 x3 o4 o5 o6 o7 o8 o9 x10 x11 T) 3
  = Ok (bits_of 16 (nbytes (o8 ++ o9 ++ x10 ++ x11 ++ concat (map snd T)))).
Proof.
  intros H. rewrite c09_ipv6_length; [reflexivity|lia|exact H].
Qed.

Lemma v6_step_udplen o0 o1 o2 x3 o4 o5 o6 o7 o8 o9 x10 x11 (T : list (fid * bits)) :
  nbytes (o8 ++ o9 ++ x10 ++ x11 ++ concat (map snd T)) < 65536 ->
  udp_length (L6 o0 o1 o2 x3 o4 o5 o6 o7 o8 o9 x10 x11 T) 10
  = Ok (bits_of 16 (nbytes (o8 ++ o9 ++ x10 ++ x11 ++ concat (map snd T)))).
Proof.
  intros H. rewrite c09_udp_length; [reflexivity| |exact H].
  unfold zlen. cbn [length]. lia.
Qed.

Lemma v6_step_ck o0 o1 o2 x3 o4 o5 o6 o7 o8 o9 x10 x11 (T : list (fid * bits)) :
  zlen o6 = 128 -> zlen o7 = 128 ->
  let udp := o8 ++ o9 ++ x10 ++ x11 ++ concat (map snd T) in
  nbytes udp < 65536 ->
  udp_checksum (L6 o0 o1 o2 x3 o4 o5 o6 o7 o8 o9 x10 x11 T) 11
  = Ok (bits_of 16 (rfc_udp_checksum (pseudo_v6 o6 o7 (nbytes udp)) udp)).
Proof.
  intros H6 H7 udp H.
  rewrite (c09_udp_checksum_v6 _ 11 6 o6 o7); try reflexivity; try lia.
  - unfold zlen. cbn [length]. lia.
  - intros j Hj. assert (j = 7) as -> by lia. cbv. discriminate.
  - apply (zlen_mod16 _ _ H6). reflexivity.
  - apply (zlen_mod16 _ _ H7). reflexivity.
  - change (nbytes udp < 2 ^ 32). lia.
Qed.

Definition E6 (b3 b10 b11 : bool) : list centry :=
  (if b3 then [mkcentry 3 (mkfid P_IPv6 3) ipv6_payload_length []] else []) ++
  (if b10 then [mkcentry 10 (mkfid P_UDP 2) udp_length []] else []) ++
  (if b11 then [mkcentry 11 (mkfid P_UDP 3) udp_checksum
                  UDP_CHECKSUM_DEPS] else []).

Lemma v6_core b3 b10 b11 o0 o1 o2 o3 o4 o5 o6 o7 o8 o9 o10 o11 (T : list (fid * bits)) R :
  concat (map snd T) = R -> zlen o6 = 128 -> zlen o7 = 128 ->
  let upper := o8 ++ o9 ++ o10 ++ o11 ++ R in
  let udp0 := o8 ++ o9 ++ o10 ++ repeat false 16 ++ R in
  nbytes upper < 65536 ->
  o3 = bits_of 16 (nbytes upper) -> o10 = bits_of 16 (nbytes upper) ->
  o11 = bits_of 16 (rfc_udp_checksum (pseudo_v6 o6 o7 (nbytes udp0)) udp0) ->
  run_computes (E6 b3 b10 b11)
    (L6 o0 o1 o2 (ph b3 o3) o4 o5 o6 o7 o8 o9 (ph b10 o10) (ph b11 o11) T)
  = Ok (L6 o0 o1 o2 o3 o4 o5 o6 o7 o8 o9 o10 o11 T).
Proof.
  intros ET H6 H7 upper udp0 HU E3 E10 E11.
  assert (Z10 : zlen o10 = 16) by (rewrite E10; apply zlen_bits_of).
  assert (Z11 : zlen o11 = 16) by (rewrite E11; apply zlen_bits_of).
  (* the two length functions see the original lengths whatever the placeholders *)
  assert (LEN : forall x10 x11, zlen x10 = 16 -> zlen x11 = 16 ->
            nbytes (o8 ++ o9 ++ x10 ++ x11 ++ concat (map snd T)) = nbytes upper).
  { intros x10 x11 A10 A11. apply nbytes_len. unfold upper. rewrite ET, !zlen_app. lia. }
  assert (A : forall x3 x10 x11, zlen x10 = 16 -> zlen x11 = 16 ->
            ipv6_payload_length (L6 o0 o1 o2 x3 o4 o5 o6 o7 o8 o9 x10 x11 T) 3 = Ok o3).
  { intros x3 x10 x11 A10 A11. rewrite v6_step_len; rewrite (LEN x10 x11 A10 A11); [now rewrite E3|exact HU]. }
  assert (B : forall x3 x10 x11, zlen x10 = 16 -> zlen x11 = 16 ->
            udp_length (L6 o0 o1 o2 x3 o4 o5 o6 o7 o8 o9 x10 x11 T) 10 = Ok o10).
  { intros x3 x10 x11 A10 A11. rewrite v6_step_udplen; rewrite (LEN x10 x11 A10 A11); [now rewrite E10|exact HU]. }
  assert (C : forall x3, udp_checksum (L6 o0 o1 o2 x3 o4 o5 o6 o7 o8 o9 o10 (repeat false 16) T) 11 = Ok o11).
  { intros x3. rewrite v6_step_ck; try assumption.
    - rewrite ET. fold udp0. now rewrite E11.
    - rewrite (LEN o10 (repeat false 16) Z10 eq_refl). exact HU. }
  assert (P11 : ph b11 o11 = if b11 then repeat false 16 else o11).
  { rewrite E11 at 1. rewrite ph_bits_of. now rewrite <- E11. }
  assert (ZP10 : zlen (ph b10 o10) = 16) by now rewrite zlen_ph.
  assert (ZP11 : zlen (ph b11 o11) = 16) by now rewrite zlen_ph.
  clearbody upper udp0. clear E3 E10 E11 LEN.
  unfold E6. destruct b3, b10, b11; cbn [app run_computes ce_fn ce_pos ce_id];
    change (Z.to_nat 3) with 3%nat; change (Z.to_nat 10) with 10%nat; change (Z.to_nat 11) with 11%nat;
    repeat (first [ rewrite A by assumption | rewrite B by assumption
                  | rewrite P11, C | rewrite P11 ]; cbn [bind list_set]);
    cbn [ph]; reflexivity.
Qed.

Lemma tail_vals (is : list fid) (vs : list bits) (pl : bits) : length vs = length is ->
  concat (map snd (combine is vs ++ [(payload_fid, pl)])) = concat vs ++ pl.
Proof.
  intros H. rewrite map_app, map_snd_combine by exact H. cbn [map snd].
  rewrite concat_app. cbn [concat]. now rewrite app_nil_r.
Qed.

Ltac mask_false b H := destruct b; [exfalso; apply (H eq_refl); reflexivity|clear H].

Lemma v6_run m fs pl : mask_ok compute_functions m fs -> v6_shape fs -> v6_correct fs pl ->
  run_computes (ces_m compute_functions 0 m fs) (combine (map f_id fs) (pre_m m fs) ++ [(payload_fid, pl)])
  = Ok (combine (map f_id fs) (map f_val fs) ++ [(payload_fid, pl)]).
Proof.
  intros HM (Hids & Hlen & Hrest & _ & H6 & H7 & _) HC.
  destruct fs as [|[i0 o0 p0] fs]; [cbn in Hlen; lia|]. destruct fs as [|[i1 o1 p1] fs]; [cbn in Hlen; lia|].
  destruct fs as [|[i2 o2 p2] fs]; [cbn in Hlen; lia|]. destruct fs as [|[i3 o3 p3] fs]; [cbn in Hlen; lia|].
  destruct fs as [|[i4 o4 p4] fs]; [cbn in Hlen; lia|]. destruct fs as [|[i5 o5 p5] fs]; [cbn in Hlen; lia|].
  destruct fs as [|[i6 o6 p6] fs]; [cbn in Hlen; lia|]. destruct fs as [|[i7 o7 p7] fs]; [cbn in Hlen; lia|].
  destruct fs as [|[i8 o8 p8] fs]; [cbn in Hlen; lia|]. destruct fs as [|[i9 o9 p9] fs]; [cbn in Hlen; lia|].
  destruct fs as [|[i10 o10 p10] fs]; [cbn in Hlen; lia|]. destruct fs as [|[i11 o11 p11] fs]; [cbn in Hlen; lia|].
  clear Hlen. cbn [firstn map f_id] in Hids. unfold ids_ipv6, ids_udp in Hids. cbn [map app] in Hids.
  injection Hids as -> -> -> -> -> -> -> -> -> -> -> ->.
  cbn [skipn] in Hrest. cbn [nth f_val] in H6, H7.
  destruct m as [|b0 m]; [destruct HM|]. destruct m as [|b1 m]; [destruct HM as (_ & [])|].
  destruct m as [|b2 m]; [destruct HM as (_ & _ & [])|]. destruct m as [|b3 m]; [destruct HM as (_ & _ & _ & [])|].
  destruct m as [|b4 m]; [destruct HM as (_ & _ & _ & _ & [])|].
  destruct m as [|b5 m]; [destruct HM as (_ & _ & _ & _ & _ & [])|].
  destruct m as [|b6 m]; [destruct HM as (_ & _ & _ & _ & _ & _ & [])|].
  destruct m as [|b7 m]; [destruct HM as (_ & _ & _ & _ & _ & _ & _ & [])|].
  destruct m as [|b8 m]; [destruct HM as (_ & _ & _ & _ & _ & _ & _ & _ & [])|].
  destruct m as [|b9 m]; [destruct HM as (_ & _ & _ & _ & _ & _ & _ & _ & _ & [])|].
  destruct m as [|b10 m]; [destruct HM as (_ & _ & _ & _ & _ & _ & _ & _ & _ & _ & [])|].
  destruct m as [|b11 m]; [destruct HM as (_ & _ & _ & _ & _ & _ & _ & _ & _ & _ & _ & [])|].
  cbn [mask_ok f_id] in HM.
  destruct HM as (M0 & M1 & M2 & _ & M4 & M5 & M6 & M7 & M8 & M9 & _ & _ & HM).
  mask_false b0 M0. mask_false b1 M1. mask_false b2 M2. mask_false b4 M4. mask_false b5 M5.
  mask_false b6 M6. mask_false b7 M7. mask_false b8 M8. mask_false b9 M9.
  destruct (mask_rest _ _ _ HM Hrest) as [R1 R2].
  cbn [ces_m pre_m map combine f_id f_val app]. rewrite R1, R2.
  unfold ce_m. rewrite cf_v6_len, cf_udp_len, cf_udp_ck. cbn [ph app]. rewrite app_nil_r.
  unfold v6_correct in HC. cbv zeta in HC. cbn [map f_val skipn nth list_set concat] in HC.
  rewrite <- !app_assoc in HC. destruct HC as (C0 & C3 & C10 & C11).
  assert (LR : length (map f_val fs) = length (map f_id fs)) by now rewrite !map_length.
  exact (v6_core b3 b10 b11 o0 o1 o2 o3 o4 o5 o6 o7 o8 o9 o10 o11 _ _ (tail_vals _ _ pl LR) H6 H7 C0 C3 C10 C11).
Qed.

Lemma shape_order pre n (fs : list field) : map f_id (firstn n fs) = pre -> order_ok pre = true ->
  Forall (fun f => compute_functions (f_id f) = None) (skipn n fs) -> order_ok (map f_id fs) = true.
Proof.
  intros H1 H2 H3. rewrite <- (firstn_skipn n fs), map_app, H1. apply order_ok_app; [exact H2|].
  apply Forall_map. exact H3.
Qed.

(* the compute stage of a lossless rule, from the facts rule_ok and spec_rule_applies give.
   ADDED premises (the model of list.sort covers fewer than 64 entries): the computable ids all lie among
   the first n < 64 fields, hence at most n compute entries *)
Lemma stack_roundtrip d pd r n : pd_dir pd = d -> rule_ok_dec compute_functions d pd r -> spec_rule_applies pd r = true ->
  order_ok (map f_id (pd_fields pd)) = true ->
  (n < 64)%nat -> Forall (fun f => compute_functions (f_id f) = None) (skipn n (pd_fields pd)) ->
  (forall m, mask_ok compute_functions m (pd_fields pd) ->
     run_computes (ces_m compute_functions 0 m (pd_fields pd))
       (combine (map f_id (pd_fields pd)) (pre_m m (pd_fields pd)) ++ [(payload_fid, pd_payload pd)])
     = Ok (combine (map f_id (pd_fields pd)) (map f_val (pd_fields pd)) ++ [(payload_fid, pd_payload pd)])) ->
  exists s, compress pd r (Some d) = Ok s /\
            decompress compute_functions s r (Some d) = Ok (concat (map f_val (pd_fields pd)) ++ pd_payload pd).
Proof.
  intros Hd Hok HA HO Hn HRest HR.
  pose proof Hok as [(HN & _ & _ & _ & HLen & _ & HC) _].
  pose proof HA as HA'. unfold spec_rule_applies in HA'. rewrite HN, Hd in HA'.
  change (filter (applies d) (rule_fds r)) with (select_fds (Some d) (rule_fds r)) in HA'.
  destruct (mask_of_rule compute_functions _ _ HA' HLen HC) as (I1 & I2 & I3 & I4).
  apply (c01_roundtrip compute_functions d pd r Hd Hok HA); cbv zeta.
  - apply centries_sorted. rewrite I1. exact HO.
  - assert (E : map r_id (select_fds (Some d) (rule_fds r)) = map f_id (firstn n (pd_fields pd)) ++ map f_id (skipn n (pd_fields pd)))
      by (now rewrite I1, <- map_app, firstn_skipn).
    pose proof (centries_prefix_bound compute_functions _ _ _ 0 E (proj2 (Forall_map _ _ _) HRest)) as B.
    rewrite map_length in B. pose proof (firstn_le_length n (pd_fields pd)). lia.
  - rewrite I1, I2, I3. apply HR. exact I4.
Qed.

Theorem c01_roundtrip_ipv6_udp d pd r :
  pd_dir pd = d -> rule_ok_dec compute_functions d pd r -> spec_rule_applies pd r = true ->
  v6_shape (pd_fields pd) -> v6_correct (pd_fields pd) (pd_payload pd) ->
  exists s, compress pd r (Some d) = Ok s /\
            decompress compute_functions s r (Some d) = Ok (concat (map f_val (pd_fields pd)) ++ pd_payload pd).
Proof.
  intros Hd Hok HA HS HC. apply (stack_roundtrip d pd r 12); try assumption.
  - destruct HS as (H1 & _ & H3 & _). apply (shape_order _ 12 _ H1); [vm_compute; reflexivity|exact H3].
  - lia.
  - destruct HS as (_ & _ & H3 & _). exact H3.
  - intros m HM. now apply v6_run.
Qed.

(* ================================================================================================== *)
(* IPv4 / UDP                                                                                          *)
(* ================================================================================================== *)
(* an IPv4 (no options) / UDP / ... packet descriptor: twelve IPv4 header fields, four UDP header fields,
   then fields the compute table does not know.  Only the widths the proofs need are listed: the
   version nibble, the 160-bit header, the two 32-bit addresses (the widths of the four computable
   fields follow from v4_correct). *)
Definition v4_shape (fs : list field) : Prop :=
  map f_id (firstn 16 fs) = ids_ipv4 ++ ids_udp /\ (16 <= length fs)%nat /\
  Forall (fun f => compute_functions (f_id f) = None) (skipn 16 fs) /\
  zlen (f_val (nth 0 fs dummy_field)) = 4 /\
  zlen (concat (map f_val (firstn 12 fs))) = 160 /\
  zlen (f_val (nth 10 fs dummy_field)) = 32 /\ zlen (f_val (nth 11 fs dummy_field)) = 32.
(* the computable fields carry the values RFC 791 and RFC 768 define *)
Definition v4_correct (fs : list field) (pl : bits) : Prop :=
  let vs := map f_val fs in
  let dgram := concat vs ++ pl in                                          (* the whole datagram, from the version nibble *)
  let hdr0 := concat (firstn 12 (list_set vs 9 (repeat false 16))) in      (* the header with a zero checksum field *)
  let udp := concat (skipn 12 vs) ++ pl in                                 (* the UDP datagram *)
  let udp0 := concat (skipn 12 (list_set vs 15 (repeat false 16))) ++ pl in  (* ... with a zero checksum field *)
  zlen dgram mod 8 = 0 /\ nbytes dgram < 65536 /\
  nth 3 vs [] = bits_of 16 (nbytes dgram) /\                               (* IPv4 total length *)
  nth 9 vs [] = bits_of 16 (rfc_ipv4_header_checksum hdr0) /\              (* IPv4 header checksum *)
  nth 14 vs [] = bits_of 16 (nbytes udp) /\                                (* UDP length *)
  nth 15 vs [] = bits_of 16 (rfc_udp_checksum (pseudo_v4 (nth 10 vs []) (nth 11 vs []) (nbytes udp0)) udp0).  (* UDP checksum *)

Notation L4 o0 o1 o2 o3 o4 o5 o6 o7 o8 o9 o10 o11 o12 o13 o14 o15 T :=
  ((mkfid P_IPv4 0, o0) :: (mkfid P_IPv4 1, o1) :: (mkfid P_IPv4 2, o2) :: (mkfid P_IPv4 3, o3) ::
   (mkfid P_IPv4 4, o4) :: (mkfid P_IPv4 5, o5) :: (mkfid P_IPv4 6, o6) :: (mkfid P_IPv4 7, o7) ::
   (mkfid P_IPv4 8, o8) :: (mkfid P_IPv4 9, o9) :: (mkfid P_IPv4 10, o10) :: (mkfid P_IPv4 11, o11) ::
   (mkfid P_UDP 0, o12) :: (mkfid P_UDP 1, o13) :: (mkfid P_UDP 2, o14) :: (mkfid P_UDP 3, o15) :: T) (only parsing).

Lemma v4_step_len o0 o1 o2 o3 o4 o5 o6 o7 o8 o9 o10 o11 o12 o13 o14 o15 (T : list (fid * bits)) :
  zlen o0 = 4 ->
  let dgram := o0 ++ o1 ++ o2 ++ o3 ++ o4 ++ o5 ++ o6 ++ o7 ++ o8 ++ o9 ++ o10 ++ o11 ++ o12 ++ o13 ++ o14 ++ o15 ++ concat (map snd T) in
  zlen dgram mod 8 = 0 -> nbytes dgram < 65536 ->
  ipv4_total_length (L4 o0 o1 o2 o3 o4 o5 o6 o7 o8 o9 o10 o11 o12 o13 o14 o15 T) 3 = Ok (bits_of 16 (nbytes dgram)).
Proof.
  intros H0 dgram Hm Hn. rewrite c09_ipv4_length; [reflexivity| |exact H0|exact Hm|exact Hn].
  unfold zlen. cbn [length]. lia.
Qed.

Lemma v4_step_ck o0 o1 o2 o3 o4 o5 o6 o7 o8 o9 o10 o11 o12 o13 o14 o15 (T : list (fid * bits)) :
  let hdr := o0 ++ o1 ++ o2 ++ o3 ++ o4 ++ o5 ++ o6 ++ o7 ++ o8 ++ o9 ++ o10 ++ o11 ++ [] in
  zlen hdr = 160 ->
  ipv4_checksum (L4 o0 o1 o2 o3 o4 o5 o6 o7 o8 o9 o10 o11 o12 o13 o14 o15 T) 9 = Ok (bits_of 16 (rfc_ipv4_header_checksum hdr)).
Proof.
  intros hdr Hh. rewrite c09_ipv4_checksum; [reflexivity|lia| |].
  - unfold zlen. cbn [length]. lia.
  - apply (zlen_mod16 _ _ Hh). reflexivity.
Qed.

Lemma v4_step_udplen o0 o1 o2 o3 o4 o5 o6 o7 o8 o9 o10 o11 o12 o13 o14 o15 (T : list (fid * bits)) :
  let udp := o12 ++ o13 ++ o14 ++ o15 ++ concat (map snd T) in
  nbytes udp < 65536 ->
  udp_length (L4 o0 o1 o2 o3 o4 o5 o6 o7 o8 o9 o10 o11 o12 o13 o14 o15 T) 14 = Ok (bits_of 16 (nbytes udp)).
Proof.
  intros udp H. rewrite c09_udp_length; [reflexivity| |exact H].
  unfold zlen. cbn [length]. lia.
Qed.

Lemma v4_step_udpck o0 o1 o2 o3 o4 o5 o6 o7 o8 o9 o10 o11 o12 o13 o14 o15 (T : list (fid * bits)) :
  zlen o10 = 32 -> zlen o11 = 32 ->
  let udp := o12 ++ o13 ++ o14 ++ o15 ++ concat (map snd T) in
  nbytes udp < 65536 ->
  udp_checksum (L4 o0 o1 o2 o3 o4 o5 o6 o7 o8 o9 o10 o11 o12 o13 o14 o15 T) 15
  = Ok (bits_of 16 (rfc_udp_checksum (pseudo_v4 o10 o11 (nbytes udp)) udp)).
Proof.
  intros H10 H11 udp H.
  rewrite (c09_udp_checksum_v4 _ 15 10 o10 o11); try reflexivity; try lia.
  - unfold zlen. cbn [length]. lia.
  - intros j Hj. assert (j = 11) as -> by lia. cbv. discriminate.
  - apply (zlen_mod16 _ _ H10). reflexivity.
  - apply (zlen_mod16 _ _ H11). reflexivity.
  - exact H.
Qed.

Definition E4 (b3 b9 b14 b15 : bool) : list centry :=
  (if b3 then [mkcentry 3 (mkfid P_IPv4 3) ipv4_total_length []] else []) ++
  (if b9 then [mkcentry 9 (mkfid P_IPv4 9) ipv4_checksum
                 (map (fun i => mkfid P_IPv4 i) [0; 1; 2; 3; 4; 5; 6; 7; 8; 10; 11])] else []) ++
  (if b14 then [mkcentry 14 (mkfid P_UDP 2) udp_length []] else []) ++
  (if b15 then [mkcentry 15 (mkfid P_UDP 3) udp_checksum
                  UDP_CHECKSUM_DEPS] else []).

Lemma ph16 b v : zlen v = 16 -> ph b v = if b then repeat false 16 else v.
Proof. intros H. unfold ph. replace (length v) with 16%nat by (unfold zlen in H; lia). reflexivity. Qed.

Lemma v4_core b3 b9 b14 b15 o0 o1 o2 o3 o4 o5 o6 o7 o8 o9 o10 o11 o12 o13 o14 o15 (T : list (fid * bits)) R :
  concat (map snd T) = R -> zlen o0 = 4 -> zlen o10 = 32 -> zlen o11 = 32 ->
  zlen (o0 ++ o1 ++ o2 ++ o3 ++ o4 ++ o5 ++ o6 ++ o7 ++ o8 ++ o9 ++ o10 ++ o11 ++ []) = 160 ->
  let hdr0 := o0 ++ o1 ++ o2 ++ o3 ++ o4 ++ o5 ++ o6 ++ o7 ++ o8 ++ repeat false 16 ++ o10 ++ o11 ++ [] in
  let dgram := o0 ++ o1 ++ o2 ++ o3 ++ o4 ++ o5 ++ o6 ++ o7 ++ o8 ++ o9 ++ o10 ++ o11 ++ o12 ++ o13 ++ o14 ++ o15 ++ R in
  let udp := o12 ++ o13 ++ o14 ++ o15 ++ R in
  let udp0 := o12 ++ o13 ++ o14 ++ repeat false 16 ++ R in
  zlen dgram mod 8 = 0 -> nbytes dgram < 65536 ->
  o3 = bits_of 16 (nbytes dgram) -> o9 = bits_of 16 (rfc_ipv4_header_checksum hdr0) ->
  o14 = bits_of 16 (nbytes udp) -> o15 = bits_of 16 (rfc_udp_checksum (pseudo_v4 o10 o11 (nbytes udp0)) udp0) ->
  run_computes (E4 b3 b9 b14 b15)
    (L4 o0 o1 o2 (ph b3 o3) o4 o5 o6 o7 o8 (ph b9 o9) o10 o11 o12 o13 (ph b14 o14) (ph b15 o15) T)
  = Ok (L4 o0 o1 o2 o3 o4 o5 o6 o7 o8 o9 o10 o11 o12 o13 o14 o15 T).
Proof.
  intros ET H0 H10 H11 HH hdr0 dgram udp udp0 HM HD E3 E9 E14 E15.
  assert (Z3 : zlen o3 = 16) by (rewrite E3; apply zlen_bits_of).
  assert (Z9 : zlen o9 = 16) by (rewrite E9; apply zlen_bits_of).
  assert (Z14 : zlen o14 = 16) by (rewrite E14; apply zlen_bits_of).
  assert (Z15 : zlen o15 = 16) by (rewrite E15; apply zlen_bits_of).
  assert (ZZ : zlen (repeat false 16) = 16) by reflexivity.
  assert (LD : forall x3 x9 x14 x15, zlen x3 = 16 -> zlen x9 = 16 -> zlen x14 = 16 -> zlen x15 = 16 ->
            zlen (o0 ++ o1 ++ o2 ++ x3 ++ o4 ++ o5 ++ o6 ++ o7 ++ o8 ++ x9 ++ o10 ++ o11 ++ o12 ++ o13 ++ x14 ++ x15 ++ concat (map snd T))
            = zlen dgram).
  { intros x3 x9 x14 x15 A3 A9 A14 A15. unfold dgram. rewrite ET, !zlen_app. lia. }
  assert (LU : forall x14 x15, zlen x14 = 16 -> zlen x15 = 16 ->
            zlen (o12 ++ o13 ++ x14 ++ x15 ++ concat (map snd T)) = zlen udp).
  { intros x14 x15 A14 A15. unfold udp. rewrite ET, !zlen_app. lia. }
  assert (UD : nbytes udp <= nbytes dgram).
  { apply nbytes_mono. unfold udp, dgram. rewrite !zlen_app.
    pose proof (zlen_nonneg o0). pose proof (zlen_nonneg o1). pose proof (zlen_nonneg o2). pose proof (zlen_nonneg o3).
    pose proof (zlen_nonneg o4). pose proof (zlen_nonneg o5). pose proof (zlen_nonneg o6). pose proof (zlen_nonneg o7).
    pose proof (zlen_nonneg o8). pose proof (zlen_nonneg o9). pose proof (zlen_nonneg o10). pose proof (zlen_nonneg o11). lia. }
  assert (A : forall x3 x9 x14 x15, zlen x3 = 16 -> zlen x9 = 16 -> zlen x14 = 16 -> zlen x15 = 16 ->
            ipv4_total_length (L4 o0 o1 o2 x3 o4 o5 o6 o7 o8 x9 o10 o11 o12 o13 x14 x15 T) 3 = Ok o3).
  { intros x3 x9 x14 x15 A3 A9 A14 A15. pose proof (LD x3 x9 x14 x15 A3 A9 A14 A15) as L.
    rewrite v4_step_len; [|exact H0|now rewrite L|rewrite (nbytes_len _ _ L); exact HD].
    rewrite (nbytes_len _ _ L). now rewrite E3. }
  assert (B : forall x14 x15,
            ipv4_checksum (L4 o0 o1 o2 o3 o4 o5 o6 o7 o8 (repeat false 16) o10 o11 o12 o13 x14 x15 T) 9 = Ok o9).
  { intros x14 x15. rewrite v4_step_ck.
    - fold hdr0. now rewrite E9.
    - rewrite !zlen_app in *. lia. }
  assert (C : forall x3 x9 x14 x15, zlen x14 = 16 -> zlen x15 = 16 ->
            udp_length (L4 o0 o1 o2 x3 o4 o5 o6 o7 o8 x9 o10 o11 o12 o13 x14 x15 T) 14 = Ok o14).
  { intros x3 x9 x14 x15 A14 A15. pose proof (LU x14 x15 A14 A15) as L.
    rewrite v4_step_udplen; rewrite (nbytes_len _ _ L); [now rewrite E14|lia]. }
  assert (D : forall x3 x9,
            udp_checksum (L4 o0 o1 o2 x3 o4 o5 o6 o7 o8 x9 o10 o11 o12 o13 o14 (repeat false 16) T) 15 = Ok o15).
  { intros x3 x9. rewrite v4_step_udpck; try assumption.
    - rewrite ET. fold udp0. now rewrite E15.
    - rewrite (nbytes_len _ _ (LU o14 (repeat false 16) Z14 ZZ)). lia. }
  rewrite (ph16 b3 o3 Z3), (ph16 b9 o9 Z9), (ph16 b14 o14 Z14), (ph16 b15 o15 Z15).
  clearbody hdr0 dgram udp udp0. clear E3 E9 E14 E15 LD LU.
  unfold E4. destruct b3, b9, b14, b15; cbn [app run_computes ce_fn ce_pos ce_id];
    change (Z.to_nat 3) with 3%nat; change (Z.to_nat 9) with 9%nat;
    change (Z.to_nat 14) with 14%nat; change (Z.to_nat 15) with 15%nat;
    repeat (first [ rewrite A by assumption | rewrite B | rewrite C by assumption | rewrite D ]; cbn [bind list_set]);
    reflexivity.
Qed.

Lemma v4_run m fs pl : mask_ok compute_functions m fs -> v4_shape fs -> v4_correct fs pl ->
  run_computes (ces_m compute_functions 0 m fs) (combine (map f_id fs) (pre_m m fs) ++ [(payload_fid, pl)])
  = Ok (combine (map f_id fs) (map f_val fs) ++ [(payload_fid, pl)]).
Proof.
  intros HM (Hids & Hlen & Hrest & H0 & HH & H10 & H11) HC.
  destruct fs as [|[i0 o0 p0] fs]; [cbn in Hlen; lia|]. destruct fs as [|[i1 o1 p1] fs]; [cbn in Hlen; lia|].
  destruct fs as [|[i2 o2 p2] fs]; [cbn in Hlen; lia|]. destruct fs as [|[i3 o3 p3] fs]; [cbn in Hlen; lia|].
  destruct fs as [|[i4 o4 p4] fs]; [cbn in Hlen; lia|]. destruct fs as [|[i5 o5 p5] fs]; [cbn in Hlen; lia|].
  destruct fs as [|[i6 o6 p6] fs]; [cbn in Hlen; lia|]. destruct fs as [|[i7 o7 p7] fs]; [cbn in Hlen; lia|].
  destruct fs as [|[i8 o8 p8] fs]; [cbn in Hlen; lia|]. destruct fs as [|[i9 o9 p9] fs]; [cbn in Hlen; lia|].
  destruct fs as [|[i10 o10 p10] fs]; [cbn in Hlen; lia|]. destruct fs as [|[i11 o11 p11] fs]; [cbn in Hlen; lia|].
  destruct fs as [|[i12 o12 p12] fs]; [cbn in Hlen; lia|]. destruct fs as [|[i13 o13 p13] fs]; [cbn in Hlen; lia|].
  destruct fs as [|[i14 o14 p14] fs]; [cbn in Hlen; lia|]. destruct fs as [|[i15 o15 p15] fs]; [cbn in Hlen; lia|].
  clear Hlen. cbn [firstn map f_id] in Hids. unfold ids_ipv4, ids_udp in Hids. cbn [map app] in Hids.
  injection Hids as -> -> -> -> -> -> -> -> -> -> -> -> -> -> -> ->.
  cbn [skipn] in Hrest. cbn [nth f_val firstn map concat] in H0, HH, H10, H11.
  destruct m as [|b0 m]; [destruct HM|]. destruct m as [|b1 m]; [destruct HM as (_ & [])|].
  destruct m as [|b2 m]; [destruct HM as (_ & _ & [])|]. destruct m as [|b3 m]; [destruct HM as (_ & _ & _ & [])|].
  destruct m as [|b4 m]; [destruct HM as (_ & _ & _ & _ & [])|].
  destruct m as [|b5 m]; [destruct HM as (_ & _ & _ & _ & _ & [])|].
  destruct m as [|b6 m]; [destruct HM as (_ & _ & _ & _ & _ & _ & [])|].
  destruct m as [|b7 m]; [destruct HM as (_ & _ & _ & _ & _ & _ & _ & [])|].
  destruct m as [|b8 m]; [destruct HM as (_ & _ & _ & _ & _ & _ & _ & _ & [])|].
  destruct m as [|b9 m]; [destruct HM as (_ & _ & _ & _ & _ & _ & _ & _ & _ & [])|].
  destruct m as [|b10 m]; [destruct HM as (_ & _ & _ & _ & _ & _ & _ & _ & _ & _ & [])|].
  destruct m as [|b11 m]; [destruct HM as (_ & _ & _ & _ & _ & _ & _ & _ & _ & _ & _ & [])|].
  destruct m as [|b12 m]; [destruct HM as (_ & _ & _ & _ & _ & _ & _ & _ & _ & _ & _ & _ & [])|].
  destruct m as [|b13 m]; [destruct HM as (_ & _ & _ & _ & _ & _ & _ & _ & _ & _ & _ & _ & _ & [])|].
  destruct m as [|b14 m]; [destruct HM as (_ & _ & _ & _ & _ & _ & _ & _ & _ & _ & _ & _ & _ & _ & [])|].
  destruct m as [|b15 m]; [destruct HM as (_ & _ & _ & _ & _ & _ & _ & _ & _ & _ & _ & _ & _ & _ & _ & [])|].
  cbn [mask_ok f_id] in HM.
  destruct HM as (M0 & M1 & M2 & _ & M4 & M5 & M6 & M7 & M8 & _ & M10 & M11 & M12 & M13 & _ & _ & HM).
  mask_false b0 M0. mask_false b1 M1. mask_false b2 M2. mask_false b4 M4. mask_false b5 M5.
  mask_false b6 M6. mask_false b7 M7. mask_false b8 M8. mask_false b10 M10. mask_false b11 M11.
  mask_false b12 M12. mask_false b13 M13.
  destruct (mask_rest _ _ _ HM Hrest) as [R1 R2].
  cbn [ces_m pre_m map combine f_id f_val app]. rewrite R1, R2.
  unfold ce_m. rewrite cf_v4_len, cf_v4_ck, cf_udp_len, cf_udp_ck. cbn [ph app]. rewrite app_nil_r.
  unfold v4_correct in HC. cbv zeta in HC. cbn [map f_val skipn firstn nth list_set concat] in HC.
  rewrite <- !app_assoc in HC. destruct HC as (C0 & C1 & C3 & C9 & C14 & C15).
  assert (LR : length (map f_val fs) = length (map f_id fs)) by now rewrite !map_length.
  exact (v4_core b3 b9 b14 b15 o0 o1 o2 o3 o4 o5 o6 o7 o8 o9 o10 o11 o12 o13 o14 o15 _ _
           (tail_vals _ _ pl LR) H0 H10 H11 HH C0 C1 C3 C9 C14 C15).
Qed.

Theorem c01_roundtrip_ipv4_udp d pd r :
  pd_dir pd = d -> rule_ok_dec compute_functions d pd r -> spec_rule_applies pd r = true ->
  v4_shape (pd_fields pd) -> v4_correct (pd_fields pd) (pd_payload pd) ->
  exists s, compress pd r (Some d) = Ok s /\
            decompress compute_functions s r (Some d) = Ok (concat (map f_val (pd_fields pd)) ++ pd_payload pd).
Proof.
  intros Hd Hok HA HS HC. apply (stack_roundtrip d pd r 16); try assumption.
  - destruct HS as (H1 & _ & H3 & _). apply (shape_order _ 16 _ H1); [vm_compute; reflexivity|exact H3].
  - lia.
  - destruct HS as (_ & _ & H3 & _). exact H3.
  - intros m HM. now apply v4_run.
Qed.

(* ================================================================================================== *)
(* the premises are satisfiable: concrete packets, checksums evaluated from the RFC-side definitions     *)
(* ================================================================================================== *)
Definition mk_fields (is : list fid) (vs : list bits) : list field := map2 (fun i v => mkfield i v 1) is vs.

(* IPv6 / UDP, three payload bytes *)
Definition ex6_vals (ck : Z) : list bits :=
  [bits_of 4 6; bits_of 8 0; bits_of 20 0; bits_of 16 11; bits_of 8 17; bits_of 8 64;
   bits_of 128 0x20010db8000000000000000000000001; bits_of 128 0x20010db8000000000000000000000002;
   bits_of 16 5683; bits_of 16 5684; bits_of 16 11; bits_of 16 ck].
Definition ex6_pl : bits := bits_of 24 0x010203.
Definition ex6_ck : Z :=
  rfc_udp_checksum (pseudo_v6 (nth 6 (ex6_vals 0) []) (nth 7 (ex6_vals 0) []) 11) (concat (skipn 8 (ex6_vals 0)) ++ ex6_pl).
Definition ex6_fields : list field := mk_fields (ids_ipv6 ++ ids_udp) (ex6_vals ex6_ck).
Definition ex6_pd : pdesc := mkpdesc Up ex6_fields ex6_pl.

Example ex6_shape : v6_shape ex6_fields.
Proof.
  unfold v6_shape. split; [vm_compute; reflexivity|]. split; [vm_compute; lia|]. split; [replace (skipn 12 ex6_fields) with (@nil field) by (vm_compute; reflexivity); constructor|].
  repeat split; vm_compute; reflexivity.
Qed.

Example ex6_correct : v6_correct ex6_fields ex6_pl.
Proof. unfold v6_correct. cbv zeta. repeat split; vm_compute; reflexivity. Qed.

(* the whole theorem on this packet with SchcTotal.sample_rule, which computes fields 3, 10 and 11 *)
Example ex6_roundtrip : exists s, compress ex6_pd sample_rule (Some Up) = Ok s /\
  decompress compute_functions s sample_rule (Some Up) = Ok (concat (map f_val ex6_fields) ++ ex6_pl).
Proof.
  apply (c01_roundtrip_ipv6_udp Up ex6_pd sample_rule eq_refl).
  - vm_compute. repeat split.
  - vm_compute. reflexivity.
  - exact ex6_shape.
  - exact ex6_correct.
Qed.

(* IPv4 / UDP, three payload bytes *)
Definition ex4_vals (hck uck : Z) : list bits :=
  [bits_of 4 4; bits_of 4 5; bits_of 8 0; bits_of 16 31; bits_of 16 0x1234; bits_of 3 2; bits_of 13 0;
   bits_of 8 64; bits_of 8 17; bits_of 16 hck; bits_of 32 0xc0000201; bits_of 32 0xc0000202;
   bits_of 16 5683; bits_of 16 5684; bits_of 16 11; bits_of 16 uck].
Definition ex4_pl : bits := bits_of 24 0x010203.
Definition ex4_hck : Z := rfc_ipv4_header_checksum (concat (firstn 12 (ex4_vals 0 0))).
Definition ex4_uck : Z :=
  rfc_udp_checksum (pseudo_v4 (nth 10 (ex4_vals 0 0) []) (nth 11 (ex4_vals 0 0) []) 11) (concat (skipn 12 (ex4_vals 0 0)) ++ ex4_pl).
Definition ex4_fields : list field := mk_fields (ids_ipv4 ++ ids_udp) (ex4_vals ex4_hck ex4_uck).
Definition ex4_pd : pdesc := mkpdesc Up ex4_fields ex4_pl.
(* every field sent as is, except the two lengths and the two checksums, which are computed *)
Definition ex4_rule : rule :=
  mkrule [true; true] Compression
    (map (fun i => mkrfd (mkfid P_IPv4 i) (if (i =? 3) || (i =? 9) then 16 else 0) 1 Bi (TVbuf []) MO_ignore
                         (if (i =? 3) || (i =? 9) then Compute else ValueSent)) [0;1;2;3;4;5;6;7;8;9;10;11]
     ++ map (fun i => mkrfd (mkfid P_UDP i) 16 1 Bi (TVbuf []) MO_ignore
                         (if i <? 2 then ValueSent else Compute)) [0;1;2;3]).

Example ex4_shape : v4_shape ex4_fields.
Proof.
  unfold v4_shape. split; [vm_compute; reflexivity|]. split; [vm_compute; lia|]. split; [replace (skipn 16 ex4_fields) with (@nil field) by (vm_compute; reflexivity); constructor|].
  repeat split; vm_compute; reflexivity.
Qed.

Example ex4_correct : v4_correct ex4_fields ex4_pl.
Proof. unfold v4_correct. cbv zeta. repeat split; vm_compute; reflexivity. Qed.

Example ex4_roundtrip : exists s, compress ex4_pd ex4_rule (Some Up) = Ok s /\
  decompress compute_functions s ex4_rule (Some Up) = Ok (concat (map f_val ex4_fields) ++ ex4_pl).
Proof.
  apply (c01_roundtrip_ipv4_udp Up ex4_pd ex4_rule eq_refl).
  - vm_compute. repeat split.
  - vm_compute. reflexivity.
  - exact ex4_shape.
  - exact ex4_correct.
Qed.
