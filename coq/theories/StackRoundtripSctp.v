From Coq Require Import ZArith List Bool Lia. From MS Require Import PyBase Bits ByteFacts BufferAbs PySort Schc SchcSpec SchcCodec SchcRules SchcRoundtrip Compute RfcChecksum ComputeSpec SchcTotal StackRoundtrip. Import ListNotations. Open Scope Z_scope.
(* StackRoundtripSctp.v -- property C01 (with C09) end to end for the stacks that carry SCTP:
   SCTP alone, IPv6 / SCTP, IPv4 / SCTP and the UDP encapsulation IPv6 / UDP / SCTP, IPv4 / UDP / SCTP.
   As in StackRoundtrip.v: a packet whose length and checksum fields carry the values the RFCs define
   (RfcChecksum.v) is restored by compress-then-decompress with a rule that computes ANY subset of
   those fields.  In the UDP encapsulation the entries are not in the order of the comparison any more
   (UdpSctpOrder.v): list.sort moves the SCTP checksum in front of the UDP checksum, and the packet
   correctness is stated with the UDP checksum over the datagram that carries the CORRECT SCTP checksum. *)

(* ================================================================================================== *)
(* generic: the compute stage run in the order list.sort puts the entries in                            *)
(* ================================================================================================== *)
Lemma stack_roundtrip_sort d pd r : pd_dir pd = d -> rule_ok_dec compute_functions d pd r -> spec_rule_applies pd r = true ->
  (forall m, mask_ok compute_functions m (pd_fields pd) -> exists ces,
     py_sort_ces (ces_m compute_functions 0 m (pd_fields pd)) = Some ces /\
     run_computes ces (combine (map f_id (pd_fields pd)) (pre_m m (pd_fields pd)) ++ [(payload_fid, pd_payload pd)])
     = Ok (combine (map f_id (pd_fields pd)) (map f_val (pd_fields pd)) ++ [(payload_fid, pd_payload pd)])) ->
  exists s, compress pd r (Some d) = Ok s /\
            decompress compute_functions s r (Some d) = Ok (concat (map f_val (pd_fields pd)) ++ pd_payload pd).
Proof.
  intros Hd Hok HA HR.
  pose proof Hok as [(HN & _ & _ & _ & HLen & _ & HC) _].
  pose proof HA as HA'. unfold spec_rule_applies in HA'. rewrite HN, Hd in HA'.
  change (filter (applies d) (rule_fds r)) with (select_fds (Some d) (rule_fds r)) in HA'.
  destruct (mask_of_rule compute_functions _ _ HA' HLen HC) as (I1 & I2 & I3 & I4).
  destruct (HR _ I4) as (ces & HS & HRun).
  apply (c01_roundtrip_sort compute_functions d pd r ces Hd Hok HA); cbv zeta.
  - rewrite I3. exact HS.
  - rewrite I1, I2. exact HRun.
Qed.

(* ---- small facts ------------------------------------------------------------------------------------ *)
Lemma cf_sctp_ck : compute_functions (mkfid P_SCTP 3) = Some (sctp_checksum, SCTP_ALL_BUT_CHECKSUM).
Proof. reflexivity. Qed.

Lemma zlen_le32 x : zlen (le32 x) = 32.
Proof. unfold le32. rewrite !zlen_app, !zlen_bits_of. reflexivity. Qed.

Lemma zlen_sctp_field p : zlen (rfc_sctp_checksum_field p) = 32.
Proof. apply zlen_le32. Qed.

Lemma ph32 b v : zlen v = 32 -> ph b v = if b then repeat false 32 else v.
Proof. intros H. unfold ph. replace (length v) with 32%nat by (unfold zlen in H; lia). reflexivity. Qed.

(* the SCTP checksum function at the checksum field of a common header that follows the fields pre *)
Lemma sctp_step (pre : list (fid * bits)) i0 o0 i1 o1 i2 o2 i3 x3 (T : list (fid * bits)) pos :
  pos = zlen pre + 3 -> zlen x3 = 32 ->
  sctp_checksum (pre ++ (i0, o0) :: (i1, o1) :: (i2, o2) :: (i3, x3) :: T) pos
  = Ok (rfc_sctp_checksum_field (o0 ++ o1 ++ o2 ++ x3 ++ concat (map snd T))).
Proof.
  intros -> H3. pose proof (zlen_nonneg pre) as Hp.
  assert (E : concat (skipn (Z.to_nat (zlen pre + 3 - 3)) (vals (pre ++ (i0, o0) :: (i1, o1) :: (i2, o2) :: (i3, x3) :: T)))
              = o0 ++ o1 ++ o2 ++ x3 ++ concat (map snd T)).
  { replace (Z.to_nat (zlen pre + 3 - 3)) with (length pre) by (unfold zlen; lia).
    unfold vals. rewrite map_app, skipn_app, map_length, Nat.sub_diag, skipn_all2 by (rewrite map_length; lia).
    reflexivity. }
  rewrite c09_sctp_checksum.
  - rewrite E. reflexivity.
  - rewrite zlen_app, !zlen_cons. pose proof (zlen_nonneg T). lia.
  - rewrite E. intros N. apply (f_equal (@zlen bool)) in N. rewrite !zlen_app, H3 in N. change (zlen (@nil bool)) with 0 in N.
    pose proof (zlen_nonneg o0). pose proof (zlen_nonneg o1). pose proof (zlen_nonneg o2).
    pose proof (zlen_nonneg (concat (map snd T))). lia.
Qed.

(* ================================================================================================== *)
(* SCTP alone                                                                                          *)
(* ================================================================================================== *)
(* an SCTP packet descriptor: source port, destination port, verification tag, checksum, then chunk
   fields (ids the compute table does not know) *)
Definition sctp_shape (fs : list field) : Prop :=
  map f_id (firstn 4 fs) = ids_sctp_hdr /\ (4 <= length fs)%nat /\
  Forall (fun f => compute_functions (f_id f) = None) (skipn 4 fs).
(* the checksum field carries the CRC32c (RFC 9260) of the packet with the checksum field zero *)
Definition sctp_correct (fs : list field) (pl : bits) : Prop :=
  let vs := map f_val fs in
  let pkt0 := concat (list_set vs 3 (repeat false 32)) ++ pl in
  nth 3 vs [] = rfc_sctp_checksum_field pkt0.

Local Notation LS s0 s1 s2 s3 T :=
  ((mkfid P_SCTP 0, s0) :: (mkfid P_SCTP 1, s1) :: (mkfid P_SCTP 2, s2) :: (mkfid P_SCTP 3, s3) :: T) (only parsing).

Definition E_S (b3 : bool) : list centry :=
  if b3 then [mkcentry 3 (mkfid P_SCTP 3) sctp_checksum SCTP_ALL_BUT_CHECKSUM] else [].

Lemma sctp_core b3 s0 s1 s2 s3 (T : list (fid * bits)) R :
  concat (map snd T) = R ->
  s3 = rfc_sctp_checksum_field (s0 ++ s1 ++ s2 ++ repeat false 32 ++ R) ->
  run_computes (E_S b3) (LS s0 s1 s2 (ph b3 s3) T) = Ok (LS s0 s1 s2 s3 T).
Proof.
  intros ET E3.
  assert (Z3 : zlen s3 = 32) by (rewrite E3; apply zlen_sctp_field).
  rewrite (ph32 b3 s3 Z3). unfold E_S. destruct b3; cbn [run_computes ce_fn ce_pos ce_id]; [|reflexivity].
  pose proof (sctp_step [] (mkfid P_SCTP 0) s0 (mkfid P_SCTP 1) s1 (mkfid P_SCTP 2) s2 (mkfid P_SCTP 3) (repeat false 32) T 3 eq_refl eq_refl) as C.
  cbn [app] in C. unfold bits in *. rewrite C. cbn [bind list_set Z.to_nat Pos.to_nat Pos.iter_op Nat.add].
  rewrite ET, <- E3. reflexivity.
Qed.

Lemma sctp_run m fs pl : mask_ok compute_functions m fs -> sctp_shape fs -> sctp_correct fs pl ->
  run_computes (ces_m compute_functions 0 m fs) (combine (map f_id fs) (pre_m m fs) ++ [(payload_fid, pl)])
  = Ok (combine (map f_id fs) (map f_val fs) ++ [(payload_fid, pl)]).
Proof.
  intros HM (Hids & Hlen & Hrest) HC.
  destruct fs as [|[i0 o0 p0] fs]; [cbn in Hlen; lia|]. destruct fs as [|[i1 o1 p1] fs]; [cbn in Hlen; lia|].
  destruct fs as [|[i2 o2 p2] fs]; [cbn in Hlen; lia|]. destruct fs as [|[i3 o3 p3] fs]; [cbn in Hlen; lia|].
  clear Hlen. cbn [firstn map f_id] in Hids. unfold ids_sctp_hdr in Hids. cbn [map app] in Hids.
  injection Hids as -> -> -> ->.
  cbn [skipn] in Hrest.
  destruct m as [|b0 m]; [destruct HM|]. destruct m as [|b1 m]; [destruct HM as (_ & [])|].
  destruct m as [|b2 m]; [destruct HM as (_ & _ & [])|]. destruct m as [|b3 m]; [destruct HM as (_ & _ & _ & [])|].
  cbn [mask_ok f_id] in HM.
  destruct HM as (M0 & M1 & M2 & _ & HM).
  mask_false b0 M0. mask_false b1 M1. mask_false b2 M2.
  destruct (mask_rest _ _ _ HM Hrest) as [R1 R2].
  cbn [ces_m pre_m map combine f_id f_val app]. rewrite R1, R2.
  unfold ce_m. rewrite cf_sctp_ck. cbn [ph app]. rewrite app_nil_r.
  unfold sctp_correct in HC. cbv zeta in HC. cbn [map f_val nth list_set concat] in HC.
  rewrite <- !app_assoc in HC.
  assert (LR : length (map f_val fs) = length (map f_id fs)) by now rewrite !map_length.
  exact (sctp_core b3 o0 o1 o2 o3 _ _ (tail_vals _ _ pl LR) HC).
Qed.

Theorem c01_roundtrip_sctp d pd r :
  pd_dir pd = d -> rule_ok_dec compute_functions d pd r -> spec_rule_applies pd r = true ->
  sctp_shape (pd_fields pd) -> sctp_correct (pd_fields pd) (pd_payload pd) ->
  exists s, compress pd r (Some d) = Ok s /\
            decompress compute_functions s r (Some d) = Ok (concat (map f_val (pd_fields pd)) ++ pd_payload pd).
Proof.
  intros Hd Hok HA HS HC. apply (stack_roundtrip d pd r 4); try assumption.
  - destruct HS as (H1 & _ & H3). apply (shape_order _ 4 _ H1); [vm_compute; reflexivity|exact H3].
  - lia.
  - destruct HS as (_ & _ & H3). exact H3.
  - intros m HM. now apply sctp_run.
Qed.

(* ================================================================================================== *)
(* IPv6 / SCTP                                                                                         *)
(* ================================================================================================== *)
Local Notation P6 o0 o1 o2 o3 o4 o5 o6 o7 T :=
  ((mkfid P_IPv6 0, o0) :: (mkfid P_IPv6 1, o1) :: (mkfid P_IPv6 2, o2) :: (mkfid P_IPv6 3, o3) ::
   (mkfid P_IPv6 4, o4) :: (mkfid P_IPv6 5, o5) :: (mkfid P_IPv6 6, o6) :: (mkfid P_IPv6 7, o7) :: T) (only parsing).

(* eight IPv6 header fields, the SCTP common header, then fields the compute table does not know.
   (That the next header field says 132 plays no role for the compute stage and is not required.) *)
Definition v6s_shape (fs : list field) : Prop :=
  map f_id (firstn 12 fs) = ids_ipv6 ++ ids_sctp_hdr /\ (12 <= length fs)%nat /\
  Forall (fun f => compute_functions (f_id f) = None) (skipn 12 fs).
Definition v6s_correct (fs : list field) (pl : bits) : Prop :=
  let vs := map f_val fs in
  let upper := concat (skipn 8 vs) ++ pl in                                   (* the SCTP packet *)
  let sctp0 := concat (skipn 8 (list_set vs 11 (repeat false 32))) ++ pl in   (* ... with a zero checksum field *)
  nbytes upper < 65536 /\
  nth 3 vs [] = bits_of 16 (nbytes upper) /\                                  (* IPv6 payload length *)
  nth 11 vs [] = rfc_sctp_checksum_field sctp0.                               (* SCTP checksum *)

Lemma p6_step_len o0 o1 o2 x3 o4 o5 o6 o7 (T : list (fid * bits)) :
  nbytes (concat (map snd T)) < 65536 ->
  ipv6_payload_length (P6 o0 o1 o2 x3 o4 o5 o6 o7 T) 3 = Ok (bits_of 16 (nbytes (concat (map snd T)))).
Proof. intros H. rewrite c09_ipv6_length; [reflexivity|lia|exact H]. Qed.

Definition E6S (b3 b11 : bool) : list centry :=
  (if b3 then [mkcentry 3 (mkfid P_IPv6 3) ipv6_payload_length []] else []) ++
  (if b11 then [mkcentry 11 (mkfid P_SCTP 3) sctp_checksum SCTP_ALL_BUT_CHECKSUM] else []).

Lemma v6s_core b3 b11 o0 o1 o2 o3 o4 o5 o6 o7 s0 s1 s2 s3 (T : list (fid * bits)) R :
  concat (map snd T) = R ->
  let upper := s0 ++ s1 ++ s2 ++ s3 ++ R in
  let sctp0 := s0 ++ s1 ++ s2 ++ repeat false 32 ++ R in
  nbytes upper < 65536 ->
  o3 = bits_of 16 (nbytes upper) -> s3 = rfc_sctp_checksum_field sctp0 ->
  run_computes (E6S b3 b11) (P6 o0 o1 o2 (ph b3 o3) o4 o5 o6 o7 (LS s0 s1 s2 (ph b11 s3) T))
  = Ok (P6 o0 o1 o2 o3 o4 o5 o6 o7 (LS s0 s1 s2 s3 T)).
Proof.
  intros ET upper sctp0 HU E3 E11.
  assert (Z3 : zlen o3 = 16) by (rewrite E3; apply zlen_bits_of).
  assert (Z11 : zlen s3 = 32) by (rewrite E11; apply zlen_sctp_field).
  assert (ZZ : zlen (repeat false 32) = 32) by reflexivity.
  assert (A : forall x3 x11, zlen x11 = 32 ->
            ipv6_payload_length (P6 o0 o1 o2 x3 o4 o5 o6 o7 (LS s0 s1 s2 x11 T)) 3 = Ok o3).
  { intros x3 x11 A11.
    assert (L : nbytes (concat (map snd (LS s0 s1 s2 x11 T))) = nbytes upper).
    { apply nbytes_len. cbn [map snd concat]. unfold upper, bits in *. rewrite ET, !zlen_app. lia. }
    rewrite p6_step_len; unfold bits in *; rewrite L; [now rewrite E3|exact HU]. }
  assert (C : forall x3, sctp_checksum (P6 o0 o1 o2 x3 o4 o5 o6 o7 (LS s0 s1 s2 (repeat false 32) T)) 11 = Ok s3).
  { intros x3.
    pose proof (sctp_step (P6 o0 o1 o2 x3 o4 o5 o6 o7 []) (mkfid P_SCTP 0) s0 (mkfid P_SCTP 1) s1 (mkfid P_SCTP 2) s2
                  (mkfid P_SCTP 3) (repeat false 32) T 11 eq_refl eq_refl) as C.
    cbn [app] in C. unfold bits in *. rewrite C, ET. fold sctp0. now rewrite E11. }
  rewrite (ph16 b3 o3 Z3), (ph32 b11 s3 Z11).
  clearbody upper sctp0. clear E3 E11. unfold bits in *.
  unfold E6S. destruct b3, b11; cbn [app run_computes ce_fn ce_pos ce_id];
    change (Z.to_nat 3) with 3%nat; change (Z.to_nat 11) with 11%nat;
    repeat (first [ rewrite A by assumption | rewrite C ]; cbn [bind list_set]);
    reflexivity.
Qed.

Ltac fs_cons fs Hlen i o p := destruct fs as [|[i o p] fs]; [cbn in Hlen; lia|].

Lemma v6s_run m fs pl : mask_ok compute_functions m fs -> v6s_shape fs -> v6s_correct fs pl ->
  run_computes (ces_m compute_functions 0 m fs) (combine (map f_id fs) (pre_m m fs) ++ [(payload_fid, pl)])
  = Ok (combine (map f_id fs) (map f_val fs) ++ [(payload_fid, pl)]).
Proof.
  intros HM (Hids & Hlen & Hrest) HC.
  fs_cons fs Hlen i0 o0 p0. fs_cons fs Hlen i1 o1 p1. fs_cons fs Hlen i2 o2 p2. fs_cons fs Hlen i3 o3 p3.
  fs_cons fs Hlen i4 o4 p4. fs_cons fs Hlen i5 o5 p5. fs_cons fs Hlen i6 o6 p6. fs_cons fs Hlen i7 o7 p7.
  fs_cons fs Hlen i8 o8 p8. fs_cons fs Hlen i9 o9 p9. fs_cons fs Hlen i10 o10 p10. fs_cons fs Hlen i11 o11 p11.
  clear Hlen. cbn [firstn map f_id] in Hids. unfold ids_ipv6, ids_sctp_hdr in Hids. cbn [map app] in Hids.
  injection Hids as -> -> -> -> -> -> -> -> -> -> -> ->.
  cbn [skipn] in Hrest.
  destruct m as [|b0 m]; [destruct HM|]. destruct m as [|b1 m]; [destruct HM as (_ & [])|].
  destruct m as [|b2 m]; [destruct HM as (_ & _ & [])|]. destruct m as [|b3 m]; [destruct HM as (_ & _ & _ & [])|].
  destruct m as [|b4 m]; [destruct HM as (_ & _ & _ & _ & [])|].
  destruct m as [|b5 m]; [destruct HM as (_ & _ & _ & _ & _ & [])|].
  destruct m as [|b6 m]; [destruct HM as (_ & _ & _ & _ & _ & _ & [])|].
  destruct m as [|b7 m]; [destruct HM as (_ & _ & _ & _ & _ & _ & _ & [])|].
  destruct m as [|b8 m]; [destruct HM as (_ & _ & _ & _ & _ & _ & _ & _ & [])|].
  destruct m as [|b9 m]; [destruct HM as (_ & _ & _ & _ & _ & _ & _ & _ & _ & [])|].
  destruct m as [|b10 m]; [destruct HM as (_ & _ & _ & _ & _ & _ & _ & _ & _ & _ & [])|].
  destruct m as [|b11 m]; [destruct HM as (_ & _ & _ & _ & _ & _ & _ & _ & _ & _ & _ & [])|].
  cbn [mask_ok f_id] in HM.
  destruct HM as (M0 & M1 & M2 & _ & M4 & M5 & M6 & M7 & M8 & M9 & M10 & _ & HM).
  mask_false b0 M0. mask_false b1 M1. mask_false b2 M2. mask_false b4 M4. mask_false b5 M5.
  mask_false b6 M6. mask_false b7 M7. mask_false b8 M8. mask_false b9 M9. mask_false b10 M10.
  destruct (mask_rest _ _ _ HM Hrest) as [R1 R2].
  cbn [ces_m pre_m map combine f_id f_val app]. rewrite R1, R2.
  unfold ce_m. rewrite cf_v6_len, cf_sctp_ck. cbn [ph app]. rewrite app_nil_r.
  unfold v6s_correct in HC. cbv zeta in HC. cbn [map f_val skipn nth list_set concat] in HC.
  rewrite <- !app_assoc in HC. destruct HC as (C0 & C3 & C11).
  assert (LR : length (map f_val fs) = length (map f_id fs)) by now rewrite !map_length.
  exact (v6s_core b3 b11 o0 o1 o2 o3 o4 o5 o6 o7 o8 o9 o10 o11 _ _ (tail_vals _ _ pl LR) C0 C3 C11).
Qed.

Theorem c01_roundtrip_ipv6_sctp d pd r :
  pd_dir pd = d -> rule_ok_dec compute_functions d pd r -> spec_rule_applies pd r = true ->
  v6s_shape (pd_fields pd) -> v6s_correct (pd_fields pd) (pd_payload pd) ->
  exists s, compress pd r (Some d) = Ok s /\
            decompress compute_functions s r (Some d) = Ok (concat (map f_val (pd_fields pd)) ++ pd_payload pd).
Proof.
  intros Hd Hok HA HS HC. apply (stack_roundtrip d pd r 12); try assumption.
  - destruct HS as (H1 & _ & H3). apply (shape_order _ 12 _ H1); [vm_compute; reflexivity|exact H3].
  - lia.
  - destruct HS as (_ & _ & H3). exact H3.
  - intros m HM. now apply v6s_run.
Qed.

(* ================================================================================================== *)
(* IPv4 / SCTP                                                                                         *)
(* ================================================================================================== *)
Local Notation P4 o0 o1 o2 o3 o4 o5 o6 o7 o8 o9 o10 o11 T :=
  ((mkfid P_IPv4 0, o0) :: (mkfid P_IPv4 1, o1) :: (mkfid P_IPv4 2, o2) :: (mkfid P_IPv4 3, o3) ::
   (mkfid P_IPv4 4, o4) :: (mkfid P_IPv4 5, o5) :: (mkfid P_IPv4 6, o6) :: (mkfid P_IPv4 7, o7) ::
   (mkfid P_IPv4 8, o8) :: (mkfid P_IPv4 9, o9) :: (mkfid P_IPv4 10, o10) :: (mkfid P_IPv4 11, o11) :: T) (only parsing).

(* twelve IPv4 header fields (no options), the SCTP common header, then fields the compute table does
   not know; the widths the proofs need: the version nibble and the 160-bit header *)
Definition v4s_shape (fs : list field) : Prop :=
  map f_id (firstn 16 fs) = ids_ipv4 ++ ids_sctp_hdr /\ (16 <= length fs)%nat /\
  Forall (fun f => compute_functions (f_id f) = None) (skipn 16 fs) /\
  zlen (f_val (nth 0 fs dummy_field)) = 4 /\
  zlen (concat (map f_val (firstn 12 fs))) = 160.
Definition v4s_correct (fs : list field) (pl : bits) : Prop :=
  let vs := map f_val fs in
  let dgram := concat vs ++ pl in                                             (* the whole datagram *)
  let hdr0 := concat (firstn 12 (list_set vs 9 (repeat false 16))) in         (* the header with a zero checksum field *)
  let sctp0 := concat (skipn 12 (list_set vs 15 (repeat false 32))) ++ pl in  (* the SCTP packet with a zero checksum field *)
  zlen dgram mod 8 = 0 /\ nbytes dgram < 65536 /\
  nth 3 vs [] = bits_of 16 (nbytes dgram) /\                                  (* IPv4 total length *)
  nth 9 vs [] = bits_of 16 (rfc_ipv4_header_checksum hdr0) /\                 (* IPv4 header checksum *)
  nth 15 vs [] = rfc_sctp_checksum_field sctp0.                               (* SCTP checksum *)

Lemma p4_step_len o0 o1 o2 o3 o4 o5 o6 o7 o8 o9 o10 o11 (T : list (fid * bits)) :
  zlen o0 = 4 ->
  let dgram := o0 ++ o1 ++ o2 ++ o3 ++ o4 ++ o5 ++ o6 ++ o7 ++ o8 ++ o9 ++ o10 ++ o11 ++ concat (map snd T) in
  zlen dgram mod 8 = 0 -> nbytes dgram < 65536 ->
  ipv4_total_length (P4 o0 o1 o2 o3 o4 o5 o6 o7 o8 o9 o10 o11 T) 3 = Ok (bits_of 16 (nbytes dgram)).
Proof.
  intros H0 dgram Hm Hn. rewrite c09_ipv4_length; [reflexivity| |exact H0|exact Hm|exact Hn].
  unfold zlen. cbn [length]. lia.
Qed.

Lemma p4_step_ck o0 o1 o2 o3 o4 o5 o6 o7 o8 o9 o10 o11 (T : list (fid * bits)) :
  let hdr := o0 ++ o1 ++ o2 ++ o3 ++ o4 ++ o5 ++ o6 ++ o7 ++ o8 ++ o9 ++ o10 ++ o11 ++ [] in
  zlen hdr = 160 ->
  ipv4_checksum (P4 o0 o1 o2 o3 o4 o5 o6 o7 o8 o9 o10 o11 T) 9 = Ok (bits_of 16 (rfc_ipv4_header_checksum hdr)).
Proof.
  intros hdr Hh. rewrite c09_ipv4_checksum; [reflexivity|lia| |].
  - unfold zlen. cbn [length]. lia.
  - apply (zlen_mod16 _ _ Hh). reflexivity.
Qed.

Definition E4S (b3 b9 b15 : bool) : list centry :=
  (if b3 then [mkcentry 3 (mkfid P_IPv4 3) ipv4_total_length []] else []) ++
  (if b9 then [mkcentry 9 (mkfid P_IPv4 9) ipv4_checksum
                 (map (fun i => mkfid P_IPv4 i) [0; 1; 2; 3; 4; 5; 6; 7; 8; 10; 11])] else []) ++
  (if b15 then [mkcentry 15 (mkfid P_SCTP 3) sctp_checksum SCTP_ALL_BUT_CHECKSUM] else []).

Lemma v4s_core b3 b9 b15 o0 o1 o2 o3 o4 o5 o6 o7 o8 o9 o10 o11 s0 s1 s2 s3 (T : list (fid * bits)) R :
  concat (map snd T) = R -> zlen o0 = 4 ->
  zlen (o0 ++ o1 ++ o2 ++ o3 ++ o4 ++ o5 ++ o6 ++ o7 ++ o8 ++ o9 ++ o10 ++ o11 ++ []) = 160 ->
  let hdr0 := o0 ++ o1 ++ o2 ++ o3 ++ o4 ++ o5 ++ o6 ++ o7 ++ o8 ++ repeat false 16 ++ o10 ++ o11 ++ [] in
  let dgram := o0 ++ o1 ++ o2 ++ o3 ++ o4 ++ o5 ++ o6 ++ o7 ++ o8 ++ o9 ++ o10 ++ o11 ++ s0 ++ s1 ++ s2 ++ s3 ++ R in
  let sctp0 := s0 ++ s1 ++ s2 ++ repeat false 32 ++ R in
  zlen dgram mod 8 = 0 -> nbytes dgram < 65536 ->
  o3 = bits_of 16 (nbytes dgram) -> o9 = bits_of 16 (rfc_ipv4_header_checksum hdr0) ->
  s3 = rfc_sctp_checksum_field sctp0 ->
  run_computes (E4S b3 b9 b15)
    (P4 o0 o1 o2 (ph b3 o3) o4 o5 o6 o7 o8 (ph b9 o9) o10 o11 (LS s0 s1 s2 (ph b15 s3) T))
  = Ok (P4 o0 o1 o2 o3 o4 o5 o6 o7 o8 o9 o10 o11 (LS s0 s1 s2 s3 T)).
Proof.
  intros ET H0 HH hdr0 dgram sctp0 HM HD E3 E9 E15. unfold bits in *.
  assert (Z3 : zlen o3 = 16) by (rewrite E3; apply zlen_bits_of).
  assert (Z9 : zlen o9 = 16) by (rewrite E9; apply zlen_bits_of).
  assert (Z15 : zlen s3 = 32) by (rewrite E15; apply zlen_sctp_field).
  assert (ZZ : zlen (repeat false 16) = 16) by reflexivity.
  assert (ZZ' : zlen (repeat false 32) = 32) by reflexivity.
  assert (A : forall x3 x9 x15, zlen x3 = 16 -> zlen x9 = 16 -> zlen x15 = 32 ->
            ipv4_total_length (P4 o0 o1 o2 x3 o4 o5 o6 o7 o8 x9 o10 o11 (LS s0 s1 s2 x15 T)) 3 = Ok o3).
  { intros x3 x9 x15 A3 A9 A15.
    assert (L : zlen (o0 ++ o1 ++ o2 ++ x3 ++ o4 ++ o5 ++ o6 ++ o7 ++ o8 ++ x9 ++ o10 ++ o11 ++ concat (map snd (LS s0 s1 s2 x15 T)))
                = zlen dgram).
    { cbn [map snd concat]. unfold dgram, bits in *. rewrite ET, !zlen_app. lia. }
    rewrite p4_step_len; unfold bits in *; [|exact H0|now rewrite L|rewrite (nbytes_len _ _ L); exact HD].
    rewrite (nbytes_len _ _ L). now rewrite E3. }
  assert (B : forall x15,
            ipv4_checksum (P4 o0 o1 o2 o3 o4 o5 o6 o7 o8 (repeat false 16) o10 o11 (LS s0 s1 s2 x15 T)) 9 = Ok o9).
  { intros x15. rewrite p4_step_ck.
    - fold hdr0. now rewrite E9.
    - rewrite !zlen_app in *. lia. }
  assert (C : forall x3 x9, sctp_checksum (P4 o0 o1 o2 x3 o4 o5 o6 o7 o8 x9 o10 o11 (LS s0 s1 s2 (repeat false 32) T)) 15 = Ok s3).
  { intros x3 x9.
    pose proof (sctp_step (P4 o0 o1 o2 x3 o4 o5 o6 o7 o8 x9 o10 o11 []) (mkfid P_SCTP 0) s0 (mkfid P_SCTP 1) s1 (mkfid P_SCTP 2) s2
                  (mkfid P_SCTP 3) (repeat false 32) T 15 eq_refl eq_refl) as C.
    cbn [app] in C. unfold bits in *. rewrite C, ET. fold sctp0. now rewrite E15. }
  rewrite (ph16 b3 o3 Z3), (ph16 b9 o9 Z9), (ph32 b15 s3 Z15).
  clearbody hdr0 dgram sctp0. clear E3 E9 E15. unfold bits in *.
  unfold E4S. destruct b3, b9, b15; cbn [app run_computes ce_fn ce_pos ce_id];
    change (Z.to_nat 3) with 3%nat; change (Z.to_nat 9) with 9%nat; change (Z.to_nat 15) with 15%nat;
    repeat (first [ rewrite A by assumption | rewrite B | rewrite C ]; cbn [bind list_set]);
    reflexivity.
Qed.

Lemma v4s_run m fs pl : mask_ok compute_functions m fs -> v4s_shape fs -> v4s_correct fs pl ->
  run_computes (ces_m compute_functions 0 m fs) (combine (map f_id fs) (pre_m m fs) ++ [(payload_fid, pl)])
  = Ok (combine (map f_id fs) (map f_val fs) ++ [(payload_fid, pl)]).
Proof.
  intros HM (Hids & Hlen & Hrest & H0 & HH) HC.
  fs_cons fs Hlen i0 o0 p0. fs_cons fs Hlen i1 o1 p1. fs_cons fs Hlen i2 o2 p2. fs_cons fs Hlen i3 o3 p3.
  fs_cons fs Hlen i4 o4 p4. fs_cons fs Hlen i5 o5 p5. fs_cons fs Hlen i6 o6 p6. fs_cons fs Hlen i7 o7 p7.
  fs_cons fs Hlen i8 o8 p8. fs_cons fs Hlen i9 o9 p9. fs_cons fs Hlen i10 o10 p10. fs_cons fs Hlen i11 o11 p11.
  fs_cons fs Hlen i12 o12 p12. fs_cons fs Hlen i13 o13 p13. fs_cons fs Hlen i14 o14 p14. fs_cons fs Hlen i15 o15 p15.
  clear Hlen. cbn [firstn map f_id] in Hids. unfold ids_ipv4, ids_sctp_hdr in Hids. cbn [map app] in Hids.
  injection Hids as -> -> -> -> -> -> -> -> -> -> -> -> -> -> -> ->.
  cbn [skipn] in Hrest. cbn [nth f_val firstn map concat] in H0, HH.
  destruct m as [|b0 m]; [destruct HM|]. destruct m as [|b1 m]; [destruct HM as (_ & [])|].
  destruct m as [|b2 m]; [destruct HM as (_ & _ & [])|]. destruct m as [|b3 m]; [destruct HM as (_ & _ & _ & [])|].
  destruct m as [|b4 m]; [destruct HM as (_ & _ & _ & _ & [])|].
  destruct m as [|b5 m]; [destruct HM as (_ & _ & _ & _ & _ & [])|].
  destruct m as [|b6 m]; [destruct HM as (_ & _ & _ & _ & _ & _ & [])|].
  destruct m as [|b7 m]; [destruct HM as (_ & _ & _ & _ & _ & _ & _ & [])|].
  destruct m as [|b8 m]; [destruct HM as (_ & _ & _ & _ & _ & _ & _ & _ & [])|].
  destruct m as [|b9 m]; [destruct HM as (_ & _ & _ & _ & _ & _ & _ & _ & _ & [])|].
  destruct m as [|b10 m]; [destruct HM as (_ & _ & _ & _ & _ & _ & _ & _ & _ & _ & [])|].
  destruct m as [|b11 m]; [destruct HM as (_ & _ & _ & _ & _ & _ & _ & _ & _ & _ & _ & [])|].
  destruct m as [|b12 m]; [destruct HM as (_ & _ & _ & _ & _ & _ & _ & _ & _ & _ & _ & _ & [])|].
  destruct m as [|b13 m]; [destruct HM as (_ & _ & _ & _ & _ & _ & _ & _ & _ & _ & _ & _ & _ & [])|].
  destruct m as [|b14 m]; [destruct HM as (_ & _ & _ & _ & _ & _ & _ & _ & _ & _ & _ & _ & _ & _ & [])|].
  destruct m as [|b15 m]; [destruct HM as (_ & _ & _ & _ & _ & _ & _ & _ & _ & _ & _ & _ & _ & _ & _ & [])|].
  cbn [mask_ok f_id] in HM.
  destruct HM as (M0 & M1 & M2 & _ & M4 & M5 & M6 & M7 & M8 & _ & M10 & M11 & M12 & M13 & M14 & _ & HM).
  mask_false b0 M0. mask_false b1 M1. mask_false b2 M2. mask_false b4 M4. mask_false b5 M5.
  mask_false b6 M6. mask_false b7 M7. mask_false b8 M8. mask_false b10 M10. mask_false b11 M11.
  mask_false b12 M12. mask_false b13 M13. mask_false b14 M14.
  destruct (mask_rest _ _ _ HM Hrest) as [R1 R2].
  cbn [ces_m pre_m map combine f_id f_val app]. rewrite R1, R2.
  unfold ce_m. rewrite cf_v4_len, cf_v4_ck, cf_sctp_ck. cbn [ph app]. rewrite app_nil_r.
  unfold v4s_correct in HC. cbv zeta in HC. cbn [map f_val skipn firstn nth list_set concat] in HC.
  rewrite <- !app_assoc in HC. destruct HC as (C0 & C1 & C3 & C9 & C15).
  assert (LR : length (map f_val fs) = length (map f_id fs)) by now rewrite !map_length.
  exact (v4s_core b3 b9 b15 o0 o1 o2 o3 o4 o5 o6 o7 o8 o9 o10 o11 o12 o13 o14 o15 _ _
           (tail_vals _ _ pl LR) H0 HH C0 C1 C3 C9 C15).
Qed.

Theorem c01_roundtrip_ipv4_sctp d pd r :
  pd_dir pd = d -> rule_ok_dec compute_functions d pd r -> spec_rule_applies pd r = true ->
  v4s_shape (pd_fields pd) -> v4s_correct (pd_fields pd) (pd_payload pd) ->
  exists s, compress pd r (Some d) = Ok s /\
            decompress compute_functions s r (Some d) = Ok (concat (map f_val (pd_fields pd)) ++ pd_payload pd).
Proof.
  intros Hd Hok HA HS HC. apply (stack_roundtrip d pd r 16); try assumption.
  - destruct HS as (H1 & _ & H3 & _). apply (shape_order _ 16 _ H1); [vm_compute; reflexivity|exact H3].
  - lia.
  - destruct HS as (_ & _ & H3 & _). exact H3.
  - intros m HM. now apply v4s_run.
Qed.

(* ================================================================================================== *)
(* IPv6 / UDP / SCTP (the UDP encapsulation, RFC 6951)                                                 *)
(* ================================================================================================== *)
(* The UDP checksum covers the SCTP packet, checksum included.  In packet order the entries are
   [IPv6 payload length (3); UDP length (10); UDP checksum (11); SCTP checksum (15)]; list.sort moves
   the SCTP checksum in front of the UDP checksum because SCTPFields.CHECKSUM is among the dependencies
   of the UDP checksum (UdpSctpOrder.v).  The order below holds for every subset of the four entries
   and whatever the four functions are. *)
Definition E6US_g (f3 f10 f11 f15 : compute_fn) (b3 b10 b11 b15 : bool) : list centry :=
  (if b3 then [mkcentry 3 (mkfid P_IPv6 3) f3 []] else []) ++
  (if b10 then [mkcentry 10 (mkfid P_UDP 2) f10 []] else []) ++
  (if b11 then [mkcentry 11 (mkfid P_UDP 3) f11 UDP_CHECKSUM_DEPS] else []) ++
  (if b15 then [mkcentry 15 (mkfid P_SCTP 3) f15 SCTP_ALL_BUT_CHECKSUM] else []).
Definition S6US_g (f3 f10 f11 f15 : compute_fn) (b3 b10 b11 b15 : bool) : list centry :=
  (if b3 then [mkcentry 3 (mkfid P_IPv6 3) f3 []] else []) ++
  (if b10 then [mkcentry 10 (mkfid P_UDP 2) f10 []] else []) ++
  (if b15 then [mkcentry 15 (mkfid P_SCTP 3) f15 SCTP_ALL_BUT_CHECKSUM] else []) ++
  (if b11 then [mkcentry 11 (mkfid P_UDP 3) f11 UDP_CHECKSUM_DEPS] else []).

Lemma sort6us f3 f10 f11 f15 b3 b10 b11 b15 :
  py_sort_ces (E6US_g f3 f10 f11 f15 b3 b10 b11 b15) = Some (S6US_g f3 f10 f11 f15 b3 b10 b11 b15).
Proof. destruct b3, b10, b11, b15; reflexivity. Qed.

Definition E6US := E6US_g ipv6_payload_length udp_length udp_checksum sctp_checksum.
Definition S6US := S6US_g ipv6_payload_length udp_length udp_checksum sctp_checksum.

(* eight IPv6 header fields, four UDP header fields, the SCTP common header, then fields the compute
   table does not know.  (Next header 17 and destination port 132 play no role for the compute stage.) *)
Definition v6us_shape (fs : list field) : Prop :=
  map f_id (firstn 16 fs) = ids_ipv6 ++ ids_udp ++ ids_sctp_hdr /\ (16 <= length fs)%nat /\
  Forall (fun f => compute_functions (f_id f) = None) (skipn 16 fs) /\
  zlen (f_val (nth 6 fs dummy_field)) = 128 /\ zlen (f_val (nth 7 fs dummy_field)) = 128.
(* the UDP checksum is the one of the datagram that carries the CORRECT SCTP checksum: udp0 only
   zeroes the UDP checksum field *)
Definition v6us_correct (fs : list field) (pl : bits) : Prop :=
  let vs := map f_val fs in
  let upper := concat (skipn 8 vs) ++ pl in                                     (* the UDP datagram *)
  let sctp0 := concat (skipn 12 (list_set vs 15 (repeat false 32))) ++ pl in    (* the SCTP packet with a zero checksum field *)
  let udp0 := concat (skipn 8 (list_set vs 11 (repeat false 16))) ++ pl in      (* the UDP datagram with a zero UDP checksum field *)
  nbytes upper < 65536 /\
  nth 3 vs [] = bits_of 16 (nbytes upper) /\                                    (* IPv6 payload length *)
  nth 10 vs [] = bits_of 16 (nbytes upper) /\                                   (* UDP length *)
  nth 15 vs [] = rfc_sctp_checksum_field sctp0 /\                               (* SCTP checksum *)
  nth 11 vs [] = bits_of 16 (rfc_udp_checksum (pseudo_v6 (nth 6 vs []) (nth 7 vs []) (nbytes udp0)) udp0).   (* UDP checksum *)

Lemma v6us_core b3 b10 b11 b15 o0 o1 o2 o3 o4 o5 o6 o7 u0 u1 u2 u3 s0 s1 s2 s3 (T : list (fid * bits)) R :
  concat (map snd T) = R -> zlen o6 = 128 -> zlen o7 = 128 ->
  let upper := u0 ++ u1 ++ u2 ++ u3 ++ s0 ++ s1 ++ s2 ++ s3 ++ R in
  let sctp0 := s0 ++ s1 ++ s2 ++ repeat false 32 ++ R in
  let udp0 := u0 ++ u1 ++ u2 ++ repeat false 16 ++ s0 ++ s1 ++ s2 ++ s3 ++ R in
  nbytes upper < 65536 ->
  o3 = bits_of 16 (nbytes upper) -> u2 = bits_of 16 (nbytes upper) ->
  s3 = rfc_sctp_checksum_field sctp0 ->
  u3 = bits_of 16 (rfc_udp_checksum (pseudo_v6 o6 o7 (nbytes udp0)) udp0) ->
  run_computes (S6US b3 b10 b11 b15)
    (L6 o0 o1 o2 (ph b3 o3) o4 o5 o6 o7 u0 u1 (ph b10 u2) (ph b11 u3) (LS s0 s1 s2 (ph b15 s3) T))
  = Ok (L6 o0 o1 o2 o3 o4 o5 o6 o7 u0 u1 u2 u3 (LS s0 s1 s2 s3 T)).
Proof.
  intros ET H6 H7 upper sctp0 udp0 HU E3 E10 E15 E11. unfold bits in *.
  assert (Z3 : zlen o3 = 16) by (rewrite E3; apply zlen_bits_of).
  assert (Z10 : zlen u2 = 16) by (rewrite E10; apply zlen_bits_of).
  assert (Z11 : zlen u3 = 16) by (rewrite E11; apply zlen_bits_of).
  assert (Z15 : zlen s3 = 32) by (rewrite E15; apply zlen_sctp_field).
  assert (ZZ : zlen (repeat false 16) = 16) by reflexivity.
  assert (ZZ' : zlen (repeat false 32) = 32) by reflexivity.
  (* the two length functions see the original lengths whatever the placeholders *)
  assert (LEN : forall x10 x11 x15, zlen x10 = 16 -> zlen x11 = 16 -> zlen x15 = 32 ->
            nbytes (u0 ++ u1 ++ x10 ++ x11 ++ concat (map snd (LS s0 s1 s2 x15 T))) = nbytes upper).
  { intros x10 x11 x15 A10 A11 A15. apply nbytes_len. cbn [map snd concat]. unfold upper, bits in *.
    rewrite ET, !zlen_app. lia. }
  assert (A : forall x3 x10 x11 x15, zlen x10 = 16 -> zlen x11 = 16 -> zlen x15 = 32 ->
            ipv6_payload_length (L6 o0 o1 o2 x3 o4 o5 o6 o7 u0 u1 x10 x11 (LS s0 s1 s2 x15 T)) 3 = Ok o3).
  { intros x3 x10 x11 x15 A10 A11 A15.
    rewrite v6_step_len; unfold bits in *; rewrite (LEN x10 x11 x15 A10 A11 A15); [now rewrite E3|exact HU]. }
  assert (B : forall x3 x10 x11 x15, zlen x10 = 16 -> zlen x11 = 16 -> zlen x15 = 32 ->
            udp_length (L6 o0 o1 o2 x3 o4 o5 o6 o7 u0 u1 x10 x11 (LS s0 s1 s2 x15 T)) 10 = Ok u2).
  { intros x3 x10 x11 x15 A10 A11 A15.
    rewrite v6_step_udplen; unfold bits in *; rewrite (LEN x10 x11 x15 A10 A11 A15); [now rewrite E10|exact HU]. }
  (* the SCTP checksum does not see the UDP header *)
  assert (C : forall x3 x10 x11,
            sctp_checksum (L6 o0 o1 o2 x3 o4 o5 o6 o7 u0 u1 x10 x11 (LS s0 s1 s2 (repeat false 32) T)) 15 = Ok s3).
  { intros x3 x10 x11.
    pose proof (sctp_step (L6 o0 o1 o2 x3 o4 o5 o6 o7 u0 u1 x10 x11 []) (mkfid P_SCTP 0) s0 (mkfid P_SCTP 1) s1 (mkfid P_SCTP 2) s2
                  (mkfid P_SCTP 3) (repeat false 32) T 15 eq_refl eq_refl) as C.
    cbn [app] in C. unfold bits in *. rewrite C, ET. fold sctp0. now rewrite E15. }
  (* the UDP checksum runs last, on the datagram with the restored SCTP checksum *)
  assert (D : forall x3,
            udp_checksum (L6 o0 o1 o2 x3 o4 o5 o6 o7 u0 u1 u2 (repeat false 16) (LS s0 s1 s2 s3 T)) 11 = Ok u3).
  { intros x3. rewrite v6_step_ck; try assumption; unfold bits in *.
    - cbn [map snd concat]. rewrite ET. fold udp0. now rewrite E11.
    - rewrite (LEN u2 (repeat false 16) s3 Z10 eq_refl Z15). exact HU. }
  rewrite (ph16 b3 o3 Z3), (ph16 b10 u2 Z10), (ph16 b11 u3 Z11), (ph32 b15 s3 Z15).
  clearbody upper sctp0 udp0. clear E3 E10 E11 E15 LEN. unfold bits in *.
  unfold S6US, S6US_g. destruct b3, b10, b11, b15; cbn [app run_computes ce_fn ce_pos ce_id];
    change (Z.to_nat 3) with 3%nat; change (Z.to_nat 10) with 10%nat;
    change (Z.to_nat 11) with 11%nat; change (Z.to_nat 15) with 15%nat;
    repeat (first [ rewrite A by assumption | rewrite B by assumption | rewrite C | rewrite D ]; cbn [bind list_set]);
    reflexivity.
Qed.

Lemma v6us_run m fs pl : mask_ok compute_functions m fs -> v6us_shape fs -> v6us_correct fs pl ->
  exists ces, py_sort_ces (ces_m compute_functions 0 m fs) = Some ces /\
  run_computes ces (combine (map f_id fs) (pre_m m fs) ++ [(payload_fid, pl)])
  = Ok (combine (map f_id fs) (map f_val fs) ++ [(payload_fid, pl)]).
Proof.
  intros HM (Hids & Hlen & Hrest & H6 & H7) HC.
  fs_cons fs Hlen i0 o0 p0. fs_cons fs Hlen i1 o1 p1. fs_cons fs Hlen i2 o2 p2. fs_cons fs Hlen i3 o3 p3.
  fs_cons fs Hlen i4 o4 p4. fs_cons fs Hlen i5 o5 p5. fs_cons fs Hlen i6 o6 p6. fs_cons fs Hlen i7 o7 p7.
  fs_cons fs Hlen i8 o8 p8. fs_cons fs Hlen i9 o9 p9. fs_cons fs Hlen i10 o10 p10. fs_cons fs Hlen i11 o11 p11.
  fs_cons fs Hlen i12 o12 p12. fs_cons fs Hlen i13 o13 p13. fs_cons fs Hlen i14 o14 p14. fs_cons fs Hlen i15 o15 p15.
  clear Hlen. cbn [firstn map f_id] in Hids. unfold ids_ipv6, ids_udp, ids_sctp_hdr in Hids. cbn [map app] in Hids.
  injection Hids as -> -> -> -> -> -> -> -> -> -> -> -> -> -> -> ->.
  cbn [skipn] in Hrest. cbn [nth f_val] in H6, H7.
  destruct m as [|b0 m]; [destruct HM|]. destruct m as [|b1 m]; [destruct HM as (_ & [])|].
  destruct m as [|b2 m]; [destruct HM as (_ & _ & [])|]. destruct m as [|b3 m]; [destruct HM as (_ & _ & _ & [])|].
  destruct m as [|b4 m]; [destruct HM as (_ & _ & _ & _ & [])|].
  destruct m as [|b5 m]; [destruct HM as (_ & _ & _ & _ & _ & [])|].
  destruct m as [|b6 m]; [destruct HM as (_ & _ & _ & _ & _ & _ & [])|].
  destruct m as [|b7 m]; [destruct HM as (_ & _ & _ & _ & _ & _ & _ & [])|].
  destruct m as [|b8 m]; [destruct HM as (_ & _ & _ & _ & _ & _ & _ & _ & [])|].
  destruct m as [|b9 m]; [destruct HM as (_ & _ & _ & _ & _ & _ & _ & _ & _ & [])|].
  destruct m as [|b10 m]; [destruct HM as (_ & _ & _ & _ & _ & _ & _ & _ & _ & _ & [])|].
  destruct m as [|b11 m]; [destruct HM as (_ & _ & _ & _ & _ & _ & _ & _ & _ & _ & _ & [])|].
  destruct m as [|b12 m]; [destruct HM as (_ & _ & _ & _ & _ & _ & _ & _ & _ & _ & _ & _ & [])|].
  destruct m as [|b13 m]; [destruct HM as (_ & _ & _ & _ & _ & _ & _ & _ & _ & _ & _ & _ & _ & [])|].
  destruct m as [|b14 m]; [destruct HM as (_ & _ & _ & _ & _ & _ & _ & _ & _ & _ & _ & _ & _ & _ & [])|].
  destruct m as [|b15 m]; [destruct HM as (_ & _ & _ & _ & _ & _ & _ & _ & _ & _ & _ & _ & _ & _ & _ & [])|].
  cbn [mask_ok f_id] in HM.
  destruct HM as (M0 & M1 & M2 & _ & M4 & M5 & M6 & M7 & M8 & M9 & _ & _ & M12 & M13 & M14 & _ & HM).
  mask_false b0 M0. mask_false b1 M1. mask_false b2 M2. mask_false b4 M4. mask_false b5 M5.
  mask_false b6 M6. mask_false b7 M7. mask_false b8 M8. mask_false b9 M9.
  mask_false b12 M12. mask_false b13 M13. mask_false b14 M14.
  destruct (mask_rest _ _ _ HM Hrest) as [R1 R2].
  cbn [ces_m pre_m map combine f_id f_val app]. rewrite R1, R2.
  unfold ce_m. rewrite cf_v6_len, cf_udp_len, cf_udp_ck, cf_sctp_ck. cbn [ph app]. rewrite app_nil_r.
  unfold v6us_correct in HC. cbv zeta in HC. cbn [map f_val skipn nth list_set concat] in HC.
  rewrite <- !app_assoc in HC. destruct HC as (C0 & C3 & C10 & C15 & C11).
  assert (LR : length (map f_val fs) = length (map f_id fs)) by now rewrite !map_length.
  exists (S6US b3 b10 b11 b15). split.
  - exact (sort6us ipv6_payload_length udp_length udp_checksum sctp_checksum b3 b10 b11 b15).
  - exact (v6us_core b3 b10 b11 b15 o0 o1 o2 o3 o4 o5 o6 o7 o8 o9 o10 o11 o12 o13 o14 o15 _ _
             (tail_vals _ _ pl LR) H6 H7 C0 C3 C10 C15 C11).
Qed.

Theorem c01_roundtrip_ipv6_udp_sctp d pd r :
  pd_dir pd = d -> rule_ok_dec compute_functions d pd r -> spec_rule_applies pd r = true ->
  v6us_shape (pd_fields pd) -> v6us_correct (pd_fields pd) (pd_payload pd) ->
  exists s, compress pd r (Some d) = Ok s /\
            decompress compute_functions s r (Some d) = Ok (concat (map f_val (pd_fields pd)) ++ pd_payload pd).
Proof.
  intros Hd Hok HA HS HC. apply (stack_roundtrip_sort d pd r); try assumption.
  intros m HM. now apply v6us_run.
Qed.

(* ================================================================================================== *)
(* IPv4 / UDP / SCTP                                                                                   *)
(* ================================================================================================== *)
(* entries in packet order: total length (3), header checksum (9), UDP length (14), UDP checksum (15),
   SCTP checksum (19); list.sort moves the SCTP checksum in front of the UDP checksum *)
Definition V4CK_DEPS : list fid := map (fun i => mkfid P_IPv4 i) [0; 1; 2; 3; 4; 5; 6; 7; 8; 10; 11].
Definition E4US_g (f3 f9 f14 f15 f19 : compute_fn) (b3 b9 b14 b15 b19 : bool) : list centry :=
  (if b3 then [mkcentry 3 (mkfid P_IPv4 3) f3 []] else []) ++
  (if b9 then [mkcentry 9 (mkfid P_IPv4 9) f9 V4CK_DEPS] else []) ++
  (if b14 then [mkcentry 14 (mkfid P_UDP 2) f14 []] else []) ++
  (if b15 then [mkcentry 15 (mkfid P_UDP 3) f15 UDP_CHECKSUM_DEPS] else []) ++
  (if b19 then [mkcentry 19 (mkfid P_SCTP 3) f19 SCTP_ALL_BUT_CHECKSUM] else []).
Definition S4US_g (f3 f9 f14 f15 f19 : compute_fn) (b3 b9 b14 b15 b19 : bool) : list centry :=
  (if b3 then [mkcentry 3 (mkfid P_IPv4 3) f3 []] else []) ++
  (if b9 then [mkcentry 9 (mkfid P_IPv4 9) f9 V4CK_DEPS] else []) ++
  (if b14 then [mkcentry 14 (mkfid P_UDP 2) f14 []] else []) ++
  (if b19 then [mkcentry 19 (mkfid P_SCTP 3) f19 SCTP_ALL_BUT_CHECKSUM] else []) ++
  (if b15 then [mkcentry 15 (mkfid P_UDP 3) f15 UDP_CHECKSUM_DEPS] else []).

Lemma sort4us f3 f9 f14 f15 f19 b3 b9 b14 b15 b19 :
  py_sort_ces (E4US_g f3 f9 f14 f15 f19 b3 b9 b14 b15 b19) = Some (S4US_g f3 f9 f14 f15 f19 b3 b9 b14 b15 b19).
Proof. destruct b3, b9, b14, b15, b19; reflexivity. Qed.

Definition E4US := E4US_g ipv4_total_length ipv4_checksum udp_length udp_checksum sctp_checksum.
Definition S4US := S4US_g ipv4_total_length ipv4_checksum udp_length udp_checksum sctp_checksum.

Definition v4us_shape (fs : list field) : Prop :=
  map f_id (firstn 20 fs) = ids_ipv4 ++ ids_udp ++ ids_sctp_hdr /\ (20 <= length fs)%nat /\
  Forall (fun f => compute_functions (f_id f) = None) (skipn 20 fs) /\
  zlen (f_val (nth 0 fs dummy_field)) = 4 /\
  zlen (concat (map f_val (firstn 12 fs))) = 160 /\
  zlen (f_val (nth 10 fs dummy_field)) = 32 /\ zlen (f_val (nth 11 fs dummy_field)) = 32.
Definition v4us_correct (fs : list field) (pl : bits) : Prop :=
  let vs := map f_val fs in
  let dgram := concat vs ++ pl in                                               (* the whole datagram *)
  let hdr0 := concat (firstn 12 (list_set vs 9 (repeat false 16))) in           (* the IPv4 header with a zero checksum field *)
  let udp := concat (skipn 12 vs) ++ pl in                                      (* the UDP datagram *)
  let sctp0 := concat (skipn 16 (list_set vs 19 (repeat false 32))) ++ pl in    (* the SCTP packet with a zero checksum field *)
  let udp0 := concat (skipn 12 (list_set vs 15 (repeat false 16))) ++ pl in     (* the UDP datagram with a zero UDP checksum field *)
  zlen dgram mod 8 = 0 /\ nbytes dgram < 65536 /\
  nth 3 vs [] = bits_of 16 (nbytes dgram) /\                                    (* IPv4 total length *)
  nth 9 vs [] = bits_of 16 (rfc_ipv4_header_checksum hdr0) /\                   (* IPv4 header checksum *)
  nth 14 vs [] = bits_of 16 (nbytes udp) /\                                     (* UDP length *)
  nth 19 vs [] = rfc_sctp_checksum_field sctp0 /\                               (* SCTP checksum *)
  nth 15 vs [] = bits_of 16 (rfc_udp_checksum (pseudo_v4 (nth 10 vs []) (nth 11 vs []) (nbytes udp0)) udp0).  (* UDP checksum *)

Lemma v4us_core b3 b9 b14 b15 b19 o0 o1 o2 o3 o4 o5 o6 o7 o8 o9 o10 o11 u0 u1 u2 u3 s0 s1 s2 s3 (T : list (fid * bits)) R :
  concat (map snd T) = R -> zlen o0 = 4 -> zlen o10 = 32 -> zlen o11 = 32 ->
  zlen (o0 ++ o1 ++ o2 ++ o3 ++ o4 ++ o5 ++ o6 ++ o7 ++ o8 ++ o9 ++ o10 ++ o11 ++ []) = 160 ->
  let hdr0 := o0 ++ o1 ++ o2 ++ o3 ++ o4 ++ o5 ++ o6 ++ o7 ++ o8 ++ repeat false 16 ++ o10 ++ o11 ++ [] in
  let dgram := o0 ++ o1 ++ o2 ++ o3 ++ o4 ++ o5 ++ o6 ++ o7 ++ o8 ++ o9 ++ o10 ++ o11 ++
               u0 ++ u1 ++ u2 ++ u3 ++ s0 ++ s1 ++ s2 ++ s3 ++ R in
  let udp := u0 ++ u1 ++ u2 ++ u3 ++ s0 ++ s1 ++ s2 ++ s3 ++ R in
  let sctp0 := s0 ++ s1 ++ s2 ++ repeat false 32 ++ R in
  let udp0 := u0 ++ u1 ++ u2 ++ repeat false 16 ++ s0 ++ s1 ++ s2 ++ s3 ++ R in
  zlen dgram mod 8 = 0 -> nbytes dgram < 65536 ->
  o3 = bits_of 16 (nbytes dgram) -> o9 = bits_of 16 (rfc_ipv4_header_checksum hdr0) ->
  u2 = bits_of 16 (nbytes udp) -> s3 = rfc_sctp_checksum_field sctp0 ->
  u3 = bits_of 16 (rfc_udp_checksum (pseudo_v4 o10 o11 (nbytes udp0)) udp0) ->
  run_computes (S4US b3 b9 b14 b15 b19)
    (L4 o0 o1 o2 (ph b3 o3) o4 o5 o6 o7 o8 (ph b9 o9) o10 o11 u0 u1 (ph b14 u2) (ph b15 u3) (LS s0 s1 s2 (ph b19 s3) T))
  = Ok (L4 o0 o1 o2 o3 o4 o5 o6 o7 o8 o9 o10 o11 u0 u1 u2 u3 (LS s0 s1 s2 s3 T)).
Proof.
  intros ET H0 H10 H11 HH hdr0 dgram udp sctp0 udp0 HM HD E3 E9 E14 E19 E15. unfold bits in *.
  assert (Z3 : zlen o3 = 16) by (rewrite E3; apply zlen_bits_of).
  assert (Z9 : zlen o9 = 16) by (rewrite E9; apply zlen_bits_of).
  assert (Z14 : zlen u2 = 16) by (rewrite E14; apply zlen_bits_of).
  assert (Z15 : zlen u3 = 16) by (rewrite E15; apply zlen_bits_of).
  assert (Z19 : zlen s3 = 32) by (rewrite E19; apply zlen_sctp_field).
  assert (ZZ : zlen (repeat false 16) = 16) by reflexivity.
  assert (ZZ' : zlen (repeat false 32) = 32) by reflexivity.
  assert (LD : forall x3 x9 x14 x15 x19, zlen x3 = 16 -> zlen x9 = 16 -> zlen x14 = 16 -> zlen x15 = 16 -> zlen x19 = 32 ->
            zlen (o0 ++ o1 ++ o2 ++ x3 ++ o4 ++ o5 ++ o6 ++ o7 ++ o8 ++ x9 ++ o10 ++ o11 ++ u0 ++ u1 ++ x14 ++ x15 ++
                  concat (map snd (LS s0 s1 s2 x19 T)))
            = zlen dgram).
  { intros x3 x9 x14 x15 x19 A3 A9 A14 A15 A19. cbn [map snd concat]. unfold dgram, bits in *. rewrite ET, !zlen_app. lia. }
  assert (LU : forall x14 x15 x19, zlen x14 = 16 -> zlen x15 = 16 -> zlen x19 = 32 ->
            zlen (u0 ++ u1 ++ x14 ++ x15 ++ concat (map snd (LS s0 s1 s2 x19 T))) = zlen udp).
  { intros x14 x15 x19 A14 A15 A19. cbn [map snd concat]. unfold udp, bits in *. rewrite ET, !zlen_app. lia. }
  assert (UD : nbytes udp <= nbytes dgram).
  { apply nbytes_mono. unfold udp, dgram. rewrite !zlen_app.
    pose proof (zlen_nonneg o0). pose proof (zlen_nonneg o1). pose proof (zlen_nonneg o2). pose proof (zlen_nonneg o3).
    pose proof (zlen_nonneg o4). pose proof (zlen_nonneg o5). pose proof (zlen_nonneg o6). pose proof (zlen_nonneg o7).
    pose proof (zlen_nonneg o8). pose proof (zlen_nonneg o9). pose proof (zlen_nonneg o10). pose proof (zlen_nonneg o11). lia. }
  assert (A : forall x3 x9 x14 x15 x19, zlen x3 = 16 -> zlen x9 = 16 -> zlen x14 = 16 -> zlen x15 = 16 -> zlen x19 = 32 ->
            ipv4_total_length (L4 o0 o1 o2 x3 o4 o5 o6 o7 o8 x9 o10 o11 u0 u1 x14 x15 (LS s0 s1 s2 x19 T)) 3 = Ok o3).
  { intros x3 x9 x14 x15 x19 A3 A9 A14 A15 A19. pose proof (LD x3 x9 x14 x15 x19 A3 A9 A14 A15 A19) as L.
    rewrite v4_step_len; unfold bits in *; [|exact H0|now rewrite L|rewrite (nbytes_len _ _ L); exact HD].
    rewrite (nbytes_len _ _ L). now rewrite E3. }
  assert (B : forall x14 x15 T',
            ipv4_checksum (L4 o0 o1 o2 o3 o4 o5 o6 o7 o8 (repeat false 16) o10 o11 u0 u1 x14 x15 T') 9 = Ok o9).
  { intros x14 x15 T'. rewrite v4_step_ck.
    - fold hdr0. now rewrite E9.
    - rewrite !zlen_app in *. lia. }
  assert (C : forall x3 x9 x14 x15 x19, zlen x14 = 16 -> zlen x15 = 16 -> zlen x19 = 32 ->
            udp_length (L4 o0 o1 o2 x3 o4 o5 o6 o7 o8 x9 o10 o11 u0 u1 x14 x15 (LS s0 s1 s2 x19 T)) 14 = Ok u2).
  { intros x3 x9 x14 x15 x19 A14 A15 A19. pose proof (LU x14 x15 x19 A14 A15 A19) as L.
    rewrite v4_step_udplen; unfold bits in *; rewrite (nbytes_len _ _ L); [now rewrite E14|lia]. }
  assert (D : forall x3 x9 x14 x15,
            sctp_checksum (L4 o0 o1 o2 x3 o4 o5 o6 o7 o8 x9 o10 o11 u0 u1 x14 x15 (LS s0 s1 s2 (repeat false 32) T)) 19 = Ok s3).
  { intros x3 x9 x14 x15.
    pose proof (sctp_step (L4 o0 o1 o2 x3 o4 o5 o6 o7 o8 x9 o10 o11 u0 u1 x14 x15 []) (mkfid P_SCTP 0) s0 (mkfid P_SCTP 1) s1
                  (mkfid P_SCTP 2) s2 (mkfid P_SCTP 3) (repeat false 32) T 19 eq_refl eq_refl) as C'.
    cbn [app] in C'. unfold bits in *. rewrite C', ET. fold sctp0. now rewrite E19. }
  assert (F : forall x3 x9,
            udp_checksum (L4 o0 o1 o2 x3 o4 o5 o6 o7 o8 x9 o10 o11 u0 u1 u2 (repeat false 16) (LS s0 s1 s2 s3 T)) 15 = Ok u3).
  { intros x3 x9. rewrite v4_step_udpck; try assumption; unfold bits in *.
    - cbn [map snd concat]. rewrite ET. fold udp0. now rewrite E15.
    - rewrite (nbytes_len _ _ (LU u2 (repeat false 16) s3 Z14 ZZ Z19)). lia. }
  rewrite (ph16 b3 o3 Z3), (ph16 b9 o9 Z9), (ph16 b14 u2 Z14), (ph16 b15 u3 Z15), (ph32 b19 s3 Z19).
  clearbody hdr0 dgram udp sctp0 udp0. clear E3 E9 E14 E15 E19 LD LU. unfold bits in *.
  unfold S4US, S4US_g. destruct b3, b9, b14, b15, b19; cbn [app run_computes ce_fn ce_pos ce_id];
    change (Z.to_nat 3) with 3%nat; change (Z.to_nat 9) with 9%nat; change (Z.to_nat 14) with 14%nat;
    change (Z.to_nat 15) with 15%nat; change (Z.to_nat 19) with 19%nat;
    repeat (first [ rewrite A by assumption | rewrite B | rewrite C by assumption | rewrite D | rewrite F ]; cbn [bind list_set]);
    reflexivity.
Qed.

Lemma v4us_run m fs pl : mask_ok compute_functions m fs -> v4us_shape fs -> v4us_correct fs pl ->
  exists ces, py_sort_ces (ces_m compute_functions 0 m fs) = Some ces /\
  run_computes ces (combine (map f_id fs) (pre_m m fs) ++ [(payload_fid, pl)])
  = Ok (combine (map f_id fs) (map f_val fs) ++ [(payload_fid, pl)]).
Proof.
  intros HM (Hids & Hlen & Hrest & H0 & HH & H10 & H11) HC.
  fs_cons fs Hlen i0 o0 p0. fs_cons fs Hlen i1 o1 p1. fs_cons fs Hlen i2 o2 p2. fs_cons fs Hlen i3 o3 p3. fs_cons fs Hlen i4 o4 p4. fs_cons fs Hlen i5 o5 p5. fs_cons fs Hlen i6 o6 p6. fs_cons fs Hlen i7 o7 p7. fs_cons fs Hlen i8 o8 p8. fs_cons fs Hlen i9 o9 p9. fs_cons fs Hlen i10 o10 p10. fs_cons fs Hlen i11 o11 p11. fs_cons fs Hlen i12 o12 p12. fs_cons fs Hlen i13 o13 p13. fs_cons fs Hlen i14 o14 p14. fs_cons fs Hlen i15 o15 p15. fs_cons fs Hlen i16 o16 p16. fs_cons fs Hlen i17 o17 p17. fs_cons fs Hlen i18 o18 p18. fs_cons fs Hlen i19 o19 p19.
  clear Hlen. cbn [firstn map f_id] in Hids. unfold ids_ipv4, ids_udp, ids_sctp_hdr in Hids. cbn [map app] in Hids.
  injection Hids as -> -> -> -> -> -> -> -> -> -> -> -> -> -> -> -> -> -> -> ->.
  cbn [skipn] in Hrest. cbn [nth f_val firstn map concat] in H0, HH, H10, H11.
  destruct m as [|b0 m]; [destruct HM|].
  destruct m as [|b1 m]; [destruct HM as (_ & [])|].
  destruct m as [|b2 m]; [destruct HM as (_ & _ & [])|].
  destruct m as [|b3 m]; [destruct HM as (_ & _ & _ & [])|].
  destruct m as [|b4 m]; [destruct HM as (_ & _ & _ & _ & [])|].
  destruct m as [|b5 m]; [destruct HM as (_ & _ & _ & _ & _ & [])|].
  destruct m as [|b6 m]; [destruct HM as (_ & _ & _ & _ & _ & _ & [])|].
  destruct m as [|b7 m]; [destruct HM as (_ & _ & _ & _ & _ & _ & _ & [])|].
  destruct m as [|b8 m]; [destruct HM as (_ & _ & _ & _ & _ & _ & _ & _ & [])|].
  destruct m as [|b9 m]; [destruct HM as (_ & _ & _ & _ & _ & _ & _ & _ & _ & [])|].
  destruct m as [|b10 m]; [destruct HM as (_ & _ & _ & _ & _ & _ & _ & _ & _ & _ & [])|].
  destruct m as [|b11 m]; [destruct HM as (_ & _ & _ & _ & _ & _ & _ & _ & _ & _ & _ & [])|].
  destruct m as [|b12 m]; [destruct HM as (_ & _ & _ & _ & _ & _ & _ & _ & _ & _ & _ & _ & [])|].
  destruct m as [|b13 m]; [destruct HM as (_ & _ & _ & _ & _ & _ & _ & _ & _ & _ & _ & _ & _ & [])|].
  destruct m as [|b14 m]; [destruct HM as (_ & _ & _ & _ & _ & _ & _ & _ & _ & _ & _ & _ & _ & _ & [])|].
  destruct m as [|b15 m]; [destruct HM as (_ & _ & _ & _ & _ & _ & _ & _ & _ & _ & _ & _ & _ & _ & _ & [])|].
  destruct m as [|b16 m]; [destruct HM as (_ & _ & _ & _ & _ & _ & _ & _ & _ & _ & _ & _ & _ & _ & _ & _ & [])|].
  destruct m as [|b17 m]; [destruct HM as (_ & _ & _ & _ & _ & _ & _ & _ & _ & _ & _ & _ & _ & _ & _ & _ & _ & [])|].
  destruct m as [|b18 m]; [destruct HM as (_ & _ & _ & _ & _ & _ & _ & _ & _ & _ & _ & _ & _ & _ & _ & _ & _ & _ & [])|].
  destruct m as [|b19 m]; [destruct HM as (_ & _ & _ & _ & _ & _ & _ & _ & _ & _ & _ & _ & _ & _ & _ & _ & _ & _ & _ & [])|].
  cbn [mask_ok f_id] in HM.
  destruct HM as (M0 & M1 & M2 & _ & M4 & M5 & M6 & M7 & M8 & _ & M10 & M11 & M12 & M13 & _ & _ & M16 & M17 & M18 & _ & HM).
  mask_false b0 M0. mask_false b1 M1. mask_false b2 M2. mask_false b4 M4. mask_false b5 M5.
  mask_false b6 M6. mask_false b7 M7. mask_false b8 M8. mask_false b10 M10. mask_false b11 M11.
  mask_false b12 M12. mask_false b13 M13. mask_false b16 M16. mask_false b17 M17. mask_false b18 M18.
  destruct (mask_rest _ _ _ HM Hrest) as [R1 R2].
  cbn [ces_m pre_m map combine f_id f_val app]. rewrite R1, R2.
  unfold ce_m. rewrite cf_v4_len, cf_v4_ck, cf_udp_len, cf_udp_ck, cf_sctp_ck. cbn [ph app]. rewrite app_nil_r.
  unfold v4us_correct in HC. cbv zeta in HC. cbn [map f_val skipn firstn nth list_set concat] in HC.
  rewrite <- !app_assoc in HC. destruct HC as (C0 & C1 & C3 & C9 & C14 & C19 & C15).
  assert (LR : length (map f_val fs) = length (map f_id fs)) by now rewrite !map_length.
  exists (S4US b3 b9 b14 b15 b19). split.
  - exact (sort4us ipv4_total_length ipv4_checksum udp_length udp_checksum sctp_checksum b3 b9 b14 b15 b19).
  - exact (v4us_core b3 b9 b14 b15 b19 o0 o1 o2 o3 o4 o5 o6 o7 o8 o9 o10 o11 o12 o13 o14 o15 o16 o17 o18 o19 _ _
             (tail_vals _ _ pl LR) H0 H10 H11 HH C0 C1 C3 C9 C14 C19 C15).
Qed.

Theorem c01_roundtrip_ipv4_udp_sctp d pd r :
  pd_dir pd = d -> rule_ok_dec compute_functions d pd r -> spec_rule_applies pd r = true ->
  v4us_shape (pd_fields pd) -> v4us_correct (pd_fields pd) (pd_payload pd) ->
  exists s, compress pd r (Some d) = Ok s /\
            decompress compute_functions s r (Some d) = Ok (concat (map f_val (pd_fields pd)) ++ pd_payload pd).
Proof.
  intros Hd Hok HA HS HC. apply (stack_roundtrip_sort d pd r); try assumption.
  intros m HM. now apply v4us_run.
Qed.

(* ================================================================================================== *)
(* the premises are satisfiable: concrete packets, checksums evaluated from the RFC-side definitions     *)
(* ================================================================================================== *)
(* an SCTP packet of 32 bytes: common header (ports 1234 and 5678, tag 0xdeadbeef), the header of a DATA
   chunk as three fields (type 0, flags 3, length 20), the remaining 16 chunk bytes as payload *)
Definition exs_ids : list fid := map (fun i => mkfid P_SCTP i) [0; 1; 2; 3; 4; 5; 6].
Definition exs_vals (ck : bits) : list bits :=
  [bits_of 16 1234; bits_of 16 5678; bits_of 32 0xdeadbeef; ck; bits_of 8 0; bits_of 8 3; bits_of 16 20].
Definition exs_pl : bits := bits_of 128 0x00000007000100020000000001020304.
Definition exs_ck : bits := rfc_sctp_checksum_field (concat (exs_vals (repeat false 32)) ++ exs_pl).
(* the value an independent computation gives (the bytes 09 ba e5 81 of UdpSctpOrder.exus_packet) *)
Example exs_ck_value : exs_ck = bits_of 32 0x09bae581.
Proof. vm_compute. reflexivity. Qed.

Definition ex_v6hdr (len nh : Z) : list bits :=
  [bits_of 4 6; bits_of 8 0; bits_of 20 0; bits_of 16 len; bits_of 8 nh; bits_of 8 64;
   bits_of 128 0x20010db8000000000000000000000001; bits_of 128 0x20010db8000000000000000000000002].
Definition ex_v4hdr (len proto hck : Z) : list bits :=
  [bits_of 4 4; bits_of 4 5; bits_of 8 0; bits_of 16 len; bits_of 16 0x1234; bits_of 3 2; bits_of 13 0;
   bits_of 8 64; bits_of 8 proto; bits_of 16 hck; bits_of 32 0xc0000201; bits_of 32 0xc0000202].
Definition ex_udphdr (len ck : Z) : list bits := [bits_of 16 5000; bits_of 16 132; bits_of 16 len; bits_of 16 ck].

(* rule field descriptors: every field sent as is, except the lengths and checksums, which are computed *)
Definition rfds_v6 : list rfd :=
  map (fun i => mkrfd (mkfid P_IPv6 i) (if i =? 3 then 16 else 0) 1 Bi (TVbuf []) MO_ignore
                      (if i =? 3 then Compute else ValueSent)) [0; 1; 2; 3; 4; 5; 6; 7].
Definition rfds_v4 : list rfd :=
  map (fun i => mkrfd (mkfid P_IPv4 i) (if (i =? 3) || (i =? 9) then 16 else 0) 1 Bi (TVbuf []) MO_ignore
                      (if (i =? 3) || (i =? 9) then Compute else ValueSent)) [0; 1; 2; 3; 4; 5; 6; 7; 8; 9; 10; 11].
Definition rfds_udp : list rfd :=
  map (fun i => mkrfd (mkfid P_UDP i) 16 1 Bi (TVbuf []) MO_ignore (if i <? 2 then ValueSent else Compute)) [0; 1; 2; 3].
Definition rfds_sctp : list rfd :=
  map (fun i => mkrfd (mkfid P_SCTP i) (if i =? 3 then 32 else 0) 1 Bi (TVbuf []) MO_ignore
                      (if i =? 3 then Compute else ValueSent)) [0; 1; 2; 3; 4; 5; 6].

Ltac forall_none :=
  match goal with |- Forall _ ?l =>
    let l' := eval vm_compute in l in replace l with l' by (vm_compute; reflexivity); repeat constructor end.
Ltac shape_ex :=
  split; [vm_compute; reflexivity|]; split; [vm_compute; lia|];
  first [ forall_none | split; [forall_none|]; repeat split; vm_compute; reflexivity ].

(* ---- SCTP alone ---- *)
Definition exs_fields : list field := mk_fields exs_ids (exs_vals exs_ck).
Definition exs_pd : pdesc := mkpdesc Up exs_fields exs_pl.
Definition exs_rule : rule := mkrule [true; true] Compression rfds_sctp.

Example exs_shape : sctp_shape exs_fields.
Proof. unfold sctp_shape. shape_ex. Qed.
Example exs_correct : sctp_correct exs_fields exs_pl.
Proof. unfold sctp_correct. cbv zeta. vm_compute. reflexivity. Qed.
Example exs_roundtrip : exists s, compress exs_pd exs_rule (Some Up) = Ok s /\
  decompress compute_functions s exs_rule (Some Up) = Ok (concat (map f_val exs_fields) ++ exs_pl).
Proof.
  apply (c01_roundtrip_sctp Up exs_pd exs_rule eq_refl).
  - vm_compute. repeat split.
  - vm_compute. reflexivity.
  - exact exs_shape.
  - exact exs_correct.
Qed.

(* ---- IPv6 / SCTP (72 bytes) ---- *)
Definition ex6s_fields : list field := mk_fields (ids_ipv6 ++ exs_ids) (ex_v6hdr 32 132 ++ exs_vals exs_ck).
Definition ex6s_pd : pdesc := mkpdesc Up ex6s_fields exs_pl.
Definition ex6s_rule : rule := mkrule [true; false] Compression (rfds_v6 ++ rfds_sctp).

Example ex6s_shape : v6s_shape ex6s_fields.
Proof. unfold v6s_shape. shape_ex. Qed.
Example ex6s_correct : v6s_correct ex6s_fields exs_pl.
Proof. unfold v6s_correct. cbv zeta. repeat split; vm_compute; reflexivity. Qed.
Example ex6s_roundtrip : exists s, compress ex6s_pd ex6s_rule (Some Up) = Ok s /\
  decompress compute_functions s ex6s_rule (Some Up) = Ok (concat (map f_val ex6s_fields) ++ exs_pl).
Proof.
  apply (c01_roundtrip_ipv6_sctp Up ex6s_pd ex6s_rule eq_refl).
  - vm_compute. repeat split.
  - vm_compute. reflexivity.
  - exact ex6s_shape.
  - exact ex6s_correct.
Qed.

(* ---- IPv4 / SCTP (52 bytes) ---- *)
Definition ex4s_hck : Z := rfc_ipv4_header_checksum (concat (ex_v4hdr 52 132 0)).
Definition ex4s_fields : list field := mk_fields (ids_ipv4 ++ exs_ids) (ex_v4hdr 52 132 ex4s_hck ++ exs_vals exs_ck).
Definition ex4s_pd : pdesc := mkpdesc Up ex4s_fields exs_pl.
Definition ex4s_rule : rule := mkrule [false; true] Compression (rfds_v4 ++ rfds_sctp).

Example ex4s_shape : v4s_shape ex4s_fields.
Proof. unfold v4s_shape. shape_ex. Qed.
Example ex4s_correct : v4s_correct ex4s_fields exs_pl.
Proof. unfold v4s_correct. cbv zeta. repeat split; vm_compute; reflexivity. Qed.
Example ex4s_roundtrip : exists s, compress ex4s_pd ex4s_rule (Some Up) = Ok s /\
  decompress compute_functions s ex4s_rule (Some Up) = Ok (concat (map f_val ex4s_fields) ++ exs_pl).
Proof.
  apply (c01_roundtrip_ipv4_sctp Up ex4s_pd ex4s_rule eq_refl).
  - vm_compute. repeat split.
  - vm_compute. reflexivity.
  - exact ex4s_shape.
  - exact ex4s_correct.
Qed.

(* ---- IPv6 / UDP / SCTP (80 bytes: the packet UdpSctpOrder.exus_packet) ---- *)
Definition ex6us_uck : Z :=
  rfc_udp_checksum (pseudo_v6 (nth 6 (ex_v6hdr 0 0) []) (nth 7 (ex_v6hdr 0 0) []) 40)
                   (concat (ex_udphdr 40 0 ++ exs_vals exs_ck) ++ exs_pl).
(* the value an independent computation gives (the bytes e4 1c of UdpSctpOrder.exus_packet) *)
Example ex6us_uck_value : ex6us_uck = 0xe41c.
Proof. vm_compute. reflexivity. Qed.
Definition ex6us_fields : list field :=
  mk_fields (ids_ipv6 ++ ids_udp ++ exs_ids) (ex_v6hdr 40 17 ++ ex_udphdr 40 ex6us_uck ++ exs_vals exs_ck).
Definition ex6us_pd : pdesc := mkpdesc Up ex6us_fields exs_pl.
Definition ex6us_rule : rule := mkrule [true; false] Compression (rfds_v6 ++ rfds_udp ++ rfds_sctp).

Example ex6us_shape : v6us_shape ex6us_fields.
Proof. unfold v6us_shape. shape_ex. Qed.
Example ex6us_correct : v6us_correct ex6us_fields exs_pl.
Proof. unfold v6us_correct. cbv zeta. repeat split; vm_compute; reflexivity. Qed.
Example ex6us_roundtrip : exists s, compress ex6us_pd ex6us_rule (Some Up) = Ok s /\
  decompress compute_functions s ex6us_rule (Some Up) = Ok (concat (map f_val ex6us_fields) ++ exs_pl).
Proof.
  apply (c01_roundtrip_ipv6_udp_sctp Up ex6us_pd ex6us_rule eq_refl).
  - vm_compute. repeat split.
  - vm_compute. reflexivity.
  - exact ex6us_shape.
  - exact ex6us_correct.
Qed.

(* ---- IPv4 / UDP / SCTP (60 bytes) ---- *)
Definition ex4us_hck : Z := rfc_ipv4_header_checksum (concat (ex_v4hdr 60 17 0)).
Definition ex4us_uck : Z :=
  rfc_udp_checksum (pseudo_v4 (nth 10 (ex_v4hdr 0 0 0) []) (nth 11 (ex_v4hdr 0 0 0) []) 40)
                   (concat (ex_udphdr 40 0 ++ exs_vals exs_ck) ++ exs_pl).
Definition ex4us_fields : list field :=
  mk_fields (ids_ipv4 ++ ids_udp ++ exs_ids) (ex_v4hdr 60 17 ex4us_hck ++ ex_udphdr 40 ex4us_uck ++ exs_vals exs_ck).
Definition ex4us_pd : pdesc := mkpdesc Up ex4us_fields exs_pl.
Definition ex4us_rule : rule := mkrule [false; true] Compression (rfds_v4 ++ rfds_udp ++ rfds_sctp).

Example ex4us_shape : v4us_shape ex4us_fields.
Proof. unfold v4us_shape. shape_ex. Qed.
Example ex4us_correct : v4us_correct ex4us_fields exs_pl.
Proof. unfold v4us_correct. cbv zeta. repeat split; vm_compute; reflexivity. Qed.
Example ex4us_roundtrip : exists s, compress ex4us_pd ex4us_rule (Some Up) = Ok s /\
  decompress compute_functions s ex4us_rule (Some Up) = Ok (concat (map f_val ex4us_fields) ++ exs_pl).
Proof.
  apply (c01_roundtrip_ipv4_udp_sctp Up ex4us_pd ex4us_rule eq_refl).
  - vm_compute. repeat split.
  - vm_compute. reflexivity.
  - exact ex4us_shape.
  - exact ex4us_correct.
Qed.

(* the order of the compute stage matters: with the UDP checksum computed BEFORE the SCTP checksum (the
   packet order of the entries) the UDP checksum would be taken over the zero placeholder of the SCTP
   checksum and come out different *)
Example ex6us_packet_order_differs :
  run_computes (E6US true true true true)
    (combine (map f_id ex6us_fields) (pre_m (map (fun rf => is_comp (r_cda rf)) (rule_fds ex6us_rule)) ex6us_fields)
     ++ [(payload_fid, exs_pl)])
  <> Ok (combine (map f_id ex6us_fields) (map f_val ex6us_fields) ++ [(payload_fid, exs_pl)]).
Proof. vm_compute. discriminate. Qed.

(* ================================================================================================== *)
(* byte level: parse, compress and decompress (compute stage included) written with the Buffer          *)
(* operations (ParserBytes, SchcBytes, ComputeBytes), lifted through ComputeRefine                      *)
(* ================================================================================================== *)
From MS Require Import Buffer BufferSpec SchcBytes SchcRefine ComputeBytes Parsers ParserBytes ParserRefine EndToEnd ComputeRefine.

(* SCTP alone (c01_roundtrip_sctp) *)
Theorem c01_bytes_sctp s b bfs bpl r d :
  canon b -> bside b = LEFT -> canon_rule r -> bfactory s b = Ok (bfs, bpl) ->
  let pd := abs_pdesc abs (mkbpdesc d bfs bpl) in
  let r' := abs_rule abs r in
  rule_ok_dec compute_functions d pd r' -> spec_rule_applies pd r' = true ->
  sctp_shape (pd_fields pd) -> sctp_correct (pd_fields pd) (pd_payload pd) ->
  exists x y, bcompress (mkbpdesc d bfs bpl) r (Some d) = Ok x /\ canon x /\
              bdecompress_c x r (Some d) = Ok y /\ canon y /\ abs y = abs b /\ b_eq y b = Ok true.
Proof.
  intros Hb Hs Hr E pd r' Hok HA HS HC.
  apply (bytes_roundtrip_from_bits s b bfs bpl r d Hb Hs Hr E).
  exact (c01_roundtrip_sctp d pd r' eq_refl Hok HA HS HC).
Qed.

(* IPv6 / SCTP (c01_roundtrip_ipv6_sctp) *)
Theorem c01_bytes_ipv6_sctp s b bfs bpl r d :
  canon b -> bside b = LEFT -> canon_rule r -> bfactory s b = Ok (bfs, bpl) ->
  let pd := abs_pdesc abs (mkbpdesc d bfs bpl) in
  let r' := abs_rule abs r in
  rule_ok_dec compute_functions d pd r' -> spec_rule_applies pd r' = true ->
  v6s_shape (pd_fields pd) -> v6s_correct (pd_fields pd) (pd_payload pd) ->
  exists x y, bcompress (mkbpdesc d bfs bpl) r (Some d) = Ok x /\ canon x /\
              bdecompress_c x r (Some d) = Ok y /\ canon y /\ abs y = abs b /\ b_eq y b = Ok true.
Proof.
  intros Hb Hs Hr E pd r' Hok HA HS HC.
  apply (bytes_roundtrip_from_bits s b bfs bpl r d Hb Hs Hr E).
  exact (c01_roundtrip_ipv6_sctp d pd r' eq_refl Hok HA HS HC).
Qed.

(* IPv4 / SCTP (c01_roundtrip_ipv4_sctp) *)
Theorem c01_bytes_ipv4_sctp s b bfs bpl r d :
  canon b -> bside b = LEFT -> canon_rule r -> bfactory s b = Ok (bfs, bpl) ->
  let pd := abs_pdesc abs (mkbpdesc d bfs bpl) in
  let r' := abs_rule abs r in
  rule_ok_dec compute_functions d pd r' -> spec_rule_applies pd r' = true ->
  v4s_shape (pd_fields pd) -> v4s_correct (pd_fields pd) (pd_payload pd) ->
  exists x y, bcompress (mkbpdesc d bfs bpl) r (Some d) = Ok x /\ canon x /\
              bdecompress_c x r (Some d) = Ok y /\ canon y /\ abs y = abs b /\ b_eq y b = Ok true.
Proof.
  intros Hb Hs Hr E pd r' Hok HA HS HC.
  apply (bytes_roundtrip_from_bits s b bfs bpl r d Hb Hs Hr E).
  exact (c01_roundtrip_ipv4_sctp d pd r' eq_refl Hok HA HS HC).
Qed.

(* IPv6 / UDP / SCTP (c01_roundtrip_ipv6_udp_sctp): the byte-level decompressor sorts its entries as list.sort does
   (ComputeRefine.py_sort_bces_rel) and regenerates the SCTP checksum before the UDP checksum *)
Theorem c01_bytes_ipv6_udp_sctp s b bfs bpl r d :
  canon b -> bside b = LEFT -> canon_rule r -> bfactory s b = Ok (bfs, bpl) ->
  let pd := abs_pdesc abs (mkbpdesc d bfs bpl) in
  let r' := abs_rule abs r in
  rule_ok_dec compute_functions d pd r' -> spec_rule_applies pd r' = true ->
  v6us_shape (pd_fields pd) -> v6us_correct (pd_fields pd) (pd_payload pd) ->
  exists x y, bcompress (mkbpdesc d bfs bpl) r (Some d) = Ok x /\ canon x /\
              bdecompress_c x r (Some d) = Ok y /\ canon y /\ abs y = abs b /\ b_eq y b = Ok true.
Proof.
  intros Hb Hs Hr E pd r' Hok HA HS HC.
  apply (bytes_roundtrip_from_bits s b bfs bpl r d Hb Hs Hr E).
  exact (c01_roundtrip_ipv6_udp_sctp d pd r' eq_refl Hok HA HS HC).
Qed.

(* IPv4 / UDP / SCTP (c01_roundtrip_ipv4_udp_sctp) *)
Theorem c01_bytes_ipv4_udp_sctp s b bfs bpl r d :
  canon b -> bside b = LEFT -> canon_rule r -> bfactory s b = Ok (bfs, bpl) ->
  let pd := abs_pdesc abs (mkbpdesc d bfs bpl) in
  let r' := abs_rule abs r in
  rule_ok_dec compute_functions d pd r' -> spec_rule_applies pd r' = true ->
  v4us_shape (pd_fields pd) -> v4us_correct (pd_fields pd) (pd_payload pd) ->
  exists x y, bcompress (mkbpdesc d bfs bpl) r (Some d) = Ok x /\ canon x /\
              bdecompress_c x r (Some d) = Ok y /\ canon y /\ abs y = abs b /\ b_eq y b = Ok true.
Proof.
  intros Hb Hs Hr E pd r' Hok HA HS HC.
  apply (bytes_roundtrip_from_bits s b bfs bpl r d Hb Hs Hr E).
  exact (c01_roundtrip_ipv4_udp_sctp d pd r' eq_refl Hok HA HS HC).
Qed.

(* ---- non-vacuity at the byte level: the packets of the examples above as bytes, parsed by the library's
        parsers (the DATA chunk is split into its fields by the SCTP parser), every field sent as is except
        the lengths and checksums, which are computed ------------------------------------------------- *)
Definition brfds_v6 : list brfd :=
  map (fun i => mkbrfd (mkfid P_IPv6 i) (if i =? 3 then 16 else 0) 0 Bi (BTVbuf (mkbuf [] 0 LEFT 0)) MO_ignore
                       (if i =? 3 then Compute else ValueSent)) [0; 1; 2; 3; 4; 5; 6; 7].
Definition brfds_v4 : list brfd :=
  map (fun i => mkbrfd (mkfid P_IPv4 i) (if (i =? 3) || (i =? 9) then 16 else 0) 0 Bi (BTVbuf (mkbuf [] 0 LEFT 0)) MO_ignore
                       (if (i =? 3) || (i =? 9) then Compute else ValueSent)) [0; 1; 2; 3; 4; 5; 6; 7; 8; 9; 10; 11].
Definition brfds_udp : list brfd :=
  map (fun i => mkbrfd (mkfid P_UDP i) (if i <? 2 then 0 else 16) 0 Bi (BTVbuf (mkbuf [] 0 LEFT 0)) MO_ignore
                       (if i <? 2 then ValueSent else Compute)) [0; 1; 2; 3].
Definition brfds_sctp : list brfd :=
  map (fun i => mkbrfd (mkfid P_SCTP i) (if i =? 3 then 32 else 0) 0 Bi (BTVbuf (mkbuf [] 0 LEFT 0)) MO_ignore
                       (if i =? 3 then Compute else ValueSent)) [0; 1; 2; 3; 4; 5; 6; 9; 10; 11; 12; 13].

Definition exsb_packet : buf :=
  mkbuf [4; 210; 22; 46; 222; 173; 190; 239; 9; 186; 229; 129;
         0; 3; 0; 20; 0; 0; 0; 7; 0; 1; 0; 2; 0; 0; 0; 0; 1; 2; 3; 4] 256 LEFT 0.
Definition exsb_rule : brule := mkbrule (mkbuf [3] 2 LEFT 6) Compression brfds_sctp.
Definition ex6sb_packet : buf :=
  mkbuf [96; 0; 0; 0; 0; 32; 132; 64;
         32; 1; 13; 184; 0; 0; 0; 0; 0; 0; 0; 0; 0; 0; 0; 1;
         32; 1; 13; 184; 0; 0; 0; 0; 0; 0; 0; 0; 0; 0; 0; 2;
         4; 210; 22; 46; 222; 173; 190; 239; 9; 186; 229; 129;
         0; 3; 0; 20; 0; 0; 0; 7; 0; 1; 0; 2; 0; 0; 0; 0; 1; 2; 3; 4] 576 LEFT 0.
Definition ex6sb_rule : brule := mkbrule (mkbuf [2] 2 LEFT 6) Compression (brfds_v6 ++ brfds_sctp).
Definition ex4sb_packet : buf :=
  mkbuf [69; 0; 0; 52; 18; 52; 64; 0; 64; 132; 164; 14; 192; 0; 2; 1; 192; 0; 2; 2;
         4; 210; 22; 46; 222; 173; 190; 239; 9; 186; 229; 129;
         0; 3; 0; 20; 0; 0; 0; 7; 0; 1; 0; 2; 0; 0; 0; 0; 1; 2; 3; 4] 416 LEFT 0.
Definition ex4sb_rule : brule := mkbrule (mkbuf [1] 2 LEFT 6) Compression (brfds_v4 ++ brfds_sctp).
Definition ex6usb_packet : buf :=
  mkbuf [96; 0; 0; 0; 0; 40; 17; 64;
         32; 1; 13; 184; 0; 0; 0; 0; 0; 0; 0; 0; 0; 0; 0; 1;
         32; 1; 13; 184; 0; 0; 0; 0; 0; 0; 0; 0; 0; 0; 0; 2;
         19; 136; 0; 132; 0; 40; 228; 28;
         4; 210; 22; 46; 222; 173; 190; 239; 9; 186; 229; 129;
         0; 3; 0; 20; 0; 0; 0; 7; 0; 1; 0; 2; 0; 0; 0; 0; 1; 2; 3; 4] 640 LEFT 0.
Definition ex6usb_rule : brule := mkbrule (mkbuf [2] 2 LEFT 6) Compression (brfds_v6 ++ brfds_udp ++ brfds_sctp).
Definition ex4usb_packet : buf :=
  mkbuf [69; 0; 0; 60; 18; 52; 64; 0; 64; 17; 164; 121; 192; 0; 2; 1; 192; 0; 2; 2;
         19; 136; 0; 132; 0; 40; 187; 141;
         4; 210; 22; 46; 222; 173; 190; 239; 9; 186; 229; 129;
         0; 3; 0; 20; 0; 0; 0; 7; 0; 1; 0; 2; 0; 0; 0; 0; 1; 2; 3; 4] 480 LEFT 0.
Definition ex4usb_rule : brule := mkbrule (mkbuf [1] 2 LEFT 6) Compression (brfds_v4 ++ brfds_udp ++ brfds_sctp).

Example exsb_packet_canon : canon exsb_packet.
Proof. unfold exsb_packet. canon_concrete. Qed.
Example exsb_rule_canon : canon_rule exsb_rule.
Proof.
  unfold exsb_rule. split; cbn [brule_id brule_fds]; [canon_concrete|].
  unfold brfds_v6, brfds_v4, brfds_udp, brfds_sctp. cbn [map app].
  repeat constructor; unfold canon_rfd; cbn [br_tv canon_tv]; canon_concrete.
Qed.
Example c01_bytes_sctp_ex : exists bfs bpl x y,
  bfactory S_SCTP exsb_packet = Ok (bfs, bpl) /\
  bcompress (mkbpdesc Up bfs bpl) exsb_rule (Some Up) = Ok x /\ canon x /\
  bdecompress_c x exsb_rule (Some Up) = Ok y /\ canon y /\ abs y = abs exsb_packet /\ b_eq y exsb_packet = Ok true.
Proof.
  destruct (bfactory S_SCTP exsb_packet) as [[bfs bpl]| |] eqn:E; vm_compute in E; try discriminate E.
  injection E as <- <-. do 2 eexists.
  match goal with |- exists x y, _ = Ok (?f, ?p) /\ _ =>
    destruct (c01_bytes_sctp S_SCTP exsb_packet f p exsb_rule Up exsb_packet_canon eq_refl exsb_rule_canon)
      as (x & y & H) end.
  - vm_compute. reflexivity.
  - vm_compute. repeat split.
  - vm_compute. reflexivity.
  - unfold sctp_shape. shape_ex.
  - unfold sctp_correct. cbv zeta. repeat split; vm_compute; reflexivity.
  - exists x, y. split; [reflexivity|exact H].
Qed.

Example ex6sb_packet_canon : canon ex6sb_packet.
Proof. unfold ex6sb_packet. canon_concrete. Qed.
Example ex6sb_rule_canon : canon_rule ex6sb_rule.
Proof.
  unfold ex6sb_rule. split; cbn [brule_id brule_fds]; [canon_concrete|].
  unfold brfds_v6, brfds_v4, brfds_udp, brfds_sctp. cbn [map app].
  repeat constructor; unfold canon_rfd; cbn [br_tv canon_tv]; canon_concrete.
Qed.
Example c01_bytes_ipv6_sctp_ex : exists bfs bpl x y,
  bfactory S_IPv6 ex6sb_packet = Ok (bfs, bpl) /\
  bcompress (mkbpdesc Up bfs bpl) ex6sb_rule (Some Up) = Ok x /\ canon x /\
  bdecompress_c x ex6sb_rule (Some Up) = Ok y /\ canon y /\ abs y = abs ex6sb_packet /\ b_eq y ex6sb_packet = Ok true.
Proof.
  destruct (bfactory S_IPv6 ex6sb_packet) as [[bfs bpl]| |] eqn:E; vm_compute in E; try discriminate E.
  injection E as <- <-. do 2 eexists.
  match goal with |- exists x y, _ = Ok (?f, ?p) /\ _ =>
    destruct (c01_bytes_ipv6_sctp S_IPv6 ex6sb_packet f p ex6sb_rule Up ex6sb_packet_canon eq_refl ex6sb_rule_canon)
      as (x & y & H) end.
  - vm_compute. reflexivity.
  - vm_compute. repeat split.
  - vm_compute. reflexivity.
  - unfold v6s_shape. shape_ex.
  - unfold v6s_correct. cbv zeta. repeat split; vm_compute; reflexivity.
  - exists x, y. split; [reflexivity|exact H].
Qed.

Example ex4sb_packet_canon : canon ex4sb_packet.
Proof. unfold ex4sb_packet. canon_concrete. Qed.
Example ex4sb_rule_canon : canon_rule ex4sb_rule.
Proof.
  unfold ex4sb_rule. split; cbn [brule_id brule_fds]; [canon_concrete|].
  unfold brfds_v6, brfds_v4, brfds_udp, brfds_sctp. cbn [map app].
  repeat constructor; unfold canon_rfd; cbn [br_tv canon_tv]; canon_concrete.
Qed.
Example c01_bytes_ipv4_sctp_ex : exists bfs bpl x y,
  bfactory S_IPv4 ex4sb_packet = Ok (bfs, bpl) /\
  bcompress (mkbpdesc Up bfs bpl) ex4sb_rule (Some Up) = Ok x /\ canon x /\
  bdecompress_c x ex4sb_rule (Some Up) = Ok y /\ canon y /\ abs y = abs ex4sb_packet /\ b_eq y ex4sb_packet = Ok true.
Proof.
  destruct (bfactory S_IPv4 ex4sb_packet) as [[bfs bpl]| |] eqn:E; vm_compute in E; try discriminate E.
  injection E as <- <-. do 2 eexists.
  match goal with |- exists x y, _ = Ok (?f, ?p) /\ _ =>
    destruct (c01_bytes_ipv4_sctp S_IPv4 ex4sb_packet f p ex4sb_rule Up ex4sb_packet_canon eq_refl ex4sb_rule_canon)
      as (x & y & H) end.
  - vm_compute. reflexivity.
  - vm_compute. repeat split.
  - vm_compute. reflexivity.
  - unfold v4s_shape. shape_ex.
  - unfold v4s_correct. cbv zeta. repeat split; vm_compute; reflexivity.
  - exists x, y. split; [reflexivity|exact H].
Qed.

Example ex6usb_packet_canon : canon ex6usb_packet.
Proof. unfold ex6usb_packet. canon_concrete. Qed.
Example ex6usb_rule_canon : canon_rule ex6usb_rule.
Proof.
  unfold ex6usb_rule. split; cbn [brule_id brule_fds]; [canon_concrete|].
  unfold brfds_v6, brfds_v4, brfds_udp, brfds_sctp. cbn [map app].
  repeat constructor; unfold canon_rfd; cbn [br_tv canon_tv]; canon_concrete.
Qed.
Example c01_bytes_ipv6_udp_sctp_ex : exists bfs bpl x y,
  bfactory S_IPv6 ex6usb_packet = Ok (bfs, bpl) /\
  bcompress (mkbpdesc Up bfs bpl) ex6usb_rule (Some Up) = Ok x /\ canon x /\
  bdecompress_c x ex6usb_rule (Some Up) = Ok y /\ canon y /\ abs y = abs ex6usb_packet /\ b_eq y ex6usb_packet = Ok true.
Proof.
  destruct (bfactory S_IPv6 ex6usb_packet) as [[bfs bpl]| |] eqn:E; vm_compute in E; try discriminate E.
  injection E as <- <-. do 2 eexists.
  match goal with |- exists x y, _ = Ok (?f, ?p) /\ _ =>
    destruct (c01_bytes_ipv6_udp_sctp S_IPv6 ex6usb_packet f p ex6usb_rule Up ex6usb_packet_canon eq_refl ex6usb_rule_canon)
      as (x & y & H) end.
  - vm_compute. reflexivity.
  - vm_compute. repeat split.
  - vm_compute. reflexivity.
  - unfold v6us_shape. shape_ex.
  - unfold v6us_correct. cbv zeta. repeat split; vm_compute; reflexivity.
  - exists x, y. split; [reflexivity|exact H].
Qed.

Example ex4usb_packet_canon : canon ex4usb_packet.
Proof. unfold ex4usb_packet. canon_concrete. Qed.
Example ex4usb_rule_canon : canon_rule ex4usb_rule.
Proof.
  unfold ex4usb_rule. split; cbn [brule_id brule_fds]; [canon_concrete|].
  unfold brfds_v6, brfds_v4, brfds_udp, brfds_sctp. cbn [map app].
  repeat constructor; unfold canon_rfd; cbn [br_tv canon_tv]; canon_concrete.
Qed.
Example c01_bytes_ipv4_udp_sctp_ex : exists bfs bpl x y,
  bfactory S_IPv4 ex4usb_packet = Ok (bfs, bpl) /\
  bcompress (mkbpdesc Up bfs bpl) ex4usb_rule (Some Up) = Ok x /\ canon x /\
  bdecompress_c x ex4usb_rule (Some Up) = Ok y /\ canon y /\ abs y = abs ex4usb_packet /\ b_eq y ex4usb_packet = Ok true.
Proof.
  destruct (bfactory S_IPv4 ex4usb_packet) as [[bfs bpl]| |] eqn:E; vm_compute in E; try discriminate E.
  injection E as <- <-. do 2 eexists.
  match goal with |- exists x y, _ = Ok (?f, ?p) /\ _ =>
    destruct (c01_bytes_ipv4_udp_sctp S_IPv4 ex4usb_packet f p ex4usb_rule Up ex4usb_packet_canon eq_refl ex4usb_rule_canon)
      as (x & y & H) end.
  - vm_compute. reflexivity.
  - vm_compute. repeat split.
  - vm_compute. reflexivity.
  - unfold v4us_shape. shape_ex.
  - unfold v4us_correct. cbv zeta. repeat split; vm_compute; reflexivity.
  - exists x, y. split; [reflexivity|exact H].
Qed.

(* the computations themselves, compared with the Python library (commit "compute the UDP checksum after the
   checksum of an SCTP packet carried in the datagram"): for each packet and rule above
     pd = factory(stack).parse(Buffer(packet, 8 * len(packet))); sp = compress(pd, rule, UP); out = decompress(sp, rule, direction=UP)
   Python gives sp = the bytes and bit length below and out.content == packet. *)
Example c01_bytes_sctp_values :
  (do p <- bfactory S_SCTP exsb_packet ;;
   do x <- bcompress (mkbpdesc Up (fst p) (snd p)) exsb_rule (Some Up) ;;
   do y <- bdecompress_c x exsb_rule (Some Up) ;; Ok (content x, blen x, content y, blen y)) =
  Ok ([252; 64; 19; 75; 196; 5; 139; 188; 131; 122; 182; 251; 190; 0; 32; 15; 196; 0; 5; 60; 128; 0; 0; 0; 31; 196;
       0; 0; 124; 64; 0; 11; 200; 0; 0; 0; 0; 60; 128; 4; 8; 12; 16], 342, content exsb_packet, blen exsb_packet).
Proof. vm_compute. reflexivity. Qed.
Example c01_bytes_ipv6_sctp_values :
  (do p <- bfactory S_IPv6 ex6sb_packet ;;
   do x <- bcompress (mkbpdesc Up (fst p) (snd p)) ex6sb_rule (Some Up) ;;
   do y <- bdecompress_c x ex6sb_rule (Some Up) ;; Ok (content x, blen x, content y, blen y)) =
  Ok ([145; 160; 3; 197; 0; 0; 2; 33; 33; 3; 224; 8; 0; 67; 110; 0; 0; 0; 0; 0; 0; 0; 0; 0; 0; 0; 0; 126; 0; 128; 4;
       54; 224; 0; 0; 0; 0; 0; 0; 0; 0; 0; 0; 0; 11; 196; 1; 52; 188; 64; 88; 187; 200; 55; 171; 111; 187; 224; 2; 0;
       252; 64; 0; 83; 200; 0; 0; 0; 1; 252; 64; 0; 7; 196; 0; 0; 188; 128; 0; 0; 0; 3; 200; 0; 64; 128; 193; 0], 698, content ex6sb_packet, blen ex6sb_packet).
Proof. vm_compute. reflexivity. Qed.
Example c01_bytes_ipv4_sctp_values :
  (do p <- bfactory S_IPv4 ex4sb_packet ;;
   do x <- bcompress (mkbpdesc Up (fst p) (snd p)) ex4sb_rule (Some Up) ;;
   do y <- bdecompress_c x ex4sb_rule (Some Up) ;; Ok (content x, blen x, content y, blen y)) =
  Ok ([81; 17; 96; 3; 196; 4; 141; 13; 104; 0; 33; 2; 33; 60; 131; 0; 0; 8; 7; 200; 48; 0; 0; 128; 188; 64; 19; 75;
       196; 5; 139; 188; 131; 122; 182; 251; 190; 0; 32; 15; 196; 0; 5; 60; 128; 0; 0; 0; 31; 196; 0; 0; 124; 64; 0;
       11; 200; 0; 0; 0; 0; 60; 128; 4; 8; 12; 16], 534, content ex4sb_packet, blen ex4sb_packet).
Proof. vm_compute. reflexivity. Qed.
Example c01_bytes_ipv6_udp_sctp_values :
  (do p <- bfactory S_IPv6 ex6usb_packet ;;
   do x <- bcompress (mkbpdesc Up (fst p) (snd p)) ex6usb_rule (Some Up) ;;
   do y <- bdecompress_c x ex6usb_rule (Some Up) ;; Ok (content x, blen x, content y, blen y)) =
  Ok ([145; 160; 3; 197; 0; 0; 2; 4; 97; 3; 224; 8; 0; 67; 110; 0; 0; 0; 0; 0; 0; 0; 0; 0; 0; 0; 0; 126; 0; 128; 4;
       54; 224; 0; 0; 0; 0; 0; 0; 0; 0; 0; 0; 0; 11; 196; 4; 226; 60; 64; 2; 19; 196; 1; 52; 188; 64; 88; 187; 200;
       55; 171; 111; 187; 224; 2; 0; 252; 64; 0; 83; 200; 0; 0; 0; 1; 252; 64; 0; 7; 196; 0; 0; 188; 128; 0; 0; 0; 3;
       200; 0; 64; 128; 193; 0], 754, content ex6usb_packet, blen ex6usb_packet).
Proof. vm_compute. reflexivity. Qed.
Example c01_bytes_ipv4_udp_sctp_values :
  (do p <- bfactory S_IPv4 ex4usb_packet ;;
   do x <- bcompress (mkbpdesc Up (fst p) (snd p)) ex4usb_rule (Some Up) ;;
   do y <- bdecompress_c x ex4usb_rule (Some Up) ;; Ok (content x, blen x, content y, blen y)) =
  Ok ([81; 17; 96; 3; 196; 4; 141; 13; 104; 0; 33; 2; 4; 124; 131; 0; 0; 8; 7; 200; 48; 0; 0; 128; 188; 64; 78; 35;
       196; 0; 33; 60; 64; 19; 75; 196; 5; 139; 188; 131; 122; 182; 251; 190; 0; 32; 15; 196; 0; 5; 60; 128; 0; 0; 0;
       31; 196; 0; 0; 124; 64; 0; 11; 200; 0; 0; 0; 0; 60; 128; 4; 8; 12; 16], 590, content ex4usb_packet, blen ex4usb_packet).
Proof. vm_compute. reflexivity. Qed.

