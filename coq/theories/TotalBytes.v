(* C20 at the byte level: the byte-level decompressor with its compute stage (ComputeBytes.bdecompress_c) is total on
   well-formed rules, by composing SchcTotal.c20_total with ComputeRefine.bdecompress_c_refines. *)
From Coq Require Import ZArith List Bool Lia.
From MS Require Import PyBase Buffer Bits BufferAbs BufferSpec Schc SchcSpec SchcRules Compute SchcTotal SchcBytes SchcRefine
  ComputeBytes ComputeRefine.
Import ListNotations.
Open Scope Z_scope.

Theorem bdecompress_c_total s r d : canon s -> canon_rule r ->
  forallb (cda_typed compute_functions) (select_fds d (rule_fds (abs_rule abs r))) = true ->
  stack_shaped (select_fds d (rule_fds (abs_rule abs r))) -> blen s < 8 * 65000 ->
  (forall rf, In rf (select_fds d (rule_fds (abs_rule abs r))) -> r_cda rf = Compute -> r_len rf = compute_len (r_id rf)) ->
  static_bits (select_fds d (rule_fds (abs_rule abs r))) <= 4280 ->
  exists x, bdecompress_c s r d = Ok x /\ canon x.
Proof.
  intros Hs Hr T S L C B.
  assert (Lz : zlen (abs s) < 8 * 65000) by (rewrite zlen_abs by exact Hs; exact L).
  destruct (c20_total (abs_rule abs r) d (abs s) T S Lz C B) as [p E].
  destruct (bdecompress_c_refines s r d p Hs Hr E) as (x & Ex & Cx & _).
  exists x. split; assumption.
Qed.
