(* C20 at the byte level, above the rule: ContextManager.decompress (ManagerBytes.bcm_decompress) and the front end
   /repo/microschc.py SCHC.decompress (ManagerBytes.bschc_decompress) are total on well-formed rule sets:
   SchcTotal.c20_manager composed with ManagerRefine.bcm_decompress_refines; the front end by induction on its contexts
   (it swallows exactly the rule-ID error and hands the frame back when no context takes it). *)
From Coq Require Import ZArith List Bool Lia.
From MS Require Import PyBase Buffer Bits BufferAbs BufferSpec Schc SchcSpec SchcRules Compute SchcTotal SchcBytes SchcRefine
  Parsers ParserBytes ParserRefine EndToEnd ComputeBytes ComputeRefine ManagerBytes ManagerRefine.
Import ListNotations.
Open Scope Z_scope.

Definition brules_total_ok (d : option dir) (rules : list brule) : Prop :=
  Forall canon_rule rules /\ forall r, In r rules -> rule_total_ok d (abs_rule abs r).

Theorem bcm_decompress_total rules s d : brules_total_ok d rules -> canon s -> blen s < 8 * 65000 ->
  (exists x, bcm_decompress rules s d = Ok x /\ canon x) \/ bcm_decompress rules s d = Exc RuleIDMatchError.
Proof.
  intros [Hc Hr] Hs L.
  assert (Lz : zlen (abs s) < 8 * 65000) by (rewrite zlen_abs by exact Hs; exact L).
  assert (Hr' : forall r, In r (map (abs_rule abs) rules) -> rule_total_ok d r).
  { intros r Hi. apply in_map_iff in Hi. destruct Hi as (br & <- & Hi). exact (Hr br Hi). }
  pose proof (bcm_decompress_refines rules s d Hc Hs) as R.
  destruct (c20_manager (map (abs_rule abs) rules) (abs s) d Hr' Lz) as [[p E]|E]; rewrite E in R;
    destruct (bcm_decompress rules s d) as [x|e|]; cbn in R; try contradiction.
  - left. exists x. split; [reflexivity|exact (proj1 R)].
  - right. rewrite R. reflexivity.
Qed.

(* the front end: every context's rules well-formed (for the direction it passes, UP) -> a Buffer comes back, never an exception *)
Theorem bschc_decompress_total ctxs s : Forall (fun c => brules_total_ok (Some Up) (bctx_rules c)) ctxs -> canon s ->
  blen s < 8 * 65000 -> exists x, bschc_decompress ctxs s = Ok x /\ canon x.
Proof.
  intros Hc Hs L. unfold bschc_decompress. induction Hc as [|c cs H _ IH]; cbn [bschc_decompress_ct].
  - exists s. split; [reflexivity|exact Hs].
  - change (bcm_decompress_ct bcompute_functions (bctx_rules c) s (Some Up)) with (bcm_decompress (bctx_rules c) s (Some Up)).
    destruct (bcm_decompress_total (bctx_rules c) s (Some Up) H Hs L) as [(x & E & Cx)|E]; rewrite E.
    + exists x. split; [reflexivity|exact Cx].
    + exact IH.
Qed.

(* non-vacuity: the example contexts of ManagerBytes.v meet the premise *)
Lemma ex6b_total_ok d : rule_total_ok d (abs_rule abs ex6b_rule).
Proof.
  assert (E : select_fds d (rule_fds (abs_rule abs ex6b_rule)) = rule_fds (abs_rule abs ex6b_rule))
    by (destruct d as [[]|]; vm_compute; reflexivity).
  unfold rule_total_ok. rewrite E.
  split; [vm_compute; reflexivity|]. split.
  - exists (ids_ipv6 ++ ids_udp), []. split; [vm_compute; reflexivity|]. split; [tauto|]. split; [constructor|].
    intros H. vm_compute in H. discriminate H.
  - split; [apply compute_len_check; vm_compute; reflexivity|]. vm_compute. discriminate.
Qed.

Lemma nocomp_total_ok d : rule_total_ok d (abs_rule abs mex_nocomp).
Proof.
  assert (E : select_fds d (rule_fds (abs_rule abs mex_nocomp)) = []) by (destruct d as [[]|]; vm_compute; reflexivity).
  unfold rule_total_ok. rewrite E.
  split; [reflexivity|]. split.
  - exists [], []. split; [reflexivity|]. split; [tauto|]. split; [constructor|]. intros H. vm_compute in H. discriminate H.
  - split; [intros rf []|]. vm_compute. discriminate.
Qed.

Example total_ex_rules d : brules_total_ok d [ex6b_rule; mex_nocomp].
Proof.
  split.
  - apply Forall_cons; [exact ex6b_rule_canon|]. apply Forall_cons; [|apply Forall_nil].
    cbv delta [mex_nocomp]. split; cbn [brule_id brule_fds]; [canon_concrete|constructor].
  - intros r [<-|[<-|[]]]; [apply ex6b_total_ok|apply nocomp_total_ok].
Qed.

(* a frame of garbage (rule id 0b10, then 0xdeadbeef cut after 29 bits) comes back as a Buffer; a frame no rule claims (id 0b11) is
   handed back by the front end and refused with the rule-ID error by the manager *)
Example total_ex_garbage :
  (exists x, bschc_decompress [mkbctx (bfactory S_IPv6) [ex6b_rule; mex_nocomp]] (mkbuf [183; 171; 111; 184] 29 RIGHT 3) = Ok x /\ canon x) /\
  bcm_decompress [ex6b_rule; mex_nocomp] (mkbuf [192] 2 RIGHT 6) None = Exc RuleIDMatchError /\
  bschc_decompress [mkbctx (bfactory S_IPv6) [ex6b_rule; mex_nocomp]] (mkbuf [192] 2 RIGHT 6) = Ok (mkbuf [192] 2 RIGHT 6).
Proof.
  split; [|split; vm_compute; reflexivity].
  apply bschc_decompress_total; [apply Forall_cons; [apply total_ex_rules|apply Forall_nil]| canon_concrete | vm_compute; reflexivity].
Qed.
