(* UdpSctpOrder.v -- the order in which the decompressor regenerates the UDP checksum and the checksum of an
   SCTP packet carried in the datagram.  The UDP checksum covers the whole datagram, the SCTP checksum
   included; since the dependency set of the UDP checksum contains SCTPFields.CHECKSUM
   (Compute.UDP_CHECKSUM_DEPS), compute_function_sort(SCTP checksum, UDP checksum) = -1 and list.sort
   (Schc.py_sort_ces) moves the SCTP checksum entry in front of the UDP checksum entry, the UDP length
   staying first.  The entries of a rule in packet order are  [.., UDP length, UDP checksum, SCTP checksum]. *)
From Coq Require Import ZArith List Bool Lia.
From MS Require Import PyBase Buffer Bits PySort Schc Compute SchcSpec SchcCodec SchcBytes ParserBytes Parsers ComputeBytes.
Import ListNotations.
Open Scope Z_scope.

(* ---- the three entries, at positions p, p + 1 and q > p + 1, with any functions --------------------- *)
Theorem udp_sctp_order p q f1 f2 f3 : p + 1 < q ->
  let len := mkcentry p UDP_LENGTH f1 [] in
  let uck := mkcentry (p + 1) UDP_CHECKSUM f2 UDP_CHECKSUM_DEPS in
  let sck := mkcentry q SCTP_CHECKSUM f3 SCTP_ALL_BUT_CHECKSUM in
  py_sort_ces [len; uck; sck] = Some [len; sck; uck].
Proof.
  intros H len uck sck.
  (* the comparisons list.sort makes, in its order *)
  assert (L1 : ce_lt uck len = false) by reflexivity.       (* count_run: ascending *)
  assert (L2 : ce_lt sck uck = true) by reflexivity.        (* count_run: the run ends; binarysort: left of uck *)
  assert (L3 : ce_lt sck len = false).                      (* binarysort: right of len *)
  { unfold ce_lt, ce_cmp. change (in_fids (ce_id sck) (ce_deps len)) with false.
    change (in_fids (ce_id len) (ce_deps sck)) with false. cbn [ce_pos sck len]. apply Z.ltb_ge. lia. }
  unfold py_sort_ces, py_sort. cbn [length Nat.leb]. unfold count_run. rewrite L1. cbn [run_asc]. rewrite L2.
  cbn [binsort length]. cbn [bisect Nat.ltb Nat.leb Nat.sub Nat.add Nat.div Nat.divmod fst nth_error].
  rewrite L2. cbn [bisect Nat.ltb Nat.leb Nat.sub Nat.add Nat.div Nat.divmod fst nth_error].
  rewrite L3. cbn [bisect Nat.ltb Nat.leb]. reflexivity.
Qed.

(* the entries are not in the order of the comparison any more: the former model (sorted lists only)
   answered Unmodelled here *)
Theorem udp_sctp_not_sorted p q f1 f2 f3 :
  ce_sorted [mkcentry p UDP_LENGTH f1 []; mkcentry (p + 1) UDP_CHECKSUM f2 UDP_CHECKSUM_DEPS;
             mkcentry q SCTP_CHECKSUM f3 SCTP_ALL_BUT_CHECKSUM] = false.
Proof. reflexivity. Qed.

(* ---- at the level of the rule ---------------------------------------------------------------------- *)
Lemma centries_of_app ct a : forall b pos,
  centries_of ct pos (a ++ b) = centries_of ct pos a ++ centries_of ct (pos + zlen a) b.
Proof.
  induction a as [|rf a IH]; intros b pos.
  - cbn [app centries_of]. unfold zlen. cbn [length]. now rewrite Z.add_0_r.
  - cbn [app]. rewrite !centries_of_cons, IH, <- app_assoc. do 3 f_equal.
    unfold zlen. cbn [length]. lia.
Qed.

Definition no_compute (rfs : list rfd) : bool :=
  forallb (fun rf => match r_cda rf with Compute => false | _ => true end) rfs.

(* a rule in packet order whose only compute fields are the UDP length, the UDP checksum right after it
   and, further on, the SCTP checksum: the compute functions run in the order length, SCTP checksum,
   UDP checksum *)
Theorem udp_sctp_rule_order pre mid post ulen uck sck :
  no_compute pre = true -> no_compute mid = true -> no_compute post = true ->
  r_cda ulen = Compute -> r_id ulen = UDP_LENGTH ->
  r_cda uck = Compute -> r_id uck = UDP_CHECKSUM ->
  r_cda sck = Compute -> r_id sck = SCTP_CHECKSUM ->
  let p := zlen pre in
  let q := p + 2 + zlen mid in
  py_sort_ces (centries_of compute_functions 0 (pre ++ [ulen; uck] ++ mid ++ [sck] ++ post)) =
  Some [mkcentry p UDP_LENGTH udp_length [];
        mkcentry q SCTP_CHECKSUM sctp_checksum SCTP_ALL_BUT_CHECKSUM;
        mkcentry (p + 1) UDP_CHECKSUM udp_checksum UDP_CHECKSUM_DEPS].
Proof.
  intros N1 N2 N3 C1 I1 C2 I2 C3 I3 p q.
  rewrite !centries_of_app.
  rewrite (centries_nocompute _ pre _ N1), (centries_nocompute _ mid _ N2), (centries_nocompute _ post _ N3).
  cbn [centries_of app]. rewrite C1, C2, C3, I1, I2, I3.
  change (compute_functions UDP_LENGTH) with (Some (udp_length, @nil fid)).
  change (compute_functions UDP_CHECKSUM) with (Some (udp_checksum, UDP_CHECKSUM_DEPS)).
  change (compute_functions SCTP_CHECKSUM) with (Some (sctp_checksum, SCTP_ALL_BUT_CHECKSUM)).
  cbn [app].
  replace (0 + zlen pre) with p by (subst p; lia).
  replace (0 + zlen pre + 1) with (p + 1) by (subst p; lia).
  replace (0 + zlen pre + zlen [ulen; uck] + zlen mid) with q by (subst q p; unfold zlen; cbn [length]; lia).
  apply udp_sctp_order. subst q. pose proof (Zle_0_nat (length mid)). unfold zlen. lia.
Qed.

(* ---- concrete instances (the orders are those CPython produces, see SortExamples.v) ------------------ *)
Definition nofn : compute_fn := fun _ _ => Exc Unmodelled.

Example udp_sctp_order_ex :
  option_map (map ce_pos)
    (py_sort_ces [mkcentry 2 UDP_LENGTH nofn []; mkcentry 3 UDP_CHECKSUM nofn UDP_CHECKSUM_DEPS;
                  mkcentry 7 SCTP_CHECKSUM nofn SCTP_ALL_BUT_CHECKSUM]) = Some [2; 7; 3].
Proof. vm_compute. reflexivity. Qed.

(* an IPv6 / UDP / SCTP rule in packet order: 8 IPv6 fields, 4 UDP fields, the SCTP common header and a
   chunk header; the IPv6 payload length, the UDP length and the two checksums are computed *)
Definition v6_udp_sctp_fds : list rfd :=
  map (fun i => mkrfd (mkfid P_IPv6 i) (if i =? 3 then 16 else 0) 1 Bi (TVbuf []) MO_ignore
                      (if i =? 3 then Compute else ValueSent)) [0; 1; 2; 3; 4; 5; 6; 7]
  ++ map (fun i => mkrfd (mkfid P_UDP i) 16 1 Bi (TVbuf []) MO_ignore
                      (if i <? 2 then ValueSent else Compute)) [0; 1; 2; 3]
  ++ map (fun i => mkrfd (mkfid P_SCTP i) (if i =? 3 then 32 else 0) 1 Bi (TVbuf []) MO_ignore
                      (if i =? 3 then Compute else ValueSent)) [0; 1; 2; 3; 4; 5; 6].

Example v6_udp_sctp_entries :
  map (fun e => (ce_pos e, ce_id e)) (centries_of compute_functions 0 v6_udp_sctp_fds) =
  [(3, IPV6_PAYLOAD_LENGTH); (10, UDP_LENGTH); (11, UDP_CHECKSUM); (15, SCTP_CHECKSUM)].
Proof. vm_compute. reflexivity. Qed.

Example v6_udp_sctp_order :
  option_map (map (fun e => (ce_pos e, ce_id e))) (py_sort_ces (centries_of compute_functions 0 v6_udp_sctp_fds)) =
  Some [(3, IPV6_PAYLOAD_LENGTH); (10, UDP_LENGTH); (15, SCTP_CHECKSUM); (11, UDP_CHECKSUM)].
Proof. vm_compute. reflexivity. Qed.

(* the same over IPv4 (12 header fields, total length and header checksum computed too) *)
Definition v4_udp_sctp_fds : list rfd :=
  map (fun i => mkrfd (mkfid P_IPv4 i) (if (i =? 3) || (i =? 9) then 16 else 0) 1 Bi (TVbuf []) MO_ignore
                      (if (i =? 3) || (i =? 9) then Compute else ValueSent)) [0; 1; 2; 3; 4; 5; 6; 7; 8; 9; 10; 11]
  ++ map (fun i => mkrfd (mkfid P_UDP i) 16 1 Bi (TVbuf []) MO_ignore
                      (if i <? 2 then ValueSent else Compute)) [0; 1; 2; 3]
  ++ map (fun i => mkrfd (mkfid P_SCTP i) (if i =? 3 then 32 else 0) 1 Bi (TVbuf []) MO_ignore
                      (if i =? 3 then Compute else ValueSent)) [0; 1; 2; 3; 4; 5; 6].

Example v4_udp_sctp_order :
  option_map (map (fun e => (ce_pos e, ce_id e))) (py_sort_ces (centries_of compute_functions 0 v4_udp_sctp_fds)) =
  Some [(3, IPV4_TOTAL_LENGTH); (9, IPV4_HEADER_CHECKSUM); (14, UDP_LENGTH); (19, SCTP_CHECKSUM); (15, UDP_CHECKSUM)].
Proof. vm_compute. reflexivity. Qed.

(* udp_sctp_rule_order applies to the UDP / SCTP part of such a rule on its own *)
Example udp_sctp_rule_order_ex :
  option_map (map ce_pos) (py_sort_ces (centries_of compute_functions 0 (skipn 8 v6_udp_sctp_fds))) = Some [2; 7; 3].
Proof.
  change (skipn 8 v6_udp_sctp_fds) with
    (firstn 2 (skipn 8 v6_udp_sctp_fds) ++ [nth 10 v6_udp_sctp_fds (mkrfd payload_fid 0 0 Bi (TVbuf []) MO_ignore NotSent);
                                            nth 11 v6_udp_sctp_fds (mkrfd payload_fid 0 0 Bi (TVbuf []) MO_ignore NotSent)]
     ++ firstn 3 (skipn 12 v6_udp_sctp_fds) ++ [nth 15 v6_udp_sctp_fds (mkrfd payload_fid 0 0 Bi (TVbuf []) MO_ignore NotSent)]
     ++ skipn 16 v6_udp_sctp_fds).
  rewrite udp_sctp_rule_order; reflexivity.
Qed.

(* ---- the whole decompressor on an IPv6 / UDP / SCTP packet, compared with the library ------------------ *)
(* 80 bytes: IPv6 header, UDP header (destination port 132), SCTP common header, one DATA chunk of 4 bytes.
   The SCTP checksum 0x09bae581 (CRC32c, RFC 9260 appendix A) and the UDP checksum 0xe41c (RFC 768, over
   the datagram WITH the SCTP checksum) were computed independently of the library (e2e_udp_sctp.py).
   The rule is in packet order: every field sent as is, except the IPv6 payload length, the UDP length,
   the UDP checksum and the SCTP checksum, which are computed.  Python (library at the commit "compute the
   UDP checksum after the checksum of an SCTP packet carried in the datagram"):
     pd = factory('IPv6').parse(Buffer(packet, 640)); sp = compress(pd, rule); out = decompress(sp, rule)
   gives sp = the 95 bytes below (754 bits) and out.content == packet. *)
Definition exus_packet : buf :=
  mkbuf [96; 0; 0; 0; 0; 40; 17; 64;
         32; 1; 13; 184; 0; 0; 0; 0; 0; 0; 0; 0; 0; 0; 0; 1;
         32; 1; 13; 184; 0; 0; 0; 0; 0; 0; 0; 0; 0; 0; 0; 2;
         19; 136; 0; 132; 0; 40; 228; 28;
         4; 210; 22; 46; 222; 173; 190; 239; 9; 186; 229; 129;
         0; 3; 0; 20; 0; 0; 0; 7; 0; 1; 0; 2; 0; 0; 0; 0; 1; 2; 3; 4] 640 LEFT 0.
Definition exus_rule : brule :=
  mkbrule (mkbuf [2] 2 LEFT 6) Compression
    (map (fun i => mkbrfd (mkfid P_IPv6 i) (if i =? 3 then 16 else 0) 0 Bi (BTVbuf (mkbuf [] 0 LEFT 0)) MO_ignore
                          (if i =? 3 then Compute else ValueSent)) [0; 1; 2; 3; 4; 5; 6; 7]
     ++ map (fun i => mkbrfd (mkfid P_UDP i) (if i <? 2 then 0 else 16) 0 Bi (BTVbuf (mkbuf [] 0 LEFT 0)) MO_ignore
                          (if i <? 2 then ValueSent else Compute)) [0; 1; 2; 3]
     ++ map (fun i => mkbrfd (mkfid P_SCTP i) (if i =? 3 then 32 else 0) 0 Bi (BTVbuf (mkbuf [] 0 LEFT 0)) MO_ignore
                          (if i =? 3 then Compute else ValueSent)) [0; 1; 2; 3; 4; 5; 6; 9; 10; 11; 12; 13]).

Example exus_roundtrip_values :
  (do p <- bfactory S_IPv6 exus_packet ;;
   do x <- bcompress (mkbpdesc Up (fst p) (snd p)) exus_rule (Some Up) ;;
   do y <- bdecompress_c x exus_rule (Some Up) ;; Ok (map bf_id (fst p), content x, blen x, content y, blen y)) =
  Ok (map (fun i => mkfid P_IPv6 i) [0; 1; 2; 3; 4; 5; 6; 7] ++ map (fun i => mkfid P_UDP i) [0; 1; 2; 3]
      ++ map (fun i => mkfid P_SCTP i) [0; 1; 2; 3; 4; 5; 6; 9; 10; 11; 12; 13],
      [145; 160; 3; 197; 0; 0; 2; 4; 97; 3; 224; 8; 0; 67; 110; 0; 0; 0; 0; 0; 0; 0; 0; 0; 0; 0; 0; 126; 0; 128; 4; 54;
       224; 0; 0; 0; 0; 0; 0; 0; 0; 0; 0; 0; 11; 196; 4; 226; 60; 64; 2; 19; 196; 1; 52; 188; 64; 88; 187; 200; 55; 171;
       111; 187; 224; 2; 0; 252; 64; 0; 83; 200; 0; 0; 0; 1; 252; 64; 0; 7; 196; 0; 0; 188; 128; 0; 0; 0; 3; 200; 0; 64;
       128; 193; 0], 754, content exus_packet, blen exus_packet).
Proof. vm_compute. reflexivity. Qed.
