"""bufcases.py -- case generators, implementation runner, bit-sequence oracle and model lines for the
Buffer layer (properties C05, C06, C13, C16 share it).

A case is a tuple (op, operands..., params...) where Buffer operands are (bits, side) pairs; they
are rebuilt fresh for every run so that in-place effects cannot leak between cases.
"""
from core import *  # noqa: F401,F403
from core import mk, raw, bits_of, canonical, snapshot, impl_outcome, side_char, L, R, randbits, Buffer


SIDES = ('L', 'R')


def B(bits, sd):
    return mk(bits, L if sd == 'L' else R)


# Some callers hand the constructor a `bytearray` they keep using (a receive buffer).  The library copies it (the constructor slices the
# content); a Buffer that keeps the caller's object instead changes when the caller's array does, and a non-in-place operation that
# extends `content` changes the operand and the caller's array.  A deterministic fifth of the cases of these operations builds its
# operands from bytearrays; afterwards the arrays must be what they were and the operands unchanged.  (Results of such operands may
# carry bytearray content on the unchanged tree: whether they hash is not asked of them.)
BA_OPS = ('copy', 'getitem', 'getint', 'add', 'pad', 'shift', 'and', 'or', 'xor', 'invert', 'value', 'chunks', 'iter', 'len', 'eq')


def Bba(bits, sd):
    n = len(bits)
    v = int(bits or '0', 2)
    nb = (n + 7) // 8
    ba = bytearray(v.to_bytes(nb, 'big') if sd == 'L' else (v << ((8 - n % 8) % 8)).to_bytes(nb, 'big'))
    b = Buffer(ba, n, L if sd == 'L' else R)
    return b, ba


def use_bytearray(case):
    import zlib
    return case[0] in BA_OPS and bool(case[1]) and zlib.crc32(repr(case).encode()) % 5 == 0


def contents(rnd, n, k=2):
    """A few revealing contents of length n: all ones, alternating, random."""
    if n == 0:
        return ['']
    out = ['1' * n, ('10' * n)[:n]]
    for _ in range(k):
        out.append(randbits(rnd, n))
    seen = []
    for c in out:
        if c not in seen:
            seen.append(c)
    return seen


def opt(x):
    return 'N' if x is None else str(x)


# ---------------------------------------------------------------------------------------------
# per-op: implementation call, expected result by the plain bit-sequence semantics, model line.
# expected: ('buf', bits) | ('bufside', bits, side) | ('int', v) | ('bool', b) | ('bits', str) | ('list', [bits]) | ('exc', name) | None (unconstrained)

def run_case(case):
    """Run one case on the implementation.  Returns a dict with the observation."""
    op = case[0]
    arrays = []
    if use_bytearray(case):
        ops = []
        try:
            for x in case[1]:
                b_, ba_ = Bba(*x)
                ops.append(b_)
                arrays.append((ba_, bytes(ba_)))
        except Exception:  # noqa: BLE001 -- a constructor that refuses anything but `bytes` is within its rights: the case runs on bytes
            arrays = []
            ops = [B(*x) for x in case[1]]
    else:
        ops = [B(*x) for x in case[1]]          # Buffer operands
    par = case[2]
    before = [snapshot(b) for b in ops]
    inplace_self = False
    if op == 'new':
        content, length, sd = par
        out = impl_outcome(lambda: Buffer(content, length, L if sd == 'L' else R))
    elif op == 'copy':
        out = impl_outcome(lambda: ops[0].copy())
    elif op == 'iter':
        out = impl_outcome(lambda: ''.join(str(x) for x in ops[0]))
    elif op == 'len':
        out = impl_outcome(lambda: len(ops[0]))
    elif op == 'getitem':
        s, e = par
        out = impl_outcome(lambda: ops[0][slice(s, e)])
    elif op == 'getint':
        out = impl_outcome(lambda: ops[0][par[0]])
    elif op == 'setitem':
        s, e = par
        inplace_self = True

        def f():
            ops[0][slice(s, e)] = ops[1]
            return ops[0]
        out = impl_outcome(f)
    elif op == 'setint':
        inplace_self = True

        def f():
            ops[0][par[0]] = ops[1]
            return ops[0]
        out = impl_outcome(f)
    elif op == 'add':
        out = impl_outcome(lambda: ops[0] + ops[1])
    elif op == 'pad':
        sd, ip = par
        inplace_self = bool(ip)
        out = impl_outcome(lambda: ops[0].pad(L if sd == 'L' else R, inplace=bool(ip)))
    elif op == 'shift':
        s, ip = par
        inplace_self = bool(ip)
        out = impl_outcome(lambda: ops[0].shift(s, inplace=bool(ip)))
    elif op == 'and':
        out = impl_outcome(lambda: ops[0] & ops[1])
    elif op == 'or':
        out = impl_outcome(lambda: ops[0] | ops[1])
    elif op == 'xor':
        out = impl_outcome(lambda: ops[0] ^ ops[1])
    elif op == 'invert':
        out = impl_outcome(lambda: ~ops[0])
    elif op == 'value':
        out = impl_outcome(lambda: ops[0].value())
    elif op == 'chunks':
        n, p = par
        out = impl_outcome(lambda: list(ops[0].chunks(n, padding=bool(p))))
    elif op == 'eq':
        out = impl_outcome(lambda: ops[0] == ops[1])
    elif op == 'hash':
        # observable: do two buffers hash alike?  (the hash value itself is PYTHONHASHSEED dependent)
        out = impl_outcome(lambda: hash(ops[0]) == hash(ops[1]))
    elif op == 'hashkey':
        # hash(buffer) == hash(bytes): what the CoAP parser relies on when probing sets of bytes
        out = impl_outcome(lambda: hash(ops[0]) == hash(par[0]))
    elif op == 'eqbytes':
        out = impl_outcome(lambda: ops[0] == par[0])
    elif op == 'indict':
        # keys (operands 1..) inserted in a dict, probe with operand 0
        def f():
            d = {}
            for i, k in enumerate(ops[1:]):
                d[k] = i
            return d.get(ops[0], -1)
        out = impl_outcome(f)
    elif op == 'lsb':
        from microschc.actions.compression import least_significant_bits
        from microschc.rfc8724 import FieldDescriptor
        out = impl_outcome(lambda: least_significant_bits(FieldDescriptor(id='x', value=ops[0], position=0), par[0]))
    else:
        raise ValueError(op)
    after = [snapshot(b) for b in ops]
    return {'out': out, 'before': before, 'after': after, 'ops': ops, 'inplace_self': inplace_self,
            'arrays': [(bytes(a), snap) for a, snap in arrays]}


def show_value(v):
    if isinstance(v, Buffer):
        return ('buf', v.length, bits_of(v), canonical(v), side_char(v.padding))
    if isinstance(v, bool):
        return ('bool', v)
    if isinstance(v, int):
        return ('int', v)
    if isinstance(v, str):
        return ('bits', v)
    if isinstance(v, list):
        return ('list', [show_value(x) for x in v])
    return ('other', repr(v))


def bxor(a, b, f):
    return ''.join(str(f(int(x), int(y))) for x, y in zip(a, b))


def expected(case):
    """The bit-sequence semantics of the property statements (C05, C06, C13)."""
    op, opers, par = case
    a = opers[0][0] if opers else None
    b = opers[1][0] if len(opers) > 1 else None
    if op == 'new':
        content, length, sd = par
        cb = ''.join(format(x, '08b') for x in content)
        if sd == 'L':
            cb = cb.zfill(length)
            return ('bufside', cb[len(cb) - length:], 'L')
        cb = cb + '0' * max(0, length - len(cb))
        return ('bufside', cb[:length], 'R')
    if op == 'copy':
        return ('bufside', a, opers[0][1])
    if op == 'iter':
        return ('bits', a)
    if op == 'len':
        return ('int', len(a))
    if op == 'getitem':
        s, e = par
        return ('buf', a[slice(s, e)])
    if op == 'getint':
        return ('buf', a[par[0]])
    if op == 'setitem':
        s, e = par
        s2, e2, _ = slice(s, e).indices(len(a))
        return ('bufside', a[:s2] + b + a[e2:], opers[0][1])
    if op == 'setint':
        i = par[0]
        return ('bufside', a[:i] + b + a[i + 1:], opers[0][1])
    if op == 'add':
        return ('buf', a + b)
    if op == 'pad':
        return ('bufside', a, par[0])
    if op == 'shift':
        s = par[0]
        if s < 0:
            return ('buf', a + '0' * (-s))
        return ('buf', a[:max(0, len(a) - s)])
    if op in ('and', 'or', 'xor'):
        if len(a) != len(b):
            return ('exc', 'ValueError')
        f = {'and': lambda x, y: x & y, 'or': lambda x, y: x | y, 'xor': lambda x, y: x ^ y}[op]
        return ('buf', bxor(a, b, f))
    if op == 'invert':
        return ('buf', ''.join('1' if c == '0' else '0' for c in a))
    if op == 'value':
        return ('int', int(a or '0', 2))
    if op == 'chunks':
        n, p = par
        if len(a) == 0:
            return None     # the empty sequence has no n-bit pieces; the code yields one (empty or zero) chunk
        cs = [a[i:i + n] for i in range(0, len(a), n)]
        if p:
            cs[-1] = cs[-1] + '0' * (n - len(cs[-1]))
        return ('list', cs)
    if op == 'eq':
        return ('bool', a == b)
    if op == 'hash':
        return ('bool', True) if a == b else None
    if op == 'hashkey':
        return None
    if op == 'eqbytes':
        return None
    if op == 'indict':
        keys = [o[0] for o in opers[1:]]
        # dict semantics: later equal keys overwrite the value, the probe finds the last value stored for an equal key
        idx = -1
        for i, k in enumerate(keys):
            if k == a:
                idx = i
        return ('int', idx)
    if op == 'lsb':
        n = par[0]
        return ('buf', a[len(a) - n:] if n > 0 else '')
    raise ValueError(op)


def model_line(case, res):
    """The driver line for this case, built from the operands' raw fields before the call."""
    op, opers, par = case
    rb = [('%s:%d:%s:%d' % (s[0].hex() or '-', s[1], 'L' if s[2] == 'left' else 'R', s[3])) for s in res['before']]
    if op == 'new':
        content, length, sd = par
        return 'B new %s %d %s' % (content.hex() or '-', length, sd)
    if op in ('copy', 'iter', 'len', 'invert', 'value'):
        return 'B %s %s' % (op, rb[0])
    if op == 'getitem':
        return 'B getitem %s %s %s' % (rb[0], opt(par[0]), opt(par[1]))
    if op == 'getint':
        return 'B getint %s %d' % (rb[0], par[0])
    if op == 'setitem':
        return 'B setitem %s %s %s %s' % (rb[0], opt(par[0]), opt(par[1]), rb[1])
    if op == 'setint':
        return 'B setint %s %d %s' % (rb[0], par[0], rb[1])
    if op in ('add', 'and', 'or', 'xor', 'eq'):
        return 'B %s %s %s' % (op, rb[0], rb[1])
    if op == 'pad':
        return 'B pad %s %s %d' % (rb[0], par[0], par[1])
    if op == 'shift':
        return 'B shift %s %d %d' % (rb[0], par[0], par[1])
    if op == 'chunks':
        return 'B chunks %s %d %d' % (rb[0], par[0], par[1])
    if op == 'hash':
        return 'B hash2 %s %s' % (rb[0], rb[1])
    if op == 'hashkey':
        return 'B hashkey %s %s' % (rb[0], par[0].hex() or '-')
    if op == 'eqbytes':
        return 'B eqbytes %s %s' % (rb[0], par[0].hex() or '-')
    if op == 'indict':
        return 'B indict %s' % ' '.join(rb)
    if op == 'lsb':
        return 'B lsb %s %d' % (rb[0], par[0])
    raise ValueError(op)


def parse_model(op, line):
    """Model result line -> same shape as show_value / ('EXC', name)."""
    from core import parse_raw
    if line.startswith('EXC '):
        return ('EXC', line[4:])
    if line == 'DIVERGE':
        return ('EXC', 'Diverge')
    if not line.startswith('OK'):
        return ('BAD', line)
    body = line[3:]
    if op in ('iter',):
        return ('OK', ('bits', body[1:]))
    if op in ('len', 'indict'):
        return ('OK', ('int', int(body)))
    if op in ('value',):
        return ('OK', ('int', int(body, 16)))
    if op in ('eq', 'hash', 'hashkey', 'eqbytes'):
        return ('OK', ('bool', body == '1'))
    if op == 'chunks':
        bs = [parse_raw(x) for x in body.split(',')] if body else []
        return ('OK', ('list', [show_value(b) for b in bs]))
    return ('OK', show_value(parse_raw(body)))


def abstract(v):
    """Drop what the properties do not constrain: the result's padding side (kept separately)."""
    if v[0] == 'buf':
        return ('buf', v[1], v[2], v[3])
    if v[0] == 'list':
        return ('list', [abstract(x) for x in v[1]])
    return v


def judge(case, res):
    """Property oracle on the implementation's observation.  Returns list of failure strings."""
    op, opers, par = case
    fails = []
    exp = expected(case)
    kind, val = res['out']
    if kind == 'EXC':
        if exp is not None and not (exp[0] == 'exc' and exp[1] == val):
            fails.append('raised %s, expected %s' % (val, exp,))
    else:
        sv = show_value(val)
        if exp is not None:
            if exp[0] == 'exc':
                fails.append('returned %s, expected exception %s' % (sv, exp[1]))
            elif exp[0] in ('buf', 'bufside'):
                if sv[0] != 'buf' or sv[2] != exp[1] or sv[1] != len(exp[1]):
                    fails.append('result %s, expected bits %r' % (sv, exp[1]))
                elif not sv[3]:
                    fails.append('result not canonical: %s' % raw(val))
                elif exp[0] == 'bufside' and sv[4] != exp[2]:
                    fails.append('result padding side %s, expected %s' % (sv[4], exp[2]))
            elif exp[0] == 'list':
                if sv[0] != 'list' or [x[2] for x in sv[1]] != exp[1] or not all(x[3] for x in sv[1]):
                    fails.append('result %s, expected %s' % (sv, exp))
            elif sv != exp:
                fails.append('result %s, expected %s' % (sv, exp))
        # whatever operation produced it, a Buffer is usable as a key: it hashes like a fresh Buffer with the same bits (C13)
        from core import Buffer as _B
        for r_ in [] if res.get('arrays') else ([val] if isinstance(val, _B) else [x for x in val if isinstance(x, _B)] if isinstance(val, list) else []):
            try:
                if hash(r_) != hash(mk(bits_of(r_), L)):
                    fails.append('result %s does not hash like an equal fresh buffer' % raw(r_))
            except Exception as e:  # noqa: BLE001
                fails.append('hash(result) raised %s (content is a %s)' % (type(e).__name__, type(r_.content).__name__))
    # operand post-states
    for i, (b4, af) in enumerate(zip(res['before'], res['after'])):
        if i == 0 and res['inplace_self']:
            # in-place: the receiver denotes the result
            if kind == 'OK' and exp is not None and exp[0] in ('buf', 'bufside'):
                o = res['ops'][0]
                if bits_of(o) != exp[1] or o.length != len(exp[1]) or not canonical(o):
                    fails.append('receiver after in-place %s: %s, expected bits %r' % (op, raw(o), exp[1]))
                if exp[0] == 'bufside' and side_char(o.padding) != exp[2]:
                    fails.append('receiver side after in-place %s: %s' % (op, raw(o)))
        elif b4 != af:
            fails.append('operand %d modified by %s: %r -> %r' % (i, op, b4, af))
    for i, (now, snap) in enumerate(res.get('arrays') or []):
        if now != snap and not (i == 0 and res['inplace_self']):
            fails.append("the caller's bytearray behind operand %d was modified by %s: %s -> %s" % (i, op, snap.hex(), now.hex()))
    return fails
