"""bufheap.py -- correspondence for the heap-level model of the Buffer class (coq/theories/BufferHeap.v, driver layer H).

A program is a sequence of Buffer method calls on a pool of live objects.  The model runs it on a heap of records and reports, for
every step, what the call returned (a reference, a list of references, a value, an exception) and the four attributes of every
object of its heap after the step.  The implementation runs the same calls on real objects.  Compared after EVERY step:
  * the outcome (value, exception class);
  * object IDENTITY of what is returned: a reference the model has handed out before must be that very Python object (`is`),
    a reference new to the caller must be an object the caller has not seen (not one of its operands, not an earlier result);
  * the raw state (content bytes, length, padding side, padding_length) of every object the caller holds.
So an operand modified behind the caller's back, a result that aliases an operand, an in-place method that forgets an attribute or
returns another object than the model says are all disagreements -- on the exact object and step.  Theorems about the model
(BufferHeapSpec.v, props/C16.v): operations that are not in place extend the heap and change no existing object, in-place ones
change only their receiver, results are fresh objects, every method computes the value Buffer.v computes."""
from core import mk, raw, L, R, randbits, Buffer, Driver, impl_outcome, side_char

OPS = ['new', 'copy', 'iadd', 'shift', 'shift', 'pad', 'pad', 'value', 'getitem', 'getitem', 'getint', 'add', 'add', 'add', 'and', 'or', 'xor', 'invert',
       'setitem', 'setitem', 'setint', 'chunks', 'eq', 'hash', 'iter', 'len']


def state(b):
    return '%s:%d:%s:%d' % (b.content.hex() if len(b.content) else '-', b.length, side_char(b.padding), b.padding_length)


def call_for(t, obj):
    """the implementation call a token list denotes, operands looked up through obj (handle -> object)"""
    op = t[0]
    oz = lambda x: None if x == 'N' else int(x)
    if op == 'new':
        content = bytes.fromhex(t[1]) if t[1] != '-' else b''
        return lambda: Buffer(content, int(t[2]), L if t[3] == 'L' else R)
    A = obj(int(t[1]))
    if op == 'copy':
        return lambda: A.copy()
    if op == 'shift':
        return lambda: A.shift(int(t[2]), inplace=(t[3] == '1'))
    if op == 'pad':
        return lambda: A.pad(L if t[2] == 'L' else R, inplace=(t[3] == '1'))
    if op == 'value':
        return lambda: A.value()
    if op == 'getitem':
        return lambda: A[oz(t[2]):oz(t[3])]
    if op == 'getint':
        return lambda: A[int(t[2])]
    if op == 'iadd':
        B_ = obj(int(t[2]))

        def f_iadd():
            x = A
            x += B_
            return x
        return f_iadd
    if op in ('add', 'and', 'or', 'xor', 'eq'):
        B_ = obj(int(t[2]))
        return {'add': lambda: A + B_, 'and': lambda: A & B_, 'or': lambda: A | B_, 'xor': lambda: A ^ B_, 'eq': lambda: A == B_}[op]
    if op == 'invert':
        return lambda: ~A
    if op == 'setitem':
        B_ = obj(int(t[4]))
        return lambda: A.__setitem__(slice(int(t[2]), int(t[3])), B_)
    if op == 'setint':
        B_ = obj(int(t[3]))
        return lambda: A.__setitem__(int(t[2]), B_)
    if op == 'chunks':
        return lambda: list(A.chunks(int(t[2]), padding=(t[3] == '1')))
    if op == 'hash':
        return lambda: hash(A)
    if op == 'iter':
        return lambda: list(A)
    return lambda: len(A)


def returned_objects(t, out):
    if out[0] != 'OK':
        return None
    vals = [out[1]] if isinstance(out[1], Buffer) else (list(out[1]) if isinstance(out[1], list) and t[0] == 'chunks' else None)
    return vals if vals is not None and all(isinstance(v, Buffer) for v in vals) else None


def exec_step(t, held):
    """run one call on the implementation; bind the objects it returns to handles by the MODEL's rule"""
    a = int(t[1]) if t[0] != 'new' else None
    recv = held[a] if t[0] != 'new' else None
    same_side = recv is not None and t[0] == 'pad' and side_char(recv.padding) == t[2]
    out = impl_outcome(call_for(t, lambda h: held[h]))
    before = len(held)
    vals = returned_objects(t, out)
    handles = None
    drift = None
    if vals is not None:
        # handles follow the MODEL's rule (theorems hstep_pure_fresh / hstep_inplace_result): an operation that is not in place returns
        # new objects; shift / item assignment in place return the receiver; pad in place returns the receiver when the side is
        # already the requested one and a new object otherwise.  Whatever object the implementation returned is bound accordingly;
        # a difference of identity alone is drift, its consequences (two handles on one object) show in the states compared below.
        inplace_recv = (t[0] == 'shift' and t[3] == '1') or t[0] in ('setitem', 'setint') or (t[0] == 'pad' and t[3] == '1' and same_side)
        if inplace_recv:
            handles = [a]
            if vals[0] is not held[a]:
                drift = 'returns another object than its receiver'
        else:
            handles = []
            for v in vals:
                if t[0] == 'pad' and t[3] == '1' and v is held[a]:
                    # an in-place call that returns its receiver where the model returns a second object with the same attributes:
                    # harmless; the caller's extra handle is given an object of its own so that the numbering stays the model's
                    drift = 'in place, returns its receiver where the model returns a new object with the same attributes'
                    v = Buffer(v.content, v.length, v.padding)
                elif any(o is v for o in held):
                    drift = 'returns an object the caller already holds where the model creates one'
                held.append(v)
                handles.append(len(held) - 1)
    return out, handles, before, drift


def gen_and_run(rnd, nsteps):
    """generate one program while running it on the implementation.  Handles: indices into the list of objects the caller holds
    (the initial ones, then every returned object not held yet, in order) -- the driver numbers them by the same rule.
    Returns (initial buffers, token lists, per step: (tokens, outcome, handles of returned objects, #held before, state of every held object))."""
    init = [(randbits(rnd, rnd.choice([0, 1, 3, 7, 8, 9, 12, 16, 17, 23, 24, 31, 40])), rnd.choice([L, R])) for _ in range(rnd.randint(2, 4))]
    held = [mk(bits, sd) for bits, sd in init]
    toks, trace = [], []
    for _ in range(nsteps):
        op = rnd.choice(OPS)
        pick = lambda: rnd.randrange(len(held)) if (len(held) <= 8 or rnd.random() < 0.3) else rnd.randrange(len(held) - 6, len(held))
        a, b = pick(), pick()
        n = held[a].length
        if op == 'new':
            bits = randbits(rnd, rnd.choice([0, 1, 5, 8, 13, 16, 21]))
            sd = rnd.choice([L, R])
            nb = (len(bits) + 7) // 8 + rnd.choice([0, 0, 1])      # a surplus content byte is cut by the constructor
            v = int(bits or '0', 2)
            content = (v.to_bytes(nb, 'big') if sd is L else (v << (nb * 8 - len(bits))).to_bytes(nb, 'big')) if nb else b''
            t = ['new', content.hex() or '-', str(len(bits)), side_char(sd)]
        elif op in ('copy', 'value', 'invert', 'hash', 'iter', 'len'):
            t = [op, str(a)]
        elif op == 'shift':
            s_ = rnd.randint(-9, 9) if rnd.random() < 0.8 else rnd.choice([0, n, n + 1, -16])
            t = ['shift', str(a), str(s_), rnd.choice('01')]
        elif op == 'pad':
            t = ['pad', str(a), rnd.choice('LR'), rnd.choice('01')]
        elif op == 'getitem':
            s_ = rnd.choice([None, 0, rnd.randint(0, n)])
            e_ = rnd.choice([None, n, rnd.randint(s_ or 0, n + 2)])
            t = ['getitem', str(a), 'N' if s_ is None else str(s_), 'N' if e_ is None else str(e_)]
        elif op == 'getint':
            if n == 0:
                continue
            t = ['getint', str(a), str(rnd.randrange(n))]
        elif op in ('add', 'iadd', 'and', 'or', 'xor', 'eq'):
            if op in ('and', 'or', 'xor') and rnd.random() < 0.85:
                b = rnd.choice([k for k in range(len(held)) if held[k].length == n])
            t = [op, str(a), str(b)]
        elif op == 'setitem':
            s_ = rnd.randint(0, n)
            t = ['setitem', str(a), str(s_), str(rnd.randint(s_, n)), str(b)]
        elif op == 'setint':
            if n == 0:
                continue
            t = ['setint', str(a), str(rnd.randrange(n)), str(b)]
        else:
            t = ['chunks', str(a), str(rnd.choice([1, 3, 5, 8, 16])), rnd.choice('01')]
        out, handles, before, drift = exec_step(t, held)
        toks.append(t)
        trace.append((t, out, handles, before, [state(o) for o in held], drift))
    return init, toks, trace


def line_of(init, toks):
    # x = a; x += b is, for a class without __iadd__, the call a + b: the model's add
    return ' '.join(['H', 'prog', str(len(init))] + [raw(mk(bits, sd)) for bits, sd in init] + [str(len(toks))] + [('add' if (k == 0 and x == 'iadd') else x) for tt in toks for k, x in enumerate(tt)])


def compare(trace, mo):
    """first disagreement between the implementation trace and the model's answer, or None"""
    if not mo.startswith('OK '):
        return 'model driver: %s' % mo[:200]
    groups = mo[3:].split(' ; ')
    if len(groups) != len(trace):
        return 'model answered %d steps for %d' % (len(groups), len(trace))
    for k, ((t, out, handles, before, states, _), group) in enumerate(zip(trace, groups)):
        mout, _, mstates = group.partition(' @ ')
        mstates = mstates.split(' ') if mstates else []
        what = 'step %d (%s)' % (k + 1, ' '.join(t))
        if out[0] == 'EXC':
            if mout != 'E' + out[1]:
                return '%s: implementation raised %s, model %s' % (what, out[1], mout)
        else:
            v = out[1]
            kind = mout[0]
            if kind == 'E' or mout == 'DIVERGE':
                return '%s: implementation returned %s, model %s' % (what, state(v) if isinstance(v, Buffer) else repr(v)[:60], mout)
            if kind in 'RL':
                mh = [int(x) for x in mout[1:].split(',')]
                if handles is None:
                    return '%s: implementation returned %r where the model returns object(s) %s' % (what, v, mout)
                if handles != mh:
                    return '%s: handles %s predicted from the theorems about the model, the model itself answers %s (harness or model out of step)' % (what, handles, mh)
            elif kind == 'I':
                if not (isinstance(v, int) and not isinstance(v, bool) and v == int(mout[1:], 16)):
                    return '%s: implementation returned %r, model %s' % (what, v, mout)
            elif kind == 'B':
                if v is not (mout[1] == '1'):
                    return '%s: implementation returned %r, model %s' % (what, v, mout)
            elif kind == 'Y':
                key = bytes.fromhex(mout[1:]) if mout[1:] != '-' else b''
                if t[0] == 'hash' and v != hash(key):
                    return '%s: hash differs from the hash of the bytes the model gives (%s)' % (what, mout)
                if t[0] == 'iter' and (not isinstance(v, list) or bytes(v) != key):
                    return '%s: iteration gives %r, model %s' % (what, v, mout)
        if states != mstates:
            for j, (x, y) in enumerate(zip(states, mstates)):
                if x != y:
                    return '%s: afterwards object #%d is %s in the implementation, %s in the model' % (what, j, x, y)
            return '%s: the caller holds %d objects, the model %d' % (what, len(states), len(mstates))
    return None


def run(rep, rnd, nprog, nsteps):
    drv = Driver()
    progs = [gen_and_run(rnd, nsteps) for _ in range(nprog)]
    outs = drv.run([line_of(init, toks) for init, toks, _ in progs])
    for p, ((init, toks, trace), mo) in enumerate(zip(progs, outs)):
        rep.count('heap-program', key=('heap', p, len(trace)), n=len(trace))
        rep.corr_evals += len(trace)
        for t, out, handles, before, _, drift in trace:
            rep.hist['heap-op:' + t[0]] = rep.hist.get('heap-op:' + t[0], 0) + 1
            oc = out[1] if out[0] == 'EXC' else ('object' if handles is not None else type(out[1]).__name__)
            rep.hist['heap-outcome:' + oc] = rep.hist.get('heap-outcome:' + oc, 0) + 1
            if handles is not None and any(h < before for h in handles):
                rep.hist['heap-result-is-the-receiver'] = rep.hist.get('heap-result-is-the-receiver', 0) + 1
            if drift:
                # identity of a returned object differs from the model: no bit differs; counted, consequences show in later states
                rep.drift += 1
                rep.hist['heap-identity-differs-from-model'] = rep.hist.get('heap-identity-differs-from-model', 0) + 1
                if not any('identity' in n_ for n_ in rep.notes):
                    rep.notes.append('object identity differs from the heap model (drift; consequences are looked for in the states): %s %s' % (' '.join(t), drift))
        f = compare(trace, mo)
        if f:
            rep.violation('correspondence', 'heap program: ' + f, dict(layer='buffer-heap', driver_line=line_of(init, toks), model=mo[:2000], failure=f))
            return


def replay_line(line):
    """re-run a stored program (driver line) on the current tree; returns the first disagreement or None"""
    tk = line.split(' ')
    k = int(tk[2])
    held = []
    for lit in tk[3:3 + k]:
        h, ln, sd, _ = lit.split(':')
        held.append(Buffer(bytes.fromhex(h) if h != '-' else b'', int(ln), L if sd == 'L' else R))
    n = int(tk[3 + k])
    rest = tk[4 + k:]
    ar = {'iadd': 2, 'new': 3, 'copy': 1, 'shift': 3, 'pad': 3, 'value': 1, 'getitem': 3, 'getint': 2, 'add': 2, 'and': 2, 'or': 2, 'xor': 2, 'invert': 1,
          'setitem': 4, 'setint': 3, 'chunks': 3, 'eq': 2, 'hash': 1, 'iter': 1, 'len': 1}
    toks, i = [], 0
    while i < len(rest) and len(toks) < n:
        toks.append(rest[i:i + 1 + ar[rest[i]]])
        i += 1 + ar[rest[i]]
    trace = []
    for t in toks:
        out, handles, before, drift = exec_step(t, held)
        trace.append((t, out, handles, before, [state(o) for o in held], drift))
    return compare(trace, Driver().run([line])[0])
