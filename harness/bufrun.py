"""bufrun.py -- generators per Buffer property family and the compare loop
(implementation vs extracted Coq model, implementation vs bit-sequence oracle)."""
import itertools
from core import Driver, randbits, raw
from bufcases import (contents, run_case, model_line, parse_model, show_value, abstract, judge, SIDES)


def all_bits(n):
    return [''.join(p) for p in itertools.product('01', repeat=n)] if n else ['']


def twin_cases(rnd, family, T):
    """pairs that raw-byte shortcuts confuse: (1) a left-padded and a right-padded buffer of the same non-aligned length whose STORED BYTES
    are the same (so their bits differ); (2) two buffers of the same length whose contents differ only by where the zero bytes sit
    (0x0100 / 0x0001, 0x1600 / 0x0016): different bit strings that a comparison ignoring zero bytes takes for equal"""
    out = []
    for _ in range(400 if T else 60):
        n = rnd.choice([9, 10, 12, 13, 15, 17, 20, 23, 28, 33, 41])
        pl = (8 - n % 8) % 8
        nb = (n + 7) // 8
        v = rnd.getrandbits(8 * nb) & ~((1 << pl) - 1) & ((1 << (8 * nb - pl)) - 1)       # zero top pl bits and zero low pl bits
        stored = format(v, '0%db' % (8 * nb))
        a = (stored[pl:], 'L')            # left-padded: the bits are the last n of the stored bytes
        b = (stored[:n], 'R')             # right-padded: the first n
        if family == 'C06':
            for op in ('and', 'or', 'xor'):
                out.append((op, [a, b], ()))
                out.append((op, [b, a], ()))
        else:
            out.append(('eq', [a, b], ()))
            out.append(('hash', [a, b], ()))
            out.append(('indict', [a, b, (randbits(rnd, n), 'L')], ()))
    for _ in range(300 if T else 50):
        k = rnd.choice([2, 2, 3, 4, 5])
        cut = rnd.choice([0, 0, 1, 3, 7])
        byts = [rnd.choice(['00000000', format(rnd.randrange(1, 256), '08b')]) for _ in range(k)]
        if all(x == '00000000' for x in byts):
            byts[0] = '00010110'
        sh = byts[1:] + byts[:1]
        x = ''.join(byts)[cut:]
        y = ''.join(sh)[cut:]
        for sa in SIDES:
            for sb in SIDES:
                if family == 'C06':
                    out.append(('xor', [(x, sa), (y, sb)], ()))
                else:
                    out.append(('eq', [(x, sa), (y, sb)], ()))
                    out.append(('indict', [(x, sa), (y, sb), (x, sb)], ()))
    return out


def word_cases(rnd, family, T):
    """buffers of 72..700 bits whose content has all-zero 8-byte words at 8-byte offsets, followed by a byte whose top bits are set (word-wise
    loops that skip zero words), and contents of 64 KiB and more whose first bits are zero (big-integer round trips that lose leading zero bytes)"""
    out = []
    for _ in range(300 if T else 50):
        nb = rnd.choice([9, 12, 16, 17, 24, 33, 64, 80])
        byts = [rnd.randrange(256) for _ in range(nb)]
        for w in rnd.sample(range(0, nb // 8), max(1, nb // 16)):
            byts[8 * w:8 * w + 8] = [0] * 8
            if 8 * w + 8 < nb:
                byts[8 * w + 8] |= rnd.choice([0x80, 0xC0, 0xFF])
        pl = rnd.choice([0, 1, 3, 5, 7])
        bits = ''.join(format(x, '08b') for x in byts)[pl:]
        for sd in SIDES:
            a = (bits, sd)
            if family == 'C06':
                for k in (-1, -3, -7, -9, 1, 5):
                    out.append(('shift', [a], (k, 0)))
                out.append(('xor', [a, (randbits(rnd, len(bits)), 'L' if sd == 'R' else 'R')], ()))
                out.append(('value', [a], ()))
            elif family == 'C13':
                out.append(('eq', [a, (bits, 'L' if sd == 'R' else 'R')], ()))
                out.append(('hash', [a, (bits, 'L' if sd == 'R' else 'R')], ()))
            else:
                out.append(('pad', [a], ('L' if sd == 'R' else 'R', 0)))
                out.append(('add', [a, (randbits(rnd, 3), rnd.choice(SIDES))], ()))
    return out


def big_oracle_cases(rnd, family, T):
    """contents of 64 KiB and more whose first bits are zero (big-integer round trips that lose leading zero bytes): judged by the oracle on
    the implementation only -- the extracted model needs minutes on operands of this size"""
    out = []
    if family in ('C13', 'C06', 'C16'):
        for n in ([524291, 524293, 600001] if T else [524293]):
            bits = ('0' * rnd.choice([1, 7, 9]) + randbits(rnd, n))[:n]
            for sd in SIDES:
                other = 'L' if sd == 'R' else 'R'
                if family in ('C13', 'C16'):
                    out.append(('eq', [(bits, sd), (bits, other)], ()))
                    out.append(('hash', [(bits, sd), (bits, other)], ()))
                if family in ('C06', 'C16'):
                    out.append(('shift', [(bits, sd)], (rnd.choice([3, 5]), 0)))
                    out.append(('pad', [(bits, sd)], (other, 0)))
    return out


def huge_cases(rnd, family, T):
    """operands and amounts beyond 16384 / 32768 / 65536 bits (2, 4, 8 KiB of content): blocks, tables and constants of a fixed size that an
    implementation may use internally are exceeded here; either padding side, lengths that are not byte multiples, operands of opposite sides"""
    out = []
    sizes = [16385, 16391, 32769, 32775, 40001, 65543] if T else [16391, 32775, 40001]
    for n in sizes:
        for sd in SIDES:
            a = (randbits(rnd, n), sd)
            if rnd.random() < 0.6:
                # contents with runs of zero bytes (a slice that starts with zero bytes, an operand whose head or tail is empty of ones)
                bits_ = list(a[0])
                for _z in range(rnd.randint(1, 4)):
                    z0 = rnd.randrange(0, n - 64)
                    bits_[z0:z0 + rnd.choice([8, 16, 24, 40])] = '0' * len(bits_[z0:z0 + rnd.choice([8, 16, 24, 40])])
                a = (''.join(bits_)[:n], sd)
            other = 'L' if sd == 'R' else 'R'
            if family == 'C05':
                out.append(('iter', [a], ()))
                out.append(('getitem', [a], (rnd.randint(0, 9), n - rnd.randint(0, 9))))
                out.append(('getitem', [a], (n - 20000, n - 3)))
                z_ = a[0].find('0' * 8, 7)
                if z_ >= 0:
                    out.append(('getitem', [a], (z_, min(n, z_ + 3000))))       # a long slice whose first byte is zero
                    out.append(('getitem', [a], (max(0, z_ - 3), min(n, z_ + 2500))))
                out.append(('add', [(randbits(rnd, rnd.choice([3, 8, 13])), rnd.choice(SIDES)), a], ()))
                out.append(('add', [a, (randbits(rnd, 8195), other)], ()))
                out.append(('add', [(randbits(rnd, 8195), other), a], ()))
                out.append(('setitem', [a, (randbits(rnd, 8197), other)], (5, 9)))
                out.append(('pad', [a], (other, 0)))
                out.append(('copy', [a], ()))
            elif family == 'C06':
                out.append(('invert', [a], ()))
                out.append(('value', [a], ()))
                for op in ('and', 'or', 'xor'):
                    out.append((op, [a, (randbits(rnd, n), rnd.choice(SIDES))], ()))
                out.append(('shift', [a], (rnd.choice([-3, 5, n - 7]), 0)))
                out.append(('chunks', [a], (rnd.choice([16, 4096, 32768]), rnd.randint(0, 1))))
            else:
                out.append(('eq', [a, (a[0], other)], ()))
                out.append(('hash', [a, (a[0], other)], ()))
                out.append(('eq', [a, (a[0][:-1] + ('1' if a[0][-1] == '0' else '0'), other)], ()))
    if family == 'C06':
        # huge shift AMOUNTS on small and large buffers
        for amount in ([-32769, -32776, -40003, -65537, 32769, 70000] if T else [-32776, -40003, 40000]):
            for sd in SIDES:
                for n in (7, 12, 64):
                    out.append(('shift', [(randbits(rnd, n), sd)], (amount, rnd.randint(0, 1))))
    return out


def gen_c05(rnd, tier):
    T = tier == 'thorough'
    maxlen = 40 if T else 22
    cases = []
    # construction: arbitrary content / length / side, incl. too short and too long content
    for length in range(0, 27 if T else 19):
        for nbytes in range(0, 5):
            for sd in SIDES:
                for _ in range(3 if T else 2):
                    content = bytes(rnd.randrange(256) for _ in range(nbytes))
                    cases.append(('new', [], (content, length, sd)))
                cases.append(('new', [], (b'\xff' * nbytes, length, sd)))
    lens = list(range(0, maxlen + 1)) + ([64, 65, 127, 128, 129, 255, 300, 511, 600] if T else [63, 64, 65, 130])
    for n in lens:
        for sd in SIDES:
            for c in contents(rnd, n, 2 if T else 1):
                a = (c, sd)
                cases.append(('copy', [a], ()))
                cases.append(('iter', [a], ()))
                cases.append(('len', [a], ()))
                for tsd in SIDES:
                    for ip in (0, 1):
                        cases.append(('pad', [a], (tsd, ip)))
    # slicing: every (start, stop) with 0 <= start <= stop, stops beyond the length, None bounds
    for n in range(0, (34 if T else 21)):
        for sd in SIDES:
            for c in contents(rnd, n, 1):
                a = (c, sd)
                for s in range(0, n + 1):
                    for e in range(s, n + 3):
                        cases.append(('getitem', [a], (s, e)))
                    cases.append(('getitem', [a], (s, None)))
                cases.append(('getitem', [a], (None, None)))
                for e in range(0, n + 1):
                    cases.append(('getitem', [a], (None, e)))
                for i in range(n):
                    cases.append(('getint', [a], (i,)))
    for n in ([64, 100, 257, 600] if T else [64, 131]):
        for sd in SIDES:
            a = (randbits(rnd, n), sd)
            for _ in range(200 if T else 60):
                s = rnd.randint(0, n)
                e = rnd.randint(s, n + 9)
                cases.append(('getitem', [a], (s, e)))
    # concatenation: all residue classes of both lengths x 4 side combinations
    ml = 26 if T else 18
    for la in range(0, ml + 1):
        for lb in range(0, ml + 1):
            for sa in SIDES:
                for sb in SIDES:
                    for _ in range(2 if T else 1):
                        cases.append(('add', [(randbits(rnd, la), sa), (randbits(rnd, lb), sb)], ()))
                    cases.append(('add', [('1' * la, sa), ('1' * lb, sb)], ()))
    for _ in range(3000 if T else 400):
        la, lb = rnd.randint(0, 300), rnd.randint(0, 300)
        cases.append(('add', [(randbits(rnd, la), rnd.choice(SIDES)), (randbits(rnd, lb), rnd.choice(SIDES))], ()))
    # slice assignment
    for n in range(0, (17 if T else 11)):
        for sd in SIDES:
            a = (randbits(rnd, n), sd)
            for s in range(0, n + 1):
                for e in range(s, n + 1):
                    lv = rnd.choice([0, 1, e - s, 7, 8, 9])
                    cases.append(('setitem', [a, (randbits(rnd, lv), rnd.choice(SIDES))], (s, e)))
            for i in range(n):
                cases.append(('setint', [a, (rnd.choice('01'), rnd.choice(SIDES))], (i,)))
    # large operands whose lengths are computed independently (beyond CPython's small-int cache and beyond a few hundred pieces)
    # (contents of more than 256 bytes too: byte counts beyond the small-int cache: 2049.., 2057, 4100 bits; beyond 1024 bytes: 8200, 9001 bits)
    for n in ([257, 258, 300, 511, 512, 1000, 2100, 2049, 2057, 2060, 4100, 8200, 9001] if T else [257, 300, 1024, 2050, 2057, 4100, 9001]):
        for sa in SIDES:
            a = (randbits(rnd, n), sa)
            b2 = (randbits(rnd, rnd.choice([n, 1, 7, 259])), rnd.choice(SIDES))
            cases += [('add', [a, b2], ()), ('copy', [a], ()), ('iter', [a], ()), ('pad', [a], ('L' if sa == 'R' else 'R', 0)),
                      ('getitem', [a], (rnd.randint(0, 100), rnd.randint(200, n))), ('setitem', [a, b2], (rnd.randint(0, 100), rnd.randint(100, 257)))]
    # concatenations whose shifted operand is longer than 4096 bytes (block-wise implementations), every sub-byte offset class
    for n in ([32769, 33001, 40003, 66000] if T else [33001, 40003]):
        for sa in SIDES:
            for sb in SIDES:
                cases.append(('add', [(randbits(rnd, rnd.choice([1, 3, 5, 7, 11])), sa), (randbits(rnd, n), sb)], ()))
                cases.append(('add', [(randbits(rnd, n), sa), (randbits(rnd, rnd.choice([3, 9, n // 2])), sb)], ()))
    if T:
        # every content for short operands
        for la in range(0, 7):
            for lb in range(0, 7):
                for ca in all_bits(la):
                    for cb in all_bits(lb):
                        sa, sb = rnd.choice(SIDES), rnd.choice(SIDES)
                        cases.append(('add', [(ca, sa), (cb, sb)], ()))
        for n in range(0, 11):
            for c in all_bits(n):
                for sd in SIDES:
                    cases.append(('iter', [(c, sd)], ()))
                    s = rnd.randint(0, n)
                    cases.append(('getitem', [(c, sd)], (s, rnd.randint(s, n))))
    cases += huge_cases(rnd, 'C05', tier != 'quick')
    cases += word_cases(rnd, 'C05', tier != 'quick')
    return cases


def gen_c06(rnd, tier):
    T = tier == 'thorough'
    cases = []
    maxlen = 34 if T else 20
    for n in list(range(0, maxlen + 1)) + ([64, 65, 200] if T else [64]):
        for sd in SIDES:
            for c in contents(rnd, n, 1):
                a = (c, sd)
                for s in range(-(min(n, 24) + 8), min(n, 24) + 9):
                    for ip in (0, 1):
                        cases.append(('shift', [a], (s, ip)))
                cases.append(('value', [a], ()))
                cases.append(('invert', [a], ()))
                for k in (list(range(1, 41)) if (T or n % 3 == 0) else [1, 2, 3, 7, 8, 9, 15, 16, 17, 24, 32, 40]):
                    for p in (0, 1):
                        cases.append(('chunks', [a], (k, p)))
    for n in list(range(0, maxlen + 1)) + [64, 77]:
        for sa in SIDES:
            for sb in SIDES:
                for op in ('and', 'or', 'xor'):
                    cases.append((op, [(randbits(rnd, n), sa), (randbits(rnd, n), sb)], ()))
                    cases.append((op, [('1' * n, sa), (randbits(rnd, n), sb)], ()))
                cases.append(('and', [(randbits(rnd, n), sa), (randbits(rnd, n + 1), sb)], ()))
                cases.append(('or', [(randbits(rnd, n + 8), sa), (randbits(rnd, n), sb)], ()))
                cases.append(('xor', [(randbits(rnd, n + rnd.choice([1, 7, 9])), sa), (randbits(rnd, n), sb)], ()))
    for _ in range(2000 if T else 300):
        n = rnd.randint(0, 600)
        a = (randbits(rnd, n), rnd.choice(SIDES))
        cases.append(('shift', [a], (rnd.randint(-(n + 8), n + 8), rnd.randint(0, 1))))
        cases.append(('value', [a], ()))
        cases.append(('chunks', [a], (rnd.randint(1, 40), rnd.randint(0, 1))))
    # shifts and re-padding of operands whose content is longer than 256 bytes / 1024 bytes, every bit offset
    for n in ([2049, 2050, 2055, 2056, 2057, 4099, 8201, 9001] if T else [2050, 2057, 8201]):
        for sd in SIDES:
            a = (randbits(rnd, n), sd)
            for k in ([-9, -8, -7, -3, -1, 1, 3, 8, 9] if T else [-3, -1, 5]):
                cases.append(('shift', [a], (k, 0)))
            cases.append(('pad', [a], ('L' if sd == 'R' else 'R', 0)))
            cases.append(('hash', [a, (a[0], 'L' if sd == 'R' else 'R')], ()))
            cases.append(('eq', [a, (a[0], 'L' if sd == 'R' else 'R')], ()))
            cases.append(('indict', [(a[0], 'L' if sd == 'R' else 'R'), a, (randbits(rnd, n), sd)], ()))
    # large operands: equal lengths above 256 computed independently; buffers splitting into more than a thousand pieces
    for n in ([257, 258, 264, 300, 511, 512, 1000, 1024, 4000] if T else [257, 300, 1024]):
        for sa in SIDES:
            for sb in SIDES:
                for op in ('and', 'or', 'xor'):
                    cases.append((op, [(randbits(rnd, n), sa), (randbits(rnd, int(str(n))), sb)], ()))
            cases.append(('invert', [(randbits(rnd, n), sa)], ()))
            cases.append(('value', [(randbits(rnd, n), sa)], ()))
    for n, k in ([(9000, 8), (17000, 16), (1100, 1), (40000, 16), (12001, 8)] if T else [(9000, 8), (17000, 16), (1100, 1)]):
        for sd in SIDES:
            cases.append(('chunks', [(randbits(rnd, n), sd)], (k, rnd.randint(0, 1))))
    if T:
        for n in range(0, 13):
            for c in all_bits(n):
                for sd in SIDES:
                    a = (c, sd)
                    cases.append(('value', [a], ()))
                    cases.append(('invert', [a], ()))
                    cases.append(('shift', [a], (rnd.randint(-10, n + 2), 0)))
    cases += huge_cases(rnd, 'C06', tier != 'quick')
    cases += word_cases(rnd, 'C06', tier != 'quick')
    cases += twin_cases(rnd, 'C06', tier != 'quick')
    return cases


def gen_c13(rnd, tier):
    T = tier == 'thorough'
    cases = []
    N = 7 if T else 5
    for la in range(0, N + 1):
        for lb in range(max(0, la - 1), min(N, la + 1) + 1):
            for ca in all_bits(la):
                for cb in all_bits(lb):
                    if la == lb and not T and ca != cb and rnd.random() < 0.5:
                        continue
                    for sa in SIDES:
                        for sb in SIDES:
                            cases.append(('eq', [(ca, sa), (cb, sb)], ()))
                            if ca == cb:
                                cases.append(('hash', [(ca, sa), (cb, sb)], ()))
    for _ in range(4000 if T else 800):
        n = rnd.choice([rnd.randint(0, 40), rnd.randint(0, 400)])
        a = randbits(rnd, n)
        b = a
        r = rnd.random()
        if r < 0.4 and n:
            i = rnd.randrange(n)
            b = a[:i] + ('1' if a[i] == '0' else '0') + a[i + 1:]
        elif r < 0.5:
            b = a + rnd.choice(['', '0', '1', '00000000'])
        sa, sb = rnd.choice(SIDES), rnd.choice(SIDES)
        cases.append(('eq', [(a, sa), (b, sb)], ()))
        cases.append(('hash', [(a, sa), (a, sb)], ()))
    # long keys (content beyond 256 and beyond 1024 bytes, not byte aligned): equal buffers of either side hash alike and find each other
    for n in ([2049, 2057, 8193, 8201, 9001, 12005] if T else [2057, 8201, 9001]):
        a = randbits(rnd, n)
        b_ = a[:-1] + ('1' if a[-1] == '0' else '0')
        for sa in SIDES:
            for sb in SIDES:
                cases.append(('hash', [(a, sa), (a, sb)], ()))
                cases.append(('eq', [(a, sa), (b_, sb)], ()))
                cases.append(('indict', [(a, sa), (b_, sb), (a, sb)], ()))
    for _ in range(3000 if T else 600):
        n = rnd.randint(0, 20)
        k = rnd.randint(1, 6)
        keys = [(randbits(rnd, rnd.choice([n, n, n + 1, max(0, n - 1)])), rnd.choice(SIDES)) for _ in range(k)]
        if rnd.random() < 0.7:
            probe = (rnd.choice(keys)[0], rnd.choice(SIDES))
        else:
            probe = (randbits(rnd, n), rnd.choice(SIDES))
        cases.append(('indict', [probe] + keys, ()))
    # Buffer == bytes and hash(Buffer) == hash(bytes): what the parsers rely on
    for n in range(0, 18):
        for sd in SIDES:
            a = (randbits(rnd, n), sd)
            from bufcases import B
            content = B(*a).content
            cases.append(('eqbytes', [a], (content,)))
            cases.append(('eqbytes', [a], (bytes([content[0] ^ 1]) + content[1:] if content else b'\x00',)))
            cases.append(('hashkey', [a], (content,)))
    cases += huge_cases(rnd, 'C13', tier != 'quick')
    cases += word_cases(rnd, 'C13', tier != 'quick')
    cases += twin_cases(rnd, 'C13', tier != 'quick')
    return cases


def gen_c16(rnd, tier):
    """Every non-in-place operation on every side combination, with operands snapshotted; plus the
    in-place ones (the receiver must denote the result, the other operand must be untouched)."""
    sub = 'quick'
    c = gen_c05(rnd, sub) + gen_c06(rnd, sub) + gen_c13(rnd, sub)
    if tier != 'thorough':
        c = [x for x in c if x[0] not in ('new',)]
        rnd.shuffle(c)
        c = c[:30000]
    return c


GEN = {'C05': gen_c05, 'C06': gen_c06, 'C13': gen_c13, 'C16': gen_c16}


def class_key(case):
    op, opers, par = case
    sides = ''.join(o[1] for o in opers[:2])
    res = tuple(len(o[0]) % 8 for o in opers[:2])
    return (op, sides, res)


def run_buffer_family(rep, cases, max_report=5):
    """Run cases on implementation and model; record coverage; return number of failures."""
    drv = Driver()
    results = []
    lines = []
    for case in cases:
        res = run_case(case)
        results.append(res)
        lines.append(model_line(case, res))
    outs = drv.run(lines)
    nfail = 0
    for case, res, line, mo in zip(cases, results, lines, outs):
        op = case[0]
        rep.count('op:' + op, key=(op, tuple(case[1]), repr(case[2])))
        k = class_key(case)
        rep.hist['class:%s/%s/%s' % (k[0], k[1], ','.join(map(str, k[2])))] = rep.hist.get('class:%s/%s/%s' % (k[0], k[1], ','.join(map(str, k[2]))), 0) + 1
        m = parse_model(op, mo)
        kind, val = res['out']
        iv = ('EXC', val) if kind == 'EXC' else ('OK', show_value(val))
        # correspondence at the abstract level
        agree = True
        if m[0] == 'BAD':
            agree = False
        elif m[0] != iv[0]:
            agree = False
        elif m[0] == 'EXC':
            agree = m[1] == iv[1]
        else:
            agree = abstract(m[1]) == abstract(iv[1])
            if agree and m[1] != iv[1]:
                rep.drift += 1
        rep.corr_evals += 1
        fails = judge(case, res)
        rep.oracle_evals += 1
        rep.hist['outcome:' + (val if kind == 'EXC' else 'ok')] = rep.hist.get('outcome:' + (val if kind == 'EXC' else 'ok'), 0) + 1
        if fails or not agree:
            nfail += 1
            desc = {'layer': 'buffer', 'op': op, 'operands': [list(o) for o in case[1]],
                    'params': [p.hex() if isinstance(p, bytes) else p for p in case[2]],
                    'driver_line': line, 'model': mo, 'implementation': repr(iv), 'oracle_failures': fails}
            if fails:
                rep.violation('property', '%s: %s' % (op, fails[0]), desc)
            else:
                rep.violation('correspondence', 'Buffer.%s: model %s vs implementation %s' % (op, mo, iv,), desc)
        elif len(rep.samples) < 10 and rep.evaluations % 997 == 0:
            rep.sample({'line': line, 'model': mo})
    return nfail
