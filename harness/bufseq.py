"""bufseq.py -- random PROGRAMS of Buffer operations on a pool of live Buffer objects, shadowed step by step by plain bit
strings (the bit-sequence semantics of C05/C06/C13/C16).  After every step EVERY buffer of the pool must still denote its shadow:
this catches what single-operation checks cannot -- results aliased with operands or with module-level objects, caches that
survive an in-place edit, iterators sharing state, and any other action at a distance."""
from core import mk, bits_of, canonical, L, R, randbits, Buffer, side_char, time_limit, Timeout


def step(rnd, pool, shadow, log, held=None):
    """perform one random operation; returns None or a failure string"""
    names = list(pool)
    a = rnd.choice(names)
    op = rnd.choice(['slice', 'slice', 'empty-slice', 'add', 'add', 'iadd', 'setint', 'setitem', 'setitem-empty', 'pad-inplace', 'pad-copy', 'shift-inplace', 'shift-copy',
                     'copy', 'hash-lookup', 'eq', 'foreign-operand', 'iter-zip', 'iter-nested', 'value', 'bitwise', 'invert', 'chunks', 'new', 'observe-mutate-observe', 'observe-mutate-observe'])
    if held is not None:
        # the buffers of this program were built from bytearrays the caller keeps (and rewrites): nothing that hashes (a Buffer over a
        # bytearray is not hashable on the unchanged tree either), and the caller's own step
        while op in ('hash-lookup', 'observe-mutate-observe', 'foreign-operand'):
            op = rnd.choice(['caller-rewrites-array', 'caller-rewrites-array', 'copy', 'shift-copy', 'shift-inplace', 'pad-copy', 'slice', 'add'])
    A, sa = pool[a], shadow[a]
    n = len(sa)
    new = 'v%d' % len(log)
    log.append((op, a))
    try:
        if op == 'caller-rewrites-array':
            for ba in held.values():
                k_ = rnd.choice(['flip', 'extend', 'clear', 'zero'])
                if k_ == 'flip':
                    for i_ in range(len(ba)):
                        ba[i_] ^= 0xff
                elif k_ == 'extend':
                    ba.extend(b'\xa5\x5a')
                elif k_ == 'clear':
                    del ba[:]
                else:
                    for i_ in range(len(ba)):
                        ba[i_] = 0
        elif op == 'new':
            bits = randbits(rnd, rnd.choice([0, 1, 3, 8, 9, 16, 17, 24, 260, 300, 304]))
            side_ = rnd.choice([L, R])
            if held is not None:
                m_ = mk(bits, side_)
                held[new] = bytearray(m_.content)
                pool[new], shadow[new] = Buffer(held[new], len(bits), side_), bits
            else:
                pool[new], shadow[new] = mk(bits, side_), bits
        elif op == 'slice':
            s = rnd.randint(0, n)
            e = rnd.randint(s, n + 2)
            pool[new], shadow[new] = A[s:e], sa[s:e]
        elif op == 'empty-slice':
            s = rnd.randint(0, n)
            pool[new], shadow[new] = A[s:s], ''
        elif op == 'add':
            b = rnd.choice(names)
            pool[new], shadow[new] = A + pool[b], sa + shadow[b]
        elif op == 'iadd':
            # x = a; x += b : the name x is rebound to the sum, the object a stays what it was (Buffer defines no in-place addition)
            b = rnd.choice(names)
            x = A
            x += pool[b]
            pool[new], shadow[new] = x, sa + shadow[b]
        elif op in ('setitem', 'setitem-empty'):
            b = rnd.choice(names)      # b may be a itself: b[i:j] = b has the list semantics l[i:j] = l
            s = rnd.randint(0, n)
            e = s if op == 'setitem-empty' else rnd.randint(s, n)
            vb = shadow[b]
            A[s:e] = pool[b]
            shadow[a] = sa[:s] + vb + sa[e:]
        elif op == 'setint':
            # b[i] = v with an int index replaces ONE bit by the bits of v (any number of them): the buffer may grow or shrink by it
            if n == 0:
                return None
            b = rnd.choice(names)
            i_ = rnd.randrange(n)
            vb = shadow[b]
            A[i_] = pool[b]
            shadow[a] = sa[:i_] + vb + sa[i_ + 1:]
        elif op == 'pad-inplace':
            A.pad(rnd.choice([L, R]), inplace=True)
        elif op == 'pad-copy':
            pool[new], shadow[new] = A.pad(rnd.choice([L, R]), inplace=False), sa
        elif op == 'shift-inplace':
            k = rnd.randint(-9, 9)
            A.shift(k, inplace=True)
            shadow[a] = sa + '0' * (-k) if k < 0 else sa[:max(0, n - k)]
        elif op == 'shift-copy':
            k = rnd.randint(-9, 9)
            pool[new], shadow[new] = A.shift(k, inplace=False), (sa + '0' * (-k) if k < 0 else sa[:max(0, n - k)])
        elif op == 'copy':
            pool[new], shadow[new] = A.copy(), sa
        elif op == 'hash-lookup':
            # a dict built NOW from the live buffers must find A through an equal fresh buffer and through A itself
            d = {v: k for k, v in pool.items()}
            probe = mk(sa, rnd.choice([L, R]))
            want = [k for k, v in shadow.items() if v == sa]
            if d.get(probe) not in want or d.get(A) not in want:
                return 'dict keyed by the live buffers: lookup of %r gives %r / %r, expected one of %r' % (sa, d.get(probe), d.get(A), want)
        elif op == 'eq':
            b = rnd.choice(names)
            if (A == pool[b]) != (sa == shadow[b]):
                return '%s == %s is %r, bits %r vs %r' % (a, b, A == pool[b], sa, shadow[b])
        elif op == 'foreign-operand':
            # objects of other types: never equal (a bytes object compares with the stored bytes, by documented design), never concatenated
            for x in (sa, 7, None, [int(c) for c in sa], (sa,), 1.5):
                if A == x or not (A != x):
                    return '%r compares equal to %r' % (sa, x)
            for x in (b'\x00', sa, 3, None):
                try:
                    A + x
                    return 'concatenation with %r did not raise' % (x,)
                except TypeError:
                    pass
            if n and n % 8 == 0 and not (A == int(sa, 2).to_bytes(n // 8, 'big')):
                return 'a byte-aligned buffer does not compare equal to its own bytes'
        elif op == 'iter-zip':
            got = ''.join('%d%d' % (x, y) for x, y in zip(A, A))
            want = ''.join(c + c for c in sa)
            if got != want:
                return 'zip(b, b) over %r gives %r' % (sa, got)
        elif op == 'iter-nested':
            if n <= 12:
                got = sum(1 for _ in A for _ in A)
                if got != n * n:
                    return 'nested iteration over a %d-bit buffer visits %d pairs' % (n, got)
        elif op == 'value':
            if A.value() != int(sa or '0', 2):
                return 'value() of %r is %r' % (sa, A.value())
        elif op == 'observe-mutate-observe':
            # an observer is called, the buffer is changed in place (possibly back to the same length), the observer is called again:
            # nothing remembered from the first call may show in the second
            obs = rnd.choice(['value', 'hash', 'iter', 'chunks', 'json', 'eq'])

            def observe(buf, bits):
                if obs == 'value':
                    return buf.value() == int(bits or '0', 2)
                if obs == 'hash':
                    return hash(buf) == hash(mk(bits, rnd.choice([L, R])))
                if obs == 'iter':
                    return ''.join(str(x) for x in buf) == bits
                if obs == 'chunks':
                    return (not bits) or ''.join(bits_of(c) for c in buf.chunks(5)) == bits
                if obs == 'json':
                    return bits_of(Buffer.from_json(buf.json())) == bits
                return buf == mk(bits, rnd.choice([L, R]))
            if not observe(A, sa):
                return '%s() of %r is wrong' % (obs, sa)
            cur = sa
            muts = []
            for _ in range(rnd.randint(1, 3)):
                m = rnd.choice(['shift', 'shift-back', 'pad', 'setitem'])
                if m == 'shift':
                    k = rnd.randint(-9, 9)
                    A.shift(k, inplace=True)
                    cur = cur + '0' * (-k) if k < 0 else cur[:max(0, len(cur) - k)]
                elif m == 'shift-back':
                    k = rnd.randint(1, 9)
                    A.shift(k, inplace=True)
                    cur = cur[:max(0, len(cur) - k)]
                    A.shift(-k, inplace=True)
                    cur = cur + '0' * k
                elif m == 'pad':
                    A.pad(rnd.choice([L, R]), inplace=True)
                elif len(cur) > 0:
                    i_ = rnd.randrange(len(cur))
                    j_ = rnd.randint(i_, len(cur))
                    w = randbits(rnd, j_ - i_)
                    A[i_:j_] = mk(w, rnd.choice([L, R]))
                    cur = cur[:i_] + w + cur[j_:]
                muts.append(m)
            shadow[a] = cur
            if not observe(A, cur):
                return '%s() after in-place %s of %r (now %r) still answers for the old contents' % (obs, '+'.join(muts), sa, cur)
        elif op == 'bitwise':
            other = mk(randbits(rnd, n), rnd.choice([L, R]))
            pool[new], shadow[new] = A ^ other, ''.join('1' if x != y else '0' for x, y in zip(sa, bits_of(other)))
        elif op == 'invert':
            pool[new], shadow[new] = ~A, ''.join('1' if c == '0' else '0' for c in sa)
        elif op == 'chunks':
            k = rnd.choice([1, 3, 8, 16])
            cs = list(A.chunks(k))
            if n and ''.join(bits_of(c) for c in cs) != sa:
                return 'chunks(%d) of %r concatenate to %r' % (k, sa, ''.join(bits_of(c) for c in cs))
    except Exception as e:  # noqa: BLE001
        return '%s on %r raised %s: %s' % (op, sa, type(e).__name__, str(e)[:80])
    # action at a distance: every live buffer still denotes its shadow, canonically
    for k, v in pool.items():
        if bits_of(v) != shadow[k] or v.length != len(shadow[k]) or not canonical(v):
            return 'after %s on %s: buffer %s is %s:%d:%s, should denote %r' % (op, a, k, v.content.hex(), v.length, side_char(v.padding), shadow[k])
    # every live buffer (result of whatever sequence of operations) is usable as a key: it hashes like a fresh buffer with the same bits
    if held is None and rnd.random() < 0.3:
        for k, v in pool.items():
            try:
                ok = hash(v) == hash(mk(shadow[k], rnd.choice([L, R])))
            except Exception as e:  # noqa: BLE001
                return 'after %s on %s: hash(%s) raised %s: %s (content is a %s)' % (op, a, k, type(e).__name__, str(e)[:60], type(v.content).__name__)
            if not ok:
                return 'after %s on %s: buffer %s (%r) does not hash like an equal fresh buffer' % (op, a, k, shadow[k])
    return None


def run_program(rnd, nsteps, arrays=False):
    pool, shadow, log = {}, {}, []
    held = {} if arrays else None
    if arrays:
        try:
            Buffer(bytearray(b'\x5a'), 8, L)
        except Exception:  # noqa: BLE001 -- a constructor that refuses anything but `bytes` is within its rights: an ordinary program then
            arrays, held = False, None
    for i in range(3):
        bits = randbits(rnd, rnd.choice([0, 2, 5, 8, 11, 16, 23] if not arrays else [0, 8, 16, 16, 24, 5, 11]))
        side_ = rnd.choice([L, R])
        if arrays:
            held['b%d' % i] = bytearray(mk(bits, side_).content)
            pool['b%d' % i], shadow['b%d' % i] = Buffer(held['b%d' % i], len(bits), side_), bits
        else:
            pool['b%d' % i], shadow['b%d' % i] = mk(bits, side_), bits
    for _ in range(nsteps):
        try:
            with time_limit(20):
                f = step(rnd, pool, shadow, log, held)
        except Timeout:
            f = '%s on %s did not return within 20 s' % log[-1]
        if f:
            return f, log
        if len(pool) > 14:      # keep the pool small: forget the oldest derived values
            for k in [k for k in pool if k.startswith('v')][:4]:
                del pool[k], shadow[k]
    return None, log


def run(rep, rnd, nprog, nsteps):
    for p in range(nprog):
        arrays = p % 5 == 4       # a fifth of the programs: buffers built from bytearrays that the caller keeps and rewrites
        f, log = run_program(rnd, nsteps, arrays)
        rep.count('buffer-program' + ('-over-bytearrays' if arrays else ''), key=('prog', p, len(log)), n=len(log))
        rep.oracle_evals += len(log)
        for op, _ in log:
            rep.hist['program-op:' + op] = rep.hist.get('program-op:' + op, 0) + 1
        if f:
            rep.violation('property', 'buffer program: ' + f, dict(layer='buffer-program', steps=[list(x) for x in log[-12:]], failure=f))
            return
