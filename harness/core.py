"""core.py -- shared machinery of the microschc verification harness.

Everything random derives from one PRNG seeded with VERIF_SEED.  The implementation under test is
imported from /repo's current working tree (PYTHONPATH is forced by ./check).
"""
import hashlib
import json
import os
import random
import subprocess
import sys
import time
import traceback

VERIF = os.path.dirname(os.path.dirname(os.path.abspath(__file__)))
REPO = os.environ.get('MICROSCHC_REPO', '/repo')
BUILD = os.path.join(VERIF, 'build')
DRIVER = os.path.join(BUILD, 'driver')

if sys.path[0] != REPO:
    sys.path.insert(0, REPO)

import warnings
warnings.simplefilter('ignore')

from microschc.binary.buffer import Buffer, Padding  # noqa: E402

L, R = Padding.LEFT, Padding.RIGHT


def side_char(p):
    return 'L' if p == 'left' else 'R'


def side_of(c):
    return L if c == 'L' else R


# ---------------------------------------------------------------------------------------------
# bit strings <-> Buffers.  Bit strings are python str of '0'/'1'.
def mk(bits, side=L):
    """Build a canonical Buffer denoting `bits` with the given padding side, without using any
    Buffer operation other than the constructor."""
    n = len(bits)
    v = int(bits or '0', 2)
    nb = (n + 7) // 8
    if side == 'left':
        return Buffer(v.to_bytes(nb, 'big'), n, L)
    return Buffer((v << ((8 - n % 8) % 8)).to_bytes(nb, 'big'), n, R)


def mkj(rnd, bits, side=L, p=0.3):
    """Like mk, but (with probability p) the constructor is given more than it needs, as callers do (`Buffer(content=b'\\x0c', length=0)`
    appears in the library's own tests): surplus bytes before (left padding) or after (right padding) the value, and non-zero
    padding bits.  The constructor must normalise all of it away."""
    if rnd.random() >= p:
        return mk(bits, side)
    n = len(bits)
    pad = (8 - n % 8) % 8
    junk = rnd.randbytes(rnd.randint(0, 2)) if (n or rnd.random() < 0.5) else bytes([rnd.randrange(1, 256)])
    fill = ''.join(rnd.choice('01') for _ in range(pad))
    if side == 'left':
        body = fill + bits
        return Buffer(junk + (int(body, 2).to_bytes(len(body) // 8, 'big') if body else b''), n, L)
    body = bits + fill
    return Buffer((int(body, 2).to_bytes(len(body) // 8, 'big') if body else b'') + junk, n, R)


def mkmap(forward):
    """Build a MatchMapping and remember the entries AS GIVEN (keys, indices, order): the neutral forms handed to the model and to the
    reference are taken from what the caller provisioned, not from what the constructor made of it"""
    from microschc.rfc8724 import MatchMapping
    given = list(forward.items())
    mm = MatchMapping(forward)
    mm._given = given
    return mm


def given_items(mm):
    g = getattr(mm, '_given', None)
    return g if g is not None else list(mm.forward.items())


def mkraw(content, length, side, pl=None):
    """Build a Buffer object with exactly these fields (bypassing the constructor's normalisation)."""
    b = Buffer(b'', 0, side)
    b.content = content
    b.length = length
    b.padding = side
    b.padding_length = (8 - length % 8) % 8 if pl is None else pl
    return b


def bits_of(b):
    """Decode (content, length, padding) into the denoted bit string, independently of __iter__."""
    n = b.length
    tot = len(b.content) * 8
    s = bin(int.from_bytes(b.content, 'big'))[2:].zfill(tot) if tot else ''
    if n < 0:
        return None
    if b.padding == 'left':
        s = s.zfill(n)
        return s[len(s) - n:]
    s = s + '0' * max(0, n - len(s))
    return s[:n]


def canonical(b):
    n = b.length
    if n < 0:
        return False
    if len(b.content) != (n + 7) // 8:
        return False
    if b.padding_length != (8 - n % 8) % 8:
        return False
    if not isinstance(b.padding, Padding):
        return False
    tot = len(b.content) * 8
    s = bin(int.from_bytes(b.content, 'big'))[2:].zfill(tot) if tot else ''
    pl = tot - n
    if b.padding == 'left':
        return s[:pl] == '0' * pl
    return s[n:] == '0' * pl


def raw(b):
    """Raw fields as the driver's buffer literal hex:len:side:pl."""
    return '%s:%d:%s:%d' % (b.content.hex() or '-', b.length, side_char(b.padding), b.padding_length)


def parse_raw(s):
    h, l, sd, pl = s.split(':')
    return mkraw(bytes.fromhex('' if h == '-' else h), int(l), side_of(sd), int(pl))


def snapshot(b):
    return (bytes(b.content), b.length, str(b.padding.value if isinstance(b.padding, Padding) else b.padding), b.padding_length,
            isinstance(b.padding, Padding))


def obs_buf(b):
    """Abstract observation of a Buffer: (length, bits, canonical flag)."""
    return (b.length, bits_of(b), canonical(b))


# ---------------------------------------------------------------------------------------------
class Driver:
    """Runs the extracted Coq model (OCaml binary) on a batch of case lines."""

    def __init__(self):
        if not os.path.exists(DRIVER):
            raise RuntimeError('model driver not built: run `make -C /verif setup` (MANIFEST.setup_cmd)')

    def run(self, lines, timeout=3600):
        if not lines:
            return []
        inp = ('\n'.join(lines) + '\n').encode()
        p = subprocess.run([DRIVER], input=inp, stdout=subprocess.PIPE, stderr=subprocess.PIPE, timeout=timeout,
                           preexec_fn=_unlimit_stack)
        out = p.stdout.decode().split('\n')
        if out and out[-1] == '':
            out.pop()
        if len(out) != len(lines):
            raise RuntimeError('driver returned %d lines for %d cases (rc=%s, stderr=%s)' % (len(out), len(lines), p.returncode, p.stderr.decode()[-400:]))
        return out


def _unlimit_stack():
    import resource
    try:
        resource.setrlimit(resource.RLIMIT_STACK, (resource.RLIM_INFINITY, resource.RLIM_INFINITY))
    except Exception:
        try:
            soft, hard = resource.getrlimit(resource.RLIMIT_STACK)
            resource.setrlimit(resource.RLIMIT_STACK, (hard, hard))
        except Exception:
            pass


class Timeout(Exception):
    """an implementation call that does not return within its wall-clock limit"""


def _alarm(signum, frame):
    raise Timeout()


TIME_FACTOR = float(os.environ.get('VERIF_TIME_FACTOR', '1') or 1)


class time_limit:
    """with time_limit(s): ...  raises Timeout in the body after s seconds of CPU time of this process (ITIMER_PROF: a loop that never
    ends burns CPU and is caught; a machine that is merely busy, or slowed down by other checks running beside this one, does not trip
    it -- a wall-clock limit did, under load, on the largest well-formed SCTP packets).  When a limit is already running (nested use)
    the outer one stays in charge.  The wall-clock watchdog of main.py covers anything that would block without using CPU."""

    def __init__(self, seconds):
        self.seconds = seconds * TIME_FACTOR
        self.armed = False

    def __enter__(self):
        import signal
        if signal.getitimer(signal.ITIMER_PROF)[0] == 0:
            self.old = signal.signal(signal.SIGPROF, _alarm)
            signal.setitimer(signal.ITIMER_PROF, self.seconds)
            self.armed = True
        return self

    def __exit__(self, *exc):
        import signal
        if self.armed:
            signal.setitimer(signal.ITIMER_PROF, 0)
            signal.signal(signal.SIGPROF, self.old)
        return False


def impl_outcome(f, limit=20):
    """Run f() on the implementation; map the outcome to ('OK', value) / ('EXC', class name).  A call that does not return within
    `limit` seconds is the observation ('EXC', 'Timeout'), never a stuck check."""
    try:
        with time_limit(limit):
            return ('OK', f())
    except RecursionError:
        return ('EXC', 'RecursionError')
    except Exception as e:  # noqa: BLE001
        return ('EXC', type(e).__name__)


# ---------------------------------------------------------------------------------------------
class Report:
    """Collects what a check run covered and found; writes evidence, replays and the verdict."""

    def __init__(self, pid, tier, seed):
        self.pid = pid
        self.tier = tier
        self.seed = seed
        self.t0 = time.time()
        self.evaluations = 0
        self.distinct = set()
        self.hist = {}
        self.samples = []
        self.violations = []      # list of (kind, description, replay dict)
        self.known = []
        self.drift = 0
        self.notes = []
        self.proof = None
        self.corr_evals = 0
        self.oracle_evals = 0

    def count(self, klass, key=None, n=1):
        self.evaluations += n
        self.hist[klass] = self.hist.get(klass, 0) + n
        if key is not None:
            self.distinct.add(key if isinstance(key, (str, int, tuple)) else repr(key))

    def sample(self, s, cap=12):
        if len(self.samples) < cap:
            self.samples.append(s)

    def violation(self, kind, what, case):
        """kind: 'property' (a concrete input on which the property fails on the implementation),
        'correspondence' (model and implementation disagree), 'proof' (a theorem no longer checks)."""
        self.violations.append((kind, what, case))

    def known_finding(self, what):
        if what not in self.known:
            self.known.append(what)


def load_known_findings():
    p = os.path.join(VERIF, 'known_findings.json')
    if not os.path.exists(p):
        return {'open': [], 'fixed': []}
    return json.load(open(p))


def write_replay(pid, kind, what, case):
    os.makedirs(os.path.join(VERIF, 'replays'), exist_ok=True)
    body = {'property': pid, 'kind': kind, 'what': what, 'case': case}
    h = hashlib.sha1(json.dumps(body, sort_keys=True, default=str).encode()).hexdigest()[:12]
    path = os.path.join(VERIF, 'replays', '%s-%s.json' % (pid, h))
    with open(path, 'w') as f:
        json.dump(body, f, indent=1, default=str)
    return path


def rng_for(seed, name):
    """Independent deterministic stream per generator, all derived from VERIF_SEED."""
    h = hashlib.sha256(('%d/%s' % (seed, name)).encode()).digest()
    return random.Random(int.from_bytes(h[:8], 'big'))


def randbits(rnd, n):
    return ''.join(rnd.choice('01') for _ in range(n)) if n else ''


def fmt_exc():
    return traceback.format_exc(limit=6)
