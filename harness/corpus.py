"""corpus.py -- the committed regression corpus (minimised witnesses of repaired defects and of
branch classes); every check runs it before any generated case."""
import json
import os
from core import VERIF


def _load(name):
    p = os.path.join(VERIF, 'corpus', name)
    if not os.path.exists(p):
        return []
    return json.load(open(p))


def buffer_cases(pid):
    out = []
    for c in _load('buffer.json'):
        if pid in c['properties']:
            par = tuple(bytes.fromhex(p) if isinstance(p, str) and c['op'] in ('new', 'eqbytes', 'hashkey') and i == 0 else p for i, p in enumerate(c['params']))
            out.append((c['op'], [tuple(o) for o in c['operands']], par))
    return out
