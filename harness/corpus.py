"""corpus.py -- the committed regression corpus (minimised witnesses of repaired defects and of
branch classes); every check runs it before any generated case."""
import json
import os
from core import VERIF


def _load(name):
    p = os.path.join(VERIF, 'corpus', name)
    if not os.path.exists(p):
        return []
    return json.load(open(p))


def buffer_cases(pid):
    out = []
    for c in _load('buffer.json'):
        if pid in c['properties']:
            par = tuple(bytes.fromhex(p) if isinstance(p, str) and c['op'] in ('new', 'eqbytes', 'hashkey') and i == 0 else p for i, p in enumerate(c['params']))
            out.append((c['op'], [tuple(o) for o in c['operands']], par))
    return out


def run_schc(rep, pid):
    """SCHC-layer corpus cases of a property: replayed through the same batch machinery as generated cases."""
    cases = [c for c in _load('schc.json') if pid in c['properties']]
    if not cases:
        return
    from p_schc_common import lib_pdesc, lib_rule
    from schc_run import Batch, case_compress, case_decompress, case_match
    from schc_util import DIRS
    from core import L, R
    b = Batch(rep)
    for c in cases:
        k = c['case']
        d = None if k.get('direction', 'N') == 'N' else DIRS[k['direction']]
        if k['op'] == 'compress':
            case_compress(b, lib_pdesc(k['pdesc']), lib_rule(k['rule']), d, klass='corpus:compress')
        elif k['op'] == 'decompress':
            case_decompress(b, k['schc'], lib_rule(k['rule']), d, klass='corpus:decompress', expect=k.get('expect'), side=L if k.get('side') == 'L' else R)
        elif k['op'] == 'matchschc':
            from p_c11 import one
            one(b, k['ids'], k['schc'], L if k.get('side') == 'L' else R, 'corpus:matchschc')
        elif k['op'] == 'match':
            case_match(b, lib_pdesc(k['pdesc']), [lib_rule(r) for r in k['rules']], klass='corpus:match')
    n = b.run()
    rep.notes.append('SCHC regression corpus: %d cases, %d failing' % (len(cases), n))
