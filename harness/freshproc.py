"""freshproc.py -- the same library calls in a FRESH interpreter that has done nothing else.

A deployment compresses on one host and decompresses on another; a gateway is restarted; a tool loads a context from JSON and does one
thing.  Whatever the library leaves in module-level tables while parsing or compressing (registries filled as a side effect, ids
remembered, parsers registered by an import that happens to occur) is absent there.  The checks run everything in ONE process, so a
dependence on such residue is invisible to them unless a sample of their calls is repeated here: a worker process is started per
batch with PYTHONPATH set to the tree under test, imports ONLY what the call needs (through the public entry points: the registry's
factory, Context.from_json, ContextManager, the front end), performs the calls described as JSON and returns the results as JSON.
The caller compares them with what it observed in-process.  A difference is a violation of the property the call belongs to: the
in-process result is the one the model and the oracles have already judged."""
import json
import os
import subprocess
import sys

WORKER = r'''
import json, sys, warnings
warnings.simplefilter('ignore')


def bits_of(b):
    n = b.length
    tot = len(b.content) * 8
    s = bin(int.from_bytes(b.content, 'big'))[2:].zfill(tot) if tot else ''
    return s[tot - n:] if str(getattr(b.padding, 'value', b.padding)) == 'left' else s[:n]


def mkbuf(Buffer, Padding, bits, side):
    n = len(bits)
    nb = (n + 7) // 8
    v = int(bits or '0', 2)
    if side == 'L':
        return Buffer(v.to_bytes(nb, 'big'), n, Padding.LEFT)
    return Buffer((v << ((8 - n % 8) % 8)).to_bytes(nb, 'big'), n, Padding.RIGHT)


def outcome(f):
    try:
        return ['OK', f()]
    except RecursionError:
        return ['EXC', 'RecursionError']
    except Exception as e:
        return ['EXC', type(e).__name__]


def main():
    tasks = json.load(sys.stdin)
    res = []
    for t in tasks:
        op = t['op']
        if op == 'parse':
            # only the registry is imported: the parsers must be reachable through it
            from microschc.protocol.registry import factory
            from microschc.binary.buffer import Buffer, Padding
            def f():
                pkt = bytes.fromhex(t['packet'])
                pd = factory(t['stack']).parse(Buffer(pkt, len(pkt) * 8))
                return [[str(getattr(x.id, 'value', x.id)), x.position, bits_of(x.value)] for x in pd.fields] + [['payload', 0, bits_of(pd.payload)]]
            res.append(outcome(f))
        elif op in ('cm-compress', 'cm-decompress'):
            from microschc.rfc8724extras import Context
            from microschc.manager import ContextManager
            from microschc.binary.buffer import Buffer, Padding
            from microschc.rfc8724 import DirectionIndicator
            def f():
                cm = ContextManager(Context.from_json(t['context']))
                d = {'U': DirectionIndicator.UP, 'D': DirectionIndicator.DOWN}[t['direction']]
                if op == 'cm-compress':
                    pkt = bytes.fromhex(t['packet'])
                    r = cm.compress(Buffer(pkt, len(pkt) * 8), direction=d, match_strategy=t['strategy'])
                else:
                    r = cm.decompress(mkbuf(Buffer, Padding, t['schc'], t.get('side', 'R')), direction=d)
                return bits_of(r) if isinstance(r, Buffer) else 'NOT-A-BUFFER:%r' % (r,)
            res.append(outcome(f))
        elif op == 'unparse-semantic':
            from microschc.protocol.coap import CoAPParser, CoAPOptionMode
            from microschc.binary.buffer import Buffer, Padding
            def f():
                p = CoAPParser(interpret_options=CoAPOptionMode.SEMANTIC)
                fl = [(i, mkbuf(Buffer, Padding, v, 'L')) for i, v in t['fields']]
                return [[str(getattr(i, 'value', i)), bits_of(v)] for i, v in p.unparse(fl)]
            res.append(outcome(f))
        elif op == 'front':
            import importlib.util, os
            spec = importlib.util.spec_from_file_location('microschc_front', os.path.join(t['root'], 'microschc.py'))
            m = importlib.util.module_from_spec(spec)
            spec.loader.exec_module(m)
            from microschc.rfc8724extras import Context
            from microschc.binary.buffer import Buffer, Padding
            def f():
                front = m.SCHC([Context.from_json(c) for c in t['contexts']])
                out = []
                for kind, x in t['calls']:
                    if kind == 'c':
                        pkt = bytes.fromhex(x)
                        o = outcome(lambda: bits_of(front.compress(Buffer(pkt, len(pkt) * 8), t['interface'])))
                    else:
                        o = outcome(lambda: bits_of(front.decompress(mkbuf(Buffer, Padding, x, 'R'), t['interface'])))
                    out.append(o)
                return out
            res.append(outcome(f))
        else:
            res.append(['EXC', 'unknown-op'])
    json.dump(res, sys.stdout)


main()
'''


def run_fresh(tasks, timeout=600):
    """run the tasks in ONE fresh interpreter (state does accumulate across the tasks of a batch: give a batch tasks of one kind, and use
    several batches); returns the list of results ([kind, value]) or raises on a crash of the worker"""
    if not tasks:
        return []
    root = os.environ.get('MICROSCHC_REPO', '/repo')
    env = dict(os.environ, PYTHONPATH=root, PYTHONHASHSEED='0', PYTHONDONTWRITEBYTECODE='1')
    p = subprocess.run([sys.executable, '-W', 'ignore', '-c', WORKER], input=json.dumps(tasks).encode(), stdout=subprocess.PIPE, stderr=subprocess.PIPE,
                       env=env, timeout=timeout, cwd='/')
    if p.returncode != 0:
        return [['EXC', 'worker-crashed: ' + p.stderr.decode(errors='replace')[-300:]]] * len(tasks)
    out = json.loads(p.stdout.decode())

    def tup(x):
        return tuple(tup(y) for y in x) if isinstance(x, list) else x
    return [tup(r) for r in out]


def compare(rep, pid_klass, tasks, expected, describe):
    """run `tasks` in fresh interpreters (one per 40 tasks) and compare with the in-process observations `expected` (same shape);
    a difference is reported as a property violation with the task as replay"""
    n = 0
    for i in range(0, len(tasks), 40):
        got = run_fresh(tasks[i:i + 40])
        for t, g, e in zip(tasks[i:i + 40], got, expected[i:i + 40]):
            rep.count('fresh-process:' + pid_klass, key=('fresh', pid_klass, json.dumps(t, sort_keys=True)[:400]))
            rep.oracle_evals += 1
            n += 1
            if g != e:
                rep.violation('property', '%s: a fresh interpreter (another host, a restarted process) gives %s, this process gave %s -- %s'
                              % (pid_klass, str(g)[:140], str(e)[:140], describe(t)), dict(layer='fresh-process', task=t, fresh=str(g)[:2000], here=str(e)[:2000]))
                return n
    return n
