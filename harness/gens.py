"""gens.py -- shared generators for the SCHC-layer and parser-layer checks: parsed packets per stack,
matching rules, near-miss mutants, rule sets, synthetic rules with arbitrary field sizes."""
import copy
from core import mk, bits_of, L, R, Buffer, randbits, impl_outcome
from core import mkmap, given_items
from schc_util import (gen_rule, gen_rfd, prefix_free_ids, i2b, KINDS, fid_of, FID, COMPUTABLE, n_rule)
from schc_run import parser_for
from microschc.rfc8724 import (FieldDescriptor, PacketDescriptor, RuleFieldDescriptor, RuleDescriptor, MatchMapping,
                               RuleNature, DirectionIndicator as DI, MatchingOperator as MO,
                               CompressionDecompressionAction as CDA)
import packets as P

STACK_GENS = {
    'IPv6-UDP-CoAP': [P.pkt_ipv6_udp_coap],
    'IPv4-UDP-CoAP': [P.pkt_ipv4_udp_coap],
    'UDP': [P.pkt_udp_coap],
    'CoAP': [lambda r, **kw: P.coap(r, **kw)],
    'SCTP': [lambda r: P.sctp(r)],
    'IPv6': [P.pkt_ipv6_udp_coap, P.pkt_ipv6_sctp],
    'IPv4': [P.pkt_ipv4_udp_coap, P.pkt_ipv4_sctp],
}
# datagrams to ports that designate no (or only apparently a) next parser; large SCTP packets
STACK_GENS['UDP'].append(P.pkt_udp_raw)
STACK_GENS['IPv6'].append(P.pkt_ipv6_udp_raw)
STACK_GENS['IPv4'].append(P.pkt_ipv4_udp_raw)
ALL_STACKS = list(STACK_GENS)


def b2s(b):
    return ''.join(format(x, '08b') for x in b)


def gen_packet(rnd, stack=None):
    stack = stack or rnd.choice(ALL_STACKS)
    pkt, st = rnd.choice(STACK_GENS[stack])(rnd)
    return stack, pkt, st


def parse(stack, pkt):
    """library parse of packet bytes; returns PacketDescriptor or raises"""
    return parser_for(stack).parse(Buffer(pkt, len(pkt) * 8))


def gen_parsed(rnd, stack=None, tries=20):
    for _ in range(tries):
        stack2, pkt, st = gen_packet(rnd, stack)
        out = impl_outcome(lambda: parse(stack2, pkt))
        if out[0] == 'OK':
            return stack2, pkt, st, out[1]
    raise RuntimeError('generator: no parsable packet for stack %s after %d tries (%s)' % (stack, tries, out))


def no_compression_rule(rid_bits, side=L):
    return RuleDescriptor(id=mk(rid_bits, side), nature=RuleNature.NO_COMPRESSION)


# ---- near-miss mutants of a matching rule (C04) -----------------------------------------------------
def mutate_rule(rnd, rule, pd):
    """One edit of a (matching) rule; returns (mutant, description)."""
    fds = [copy.copy(f) for f in rule.field_descriptors]
    if not fds:
        return RuleDescriptor(id=rule.id, field_descriptors=fds), 'none'
    i = rnd.randrange(len(fds))
    f = fds[i]
    kind = rnd.choice(['flipbit', 'lengthen', 'shorten', 'drop', 'dup', 'swap', 'dir', 'id', 'id-related', 'len', 'mapdel', 'mapzeros', 'longer-than-field'])
    if kind == 'flipbit' and isinstance(f.target_value, Buffer) and f.target_value.length > 0:
        b = bits_of(f.target_value)
        j = rnd.randrange(len(b))
        b = b[:j] + ('1' if b[j] == '0' else '0') + b[j + 1:]
        f.target_value = mk(b, rnd.choice([L, R]))
    elif kind == 'lengthen' and isinstance(f.target_value, Buffer):
        f.target_value = mk(bits_of(f.target_value) + rnd.choice(['0', '1']), rnd.choice([L, R]))
    elif kind == 'longer-than-field' and isinstance(f.target_value, Buffer) and f.matching_operator == MO.MSB:
        fv = bits_of(pd.fields[min(i, len(pd.fields) - 1)].value)
        f.target_value = mk(fv + '0' * rnd.randint(1, 9), rnd.choice([L, R]))
    elif kind == 'shorten' and isinstance(f.target_value, Buffer) and f.target_value.length > 0:
        f.target_value = mk(bits_of(f.target_value)[:-1], rnd.choice([L, R]))
    elif kind == 'drop':
        del fds[i]
    elif kind == 'dup':
        fds.insert(i, copy.copy(f))
    elif kind == 'swap' and len(fds) > 1:
        j = (i + 1) % len(fds)
        fds[i], fds[j] = fds[j], fds[i]
    elif kind == 'dir':
        f.direction = rnd.choice([DI.UP, DI.DOWN, DI.BIDIRECTIONAL])
    elif kind == 'id':
        f.id = pd.fields[rnd.randrange(len(pd.fields))].id
    elif kind == 'id-related':
        # another REGISTERED identifier whose text contains the packet field's identifier or is contained in it ('CoAP:Token' / 'CoAP:Token
        # Length', 'IPv4:Flags' ...), else the identifier of another field of the packet: different identifiers, the descriptor no longer applies
        from schc_util import FID as _FID
        pid_ = pd.fields[min(i, len(pd.fields) - 1)].id
        ps_ = str(getattr(pid_, 'value', pid_))
        rel_ = [x for x in _FID if x != ps_ and (ps_ in x or x in ps_)]
        # (registered identifiers only: the compute functions of the library look for protocol names inside identifiers, and the model
        # knows the registered ones)
        f.id = rnd.choice(rel_) if rel_ else pd.fields[rnd.randrange(len(pd.fields))].id
    elif kind == 'len':
        f.length = rnd.choice([0, f.length + 1, max(0, f.length - 1), f.length + 8])
    elif kind == 'mapzeros' and isinstance(f.target_value, MatchMapping):
        # the key equal to the field value is replaced by keys that spell the same number with other lengths: the value is no longer mapped
        fv = bits_of(pd.fields[min(i, len(pd.fields) - 1)].value)
        fw = {}
        for k_, v_ in given_items(f.target_value):
            if bits_of(k_) == fv:
                fw[mk('0' * 8 + fv, rnd.choice([L, R]))] = v_
            else:
                fw[k_] = v_
        f.target_value = mkmap(fw)
    elif kind == 'mapdel' and isinstance(f.target_value, MatchMapping):
        fw = dict(given_items(f.target_value))
        if fw:
            k = rnd.choice(list(fw))
            del fw[k]
        f.target_value = mkmap(fw)
    else:
        kind = 'none'
    return RuleDescriptor(id=rule.id, field_descriptors=fds), kind


# ---- rule sets (C10, C01, C15) ---------------------------------------------------------------------
def gen_ruleset(rnd, pd, n=None, with_default=None, match_prob=0.6, kinds=KINDS, direction=DI.BIDIRECTIONAL):
    """1..8 rules with prefix-free ids: some matching pd (different gains), some not; optional default rule last."""
    n = rnd.randint(1, 8) if n is None else n
    with_default = (rnd.random() < 0.5) if with_default is None else with_default
    ids = prefix_free_ids(rnd, n + (1 if with_default else 0))
    rules = []
    for i in range(n):
        r = gen_rule(rnd, pd, ids[i], kinds=kinds, direction=direction)
        if rnd.random() > match_prob:
            for _ in range(rnd.randint(1, 2)):
                r, _k = mutate_rule(rnd, r, pd)
            r = RuleDescriptor(id=mk(ids[i], rnd.choice([L, R])), field_descriptors=r.field_descriptors)
        rules.append(r)
    rnd.shuffle(rules)
    if with_default:
        rules.append(no_compression_rule(ids[n], rnd.choice([L, R])))
    return rules


# ---- synthetic rules and values with arbitrary field sizes (C03, C17, C20) ---------------------------
SIZES = [0, 1, 2, 7, 8, 9, 13, 14, 15, 16, 17, 31, 32, 100, 253, 254, 255, 256, 257, 300]


def synth_case(rnd, nfields=None, sizes=None, mixed_index_width=True):
    """A rule over invented field ids with every CDA except compute, and field values valid for it.
    Returns (rule, list of value bit strings)."""
    nfields = rnd.randint(1, 6) if nfields is None else nfields
    fds, vals = [], []
    from core import mkj
    mk = lambda bits, side_=L: mkj(rnd, bits, side_)  # noqa: E731 -- target values built the way callers build them (surplus content)
    for i in range(nfields):
        fid = 'X:f%d' % i
        n = rnd.choice(sizes or SIZES)
        v = randbits(rnd, n)
        k = rnd.choice(['ns', 'vs', 'vsv', 'lsb', 'lsbv', 'map'])
        sd = lambda: rnd.choice([L, R])  # noqa: E731
        if k == 'ns':
            fd = RuleFieldDescriptor(fid, n, 0, DI.BIDIRECTIONAL, mk(v, sd()), MO.EQUAL, CDA.NOT_SENT)
        elif k == 'vs':
            fd = RuleFieldDescriptor(fid, n, 0, DI.BIDIRECTIONAL, Buffer(b'', 0), MO.IGNORE, CDA.VALUE_SENT)
            if n == 0:
                k = 'vsv'   # length 0 means variable
        elif k == 'vsv':
            fd = RuleFieldDescriptor(fid, 0, 0, DI.BIDIRECTIONAL, Buffer(b'', 0), MO.IGNORE, CDA.VALUE_SENT)
        elif k in ('lsb', 'lsbv'):
            x = rnd.randint(0, n)
            fd = RuleFieldDescriptor(fid, n if k == 'lsb' else 0, 0, DI.BIDIRECTIONAL, mk(v[:x], sd()), MO.MSB, CDA.LSB)
        else:
            size = rnd.randint(1, 5)
            idxs = prefix_free_ids(rnd, size, maxlen=6) if mixed_index_width else [i2b(j, 3) for j in rnd.sample(range(8), size)]
            vs = [v]
            tries = 0
            while len(vs) < size and tries < 40:
                tries += 1
                w = randbits(rnd, rnd.choice([n, n, max(0, n - 1), n + 1]))
                if tries < 3 and rnd.random() < 0.4:
                    w = rnd.choice(['0' * 8 + v, '0' + v, v.lstrip('0')])      # the same number spelled with another length
                if w not in vs:
                    vs.append(w)
            rnd.shuffle(vs)
            if len(vs) == 1 and rnd.random() < 0.3:
                idxs = ['']    # a single-entry mapping may use the empty index
            fw = {mk(a, sd()): mk(b, sd()) for a, b in zip(vs, idxs)}
            fd = RuleFieldDescriptor(fid, n, 0, DI.BIDIRECTIONAL, mkmap(fw), MO.MATCH_MAPPING, CDA.MAPPING_SENT)
        fds.append(fd)
        vals.append(v)
    rid = randbits(rnd, rnd.randint(1, 16))
    return RuleDescriptor(id=mk(rid, rnd.choice([L, R])), field_descriptors=fds), vals


def synth_pdesc(rule, vals, payload_bits, direction=DI.UP):
    # field values and payload padded on either side (chosen from the content, so that a case is reproducible): callers build
    # packet descriptors by slicing, and slices of right-padded buffers are right-padded
    # (not for MSB/LSB fields: least_significant_bits documents that it reads field values as left-padded, which is what the parsers
    # produce for fields that are not byte aligned)
    side = lambda v: (L if (len(v) + v.count('1')) % 3 else R)  # noqa: E731
    fields = [FieldDescriptor(id=rf.id, value=mk(v, L if rf.compression_decompression_action == CDA.LSB else side(v)), position=0)
              for rf, v in zip(rule.field_descriptors, vals)]
    return PacketDescriptor(direction=direction, fields=fields, payload=mk(payload_bits, side(payload_bits + '1')))


def payload_variants(rnd):
    return rnd.choice(['', randbits(rnd, rnd.randint(1, 7)), randbits(rnd, 8 * rnd.randint(1, 12)), randbits(rnd, rnd.randint(1, 90))])


def gen_tunnel(rnd, k):
    """IP-in-IP packet (outer and inner version by k, then random) carrying UDP + CoAP, parsed by a public PacketParser made of two
    IP header parsers: returns (name, packet bytes, packet descriptor)"""
    from microschc.parser.parser import PacketParser
    from microschc.protocol.ipv6 import IPv6Parser
    from microschc.protocol.ipv4 import IPv4Parser
    from microschc.protocol.udp import UDPParser
    from microschc.protocol.coap import CoAPParser
    inner6, outer6 = [(True, True), (False, True), (True, False), (False, False)][k % 4] if k < 4 else (rnd.random() < 0.5, rnd.random() < 0.5)
    src, dst = (rnd.randbytes(16), rnd.randbytes(16)) if inner6 else (rnd.randbytes(4), rnd.randbytes(4))
    c_, _ = P.coap(rnd)
    u_ = P.udp(rnd, c_, csum=(lambda x: P.udp_checksum_v6(src, dst, x)) if inner6 else (lambda x: P.udp_checksum_v4(src, dst, x)))
    inner = P.ipv6(rnd, u_, 17, src, dst) if inner6 else P.ipv4(rnd, u_, 17, src, dst)
    pkt = P.ipv6(rnd, inner, 41 if inner6 else 4) if outer6 else P.ipv4(rnd, inner, 41 if inner6 else 4)
    pp = PacketParser('tunnel', [IPv6Parser() if outer6 else IPv4Parser(), IPv6Parser() if inner6 else IPv4Parser(), UDPParser(), CoAPParser()])
    return 'tunnel:%s-in-%s' % ('6' if inner6 else '4', '6' if outer6 else '4'), pkt, pp.parse(Buffer(pkt, len(pkt) * 8))
