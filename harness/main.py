"""main.py -- entry point behind ./check <id> [--tier quick|thorough] [--replay file]

Steps (DESIGN.md section 1): build gate, proof gate, regression corpus, correspondence + property
oracle on the implementation in /repo's working tree, verdict, evidence."""
import argparse
import fcntl
import importlib
import json
import os
import re
import subprocess
import sys
import time

HERE = os.path.dirname(os.path.abspath(__file__))
sys.path.insert(0, HERE)
import core  # noqa: E402
from core import VERIF, Report, write_replay, load_known_findings  # noqa: E402

COQ = os.path.join(VERIF, 'coq')
FORBIDDEN = re.compile(r'\b(Admitted|admit|Axiom|Axioms|Parameter|Parameters|Conjecture|Conjectures|Hypothesis|Hypotheses|Variable|Variables|Abort All)\b|Unset Guard|bypass_check|Admit Obligations|type-in-type|impredicative-set|Unset Positivity|Unset Universe')

TRUSTED_BASE = [
    'Coq 8.16.1 kernel (coqc; coqchk -o in the thorough tier); vm_compute used for finite tables and witnesses, native_compute not used',
    'axioms: none declared; every property theorem is printed by Print Assumptions (closed under the global context unless listed in assumptions)',
    'extraction with ExtrOcamlBasic only (Extract Inductive bool/option/unit/list/prod/sumbool/sumor; no Extract Constant), OCaml 4.13 compiler, coq/extract/driver.ml',
    'the hand-written Gallina model of microschc (coq/theories/*.v model files) is tied to /repo only by the correspondence check run here (differential testing on generated inputs)',
    'the Python harness: generators, decoding of (content,length,padding) into bits, comparison, reference implementations used as oracles, the worker interpreters of freshproc.py',
    'heap-level models (BufferHeap.v run against the code as object programs; SchcHeap / ParserHeap / ManagerHeap / ComputeHeap tied through refinement theorems to the extracted byte-level functions)',
    'CPython semantics of the modelled constructs (slices, negative indices, int.to_bytes, dict lookup by hash then ==) are transcribed by hand',
]


def sh(cmd, timeout=3600, cwd=None):
    p = subprocess.run(cmd, shell=True, cwd=cwd, stdout=subprocess.PIPE, stderr=subprocess.STDOUT, timeout=timeout)
    return p.returncode, p.stdout.decode(errors='replace')


def ensure_build():
    """Full .vo build of the Coq development + extraction + driver.  make decides what is stale."""
    os.makedirs(core.BUILD, exist_ok=True)
    with open(os.path.join(core.BUILD, '.lock'), 'w') as lk:
        fcntl.flock(lk, fcntl.LOCK_EX)
        rc, out = sh('make -s -C %s setup' % VERIF, timeout=3400)
        return rc, out


def proof_gate(pid, thorough):
    """Compile props/<pid>.v on top of the built development, collect theorem names and
    Print Assumptions reports, scan the development for forbidden vernacular."""
    info = {'props_file': 'coq/props/%s.v' % pid, 'theorems': [], 'assumptions': {}, 'ok': False, 'problems': []}
    pf = os.path.join(COQ, 'props', pid + '.v')
    if not os.path.exists(pf):
        info['problems'].append('no property file')
        return info
    src = open(pf).read()
    info['theorems'] = re.findall(r'^\s*(?:Theorem|Corollary)\s+(\w+)', src, flags=re.M)
    examples = re.findall(r'^\s*(?:Example)\s+(\w+)', src, flags=re.M)
    info['examples'] = examples
    printed = re.findall(r'^\s*Print Assumptions\s+(\w+)\s*\.', src, flags=re.M)
    for t in info['theorems']:
        if t not in printed:
            info['problems'].append('theorem %s has no Print Assumptions' % t)
    # forbidden vernacular anywhere in the development
    bad = []
    # the development = the files of _CoqProject plus the extraction file; a .v file lying in the tree without being listed is not
    # compiled, not imported and not part of it (it is reported in the evidence notes)
    listed = set(l.strip() for l in open(os.path.join(COQ, '_CoqProject')) if l.strip().endswith('.v')) | {'extract/Extract.v'}
    stray = []
    for root, _, files in os.walk(COQ):
        for fn in files:
            if fn.endswith('.v') and os.path.relpath(os.path.join(root, fn), COQ) not in listed:
                stray.append(os.path.relpath(os.path.join(root, fn), COQ))
                continue
            if fn.endswith('.v'):
                txt = open(os.path.join(root, fn)).read()
                txt = re.sub(r'\(\*.*?\*\)', '', txt, flags=re.S)
                for m in FORBIDDEN.finditer(txt):
                    # Variable/Hypothesis are allowed inside sections only; we simply forbid them outright
                    bad.append('%s: %s' % (os.path.relpath(os.path.join(root, fn), VERIF), m.group(0)))
    if bad:
        info['problems'].append('forbidden vernacular: ' + '; '.join(bad[:5]))
    info['stray_files'] = stray
    cmd = 'timeout 900 coqc -Q theories MS -Q props MSP props/%s.v' % pid
    rc, out = sh(cmd, cwd=COQ, timeout=1000)
    info['checker_cmd'] = 'make -C /verif setup && cd /verif/coq && ' + cmd
    if rc != 0:
        info['problems'].append('coqc failed on props/%s.v: %s' % (pid, out[-600:]))
        return info
    # parse Print Assumptions output: sequence of "Closed under the global context" or "Axioms:\n..." blocks
    blocks = re.split(r'(?=Closed under the global context|Axioms:)', out)
    blocks = [b.strip() for b in blocks if b.strip().startswith(('Closed under', 'Axioms:'))]
    if len(blocks) != len(printed):
        info['problems'].append('expected %d Print Assumptions reports, got %d' % (len(printed), len(blocks)))
    for name, b in zip(printed, blocks):
        if b.startswith('Closed under'):
            info['assumptions'][name] = []
        else:
            ax = [l.strip() for l in b.split('\n')[1:] if l.strip() and not l.startswith(' ' * 4)]
            info['assumptions'][name] = ax
            info['problems'].append('%s depends on axioms: %s' % (name, ', '.join(ax)[:300]))
    # lemma count in the dependency cone (obligations discharged by the kernel during the build)
    rc2, dep = sh('coqdep -Q theories MS -Q props MSP props/%s.v theories/*.v 2>/dev/null' % pid, cwd=COQ)
    cone = cone_files(dep, 'props/%s' % pid)
    n = 0
    for f in cone:
        p = os.path.join(COQ, f + '.v')
        if os.path.exists(p):
            n += len(re.findall(r'^\s*(?:Theorem|Lemma|Corollary|Example|Fact|Remark|Proposition)\s+\w+', open(p).read(), flags=re.M))
    info['cone_files'] = sorted(cone)
    info['cone_statements'] = n
    if thorough:
        rc3, out3 = sh('timeout 1700 coqchk -silent -o -Q theories MS -Q props MSP MSP.%s 2>&1' % pid, cwd=COQ, timeout=1800)
        info['coqchk'] = out3[-1500:]
        info['coqchk_cmd'] = 'cd /verif/coq && coqchk -silent -o -Q theories MS -Q props MSP MSP.%s' % pid
        m = re.search(r'\* Axioms:\s*(.*?)\n\s*\n\* Constants', out3, flags=re.S)
        axioms = m.group(1).strip() if m else 'unparsed'
        info['coqchk_axioms'] = axioms
        if rc3 != 0:
            info['problems'].append('coqchk failed (exit %d): %s' % (rc3, out3[-300:]))
        elif axioms != '<none>':
            info['problems'].append('coqchk reports axioms: ' + axioms[:300])
    info['ok'] = not info['problems'] and len(info['theorems']) > 0
    if not info['theorems']:
        info['problems'].append('no theorem in property file')
    return info


def cone_files(dep, root):
    """Transitive dependencies (file stems relative to coq/) of root from coqdep output."""
    g = {}
    for line in dep.split('\n'):
        if ':' not in line:
            continue
        lhs, rhs = line.split(':', 1)
        targets = [t for t in lhs.split() if t.endswith('.vo')]
        deps = [d[:-3] for d in rhs.split() if d.endswith('.vo')]
        for t in targets:
            g.setdefault(t[:-3], set()).update(deps)
    seen, todo = set(), [root]
    while todo:
        x = todo.pop()
        if x in seen:
            continue
        seen.add(x)
        todo.extend(g.get(x, ()))
    return seen


def main():
    ap = argparse.ArgumentParser()
    ap.add_argument('pid')
    ap.add_argument('--tier', default=os.environ.get('VERIF_TIER', 'quick'))
    ap.add_argument('--replay', default=None)
    a = ap.parse_args()
    pid = a.pid
    tier = a.tier if a.tier in ('quick', 'thorough') else 'quick'
    seed = int(os.environ.get('VERIF_SEED', '1') or 1)
    rep = Report(pid, tier, seed)
    watchdog(rep, 2400 if tier == 'quick' else 6 * 3600)

    rc, out = ensure_build()
    build_ok = rc == 0
    if not build_ok:
        print(out[-3000:])
    mod = importlib.import_module('p_' + pid.lower())

    if a.replay:
        body = json.load(open(a.replay))
        case_ = body['case']
        if isinstance(case_, dict) and case_.get('no_failing_input_found') and isinstance(case_.get('first_case'), dict):
            case_ = case_['first_case']       # a broken correspondence: the replay is the first case on which model and code differed
        try:
            still = mod.replay(case_)
        except Exception as e:  # noqa: BLE001 -- a replay file of another layer than the module's single-case replays
            still = 're-run (%s)' % type(e).__name__
        if isinstance(still, str) and still.startswith('re-run'):
            # the case is part of a generated history (a long-lived manager, a program): it is regenerated from the seed, so the replay IS
            # the check under the same VERIF_SEED / tier -- run it and let its verdict stand
            print('replay: this case is regenerated from the seed; running the check (tier %s, seed %d)' % (tier, seed), flush=True)
            still = None
            a.replay = None
        elif still:
            print('replay still fails: %s' % still)
            print('VIOLATION property=%s replay=%s' % (pid, a.replay))
            sys.exit(1)
        if a.replay:
            print('replay passes on the current tree')
            sys.exit(0)

    gate = proof_gate(pid, tier == 'thorough') if build_ok else {'ok': False, 'problems': ['build failed: ' + out[-400:]], 'theorems': [], 'assumptions': {}}
    rep.proof = gate
    if gate.get('stray_files'):
        rep.notes.append('files under coq/ that are not part of the development (not listed in _CoqProject, not compiled): ' + ', '.join(gate['stray_files'][:10]))
    if not gate['ok']:
        rep.violation('proof', 'proof gate: ' + '; '.join(gate['problems'])[:600], {'layer': 'proof', 'theorems_expected_in': 'coq/props/%s.v' % pid, 'problems': gate['problems']})

    if build_ok:
        try:
            import corpus
            corpus.run_schc(rep, pid)
            mod.run(rep, tier, seed)
        except Exception:  # noqa: BLE001 -- a crash of the machinery is reported, never silently passed
            rep.violation('harness', 'harness error: ' + core.fmt_exc()[-800:], {'layer': 'harness', 'traceback': core.fmt_exc()})

    finish(rep, mod)


def watchdog(rep, seconds):
    """Safety net: every implementation call already runs under a wall-clock limit; should the check as a whole still not finish
    (a hang in a place no limit covers), it is reported as a violation with the stack of the stuck thread instead of hanging."""
    import threading
    import faulthandler
    import tempfile

    def fire():
        tf = tempfile.TemporaryFile(mode='w+')
        faulthandler.dump_traceback(file=tf, all_threads=True)
        tf.seek(0)
        stack = tf.read()[-3000:]
        body = {'no_failing_input_found': True, 'broken': 'the check did not finish within %d s: an implementation call does not return' % seconds, 'stack': stack,
                'searched': {'evaluations': rep.evaluations, 'tier': rep.tier, 'seed': rep.seed}}
        path = write_replay(rep.pid, 'harness', 'check did not finish', body)
        print('  check did not finish within %d s; stack of the stuck call:\n%s' % (seconds, stack[-800:]))
        print('VIOLATION property=%s replay=%s no-failing-input-found' % (rep.pid, path), flush=True)
        os._exit(1)
    t = threading.Timer(seconds, fire)
    t.daemon = True
    t.start()


def finish(rep, mod):
    pid = rep.pid
    known = load_known_findings()
    open_k = [k for k in known.get('open', []) if k['property'] == pid]
    real = []
    for kind, what, case in rep.violations:
        klass = case.get('class') if isinstance(case, dict) else None
        hit = [k for k in open_k if klass is not None and k.get('class') == klass]
        if hit and kind in ('property', 'correspondence'):
            rep.known_finding('%s [%s]' % (hit[0]['what'], klass))
        else:
            real.append((kind, what, case))
    for k in rep.known:
        print('KNOWN-FINDING: property=%s %s' % (pid, k))
    # verdict
    lines = []
    prop_fail = [v for v in real if v[0] == 'property']
    other = [v for v in real if v[0] != 'property']
    if prop_fail:
        # report up to 3 distinct failing inputs
        seen = set()
        for kind, what, case in prop_fail:
            key = what.split(':')[0]
            if key in seen:
                continue
            seen.add(key)
            path = write_replay(pid, kind, what, case)
            lines.append('VIOLATION property=%s replay=%s' % (pid, path))
            print('  failing input: %s' % what[:300])
            if len(lines) >= 3:
                break
    elif other:
        kind, what, case = other[0]
        body = {'no_failing_input_found': True, 'broken': what, 'all_broken': [w for _, w, _ in other][:10], 'first_case': case,
                'searched': {'evaluations': rep.evaluations, 'tier': rep.tier, 'seed': rep.seed}}
        path = write_replay(pid, kind, what, body)
        print('  %s no longer checks: %s' % (kind, what[:400]))
        lines.append('VIOLATION property=%s replay=%s no-failing-input-found' % (pid, path))
    write_evidence(rep, mod, len(real))
    for l in lines:
        print(l)
    if lines:
        sys.exit(1)
    print('OK property=%s tier=%s seed=%d evaluations=%d distinct=%d proof_gate=%s wall=%.1fs' % (
        pid, rep.tier, rep.seed, rep.evaluations, len(rep.distinct), 'ok' if rep.proof and rep.proof.get('ok') else 'FAILED', time.time() - rep.t0))
    sys.exit(0)


def write_evidence(rep, mod, nviol):
    gate = rep.proof or {}
    thms = gate.get('theorems', [])
    discharged = len([t for t in thms if gate.get('assumptions', {}).get(t) == []]) if gate.get('ok') else 0
    n_obl = max(1, len(thms))
    classes = {k: v for k, v in rep.hist.items() if not k.startswith('class:')}
    class_hist = {k[6:]: v for k, v in rep.hist.items() if k.startswith('class:')}
    ev = {
        'property_id': rep.pid,
        'tier': rep.tier,
        'seed': rep.seed,
        'level': 'proof',
        'coverage': {
            'obligations': n_obl,
            'discharged': discharged,
            'checker_cmd': gate.get('checker_cmd', 'make -C /verif setup'),
            'trusted_base': TRUSTED_BASE + list(getattr(mod, 'TRUSTED_EXTRA', [])),
            'theorems': thms,
            'non_vacuity_examples': gate.get('examples', []),
            'print_assumptions': gate.get('assumptions', {}),
            'statements_in_dependency_cone': gate.get('cone_statements', 0),
            'cone_files': gate.get('cone_files', []),
            'proof_gate_problems': gate.get('problems', []),
            'evaluations': rep.evaluations,
            'distinct_nontrivial': len(rep.distinct),
            'rule': getattr(mod, 'RULE', ''),
            'samples': rep.samples[:12] or [{'note': 'no sample recorded'}],
            'correspondence_evaluations': rep.corr_evals,
            'oracle_evaluations': rep.oracle_evals,
            'representation_drift': rep.drift,
            'histogram': classes,
            'class_histogram_size': len(class_hist),
            'class_histogram_min': min(class_hist.values()) if class_hist else 0,
            'known_findings_hit': rep.known,
            'notes': rep.notes,
            'exhaustive': False,
        },
        'assumptions': list(getattr(mod, 'ASSUMPTIONS', [])),
        'wall_s': round(time.time() - rep.t0, 2),
        'violations': nviol,
    }
    if gate.get('coqchk'):
        ev['coverage']['coqchk_tail'] = gate['coqchk'][-600:]
        ev['coverage']['coqchk_cmd'] = gate.get('coqchk_cmd')
        ev['coverage']['coqchk_axioms'] = gate.get('coqchk_axioms')
    os.makedirs(os.path.join(VERIF, 'evidence'), exist_ok=True)
    with open(os.path.join(VERIF, 'evidence', rep.pid + '.json'), 'w') as f:
        json.dump(ev, f, indent=1, default=str)


def _source_coverage():
    """VERIF_COVERAGE=<dir>: measure which lines and branches of the implementation the generators of this run reach
    (tools/source_coverage.py combines the files); a measuring aid for the correspondence, never part of a verdict."""
    d = os.environ.get('VERIF_COVERAGE')
    if not d:
        return
    import atexit
    import coverage
    os.makedirs(d, exist_ok=True)
    cov = coverage.Coverage(data_file=os.path.join(d, 'cov.%s.%d' % (sys.argv[1], os.getpid())), branch=True,
                            include=[os.path.join(os.environ.get('MICROSCHC_REPO', '/repo'), 'microschc', '*'), os.path.join(os.environ.get('MICROSCHC_REPO', '/repo'), 'microschc.py')])
    cov.start()

    def done():
        cov.stop()
        cov.save()
    atexit.register(done)


if __name__ == '__main__':
    _source_coverage()
    main()
