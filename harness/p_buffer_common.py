"""Shared run/replay for the Buffer-layer properties (C05, C06, C13, C16)."""
from core import rng_for, Driver
from bufrun import GEN, run_buffer_family
from bufcases import run_case, model_line, parse_model, show_value, abstract, judge
import corpus


def run_family(rep, pid, tier, seed):
    rnd = rng_for(seed, pid)
    pre = corpus.buffer_cases(pid)
    n0 = run_buffer_family(rep, pre)
    rep.notes.append('regression corpus: %d cases, %d failing' % (len(pre), n0))
    cases = GEN[pid](rnd, tier)
    run_buffer_family(rep, cases)
    # operands of 64 KiB and more: oracle on the implementation only
    from bufrun import big_oracle_cases
    from bufcases import run_case, judge
    for case in big_oracle_cases(rng_for(seed, pid + '-big'), pid, tier != 'quick'):
        res = run_case(case)
        fails = judge(case, res)
        rep.count('op-64KiB:' + case[0], key=('big', case[0], case[1][0][1], len(case[1][0][0])))
        rep.oracle_evals += 1
        if fails:
            rep.violation('property', '%s on a %d-bit operand: %s' % (case[0], len(case[1][0][0]), fails[0][:200]), dict(layer='buffer-big', op=case[0], bits_head=case[1][0][0][:64], length=len(case[1][0][0]), side=case[1][0][1], params=list(case[2])))
            break
    # programs of operations on live buffers shadowed by bit strings (aliasing, caches, shared state)
    import bufseq
    bufseq.run(rep, rng_for(seed, pid + '-programs'), 150 if tier == 'quick' else 2500, 40)


def replay(case):
    if case.get('layer') != 'buffer':
        return 're-run ./check (programs and large operands are regenerated from the seed)'
    par = tuple(bytes.fromhex(p) if isinstance(p, str) and case['op'] in ('new', 'eqbytes', 'hashkey') and i == 0 else p for i, p in enumerate(case['params']))
    c = (case['op'], [tuple(o) for o in case['operands']], par)
    res = run_case(c)
    fails = judge(c, res)
    if fails:
        return fails[0]
    mo = Driver().run([model_line(c, res)])[0]
    m = parse_model(c[0], mo)
    kind, val = res['out']
    iv = ('EXC', val) if kind == 'EXC' else ('OK', show_value(val))
    if m[0] != iv[0] or (m[0] == 'EXC' and m[1] != iv[1]) or (m[0] == 'OK' and abstract(m[1]) != abstract(iv[1])):
        return 'model %s vs implementation %s' % (mo, iv)
    return None
