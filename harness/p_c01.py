"""C01 -- Compress then decompress returns the original packet, bit for bit."""
from core import rng_for, mk, bits_of, L, R, randbits, Buffer
from schc_run import Batch, obs_bits, with_timeout, parse_model_bits, case_compress, case_decompress, case_match
from schc_util import gen_rule, KINDS, n_rule, n_pdesc, rules_tokens, tb, DIRC, ref_rule_applies, is_lossless_for
from gens import gen_parsed, gen_ruleset, b2s, ALL_STACKS
from microschc.rfc8724extras import Context
from microschc.manager import ContextManager
from microschc.manager.manager import MatchStrategy
from microschc.rfc8724 import DirectionIndicator as DI

RULE = ('packets of every parser configuration (IPv6|IPv4 + UDP + CoAP with every option delta/length class, token length 0..8, '
        'with/without payload; bare UDP, CoAP, SCTP with every chunk type; predictive IPv6/IPv4 parsers) x rules derived from the '
        'packet (every lossless MO/CDA pairing per field, MSB length 0..n, mappings 1..8 entries, fixed and variable lengths, compute on '
        'every computable field, rule id 1..16 bits) that the real matcher selects; round trip through compress/decompress and through a '
        'ContextManager (rule sets of 1..8 rules with prefix-free ids, FIRST and BEST, rule found again from its id); every step '
        'compared with the extracted Coq model; the oracle is equality with the original packet (bits and length); distinct by driver line')
ASSUMPTIONS = ['packet buffers are byte-aligned and left-padded (the property\'s quantifier)',
               'computable fields of generated packets carry their RFC values (the generators compute them independently)']
STACKS = ['IPv6-UDP-CoAP', 'IPv4-UDP-CoAP', 'UDP', 'CoAP', 'SCTP', 'IPv6', 'IPv4']


def run(rep, tier, seed):
    rnd = rng_for(seed, 'C01')
    b = Batch(rep)
    n = 450 if tier == 'quick' else 4000
    for i in range(n):
        stack, pkt, st, pd = gen_parsed(rnd, STACKS[i % len(STACKS)])
        orig = b2s(pkt)
        d = rnd.choice([DI.UP, DI.DOWN])
        pd.direction = d
        # bare functions
        for j in range(2):
            if j == 1 and i % 3 == 0:
                # descriptors of the other direction interleaved with the ones in use, also in front of computed fields
                from p_c18 import dir_rule, KINDS_C, KINDS as KINDS_PLAIN
                rule, _ = dir_rule(rnd, pd, d, kinds=KINDS_C if stack in ('IPv6-UDP-CoAP', 'IPv4-UDP-CoAP', 'SCTP', 'IPv6', 'IPv4') else KINDS_PLAIN)
            else:
                rule = gen_rule(rnd, pd, randbits(rnd, rnd.randint(1, 16)), kinds=KINDS, direction=rnd.choice([DI.BIDIRECTIONAL, d]))
            m = case_match(b, pd, [rule], klass='match:' + stack)
            if m[1] != (0,):
                continue
            o = case_compress(b, pd, rule, d, klass='compress:' + stack)
            if o[0] == 'OK':
                case_decompress(b, o[1], rule, d, klass='roundtrip:' + stack, expect=orig, side=rnd.choice([L, R]))
        # through a context manager
        rules = gen_ruleset(rnd, pd, direction=rnd.choice([DI.BIDIRECTIONAL, d]))
        # the property is about rules that are lossless by construction: a near-miss mutant that still applies but is lossy
        # (e.g. a value-sent descriptor whose declared length is not the field's) is replaced by a fresh matching rule
        npd = dict(n_pdesc(pd), dir=DIRC[d])
        for k, r in enumerate(rules):
            nr = n_rule(r)
            if ref_rule_applies(npd, nr) and not is_lossless_for(npd, nr):
                rules[k] = gen_rule(rnd, pd, nr['id'], kinds=KINDS, direction=rnd.choice([DI.BIDIRECTIONAL, d]))
        nrs = [n_rule(r) for r in rules]
        cm = ContextManager(Context(id='c', description='', interface_id='i', parser_id=stack, ruleset=rules))
        passes = [(MatchStrategy.FIRST, None), (MatchStrategy.BEST, None)]
        if i % 3 == 0:
            # the context is re-provisioned while the manager lives: a new rule the strategies prefer is put first,
            # or an existing rule is replaced by a new version under the same id; round trips go on through the SAME manager
            passes += [(MatchStrategy.FIRST, 'edit'), (MatchStrategy.BEST, None)]
        for strat, edit in passes:
            if edit:
                used = [bits_of(x.id) for x in rules]
                if rnd.random() < 0.5:
                    for _ in range(30):
                        cand = randbits(rnd, rnd.randint(2, 12))
                        if all(not cand.startswith(u) and not u.startswith(cand) for u in used):
                            rules.insert(0, gen_rule(rnd, pd, cand, kinds=('ns', 'map', 'lsb'), direction=rnd.choice([DI.BIDIRECTIONAL, d])))
                            break
                else:
                    k = rnd.randrange(len(rules))
                    if rules[k].field_descriptors:
                        rules[k] = gen_rule(rnd, pd, used[k], kinds=KINDS, direction=rnd.choice([DI.BIDIRECTIONAL, d]))
                nrs = [n_rule(r) for r in rules]
                rep.hist['manager:re-provisioned'] = rep.hist.get('manager:re-provisioned', 0) + 1
            res_ = with_timeout(lambda: cm.compress(Buffer(pkt, len(pkt) * 8), direction=d, match_strategy=strat))
            out = obs_bits(res_)
            from schc_run import bytes_cm_compress, bytes_cm_decompress
            bytes_cm_compress(b, 'manager-compress', stack, pkt, d, strat == MatchStrategy.FIRST, rules, res_)
            line = ' '.join(['S', 'cmcompressp', stack, tb(orig), DIRC[d], 'F' if strat == MatchStrategy.FIRST else 'B'] + rules_tokens(nrs))
            b.add('manager-compress:%s:%s' % (stack, strat.value), line, out, parse_model_bits, None,
                  dict(layer='schc', op='cmcompress', stack=stack, packet=pkt.hex(), rules=nrs, direction=DIRC[d], strategy=strat.value), key=line)
            if out[0] == 'OK' and isinstance(out[1], str):
                s = out[1]
                sb_ = mk(s, rnd.choice([L, R]))
                from core import raw
                rawtok = raw(sb_)
                res2_ = with_timeout(lambda: cm.decompress(sb_, direction=d))
                o2 = obs_bits(res2_)
                bytes_cm_decompress(b, 'manager-roundtrip', rawtok, d, rules, res2_)
                fails = [] if o2 == ('OK', orig) else ['manager round trip (%s) gives %s instead of the original %d-bit packet' % (strat.value, str(o2)[:100], len(orig))]
                line = ' '.join(['S', 'cmdecompress', tb(s), DIRC[d]] + rules_tokens(nrs))
                b.add('manager-roundtrip:%s:%s' % (stack, strat.value), line, o2, parse_model_bits, fails,
                      dict(layer='schc', op='cmdecompress', schc=s, rules=nrs, direction=DIRC[d], expect=orig), key=line)
    # a variable-length field of 32768 bits and more (CoAP option value of 4096..8191 bytes): the 16-bit size of the 28-bit
    # announcement has its top bit set
    import packets as P
    from schc_run import parser_for
    from schc_util import gen_rfd
    from microschc.rfc8724 import RuleDescriptor
    for k in range(2 if tier == 'quick' else 10):
        pkt, st = P.coap(rnd, opts=[(rnd.choice([3, 11, 300]), rnd.choice([4096, 5000, 8191]))], payload=rnd.randbytes(3))
        pd = parser_for('CoAP').parse(Buffer(pkt, len(pkt) * 8))
        pd.direction = DI.UP
        fds = [gen_rfd(rnd, f, 'vsv' if f.value.length > 1000 else rnd.choice(['vs', 'ns', 'lsbv']), DI.BIDIRECTIONAL) for f in pd.fields]
        rule = RuleDescriptor(id=mk(randbits(rnd, 4)), field_descriptors=fds)
        o = case_compress(b, pd, rule, DI.UP, klass='compress:large-variable-length')
        if o[0] == 'OK':
            case_decompress(b, o[1], rule, DI.UP, klass='roundtrip:large-variable-length', expect=b2s(pkt), side=rnd.choice([L, R]))
    # packets whose computed fields sit on corner values or behind unusual next-header numbers, every computable field computed
    from p_c09 import special_packets
    from schc_run import parser_for
    from schc_util import gen_rfd, COMPUTABLE
    from microschc.rfc8724 import RuleDescriptor as _RD
    rnd3 = rng_for(seed, 'C01-special')
    for stack, pkt in special_packets(rnd3):
        pd = parser_for(stack).parse(Buffer(pkt, len(pkt) * 8))
        pd.direction = DI.UP
        fds = [gen_rfd(rnd3, f, 'comp' if str(getattr(f.id, 'value', f.id)) in COMPUTABLE else rnd3.choice(['vs', 'ns', 'lsb', 'vsv']), DI.BIDIRECTIONAL) for f in pd.fields]
        rule = _RD(id=mk(randbits(rnd3, rnd3.randint(1, 8))), field_descriptors=fds)
        o = case_compress(b, pd, rule, None, klass='special-compute:compress')
        if o[0] == 'OK':
            case_decompress(b, o[1], rule, None, klass='special-compute:roundtrip', expect=b2s(pkt), side=rnd3.choice([L, R]))
    # descriptors with EMPTY fields (a parser reports them: padding fields of zero length, an absent token) under every action, in front of
    # other fields: a variable-length empty field is announced by the size 0, and the residues behind it stay aligned
    from gens import synth_case, synth_pdesc, payload_variants
    for i in range(200 if tier == 'quick' else 2000):
        rule, vals = synth_case(rnd3, nfields=rnd3.randint(2, 6), sizes=[0, 0, 0, 1, 3, 8, 13, 16])
        pd = synth_pdesc(rule, vals, payload_variants(rnd3))
        o = case_compress(b, pd, rule, None, klass='empty-fields:compress')
        if o[0] == 'OK' and isinstance(o[1], str) and is_lossless_for(n_pdesc(pd), n_rule(rule)):
            case_decompress(b, o[1], rule, None, klass='empty-fields:roundtrip', expect=''.join(vals) + bits_of(pd.payload), side=rnd3.choice([L, R]))
    # variable-length residues at the top of the range the size prefix can announce: 65534 and 65535 bits (value-sent, and MSB/LSB on a field
    # of 65536 bits with a one-bit pattern)
    from microschc.rfc8724 import RuleFieldDescriptor as _RFD, RuleDescriptor as _RD3, MatchingOperator as _MO, CompressionDecompressionAction as _CDA
    for n_res in (65534, 65535):
        for kind in ('vs', 'lsb'):
            v = randbits(rnd3, n_res if kind == 'vs' else n_res + 1)
            fd = (_RFD('X:big', 0, 0, DI.BIDIRECTIONAL, Buffer(b'', 0), _MO.IGNORE, _CDA.VALUE_SENT) if kind == 'vs'
                  else _RFD('X:big', 0, 0, DI.BIDIRECTIONAL, mk(v[:1], rnd3.choice([L, R])), _MO.MSB, _CDA.LSB))
            rule = _RD3(id=mk(randbits(rnd3, 3)), field_descriptors=[_RFD('X:a', 5, 0, DI.BIDIRECTIONAL, Buffer(b'', 0), _MO.IGNORE, _CDA.VALUE_SENT), fd])
            vals = [randbits(rnd3, 5), v]
            pd = synth_pdesc(rule, vals, randbits(rnd3, rnd3.choice([0, 8])))
            o = case_compress(b, pd, rule, None, klass='top-of-range-residue:compress:%s:%d' % (kind, n_res))
            if o[0] == 'OK' and isinstance(o[1], str):
                case_decompress(b, o[1], rule, None, klass='top-of-range-residue:roundtrip', expect=''.join(vals) + bits_of(pd.payload), side=R)
            else:
                rep.violation('property', 'a variable-length %s residue of %d bits (the size prefix can announce up to 65535): compress gave %s' % (kind, n_res, str(o)[:80]), dict(layer='schc', op='compress-top-of-range', kind=kind, residue_bits=n_res))
    b.run()
    # two hosts: this process compresses, a fresh interpreter that has only the JSON text of the context decompresses (and the other way
    # round): the packet must come back, whatever this process has parsed, matched and compressed before
    import freshproc
    rnd2 = rng_for(seed, 'C01-two-hosts')
    tasks, expected = [], []
    for i in range(40 if tier == 'quick' else 300):
        stack, pkt, st, pd = gen_parsed(rnd2, ['IPv6-UDP-CoAP', 'IPv4-UDP-CoAP', 'UDP', 'CoAP', 'SCTP', 'IPv6', 'IPv4'][i % 7])
        d = rnd2.choice([DI.UP, DI.DOWN])
        pd.direction = d
        rules = gen_ruleset(rnd2, pd, match_prob=0.9, kinds=KINDS + ('comp',))
        ctx = Context(id='c', description='', interface_id='i', parser_id=stack, ruleset=rules)
        npd = dict(n_pdesc(pd), dir=DIRC[d])
        first = [nr for nr in (n_rule(r) for r in rules) if ref_rule_applies(npd, nr)]
        o1 = obs_bits(with_timeout(lambda: ContextManager(ctx).compress(Buffer(pkt, len(pkt) * 8), direction=d)))
        text = ctx.json()
        tasks.append(dict(op='cm-compress', context=text, packet=pkt.hex(), direction=DIRC[d], strategy='first'))
        expected.append(o1)
        if o1[0] == 'OK' and isinstance(o1[1], str) and first and is_lossless_for(npd, first[0], DIRC[d]):
            tasks.append(dict(op='cm-decompress', context=text, schc=o1[1], direction=DIRC[d], side=rnd2.choice('LR')))
            expected.append(('OK', b2s(pkt)))
    freshproc.compare(rep, 'C01:two-hosts', tasks, expected, lambda t: '%s on the other host' % t['op'])


def replay(case):
    from p_schc_common import replay_schc
    return replay_schc(case)
