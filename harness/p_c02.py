"""C02 -- SCHC packet layout produced by compress follows RFC 8724 section 7."""
from core import rng_for, mk, bits_of, L, R, randbits
from schc_run import Batch, case_compress
from schc_util import gen_rule, KINDS, n_rule, DIRS
from gens import gen_parsed, ALL_STACKS, no_compression_rule, synth_case, synth_pdesc, payload_variants
from microschc.rfc8724 import DirectionIndicator as DI

RULE = ('parsed packets of every stack (IPv6|IPv4-UDP-CoAP, UDP, CoAP, SCTP, IPv6, IPv4 with prediction) x rules derived from the '
        'packet so that descriptors align (every MO/CDA mix, MSB length 0..n, mapping sizes 1..8, fixed and variable lengths, '
        'rule-id length 1..16, keys of either padding side), no-compression rules, synthetic descriptors with field sizes at the '
        '14/15 and 254/255 boundaries; result compared bit-for-bit with the extracted Coq model and with an independent '
        'reference compressor on plain bit strings; distinct by driver line')
ASSUMPTIONS = ['rule field descriptors align with the packet fields (the property\'s quantifier); packets are left-padded byte-aligned buffers']


def actions_direct(rep, rnd, pd):
    """the compression actions as the module microschc.actions.compression exports them, called directly: not-sent = no bit,
    value-sent = the field, LSB(n) = the n last bits of the (left-padded) field, mapping-sent = the index stored for the field's bits"""
    from microschc.actions import compression as act
    from core import bits_of, mk, L, R, mkmap, impl_outcome
    for f in rnd.sample(pd.fields, min(4, len(pd.fields))):
        fb = bits_of(f.value)
        n = rnd.randint(0, len(fb))
        idx = randbits(rnd, rnd.randint(0, 5))
        mm = mkmap({mk(fb, rnd.choice([L, R])): mk(idx, rnd.choice([L, R])), mk(fb + '1'): mk(idx + '1')})
        got = impl_outcome(lambda: tuple(bits_of(x) for x in (act.not_sent(f), act.value_sent(f), act.least_significant_bits(f, n), act.mapping_sent(f, mm))))
        want = ('OK', ('', fb, fb[len(fb) - n:], idx))
        rep.count('actions-direct', key=('actd', fb, n, idx))
        rep.oracle_evals += 1
        if got != want:
            rep.violation('property', 'compression actions called directly on field %r (LSB %d, index %r): %s, expected %s' % (fb, n, idx, got, want),
                          dict(layer='schc', op='actions-direct', field=fb, lsb=n, index=idx))
            return


def run(rep, tier, seed):
    rnd = rng_for(seed, 'C02')
    b = Batch(rep)
    npk = 600 if tier == 'quick' else 5000
    for i in range(npk):
        stack, pkt, st, pd = gen_parsed(rnd, ALL_STACKS[i % len(ALL_STACKS)])
        if i % 3 == 0:
            actions_direct(rep, rnd, pd)
        for j in range(3):
            kinds = (KINDS + ('vst', 'lsbi')) if j else rnd.choice([('ns',), ('vs',), ('vsv',), ('lsb',), ('lsbv',), ('map',), ('comp', 'vs'), ('mapset', 'vs'), ('vst',), ('lsbi',), ('vst', 'lsbi', 'vsv')])
            rule = gen_rule(rnd, pd, randbits(rnd, rnd.randint(1, 16)), kinds=kinds)
            d = rnd.choice([None, None, DI.UP, DI.DOWN])
            case_compress(b, pd, rule, d, klass='compress:' + stack)
            if j == 2 and rule.field_descriptors:
                # the rule is edited in place (one descriptor replaced by another kind for the same field) and used again:
                # the layout must follow the descriptors the rule holds NOW
                from schc_util import gen_rfd
                k_ = rnd.randrange(len(rule.field_descriptors))
                old_ = rule.field_descriptors[k_]
                f_ = pd.fields[k_]
                rule.field_descriptors[k_] = gen_rfd(rnd, f_, rnd.choice(['ns', 'vs', 'vsv', 'lsb', 'lsbv', 'map']), old_.direction)
                case_compress(b, pd, rule, d, klass='compress-after-edit:' + stack)
                case_compress(b, pd, rule, rnd.choice([DI.UP, DI.DOWN]), klass='compress-after-edit:' + stack)
            if j >= 1:
                # the CALLER rewrites a field value of the long-lived packet descriptor in place (same Buffer object, other bits: another key of
                # the rule's mapping) and compresses again with the same rule: the residue is the index of the value the field holds NOW
                from core import given_items as _gi
                from microschc.rfc8724 import CompressionDecompressionAction as _CDA, MatchMapping as _MM
                ks_ = [k for k, rf in enumerate(rule.field_descriptors) if rf.compression_decompression_action == _CDA.MAPPING_SENT
                       and isinstance(rf.target_value, _MM) and k < len(pd.fields) and rf.id == pd.fields[k].id]
                if ks_ and len(rule.field_descriptors) == len(pd.fields):
                    k_ = rnd.choice(ks_)
                    fv_ = pd.fields[k_].value
                    was_ = bits_of(fv_)
                    others_ = [bits_of(key) for key, _ in _gi(rule.field_descriptors[k_].target_value) if bits_of(key) != was_]
                    if others_:
                        case_compress(b, pd, rule, d, klass='compress-before-field-edit:' + stack)
                        fv_[0:fv_.length] = mk(rnd.choice(others_), rnd.choice([L, R]))
                        case_compress(b, pd, rule, d, klass='compress-after-field-edit:' + stack)
                        fv_[0:fv_.length] = mk(was_, L)
                        case_compress(b, pd, rule, d, klass='compress-after-field-edit:' + stack)
        if i % 3 == 1:
            # the direction is the ARGUMENT of compress, not the direction recorded in the packet descriptor (they may differ):
            # a rule with separate Up and Dw descriptors must be read for the argument
            from p_c18 import dir_rule, KINDS as KINDS_PLAIN
            d_arg = rnd.choice([DI.UP, DI.DOWN])
            pd.direction = d_arg
            r_dir, _ = dir_rule(rnd, pd, d_arg, kinds=KINDS_PLAIN)
            pd.direction = rnd.choice([DI.UP, DI.DOWN, DI.BIDIRECTIONAL])
            case_compress(b, pd, r_dir, d_arg, klass='compress-direction-argument:' + stack)
            # the value Bi itself as argument: only the descriptors marked Bi apply (it equals neither Up nor Dw)
            from schc_util import ref_compress as _rc, n_pdesc as _npd, n_rule as _nr
            if _rc(_npd(pd), _nr(r_dir), 'B') is not None:      # (where the Bi descriptors alone describe the packet's fields: elsewhere fields and descriptors misalign, outside the property)
                case_compress(b, pd, r_dir, DI.BIDIRECTIONAL, klass='compress-direction-argument-bi:' + stack)
        if i % 3 == 2:
            # the packet was handed to the parser as a right-padded Buffer (UDP, SCTP and CoAP parsers accept it): byte-aligned fields then
            # come right-padded -- same bytes, the other side flag; the residues (LSB residues of any width above all) are the same bits
            from microschc.rfc8724 import FieldDescriptor as _FD, PacketDescriptor as _PD
            fields_r = [_FD(id=f.id, value=mk(bits_of(f.value), R if f.value.length % 8 == 0 else L), position=f.position) for f in pd.fields]
            pd_r = _PD(direction=pd.direction, fields=fields_r, payload=mk(bits_of(pd.payload), R))
            rule_r = gen_rule(rnd, pd, randbits(rnd, rnd.randint(1, 9)), kinds=('lsb', 'lsb', 'lsbv', 'vs', 'map'))
            case_compress(b, pd_r, rule_r, None, klass='compress-right-padded-fields:' + stack)
        case_compress(b, pd, no_compression_rule(randbits(rnd, rnd.randint(1, 16)), rnd.choice([L, R])), None, klass='no-compression:' + stack)
        if i % 4 == 0:
            # a rule of fragmentation nature handed to compress (no manager ever selects it): the bare rule id, whatever descriptors it carries
            from microschc.rfc8724 import RuleDescriptor as _RD, RuleNature as _RN
            fr = _RD(id=mk(randbits(rnd, rnd.randint(1, 16)), rnd.choice([L, R])), nature=_RN.FRAGMENTATION, field_descriptors=rule.field_descriptors if i % 8 == 0 else [])
            case_compress(b, pd, fr, rnd.choice([None, DI.UP]), klass='fragmentation-rule:' + stack)
    for i in range(1500 if tier == 'quick' else 15000):
        rule, vals = synth_case(rnd)
        pd = synth_pdesc(rule, vals, payload_variants(rnd))
        case_compress(b, pd, rule, None, klass='compress:synthetic')
    b.run()


def replay(case):
    from p_schc_common import replay_schc
    return replay_schc(case)
