"""C03 -- Decompress rebuilds the packet from any well-formed SCHC packet."""
from core import rng_for, mk, bits_of, L, R, randbits
from core import mkmap, given_items
from schc_run import Batch, case_decompress
from schc_util import gen_rule, KINDS, n_rule, n_pdesc, ref_compress, ref_decompress
from gens import gen_parsed, ALL_STACKS, no_compression_rule, synth_case, synth_pdesc, payload_variants

RULE = ('SCHC packets are built by the harness from the RFC 8724 layout (independent reference encoder), never by the library\'s '
        'compressor: rules from parsed packets of every stack (incl. compute on every computable field) and synthetic rules '
        '(mixed-width prefix-free mapping indices, field sizes at 14/15, 254/255), with the original, an empty, a non byte-aligned '
        'and a random payload; presented left- and right-padded; result compared with the extracted Coq model and an independent '
        'reference decompressor (RFC checksums); distinct by driver line')
ASSUMPTIONS = ['compute fields are only placed where the protocol stack defines them (UDP checksum needs an IP header)']


def run(rep, tier, seed):
    rnd = rng_for(seed, 'C03')
    b = Batch(rep)
    npk = 400 if tier == 'quick' else 4000
    for i in range(npk):
        stack, pkt, st, pd = gen_parsed(rnd, ALL_STACKS[i % len(ALL_STACKS)])
        npd = n_pdesc(pd)
        for j in range(2):
            rule = gen_rule(rnd, pd, randbits(rnd, rnd.randint(1, 16)), kinds=KINDS if j else ('ns', 'vs', 'vsv', 'lsb', 'lsbv', 'map'))
            nr = n_rule(rule)
            has_comp = 'comp' in rule._kinds
            # (with computed fields: also a payload of another whole number of bytes -- the length fields that are SENT then disagree with
            # the size of what is rebuilt, and the computed ones follow what is rebuilt, not what the sent ones say)
            pls = [npd['payload'], randbits(rnd, 8 * rnd.choice([0, 1, 2, 3, 5, 8, 21]))] if has_comp else [npd['payload'], '', randbits(rnd, rnd.randint(1, 7)), randbits(rnd, rnd.randint(1, 60))]
            for pl in pls:
                npd2 = dict(npd, payload=pl)
                s = ref_compress(npd2, nr)
                if s is None:
                    continue
                exp = ref_decompress(s, nr)
                case_decompress(b, s, rule, None, klass='decompress:' + stack + (':compute' if has_comp else ''), expect=exp, side=rnd.choice([L, R]))
                if not has_comp and any(k_ in ('vsv', 'lsbv') for k_ in rule._kinds) and rnd.random() < 0.5:
                    # the same residues, every size announced on the next WIDER form (1111 + 8 bits for a size below 15, 1111 1111 1111 + 16
                    # bits below 255): not what section 7.4.2 prescribes, so no expected packet -- but a receiver meets such frames, and code
                    # and model must read them alike (the value announced is the size, the residue follows the bits actually read)
                    import schc_util as _su
                    _su.WIDE_PREFIX[0] = True
                    try:
                        s_w = ref_compress(npd2, nr)
                    finally:
                        _su.WIDE_PREFIX[0] = False
                    if s_w is not None and s_w != s:
                        case_decompress(b, s_w, rule, None, klass='decompress:wider-size-prefix', expect=None, side=rnd.choice([L, R]))
        if i % 3 == 0:
            # a direction is given and the rule carries descriptors of the other direction, also in front of computed fields
            from p_c18 import dir_rule, KINDS_C
            from microschc.rfc8724 import DirectionIndicator as _DI2
            d_ = rnd.choice([_DI2.UP, _DI2.DOWN])
            pd.direction = d_
            rule, _ = dir_rule(rnd, pd, d_, kinds=KINDS_C if stack in ('IPv6-UDP-CoAP', 'IPv4-UDP-CoAP', 'SCTP', 'IPv6', 'IPv4') else KINDS_C[:6])
            dc = 'U' if d_ == _DI2.UP else 'D'
            s = ref_compress(dict(n_pdesc(pd), dir=dc), n_rule(rule), dc)
            if s is not None:
                case_decompress(b, s, rule, d_, klass='decompress:direction-alternatives:' + stack, expect=bits_of(pd.raw), side=rnd.choice([L, R]))
        r0 = no_compression_rule(randbits(rnd, rnd.randint(1, 16)))
        s = bits_of(r0.id) + bits_of(pd.raw)
        case_decompress(b, s, r0, None, klass='decompress:no-compression', expect=bits_of(pd.raw), side=rnd.choice([L, R]))
    # packets whose regenerated checksums land on the corner values (0, 0xFFFF and their neighbours, where a carry is folded twice)
    from p_c09 import special_packets
    from schc_run import parser_for
    from schc_util import gen_rfd, COMPUTABLE
    from core import Buffer as _B
    from microschc.rfc8724 import RuleDescriptor as _RD, DirectionIndicator as _DI
    for stack, pkt in special_packets(rnd):
        pd = parser_for(stack).parse(_B(pkt, len(pkt) * 8))
        fds = [gen_rfd(rnd, f, 'comp' if str(getattr(f.id, 'value', f.id)) in COMPUTABLE else rnd.choice(['vs', 'ns', 'lsb']), _DI.BIDIRECTIONAL) for f in pd.fields]
        rule = _RD(id=mk(randbits(rnd, rnd.randint(1, 8))), field_descriptors=fds)
        s = ref_compress(n_pdesc(pd), n_rule(rule))
        if s is not None:
            case_decompress(b, s, rule, None, klass='decompress:checksum-corner:' + stack, expect=bits_of(pd.raw), side=rnd.choice([L, R]))
    # IP-in-IP tunnels: two IP headers before UDP, the same computed field id twice in one rule
    from gens import gen_tunnel
    for k in range(6 if tier == 'quick' else 40):
        name, pkt, pd = gen_tunnel(rnd, k)
        fds = [gen_rfd(rnd, f, 'comp' if str(getattr(f.id, 'value', f.id)) in COMPUTABLE else rnd.choice(['vs', 'ns', 'lsb']), _DI.BIDIRECTIONAL) for f in pd.fields]
        rule = _RD(id=mk(randbits(rnd, rnd.randint(1, 8))), field_descriptors=fds)
        s = ref_compress(n_pdesc(pd), n_rule(rule))
        if s is not None:
            case_decompress(b, s, rule, None, klass='decompress:' + name, expect=bits_of(pd.raw), side=rnd.choice([L, R]))
    for i in range(1500 if tier == 'quick' else 15000):
        rule, vals = synth_case(rnd)
        pl = payload_variants(rnd)
        pd = synth_pdesc(rule, vals, pl)
        nr = n_rule(rule)
        s = ref_compress(n_pdesc(pd), nr)
        if s is None:
            continue
        case_decompress(b, s, rule, None, klass='decompress:synthetic', expect=''.join(vals) + pl, side=rnd.choice([L, R]))
    # mapping-sent as the LAST residue with an empty payload, mixed-width prefix-free indices in every listing order
    # (a shorter tail must never be taken for a wider index with leading zeros)
    import itertools
    from core import Buffer
    from microschc.rfc8724 import RuleFieldDescriptor, RuleDescriptor, MatchMapping, DirectionIndicator as DI, MatchingOperator as MO, CompressionDecompressionAction as CDA
    codes = [['1', '01', '001'], ['0', '10', '110'], ['01', '1', '000', '001'], ['1', '00', '010', '011'], ['', ], ['0', '1']]
    for code in codes:
        perms = list(itertools.permutations(code)) if len(code) <= 3 else [code, code[::-1], code[1:] + code[:1]]
        for perm in perms:
            vals = [randbits(rnd, 5) for _ in perm]
            if len(set(vals)) != len(vals):
                continue
            fw = {mk(v, rnd.choice([L, R])): mk(i, rnd.choice([L, R])) for v, i in zip(vals, perm)}
            for k, (v, i) in enumerate(zip(vals, perm)):
                pre = randbits(rnd, rnd.choice([0, 3, 8]))
                fds = []
                if pre:
                    fds.append(RuleFieldDescriptor('X:p', len(pre), 0, DI.BIDIRECTIONAL, Buffer(b'', 0), MO.IGNORE, CDA.VALUE_SENT))
                fds.append(RuleFieldDescriptor('X:m', 5, 0, DI.BIDIRECTIONAL, mkmap(fw), MO.MATCH_MAPPING, CDA.MAPPING_SENT))
                rule = RuleDescriptor(id=mk(randbits(rnd, rnd.randint(1, 9))), field_descriptors=fds)
                for pl in ('', '0', '1', '0000000'):
                    s = bits_of(rule.id) + pre + i + pl
                    case_decompress(b, s, rule, None, klass='decompress:mapping-last', expect=pre + v + pl, side=rnd.choice([L, R]))
    b.run()


def replay(case):
    from p_schc_common import replay_schc
    return replay_schc(case)
