"""C04 -- A rule is offered for a packet iff every field satisfies its matching operator."""
from core import rng_for, mk, bits_of, L, R, randbits
from schc_run import Batch, case_match
from schc_util import gen_rule, KINDS, n_rule
from gens import gen_parsed, ALL_STACKS, no_compression_rule, mutate_rule, synth_case, synth_pdesc
from microschc.rfc8724 import DirectionIndicator as DI, RuleDescriptor, PacketDescriptor

RULE = ('parsed packets of every stack x matching rules x near-miss mutants (target bit flipped, pattern lengthened / shortened / longer '
        'than the field, descriptor dropped / duplicated / swapped, direction changed, field id swapped, declared length changed, '
        'mapping entry removed; one or two edits), rule sets with a no-compression rule, both packet directions, target values and '
        'mapping keys of either padding side; yielded rule indices compared with the extracted Coq model and with the '
        'applicability predicate of the property statement; distinct by driver line')
ASSUMPTIONS = ['target values have the type their matching operator expects (the library asserts it)']


def operators_direct(rep, rnd, pd):
    """the four matching operators as the module microschc.matching.operators exports them, called directly on field descriptors and
    target values of either padding side: equal = same bits and length, ignore = True, MSB(x) = field at least x bits long whose
    first x bits are the pattern, match-mapping = some key with the field's bits"""
    from microschc.matching import operators as ops
    from core import bits_of, mk, L, R, mkmap, impl_outcome
    for f in rnd.sample(pd.fields, min(4, len(pd.fields))):
        fb = bits_of(f.value)
        cands = [fb, fb + '0', fb[:-1], ('1' if fb[:1] == '0' else '0') + fb[1:], randbits(rnd, len(fb))]
        for c in cands:
            tv = mk(c, rnd.choice([L, R]))
            pat = mk(c[:rnd.randint(0, len(c))], rnd.choice([L, R]))
            pb = bits_of(pat)
            keys = [x for x in {fb[::-1], c, randbits(rnd, max(1, len(fb)))}]
            mm = mkmap({mk(k, rnd.choice([L, R])): mk(format(j, '03b')) for j, k in enumerate(keys)})
            got = impl_outcome(lambda: (ops.equal(f, tv), ops.ignore(f), ops.most_significant_bits(f, pat), ops.match_mapping(f, mm)))
            want = ('OK', (c == fb, True, len(pb) <= len(fb) and fb[:len(pb)] == pb, fb in keys))
            rep.count('operators-direct', key=('opd', fb, c, pb))
            rep.oracle_evals += 1
            if got != want:
                rep.violation('property', 'matching operators called directly on field %r: (equal %r, ignore, MSB %r, match-mapping %r) give %s, expected %s' % (fb, c, pb, keys, got, want),
                              dict(layer='schc', op='operators-direct', field=fb, target=c, pattern=pb, keys=keys))
                return


def run(rep, tier, seed):
    rnd = rng_for(seed, 'C04')
    b = Batch(rep)
    npk = 450 if tier == 'quick' else 4000
    for i in range(npk):
        stack, pkt, st, pd = gen_parsed(rnd, ALL_STACKS[i % len(ALL_STACKS)])
        if i % 3 == 0:
            operators_direct(rep, rnd, pd)
        # the same Ruler object sees packets of both directions, several times (a matcher must not remember the previous packet)
        from microschc.ruler.ruler import Ruler
        from p_c18 import dir_rule
        pd.direction = DI.UP
        alt, _ = dir_rule(rnd, pd, DI.UP)
        shared_rules = [alt, gen_rule(rnd, pd, randbits(rnd, 6), direction=DI.DOWN), gen_rule(rnd, pd, randbits(rnd, 7))]
        shared = Ruler(shared_rules)
        for d in (DI.UP, DI.DOWN, DI.UP, DI.DOWN):
            pd.direction = d
            case_match(b, pd, shared_rules, klass='match-shared-ruler:' + stack, ruler=shared)
        if i % 3 == 1:
            # target values, MSB patterns and mapping keys that were EDITED IN PLACE before use (item / slice assignment with a value of
            # another width, so that the length residue modulo 8 changes on the way): the matcher goes by the bits they hold now, whatever
            # the padding side of the field they are compared with
            def edited(bits_, side_):
                i_ = rnd.randint(0, len(bits_))
                j_ = rnd.randint(i_, len(bits_))
                junk = randbits(rnd, rnd.choice([0, 1, 2, 3, 5, 9]))
                t_ = mk(bits_[:i_] + junk + bits_[j_:], side_)
                if len(junk) == 1 and rnd.random() < 0.6:
                    t_[i_] = mk(bits_[i_:j_], rnd.choice([L, R]))            # int index: one bit replaced by any number of bits
                else:
                    t_[i_:i_ + len(junk)] = mk(bits_[i_:j_], rnd.choice([L, R]))
                return t_
            from microschc.rfc8724 import RuleFieldDescriptor as _RFD, RuleDescriptor as _RD, MatchingOperator as _MO, CompressionDecompressionAction as _CDA
            from core import mkmap, bits_of as _bo
            fds_e = []
            for f in pd.fields:
                fb = _bo(f.value)
                k_ = rnd.choice(['eq', 'msb', 'map', 'ig'])
                sd_ = rnd.choice([L, R])
                if k_ == 'eq':
                    fds_e.append(_RFD(f.id, len(fb), f.position, DI.BIDIRECTIONAL, edited(fb, sd_), _MO.EQUAL, _CDA.NOT_SENT))
                elif k_ == 'msb':
                    x_ = rnd.randint(0, len(fb))
                    fds_e.append(_RFD(f.id, len(fb), f.position, DI.BIDIRECTIONAL, edited(fb[:x_], sd_), _MO.MSB, _CDA.LSB))
                elif k_ == 'map':
                    fds_e.append(_RFD(f.id, len(fb), f.position, DI.BIDIRECTIONAL, mkmap({edited(fb, sd_): mk('1'), mk(fb + '1'): mk('0')}), _MO.MATCH_MAPPING, _CDA.MAPPING_SENT))
                else:
                    fds_e.append(_RFD(f.id, len(fb), f.position, DI.BIDIRECTIONAL, mk(''), _MO.IGNORE, _CDA.VALUE_SENT))
            pd.direction = DI.UP
            case_match(b, pd, [_RD(id=mk(randbits(rnd, 5)), field_descriptors=fds_e)], klass='match-edited-targets:' + stack)
        if i % 5 == 2:
            # a packet descriptor WITHOUT fields (a caller-assembled stack that parses nothing, raw payload): a compression rule that has no
            # descriptor for that direction applies (as many descriptors as fields: none), one that has some does not
            from microschc.rfc8724 import PacketDescriptor as _PD, RuleDescriptor as _RD2
            pd0 = _PD(direction=rnd.choice([DI.UP, DI.DOWN]), fields=[], payload=mk(randbits(rnd, rnd.choice([0, 8, 40]))))
            other_ = DI.DOWN if pd0.direction == DI.UP else DI.UP
            r_other = gen_rule(rnd, pd, randbits(rnd, 4), kinds=('ns', 'vs'), direction=other_)
            rules0 = [_RD2(id=mk('00'), field_descriptors=[]), _RD2(id=mk('01'), field_descriptors=r_other.field_descriptors), gen_rule(rnd, pd, '10' + randbits(rnd, 2), kinds=('ns', 'vs')), no_compression_rule('11')]
            rnd.shuffle(rules0)
            case_match(b, pd0, rules0, klass='match-packet-without-fields')
        if i % 4 == 0:
            # two matchers of ONE Ruler alive at the same time (the generator is lazy: a caller may take one rule for packet A, start
            # on packet B, then come back for the next rule of A): each must go on with its own packet
            _, _, _, pd_b = gen_parsed(rnd, stack)
            pd.direction, pd_b.direction = DI.UP, rnd.choice([DI.UP, DI.DOWN])
            from core import impl_outcome

            def interleaved():
                ga, gb = shared.match_packet_descriptor(pd), shared.match_packet_descriptor(pd_b)
                ya, yb = [], []
                for _k in range(len(shared_rules) + 1):
                    for g_, y_ in ((ga, ya), (gb, yb)):
                        r_ = next(g_, None)
                        if r_ is not None:
                            y_.append([j for j, x in enumerate(shared_rules) if x is r_][0])
                return ya, yb
            got = impl_outcome(interleaved)
            want = impl_outcome(lambda: ([j for j, x in enumerate(shared_rules) if any(x is r_ for r_ in Ruler(shared_rules).match_packet_descriptor(pd))],
                                         [j for j, x in enumerate(shared_rules) if any(x is r_ for r_ in Ruler(shared_rules).match_packet_descriptor(pd_b))]))
            rep.count('match-interleaved-generators', key=('inter', i))
            rep.oracle_evals += 1
            if got != want:
                rep.violation('property', 'two matchers of one Ruler consumed in turn yield rules %s, each packet alone yields %s' % (got, want),
                              dict(layer='schc', op='match-interleaved', stack=stack, packet=pkt.hex(), rules=[n_rule(r) for r in shared_rules]))
        for d in (DI.UP, DI.DOWN):
            pd.direction = d
            from schc_util import KINDS as _K
            base = gen_rule(rnd, pd, randbits(rnd, rnd.randint(1, 12)), kinds=_K + ('mapset',), direction=rnd.choice([DI.BIDIRECTIONAL, DI.BIDIRECTIONAL, d]))
            rules = [base]
            for _ in range(5):
                m, k = mutate_rule(rnd, base, pd)
                if rnd.random() < 0.3:
                    m, k2 = mutate_rule(rnd, m, pd)
                    k = k + '+' + k2
                rules.append(m)
            if rnd.random() < 0.5:
                rules.insert(rnd.randrange(len(rules) + 1), no_compression_rule(randbits(rnd, 4)))
            if rnd.random() < 0.3:
                from microschc.rfc8724 import RuleNature
                frag = gen_rule(rnd, pd, randbits(rnd, 5), kinds=('vs',))
                frag.nature = RuleNature.FRAGMENTATION          # neither compression nor no-compression: never offered
                rules.append(frag)
            rnd.shuffle(rules)
            case_match(b, pd, rules, klass='match:' + stack)
    # right-padded field values and patterns (synthetic descriptors)
    for i in range(800 if tier == 'quick' else 8000):
        rule, vals = synth_case(rnd)
        pd = synth_pdesc(rule, vals, '')
        side = rnd.choice([L, R])
        for f in pd.fields:
            f.value = mk(bits_of(f.value), side)
        muts = [rule] + [mutate_rule(rnd, rule, pd)[0] for _ in range(3)]
        from microschc.ruler.ruler import Ruler
        shared = Ruler(muts)
        case_match(b, pd, muts, klass='match:synthetic-%s' % ('L' if side == L else 'R'), ruler=shared)
        # the same bits cut at other field boundaries (same number of fields, same ids), matched by the SAME Ruler
        if len(vals) >= 2:
            j = rnd.randrange(len(vals) - 1)
            a, c = vals[j], vals[j + 1]
            if len(c) > 0:
                k = rnd.randint(1, len(c))
                vals2 = vals[:j] + [a + c[:k], c[k:]] + vals[j + 2:]
                pd2 = synth_pdesc(rule, vals2, '')
                for f in pd2.fields:
                    f.value = mk(bits_of(f.value), side)
                case_match(b, pd2, muts, klass='match:synthetic-other-boundaries', ruler=shared)
    b.run()


def replay(case):
    from p_schc_common import replay_schc
    return replay_schc(case)
