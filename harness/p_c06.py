"""C06 -- Buffer layer."""
import p_buffer_common as bc

RULE = ('cases enumerate (operation x padding side of every operand x bit length residue mod 8 x content class) '
        'with all-ones, alternating and random contents, plus random long operands; a case is distinct by '
        '(operation, operand bits and sides, parameters); every case is non-trivial in that it executes the '
        'operation on the implementation, on the extracted Coq model and on the bit-sequence oracle')
ASSUMPTIONS = ['operands are canonical Buffers built by the constructor (the property quantifies over bit strings)',
               'Buffer theorems are about the byte-level Gallina model coq/theories/Buffer.v; its tie to buffer.py is this run\'s correspondence']


def run(rep, tier, seed):
    bc.run_family(rep, 'C06', tier, seed)


def replay(case):
    return bc.replay(case)
