"""C07 -- Parsed fields tile the packet: nothing lost, nothing invented, order kept."""
from core import rng_for, impl_outcome
from schc_run import Batch
import p_parse_common as pc

RULE = ('every parser configuration x well-formed packets of every supported protocol and the malformed stream of C14 (truncations, '
        'bit flips, overwritten length fields, non-aligned, random); whenever parse succeeds: concatenation of the field values + '
        'payload must equal the input bit for bit, and for every header parser of the stack the reported header length must equal the '
        'total length of its fields and not exceed its buffer; field list compared with the extracted Coq model; distinct by (stack, bits)')
ASSUMPTIONS = ['packet buffers are left-padded (default)']


def run(rep, tier, seed):
    rnd = rng_for(seed, 'C07')
    b = Batch(rep)
    for stack, bits, klass in pc.malformed_stream(rnd, tier):
        if stack == 'CoAP-semantic':
            continue      # the semantic option view replaces delta/length fields by names: it does not tile by design (C19 covers it)
        out = pc.observe(stack, bits)
        fails = []
        if out[0] == 'OK':
            fields, payload = out[1]
            cat = ''.join(x[2] for x in fields) + payload
            if cat != bits:
                fails.append('%s parser accepted a %d-bit %s input but fields + payload spell %d bits%s' % (
                    stack, len(bits), klass, len(cat), '' if len(cat) != len(bits) else ' (different content)'))
            hl = impl_outcome(lambda: pc.header_lengths(stack, bits))
            if hl[0] == 'OK':
                for (reported, total, avail) in hl[1]:
                    if reported != total or reported > avail:
                        fails.append('%s: header length %d, fields total %d, buffer %d' % (stack, reported, total, avail))
        pc.bytes_case(b, stack, bits, stack)
        b.add('%s:%s:%s' % (stack, klass, 'accepted' if out[0] == 'OK' else 'rejected'), pc.model_line(stack, bits), out, pc.parse_model, fails,
              dict(layer='parser', op='parse', stack=stack, bits=bits), key=(stack, bits))
    b.run()
    # what a parse returned is the caller's: after every returned Buffer was edited in place, the next parse (same stack, any packet) still
    # returns fields that spell ITS packet -- a parser must not hand out Buffers it keeps for itself
    from gens import gen_packet
    from core import mk, L, R, Buffer
    from schc_run import parser_for
    for k in range(60 if tier == 'quick' else 600):
        stack, pkt, _ = gen_packet(rnd, ['IPv6-UDP-CoAP', 'IPv4-UDP-CoAP', 'UDP', 'CoAP', 'SCTP', 'IPv6', 'IPv4'][k % 7])
        o = impl_outcome(lambda: parser_for(stack).parse(Buffer(pkt, len(pkt) * 8)))
        if o[0] != 'OK':
            continue
        for x_ in [f.value for f in o[1].fields] + [o[1].payload]:
            impl_outcome(lambda: (x_.shift(-3, inplace=True), x_.pad(L if x_.padding is R else R, inplace=True), x_.__setitem__(slice(0, min(8, x_.length)), mk('10100101')[0:min(8, x_.length)])))
        stack2, pkt2, _ = gen_packet(rnd, stack)
        o2 = impl_outcome(lambda: parser_for(stack).parse(Buffer(pkt2, len(pkt2) * 8)))
        rep.count('parse-after-editing-results', key=('pae', k))
        rep.oracle_evals += 1
        if o2[0] == 'OK':
            from core import bits_of as _bo
            from gens import b2s as _b2s
            cat = ''.join(_bo(f.value) for f in o2[1].fields) + _bo(o2[1].payload)
            if cat != _b2s(pkt2):
                rep.violation('property', '%s parser: after the Buffers returned by an earlier parse were edited in place, the fields of the next packet no longer spell it' % stack,
                              dict(layer='parser', op='parse-after-editing-results', stack=stack, first=pkt.hex(), packet=pkt2.hex()))
                break
    # stacks a caller assembles himself from the public header parsers, the same protocol possibly twice (IP-in-IP tunnels): every header
    # of the packet must be in the field list, once, in order -- fields + payload spell the packet
    from gens import gen_tunnel, b2s
    from core import bits_of
    for k in range(40 if tier == 'quick' else 400):
        o = impl_outcome(lambda: gen_tunnel(rnd, k))
        rep.count('custom-stack:tunnel', key=('tun', k))
        rep.oracle_evals += 1
        if o[0] != 'OK':
            rep.violation('property', 'a packet parser assembled from two IP header parsers, UDP and CoAP rejects a well-formed tunnel packet: %s' % o[1], dict(layer='parser', op='custom-stack', k=k))
            break
        name, pkt, pd = o[1]
        cat = ''.join(bits_of(f.value) for f in pd.fields) + bits_of(pd.payload)
        nver = sum(1 for f in pd.fields if str(getattr(f.id, 'value', f.id)).endswith(':Version'))
        if cat != b2s(pkt) or nver != 3:
            rep.violation('property', '%s: fields + payload spell %d bits of a %d-bit packet; %d version fields (two IP headers and CoAP expected)' % (name, len(cat), len(pkt) * 8, nver),
                          dict(layer='parser', op='custom-stack', name=name, packet=pkt.hex()))
            break


def replay(case):
    out = pc.observe(case['stack'], case['bits'])
    if out[0] == 'OK':
        fields, payload = out[1]
        if ''.join(x[2] for x in fields) + payload != case['bits']:
            return 'fields + payload differ from the input'
    from core import Driver
    m = pc.parse_model(Driver().run([pc.model_line(case['stack'], case['bits'])])[0])
    return None if m == out else 'model %s vs implementation %s' % (str(m)[:100], str(out)[:100])
