"""C08 -- Parsers cut headers at the field boundaries their RFCs define."""
from core import impl_outcome, rng_for
from schc_run import Batch
from gens import STACK_GENS, ALL_STACKS, b2s
import p_parse_common as pc
from refparse import ref_fields
import packets as P

RULE = ('well-formed packets from protocol-aware generators (CoAP: token 0..8, option deltas and lengths in every class 0..12, '
        '13..268, >=269 incl. exactly 13, 268, 269, with/without payload; SCTP: every chunk type, parameters with and without padding, '
        'SACK with gap blocks and duplicate TSNs; all IP/UDP field values) x every parser configuration incl. the predictive '
        'single-protocol parsers; field list (identifier, order, occurrence position, bit length, value) and payload compared with '
        'the extracted Coq model and with independent reference field lists written from RFC 791/8200/768/7252/9260; distinct by (stack, bits)')
ASSUMPTIONS = ['IPv4 headers without options (IHL = 5), as the library states']


def run(rep, tier, seed):
    rnd = rng_for(seed, 'C08')
    b = Batch(rep)
    n = 3000 if tier == 'quick' else 40000
    fresh = []
    for i in range(n):
        stack = ALL_STACKS[i % len(ALL_STACKS)]
        gen = rnd.choice(STACK_GENS[stack])
        pkt, st = gen(rnd)
        bits = b2s(pkt)
        if i < 160 and len(pkt) < 3000:
            fresh.append((stack, pkt))
        if i % 4 == 0:
            # the same long-lived parser object has just rejected (or not) a packet cut inside one of its later headers: nothing of
            # that attempt may show in the next parse
            other, _ = gen(rnd)
            cut = other[:rnd.randint(max(1, len(other) - 12), len(other))] if rnd.random() < 0.5 else other[:rnd.randint(1, len(other))]
            r_ = pc.observe(stack, b2s(cut))
            rep.hist['parse-after:%s' % r_[0]] = rep.hist.get('parse-after:%s' % r_[0], 0) + 1
        out = pc.observe(stack, bits)
        want_fields, want_payload = ref_fields(stack, pkt, st)
        want = ('OK', (tuple(want_fields), want_payload))
        fails = []
        if out != want:
            if out[0] != 'OK':
                fails.append('%s parser rejected a well-formed packet: %s' % (stack, out[1]))
            else:
                got = out[1][0]
                k = next((j for j, (x, y) in enumerate(zip(got, want_fields)) if x != y), min(len(got), len(want_fields)))
                fails.append('%s parser: field #%d is %s, RFC layout gives %s (got %d fields, expected %d)' % (
                    stack, k, str(got[k])[:80] if k < len(got) else 'missing', str(want_fields[k])[:80] if k < len(want_fields) else 'nothing', len(got), len(want_fields)))
        kinds = 'coap' if 'options' in st else ('udp-raw-port-%d' % st['dport'] if 'raw' in st else 'sctp')
        pc.bytes_case(b, stack, bits, stack)
        b.add('%s:%s' % (stack, kinds), pc.model_line(stack, bits), out, pc.parse_model, fails,
              dict(layer='parser', op='parse', stack=stack, bits=bits), key=(stack, bits))
        if 'options' in st:
            for d, l, v in st['options']:
                rep.hist['coap-option-delta:%s' % ('0-12' if d < 13 else '13-268' if d < 269 else '269+')] = rep.hist.get('coap-option-delta:%s' % ('0-12' if d < 13 else '13-268' if d < 269 else '269+'), 0) + 1
                rep.hist['coap-option-length:%s' % ('0' if l == 0 else '1-12' if l < 13 else '13-268' if l < 269 else '269+')] = rep.hist.get('coap-option-length:%s' % ('0' if l == 0 else '1-12' if l < 13 else '13-268' if l < 269 else '269+'), 0) + 1
        elif 'chunks' in st:
            for c in st['chunks']:
                rep.hist['sctp-chunk-type:%d' % c['ctype']] = rep.hist.get('sctp-chunk-type:%d' % c['ctype'], 0) + 1
    pc.fresh_process_parse(rep, 'C08', fresh)
    # every parser the registry hands out is its own: a caller that tailors the one it was given (stops the chaining, switches the
    # CoAP options to semantic mode, drops a header parser) must not change what the next caller of factory() gets
    from microschc.protocol.registry import factory
    from schc_run import with_timeout
    from core import mk, bits_of
    from schc_util import fid_of
    for stack in ALL_STACKS * (1 if tier == 'quick' else 5):
        p1 = factory(stack)
        try:
            edit = rnd.choice(['predict', 'semantic', 'drop'])
            if edit == 'predict' and hasattr(p1.parsers[0], 'predict_next'):
                p1.parsers[0].predict_next = not p1.parsers[0].predict_next
            elif edit == 'semantic':
                from microschc.protocol.coap import CoAPParser, CoAPOptionMode
                p1.parsers[-1] = CoAPParser(interpret_options=CoAPOptionMode.SEMANTIC)
            else:
                del p1.parsers[-1]
        except Exception:  # noqa: BLE001
            pass
        p2 = factory(stack)
        for _ in range(3):
            pkt, st = rnd.choice(STACK_GENS[stack])(rnd)
            bits = b2s(pkt)

            def f():
                pd = p2.parse(mk(bits))
                return (tuple((fid_of(x.id), x.position, bits_of(x.value)) for x in pd.fields), bits_of(pd.payload))
            out = with_timeout(f, 5)
            want_fields, want_payload = ref_fields(stack, pkt, st)
            fails = [] if out == ('OK', (tuple(want_fields), want_payload)) else ['a parser obtained from factory(%r) after another one was tailored (%s) gives %s' % (stack, edit, str(out)[:120])]
            b.add('%s:factory-independence' % stack, pc.model_line(stack, bits), out, pc.parse_model, fails, dict(layer='parser', op='parse', stack=stack, bits=bits), key=('fi', stack, bits))
    # large well-formed SCTP packets: > 1000 parameters in one chunk, jumbo DATA, SACK with many blocks
    for kind in (['params', 'data', 'sack', 'bigparam', 'jumbo', 'data-coap', 'data-coap'] if tier == 'quick' else ['params', 'data', 'sack', 'bigparam', 'jumbo', 'data-coap', 'data-coap'] * 6):
        pkt, st = P.sctp_large(rnd, kind)
        for stack, wrap in (('SCTP', lambda x: x), ('IPv6', lambda x: P.ipv6(rnd, x, 132))):
            if stack != 'SCTP' and len(pkt) > 65535:
                continue      # does not fit the 16-bit IPv6 payload length
            full = wrap(pkt)
            bits = b2s(full)
            out = pc.observe(stack, bits)
            want_fields, want_payload = ref_fields(stack, full, st)
            fails = [] if out == ('OK', (tuple(want_fields), want_payload)) else ['%s parser on a large SCTP packet (%s, %d bytes): %s' % (stack, kind, len(full), str(out)[:120])]
            b.add('%s:sctp-large-%s' % (stack, kind), pc.model_line(stack, bits), out, pc.parse_model, fails, dict(layer='parser', op='parse', stack=stack, bits=bits[:2000] + '...'), key=(stack, kind, len(bits), bits[:64]))
    # the smallest well-formed packet of every configuration: a header and nothing behind it must be accepted, with an empty payload
    from refparse import ref_ipv6, ref_ipv4, ref_udp
    for _ in range(3 if tier == 'quick' else 30):
        for stack, pkt in P.minimal_packets(rnd):
            bits = b2s(pkt)
            out = pc.observe(stack, bits)
            fails = []
            if out[0] != 'OK':
                fails.append('%s parser rejects its smallest well-formed packet (%d bytes): %s' % (stack, len(pkt), out[1]))
            elif ''.join(x[2] for x in out[1][0]) + out[1][1] != bits or (stack in ('IPv6', 'IPv4', 'UDP', 'SCTP', 'CoAP') and out[1][1] != ''):
                fails.append('%s parser on its smallest well-formed packet: fields and payload do not spell the header with an empty payload' % stack)
            elif stack == 'IPv6' and tuple(out[1][0]) != tuple(ref_ipv6(pkt)) or stack == 'IPv4' and tuple(out[1][0]) != tuple(ref_ipv4(pkt)) or stack == 'UDP' and tuple(out[1][0]) != tuple(ref_udp(pkt)):
                fails.append('%s parser on its smallest well-formed packet: fields differ from the RFC layout' % stack)
            b.add('%s:minimal' % stack, pc.model_line(stack, bits), out, pc.parse_model, fails, dict(layer='parser', op='parse', stack=stack, bits=bits), key=(stack, 'min', bits))
    # CoAP messages with several hundred options (a long Uri-Path, repeated queries): the occurrence position of each delta / length /
    # value field counts on beyond 255 and 256
    for nopt in ([257, 300] if tier == 'quick' else [255, 256, 257, 300, 600, 1030]):
        first = rnd.choice([3, 11, 15])
        pkt, st = P.coap(rnd, opts=[(first, rnd.randint(0, 2))] + [(rnd.choice([0, 0, 0, 1]), rnd.choice([0, 1, 2])) for _ in range(nopt - 1)])
        for stack, full in (('CoAP', pkt), ('UDP', P.udp(rnd, pkt, csum=lambda x: rnd.randrange(1, 65536), dport=5683))):
            st2 = st if stack == 'CoAP' else dict(st)
            bits = b2s(full)
            out = pc.observe(stack, bits)
            o_ = impl_outcome(lambda: ref_fields(stack, full, st2))
            if o_[0] != 'OK':
                continue
            want_fields, want_payload = o_[1]
            fails = [] if out == ('OK', (tuple(want_fields), want_payload)) else ['%s parser on a CoAP message with %d options: %s' % (stack, nopt, str(out)[:120])]
            b.add('%s:coap-many-options' % stack, pc.model_line(stack, bits), out, pc.parse_model, fails, dict(layer='parser', op='parse', stack=stack, bits=bits), key=(stack, 'many', nopt, bits[:64]))
    # the CoAP parser in SEMANTIC option mode names each option by its number (RFC 7252 table 4 and the registered extensions the library
    # knows; 'Unknown(n)' otherwise): every option number 0..70 and a few beyond, alone in a message and after another option; the field
    # list (identifiers, positions, values) against the extracted model of the semantic parser
    from microschc.protocol.coap import CoAPParser, CoAPOptionMode
    from core import Buffer, bits_of
    from schc_util import fid_of, tb
    from schc_run import with_timeout
    from p_c19 import parse_model_sem
    sem = CoAPParser(interpret_options=CoAPOptionMode.SEMANTIC)
    for number in list(range(0, 71)) + [128, 252, 258, 259, 268, 269, 270, 292, 2048, 2049, 65000, 65535, 65536]:
        for lead in (0, rnd.choice([1, 3, 11])):
            if lead > number:
                continue
            opts = ([(lead, rnd.randint(0, 2))] if lead else []) + [(number - lead, rnd.choice([0, 1, 2, 4]))]
            pkt, st = P.coap(rnd, opts=opts, payload=rnd.choice([None, b'', b'\x01']))
            bits = b2s(pkt)
            buf = Buffer(pkt, len(pkt) * 8)

            def f1():
                hd = sem.parse(buf)
                return (tuple((fid_of(x.id), x.position, bits_of(x.value)) for x in hd.fields), hd.length)
            o1 = with_timeout(f1)
            fails = [] if o1[0] == 'OK' else ['semantic parse of a well-formed message with option number %d raised %s' % (number, o1[1])]
            b.add('CoAP-semantic:option-number', 'S parsesem %s' % tb(bits), o1, parse_model_sem, fails, dict(layer='coap', op='parsesem', bits=bits, options=opts), key=('sem-number', number, lead, bits))
    # ... and what the statement says of identifiers: the identifier of an option determines its number -- two numbers never share one, and
    # an identifier of the 'unknown option' family carries the number it stands for
    import re as _re
    seen_ids = {}
    for number in list(range(0, 300)) + [2048, 2049, 65000, 65535, 65536, 65804]:
        dn, de = P.ext(number)
        pkt = bytes([0x40, 1, 0, 1]) + bytes([dn << 4 | 1]) + de + b'\x07'
        o_ = impl_outcome(lambda: [str(getattr(f.id, 'value', f.id)) for f in sem.parse(Buffer(pkt, len(pkt) * 8)).fields])
        rep.count('CoAP-semantic:identifier-of-number', key=('sem-id', number))
        rep.oracle_evals += 1
        fail = None
        if o_[0] != 'OK':
            fail = 'raised %s' % o_[1]
        else:
            oid = o_[1][-1]
            m_ = _re.search(r'unknown', oid, _re.I)
            if m_ and not _re.search(r'\(%d\)$' % number, oid):
                fail = 'is identified as %r, which does not say which option it is' % oid
            elif oid in seen_ids and seen_ids[oid] != number:
                fail = 'is identified as %r, like option number %d' % (oid, seen_ids[oid])
            seen_ids.setdefault(oid, number)
        if fail:
            rep.violation('property', 'CoAP semantic mode: option number %d alone in a message %s' % (number, fail), dict(layer='coap', op='identifier', number=number, packet=pkt.hex()))
            break
    b.run()


def replay(case):
    if case.get('layer') == 'coap':
        from microschc.protocol.coap import CoAPParser, CoAPOptionMode
        from core import Buffer, bits_of, Driver
        from schc_util import fid_of, tb
        from schc_run import with_timeout
        from p_c19 import parse_model_sem
        import re as _re
        sem = CoAPParser(interpret_options=CoAPOptionMode.SEMANTIC)
        if case.get('op') == 'identifier':
            pkt = bytes.fromhex(case['packet'])
            o_ = impl_outcome(lambda: [str(getattr(f.id, 'value', f.id)) for f in sem.parse(Buffer(pkt, len(pkt) * 8)).fields])
            if o_[0] != 'OK':
                return 'raised %s' % o_[1]
            oid = o_[1][-1]
            if _re.search(r'unknown', oid, _re.I) and not _re.search(r'\(%d\)$' % case['number'], oid):
                return 'option number %d is identified as %r' % (case['number'], oid)
            return None
        bits = case['bits']
        pkt = int(bits, 2).to_bytes(len(bits) // 8, 'big') if bits else b''
        buf = Buffer(pkt, len(bits))

        def f1():
            hd = sem.parse(buf)
            return (tuple((fid_of(x.id), x.position, bits_of(x.value)) for x in hd.fields), hd.length)
        o1 = with_timeout(f1)
        m = parse_model_sem(Driver().run(['S parsesem %s' % tb(bits)])[0])
        return None if m == o1 else 'model %s vs implementation %s' % (str(m)[:100], str(o1)[:100])
    out = pc.observe(case['stack'], case['bits'])
    from core import Driver
    m = pc.parse_model(Driver().run([pc.model_line(case['stack'], case['bits'])])[0])
    return None if m == out else 'model %s vs implementation %s' % (str(m)[:100], str(out)[:100])
