"""C09 -- Compute actions regenerate lengths and checksums exactly as the RFCs define."""
import struct
from core import rng_for, mk, bits_of, L, R, randbits, Buffer
from schc_run import Batch, obs_bits, with_timeout, parse_model_bits, case_decompress
from schc_util import FID, fid_of, tb, i2b, n_rule, n_pdesc, ref_compress, gen_rfd, COMPUTABLE
from gens import gen_parsed, b2s
import packets as P
from microschc.protocol import ComputeFunctions
from microschc.decompressor.decompressor import decompress
from microschc.rfc8724 import RuleDescriptor, DirectionIndicator as DI
from microschc.protocol.ipv4 import IPv4Fields as V4
from microschc.protocol.ipv6 import IPv6Fields as V6
from microschc.protocol.udp import UDPFields as U
from microschc.protocol.sctp import SCTPFields as S

RULE = ('packets with correct lengths and checksums (all addresses, ports, odd and empty payloads, payloads solved so that the folded sum '
        'wraps or the UDP / IPv4 checksum comes out as 0x0000 or 0xFFFF, every SCTP chunk mix) x every computable field: the compute '
        'function is called directly on the parsed field list with the field (and a random subset of the other computable fields it '
        'does not depend on) zeroed, and through decompress with every subset of computable fields marked compute; result compared '
        'with the extracted Coq model and with the value carried by the packet (computed by independent RFC 1071 / 768 / 8200 / 9260 '
        'code in packets.py); distinct by driver line')
ASSUMPTIONS = ['IPv4 without options; UDP checksum needs an IPv6 or IPv4 header in front']
STACKS = ['IPv6-UDP-CoAP', 'IPv4-UDP-CoAP', 'SCTP', 'IPv6', 'IPv4']
WHICH = {str(V6.PAYLOAD_LENGTH.value): 'ipv6len', str(V4.TOTAL_LENGTH.value): 'ipv4len', str(V4.HEADER_CHECKSUM.value): 'ipv4csum',
         str(U.LENGTH.value): 'udplen', str(U.CHECKSUM.value): 'udpcsum', str(S.CHECKSUM.value): 'sctpcsum'}


def special_packets(rnd):
    """packets whose checksums hit the corner values"""
    out = []
    # IPv4 header whose checksum is 0x0000: choose the identification so that the sum is 0xFFFF
    for _ in range(6):
        src, dst = rnd.randbytes(4), rnd.randbytes(4)
        c, st = P.coap(rnd)
        u = P.udp(rnd, c, csum=lambda x: P.udp_checksum_v4(src, dst, x))
        for target in (0x0000, 0xffff, 0x0001, 0x0002, 0xfffe, 0xfffd, 0xfffc, 0xfffb, 0x8000):
            base = struct.pack('!BBHHHBBH', 0x45, rnd.randrange(256), 20 + len(u), 0, rnd.randrange(65536), rnd.randrange(256), 17, 0) + src + dst
            c0 = P.csum16(base)            # checksum with ident = 0
            # adding ident x to the sum: want csum == target  <=>  ~(sum + x) == target
            s0 = (~c0) & 0xffff
            want_sum = (~target) & 0xffff
            x = (want_sum - s0) % 0xffff
            for ident in (x, x or 0xffff):
                h = base[:4] + struct.pack('!H', ident) + base[6:]
                if P.csum16(h) == target:
                    h = h[:10] + struct.pack('!H', target) + h[12:]
                    out.append(('IPv4-UDP-CoAP', h + u))
                    break
    # UDP checksum that computes to 0 (sent as 0xFFFF): solve the last two payload bytes
    for v6 in (True, False):
        for _ in range(6):
            src, dst = (rnd.randbytes(16), rnd.randbytes(16)) if v6 else (rnd.randbytes(4), rnd.randbytes(4))
            body = bytes([0x40, 1, 0, 1, 0xff]) + rnd.randbytes(rnd.choice([1, 3, 5])) + b'\0\0'
            f = (lambda x: P.udp_checksum_v6(src, dst, x)) if v6 else (lambda x: P.udp_checksum_v4(src, dst, x))
            u0 = P.udp(rnd, body, csum=None)
            raw = P.csum16((src + dst + (struct.pack('!IHBB', len(u0), 0, 0, 17) if v6 else struct.pack('!BBH', 0, 17, len(u0)))) + u0)
            # raw = ~sum ; choose last word w so that new sum == 0xffff -> checksum 0 -> sent as 0xffff
            s = (~raw) & 0xffff
            # choose the last payload word so that the checksum lands on a corner value: 0 (sent as 0xFFFF), values next to
            # 0xFFFF and 0x0000 (where a dropped end-around carry shows), mid-range
            for target in (0x0000, 0xfffe, 0xfffd, 0xfffc, 0xfffb, 0x0001, 0x0002, 0x8000, 0x7fff):
                want_sum = (~target) & 0xffff
                w = (want_sum - s) % 0xffff
                for ww in (w, w or 0xffff):
                    body2 = body[:-2] + struct.pack('!H', ww)
                    u = P.udp(rnd, body2, csum=f, sport=struct.unpack('!H', u0[:2])[0])
                    got = struct.unpack('!H', u[6:8])[0]
                    if got == (target or 0xffff):
                        out.append(('IPv6-UDP-CoAP' if v6 else 'IPv4-UDP-CoAP', (P.ipv6(rnd, u, 17, src, dst) if v6 else P.ipv4(rnd, u, 17, src, dst))))
                        break
    # pseudo-headers whose own one's complement sum is a corner value (0xFFFF, 0xFFFE, 0x0001): the last address word is solved
    for v6 in (True, False):
        for target in (0xffff, 0xffff, 0xfffe, 0x0001, 0x8000):
            body = bytes([0x40, 1, 0, 1, 0xff]) + rnd.randbytes(rnd.choice([1, 2, 5]))
            ulen = 8 + len(body)
            src = rnd.randbytes(16 if v6 else 4)
            dst0 = rnd.randbytes(14 if v6 else 2)
            tail = struct.pack('!IHBB', ulen, 0, 0, 17) if v6 else struct.pack('!BBH', 0, 17, ulen)
            s0 = (~P.csum16(src + dst0 + tail)) & 0xffff          # folded sum of everything but the last address word
            w = (target - s0) % 0xffff
            for ww in (w, w or 0xffff):
                dst = dst0 + struct.pack('!H', ww)
                if ((~P.csum16(src + dst + tail)) & 0xffff) == target:
                    f = (lambda x, a=src, d_=dst: P.udp_checksum_v6(a, d_, x)) if v6 else (lambda x, a=src, d_=dst: P.udp_checksum_v4(a, d_, x))
                    u = P.udp(rnd, body, csum=f)
                    out.append(('IPv6-UDP-CoAP' if v6 else 'IPv4-UDP-CoAP', (P.ipv6(rnd, u, 17, src, dst) if v6 else P.ipv4(rnd, u, 17, src, dst))))
                    break
    # the two explicit stacks do not look at the next header / protocol field: a datagram behind extension-header or other numbers (0, 43,
    # 60, 6 ...) whose UDP checksum is the RFC 768 one (upper-layer protocol 17 in the pseudo-header) is regenerated just the same
    for v6 in (True, False):
        for nh in (0, 6, 43, 60, 132, 255):
            src, dst = (rnd.randbytes(16), rnd.randbytes(16)) if v6 else (rnd.randbytes(4), rnd.randbytes(4))
            c, _ = P.coap(rnd)
            u = P.udp(rnd, c, csum=(lambda x: P.udp_checksum_v6(src, dst, x)) if v6 else (lambda x: P.udp_checksum_v4(src, dst, x)))
            out.append(('IPv6-UDP-CoAP' if v6 else 'IPv4-UDP-CoAP', P.ipv6(rnd, u, nh, src, dst) if v6 else P.ipv4(rnd, u, nh, src, dst)))
    # SCTP packets whose CRC-32c is exactly 0x00000000, 0xFFFFFFFF, 1, 0x80000000 (SCTP has no "zero means none" convention)
    for target in (b'\0\0\0\0', b'\xff\xff\xff\xff', b'\0\0\0\x01', b'\x80\0\0\0', b'\0\0\0\0'):
        r_ = P.sctp_with_checksum(rnd, target)
        if r_ is not None:
            out.append(('SCTP', r_[0]))
            out.append(('IPv6', P.ipv6(rnd, r_[0], 132)))
    # SCTP carried in UDP (port 132, the predictive stacks): the UDP checksum covers the SCTP packet with ITS checksum in place
    for v6 in (True, False, True, False):
        src, dst = (rnd.randbytes(16), rnd.randbytes(16)) if v6 else (rnd.randbytes(4), rnd.randbytes(4))
        s_, _ = P.sctp(rnd)
        u = P.udp(rnd, s_, csum=(lambda x: P.udp_checksum_v6(src, dst, x)) if v6 else (lambda x: P.udp_checksum_v4(src, dst, x)), dport=132)
        out.append(('IPv6' if v6 else 'IPv4', P.ipv6(rnd, u, 17, src, dst) if v6 else P.ipv4(rnd, u, 17, src, dst)))
    # addresses made of 0xFFFF words (the plain sum of the pseudo-header alone carries more than once), the last payload word solved so that
    # the checksum lands on 0xFFFE, 0xFFFF (sent for 0), 0x0001, 0x0000-neighbours: totals of exactly 0x1FFFF and around
    for v6 in (True, False):
        for target in (0xfffe, 0x0000, 0x0001, 0xfffd, 0x7fff):
            src = (bytes.fromhex('20010db8') + b'\xff' * 10 + rnd.randbytes(2)) if v6 else b'\xff\xff' + rnd.randbytes(2)
            dst = (bytes.fromhex('20010db8') + b'\xff' * 12) if v6 else b'\xff\xff\xff\xfe'
            body = bytes([0x40, 1, 0, 1, 0xff]) + rnd.randbytes(rnd.choice([1, 3])) + b'\0\0'
            f = (lambda x, a=src, d_=dst: P.udp_checksum_v6(a, d_, x)) if v6 else (lambda x, a=src, d_=dst: P.udp_checksum_v4(a, d_, x))
            u0 = P.udp(rnd, body, csum=None, dport=5683)
            raw = P.csum16((src + dst + (struct.pack('!IHBB', len(u0), 0, 0, 17) if v6 else struct.pack('!BBH', 0, 17, len(u0)))) + u0)
            s = (~raw) & 0xffff
            w = (((~target) & 0xffff) - s) % 0xffff
            for ww in (w, w or 0xffff):
                body2 = body[:-2] + struct.pack('!H', ww)
                u = P.udp(rnd, body2, csum=f, sport=struct.unpack('!H', u0[:2])[0], dport=5683)
                if struct.unpack('!H', u[6:8])[0] == (target or 0xffff):
                    out.append(('IPv6-UDP-CoAP' if v6 else 'IPv4-UDP-CoAP', (P.ipv6(rnd, u, 17, src, dst) if v6 else P.ipv4(rnd, u, 17, src, dst))))
                    break
    # pseudo-headers whose PLAIN word sum s satisfies (s & 0xffff) + (s >> 16) >= 0x10000 (one fold is not enough), with the payload solved so
    # that the checksum is 0xFFFE: the running total passes through exactly 0x1FFFF
    for v6 in (True, False, True):
        body = bytes([0x40, 1, 0, 1, 0xff]) + rnd.randbytes(rnd.choice([1, 3])) + b'\0\0'
        ulen = 8 + len(body)
        src0 = (bytes.fromhex('20010db8') + b'\xff' * 10) if v6 else b'\xff\xff'
        dst = (bytes.fromhex('20010db8') + b'\xff' * 12) if v6 else b'\xff\xff\xff\xfe'
        tail = struct.pack('!IHBB', ulen, 0, 0, 17) if v6 else struct.pack('!BBH', 0, 17, ulen)
        words = lambda bs: sum(struct.unpack('!%dH' % (len(bs) // 2), bs))
        base = words(src0 + dst + tail)
        cand = [w for w in range(65536) if (((base + w) & 0xffff) + ((base + w) >> 16)) >= 0x10000]
        if not cand:
            continue
        src = src0 + struct.pack('!H', rnd.choice(cand))
        f = (lambda x, a=src, d_=dst: P.udp_checksum_v6(a, d_, x)) if v6 else (lambda x, a=src, d_=dst: P.udp_checksum_v4(a, d_, x))
        u0 = P.udp(rnd, body, csum=None, dport=5683)
        raw = P.csum16((src + dst + tail) + u0)
        s_ = (~raw) & 0xffff
        for target in (0xfffe, 0xfffd):
            w = (((~target) & 0xffff) - s_) % 0xffff
            for ww in (w, w or 0xffff):
                u = P.udp(rnd, body[:-2] + struct.pack('!H', ww), csum=f, sport=struct.unpack('!H', u0[:2])[0], dport=5683)
                if struct.unpack('!H', u[6:8])[0] == target:
                    out.append(('IPv6-UDP-CoAP' if v6 else 'IPv4-UDP-CoAP', (P.ipv6(rnd, u, 17, src, dst) if v6 else P.ipv4(rnd, u, 17, src, dst))))
                    break
    return out


def jumbo_checksums(rep, rnd, tier):
    """the UDP checksum function called directly on an IPv6 jumbogram's field list (more than 128 KiB of high-valued bytes: the plain sum of
    the 16-bit words passes 2^32, and the first payload word is chosen so that two folds of that sum still leave a carry); judged against
    RFC 768 / RFC 8200 arithmetic (reference of packets.py); oracle only"""
    from schc_run import parser_for
    fn = ComputeFunctions[[k for k in ComputeFunctions if str(getattr(k, 'value', k)) == 'UDP:Checksum'][0]][0]
    for k in range(2 if tier == 'quick' else 6):
        src, dst = bytes.fromhex('20010db8') + rnd.randbytes(12), bytes.fromhex('20010db8') + rnd.randbytes(12)
        small = P.ipv6(rnd, P.udp(rnd, b'\x00' * 4, csum=None, sport=5683, dport=5684), 17, src, dst)
        pd = parser_for('IPv6').parse(Buffer(small, len(small) * 8))
        nbytes = rnd.choice([139998, 150000, 200000])
        tail = bytes([rnd.choice([0xff, 0xfe, 0xff])]) * nbytes
        hdr = small[40:48]
        words = lambda bs: sum(struct.unpack('!%dH' % (len(bs) // 2), bs))
        ph_ = words(src + dst + struct.pack('!I', 8 + 2 + nbytes) + b'\0\0\0\x11')
        while ph_ >> 16:
            ph_ = (ph_ & 0xffff) + (ph_ >> 16)
        base = words(hdr[:6] + b'\0\0' + tail)
        pick = None
        for w in range(65536):
            s_ = base + w + (ph_ if k % 2 == 0 else 0)      # the carries of the whole sum (pseudo-header included), or of the datagram alone
            f1 = (s_ & 0xffff) + (s_ >> 16)
            f2 = (f1 & 0xffff) + (f1 >> 16)
            if f2 >= 0x10000:
                pick = w
                break
        if pick is None:
            pick = rnd.randrange(65536)
        payload = struct.pack('!H', pick) + tail
        k_ = [j for j, f in enumerate(pd.fields) if str(getattr(f.id, 'value', f.id)) == 'UDP:Checksum'][0]
        fl = [(x.id, Buffer(b'\0\0', 16) if j == k_ else x.value) for j, x in enumerate(pd.fields)] + [('Payload', Buffer(payload, len(payload) * 8))]
        out = obs_bits(with_timeout(lambda: fn(fl, k_), 15))
        want = format(P.udp_checksum_v6(src, dst, hdr[:6] + b'\0\0' + payload), '016b')
        rep.count('compute:jumbo-udp-checksum', key=('jumbo', k))
        rep.oracle_evals += 1
        if out != ('OK', want):
            rep.violation('property', 'UDP checksum of an IPv6 jumbogram (%d payload bytes, first word %04x): computed %s, RFC 768 / 8200 give %s' % (len(payload), pick, str(out)[:40], want),
                          dict(layer='compute', op='jumbo-udp-checksum', src=src.hex(), dst=dst.hex(), header=hdr.hex(), first_word=pick, tail_byte=tail[0], tail_bytes=nbytes))
            return


def fields_tokens(fl):
    t = [str(len(fl))]
    for fid, bits in fl:
        t += [fid[0], str(fid[1]), tb(bits)]
    return t


def run(rep, tier, seed):
    rnd = rng_for(seed, 'C09')
    b = Batch(rep)
    jumbo_checksums(rep, rng_for(seed, 'C09-jumbo'), tier)
    from schc_run import parser_for
    n = 600 if tier == 'quick' else 6000
    items = []
    for i in range(n):
        stack, pkt, st, pd = gen_parsed(rnd, STACKS[i % len(STACKS)])
        items.append((stack, pkt, pd))
    # large datagrams: more than a thousand 8-bit and 16-bit chunks (payload 1100..1400 bytes)
    for k in range(4 if tier == 'quick' else 40):
        big = rnd.randbytes(rnd.randint(1100, 1400))
        if k % 2:
            src, dst = rnd.randbytes(16), rnd.randbytes(16)
            c, st = P.coap(rnd, payload=big)
            u = P.udp(rnd, c, csum=lambda x: P.udp_checksum_v6(src, dst, x))
            pkt = P.ipv6(rnd, u, 17, src, dst)
            stack = 'IPv6-UDP-CoAP'
        else:
            chunk = struct.pack('!BBH', 0, 3, 16 + len(big)) + rnd.randbytes(12) + big
            pkt, st = P.sctp(rnd, chunks=[(P.pad4(chunk), {})])
            stack = 'SCTP'
        items.append((stack, pkt, parser_for(stack).parse(Buffer(pkt, len(pkt) * 8))))
        rep.hist['large-packets'] = rep.hist.get('large-packets', 0) + 1
    for stack, pkt in special_packets(rnd):
        items.append((stack, pkt, parser_for(stack).parse(Buffer(pkt, len(pkt) * 8))))
        rep.hist['special-packets'] = rep.hist.get('special-packets', 0) + 1
    # IP-in-IP tunnels (a public PacketParser with two IP header parsers): the lengths of both headers, the checksum of the inner
    # IPv4 header and the UDP checksum over the INNER addresses are regenerated; the same field id may be computed twice in one rule
    from gens import gen_tunnel
    for k in range(6 if tier == 'quick' else 60):
        items.append(gen_tunnel(rnd, k))
        rep.hist['tunnel-packets'] = rep.hist.get('tunnel-packets', 0) + 1
    for stack, pkt, pd in items:
        comp = [(k, f) for k, f in enumerate(pd.fields) if str(getattr(f.id, 'value', f.id)) in COMPUTABLE]
        for k, f in comp:
            name = str(f.id.value)
            want = bits_of(f.value)
            # decompressed field list with the target field zeroed (placeholder), as decompress presents it
            fl = [(x.id, Buffer(bytes(1 + x.value.length // 8), x.value.length) if j == k else x.value) for j, x in enumerate(pd.fields)] + [('Payload', pd.payload)]
            fn = ComputeFunctions[f.id][0]
            out = obs_bits(with_timeout(lambda: fn(fl, k)))
            fails = [] if out == ('OK', want) else ['%s computed as %s, the packet carries %s' % (name, str(out)[:60], want)]
            if int(want, 2) in (0, 1, 2, 0xffff, 0xfffe, 0xfffd, 0xfffc, 0xfffb) and len(want) == 16:
                rep.hist['corner:%s=%04x' % (WHICH[name], int(want, 2))] = rep.hist.get('corner:%s=%04x' % (WHICH[name], int(want, 2)), 0) + 1
            nfl = [(fid_of(i_), bits_of(v)) for i_, v in fl]
            line = ' '.join(['S', 'compute', WHICH[name]] + fields_tokens(nfl) + [str(k)])
            b.add('compute:%s:%s' % (stack, WHICH[name]), line, out, parse_model_bits, fails, dict(layer='compute', op=WHICH[name], stack=stack, packet=pkt.hex(), position=k), key=line)
            # the same call on what a lossy link delivers: the payload cut inside its last byte (the length functions round up to whole
            # bytes, the checksum functions pad the last word with zeros); correspondence only, no RFC value exists for such a frame
            cut = rnd.randint(1, 7)
            if pd.payload.length >= cut:
                fl2 = fl[:-1] + [('Payload', pd.payload[0:pd.payload.length - cut])]
                out2 = obs_bits(with_timeout(lambda: fn(fl2, k)))
                nfl2 = [(fid_of(i_), bits_of(v)) for i_, v in fl2]
                line2 = ' '.join(['S', 'compute', WHICH[name]] + fields_tokens(nfl2) + [str(k)])
                b.add('compute-cut-payload:%s' % WHICH[name], line2, out2, parse_model_bits, None, dict(layer='compute', op=WHICH[name], stack=stack, packet=pkt.hex(), position=k, payload_bits_cut=cut), key=line2)
        # through decompress: a random subset of the computable fields marked compute, everything else value-sent
        for _ in range(2):
            subset = [k for k, f in comp if rnd.random() < 0.6]
            fds = [gen_rfd(rnd, f, 'comp' if k in subset else rnd.choice(['vs', 'ns', 'lsb']), DI.BIDIRECTIONAL) for k, f in enumerate(pd.fields)]
            rule = RuleDescriptor(id=mk(randbits(rnd, rnd.randint(1, 8))), field_descriptors=fds)
            s = ref_compress(n_pdesc(pd), n_rule(rule))
            if s is not None:
                if subset and subset[0] + 1 < len(fds):
                    # just before: the same frame decompressed with a mis-provisioned variant of the rule (a field that has no compute
                    # function marked compute AFTER a computed one): whatever that call raises, it must leave nothing behind
                    from microschc.rfc8724 import RuleFieldDescriptor as _RFD, MatchingOperator as _MO, CompressionDecompressionAction as _CDA
                    j_ = rnd.randrange(subset[0] + 1, len(fds))
                    if j_ not in subset:
                        o_ = fds[j_]
                        bad = RuleDescriptor(id=rule.id, field_descriptors=fds[:j_] + [_RFD(o_.id, o_.length, o_.position, o_.direction, o_.target_value, _MO.IGNORE, _CDA.COMPUTE)] + fds[j_ + 1:])
                        r_ = with_timeout(lambda: decompress(mk(s, R), bad))
                        rep.hist['failed-call-before:%s' % (r_[1] if r_[0] == 'EXC' else 'ok')] = rep.hist.get('failed-call-before:%s' % (r_[1] if r_[0] == 'EXC' else 'ok'), 0) + 1
                case_decompress(b, s, rule, None, klass='decompress-compute:%s:%d' % (stack, len(subset)), expect=b2s(pkt), side=rnd.choice([L, R]))
                # the same with the stack's parser as un-parser (it regroups the rebuilt fields by header, by their ids): the computed values
                # must sit under the ids of the fields they were computed for, so the packet is the same
                from schc_run import parser_for
                o_ = obs_bits(with_timeout(lambda: decompress(mk(s, R), rule, unparser=parser_for(stack)))) if not stack.startswith('tunnel') else ('OK', b2s(pkt))
                rep.count('decompress-compute-unparser', key=('dcu', s, id(rule)))
                rep.oracle_evals += 1
                if o_ != ('OK', b2s(pkt)):
                    rep.violation('property', 'decompress with %d computed fields and the %s parser as un-parser gives %s, the packet is %s' % (len(subset), stack, str(o_)[:100], b2s(pkt)[:100]),
                                  dict(layer='schc', op='decompress-unparser', stack=stack, schc=s, rule=n_rule(rule), packet=pkt.hex()))
        # the same with a direction: some non-computed fields carry an Up and a Dw descriptor, in either order, so that descriptors the
        # direction filters out sit in front of and between the computed fields (their positions are positions in the FILTERED list)
        if comp:
            d_ = rnd.choice([DI.UP, DI.DOWN])
            o_ = DI.DOWN if d_ == DI.UP else DI.UP
            subset = [k for k, f in comp if rnd.random() < 0.7]
            fds = []
            for k, f in enumerate(pd.fields):
                if k in subset:
                    fds.append(gen_rfd(rnd, f, 'comp', DI.BIDIRECTIONAL))
                elif rnd.random() < 0.4:
                    pair = [gen_rfd(rnd, f, rnd.choice(['vs', 'ns', 'lsb']), d_), gen_rfd(rnd, f, rnd.choice(['vs', 'vsv', 'lsb']), o_)]
                    if rnd.random() < 0.5:
                        pair.reverse()
                    fds += pair
                else:
                    fds.append(gen_rfd(rnd, f, rnd.choice(['vs', 'ns', 'lsb']), DI.BIDIRECTIONAL))
            rule = RuleDescriptor(id=mk(randbits(rnd, rnd.randint(1, 8))), field_descriptors=fds)
            dc = 'U' if d_ == DI.UP else 'D'
            s = ref_compress(dict(n_pdesc(pd), dir=dc), n_rule(rule), dc)
            if s is not None:
                case_decompress(b, s, rule, d_, klass='decompress-compute-direction:%s' % stack, expect=b2s(pkt), side=rnd.choice([L, R]))
    b.run()


def replay(case):
    return 're-run ./check C09 (cases are regenerated from the seed)'
