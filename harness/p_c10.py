"""C10 -- Rule selection: FIRST takes the first matching rule, BEST the shortest result."""
from core import rng_for, mk, bits_of, L, R, randbits, Buffer
from schc_run import Batch, obs_bits, with_timeout, parse_model_bits, parser_for
from schc_util import n_rule, n_pdesc, rules_tokens, tb, ref_compress, ref_rule_applies, DIRC, gen_rule
from gens import gen_parsed, gen_ruleset, b2s
import packets as P
from microschc.rfc8724extras import Context
from microschc.manager import ContextManager
from microschc.manager.manager import MatchStrategy
from microschc.rfc8724 import DirectionIndicator as DI

RULE = ('rule sets of 1..8 rules with prefix-free ids in random order (several matching the packet with different gains, near-miss '
        'non-matching rules, default no-compression rule last in half of the sets) x packets of the stacks IPv6-UDP-CoAP, IPv4-UDP-CoAP, '
        'UDP, CoAP, SCTP x {FIRST, BEST} x {Up, Dw}; ContextManager.compress on the real parser compared with the extracted Coq '
        'model (model parser + matcher + compressor) and with the reference: first applying rule / shortest output among applying '
        'rules, ties to the earliest; distinct by driver line')
ASSUMPTIONS = ['when no rule applies the property only requires the rule-match error (see C15)']
STACKS = ['IPv6-UDP-CoAP', 'IPv4-UDP-CoAP', 'UDP', 'CoAP', 'SCTP']


from microschc.rfc8724 import RuleNature, RuleDescriptor


def one(b, rnd, stack, pkt, pd, rules, d, strat, klass, cm=None):
    if cm is None:
        # the parser is taken from the context, or given to the constructor as a stack name or as a parser object (then the
        # context's own parser id is not consulted: it names another stack here)
        how = (len(pkt) + 2 * len(rules)) % 4
        if how == 1:
            other = 'UDP' if stack != 'UDP' else 'CoAP'
            cm = ContextManager(Context(id='c', description='', interface_id='i', parser_id=other, ruleset=rules), parser=str.__str__(stack))
        elif how == 2 and stack in ('IPv6-UDP-CoAP', 'IPv4-UDP-CoAP', 'UDP', 'CoAP', 'SCTP', 'IPv6', 'IPv4'):
            from microschc.protocol.registry import factory
            other = 'UDP' if stack != 'UDP' else 'CoAP'
            cm = ContextManager(Context(id='c', description='', interface_id='i', parser_id=other, ruleset=rules), parser=factory(stack))
        else:
            cm = ContextManager(Context(id='c', description='', interface_id='i', parser_id=stack, ruleset=rules))
    bits = b2s(pkt)
    # the strategy may be given as the enum member or as its string value (MatchStrategy is a str enum: 'first' == MatchStrategy.FIRST)
    strat_arg = strat if (len(pkt) + len(rules)) % 3 else str.__str__(strat.value)
    d_arg = d if (len(pkt) + len(rules)) % 4 else str.__str__(d.value)        # the direction too may come by value ('Up' / 'Dw')
    res_ = with_timeout(lambda: cm.compress(Buffer(pkt, len(pkt) * 8), direction=d_arg, match_strategy=strat_arg))
    out = obs_bits(res_)
    from schc_run import bytes_cm_compress
    bytes_cm_compress(b, klass, stack, pkt, d, strat == MatchStrategy.FIRST, rules, res_)
    # rules of fragmentation nature share the id space; the compressor must never select them (model: never yielded; reference: never applying)
    nrs = [n_rule(r) for r in rules]
    npd = dict(n_pdesc(pd), dir=DIRC[d])
    cands = [nr for nr in nrs if ref_rule_applies(npd, nr)]
    outs = [ref_compress(npd, nr, DIRC[d]) for nr in cands]
    fails = []
    if not cands:
        if out != ('EXC', 'RuleDescriptorMatchError'):
            fails.append('no rule applies but compress gave %s' % (str(out)[:100],))
    elif None not in outs:
        if strat == MatchStrategy.FIRST:
            want = outs[0]
        else:
            want = min(outs, key=len)     # min keeps the earliest among equally short
        if out != ('OK', want):
            fails.append('%s strategy returned %s, expected %s' % (strat.value, str(out)[:120], want[:120]))
        # the length bound of the statement is a guarantee of BEST (FIRST must take the first applying rule even if it expands)
        if strat == MatchStrategy.BEST and nrs and nrs[-1]['nature'] == 'N' and out[0] == 'OK' and len(out[1]) > len(nrs[-1]['id']) + len(bits):
            fails.append('BEST result longer than default rule id + packet although a default rule ends the set')
    if nrs and nrs[-1]['nature'] == 'N' and out[0] != 'OK':
        fails.append('a default rule ends the set but compress gave %s' % (str(out)[:100],))
    line = ' '.join(['S', 'cmcompressp', stack, tb(bits), DIRC[d], 'F' if strat == MatchStrategy.FIRST else 'B'] + rules_tokens(nrs))
    b.add(klass, line, out, parse_model_bits, fails, dict(layer='schc', op='cmcompress', stack=stack, packet=pkt.hex(), rules=nrs, direction=DIRC[d], strategy=strat.value), key=(line, id(cm)))


def run(rep, tier, seed):
    rnd = rng_for(seed, 'C10')
    b = Batch(rep)
    n = 300 if tier == 'quick' else 3000
    for i in range(n):
        stack, pkt, st, pd = gen_parsed(rnd, STACKS[i % len(STACKS)])
        for k in range(2):
            d = rnd.choice([DI.UP, DI.DOWN])
            pd.direction = d
            if (i + k) % 5 == 0:
                # several rules that elide the whole header (outputs differ only by the length of the rule id): BEST takes the shortest
                rules = gen_ruleset(rnd, pd, n=rnd.randint(2, 5), match_prob=1.0, kinds=('ns', 'ns', 'map'), direction=rnd.choice([DI.BIDIRECTIONAL, d]))
                rep.hist['ruleset-of-fully-eliding-rules'] = rep.hist.get('ruleset-of-fully-eliding-rules', 0) + 1
            else:
                rules = gen_ruleset(rnd, pd, direction=rnd.choice([DI.BIDIRECTIONAL, DI.BIDIRECTIONAL, d]))
            if len(rules) > 1 and rnd.random() < 0.3:
                j = rnd.randrange(len(rules) - 1)
                rules[j] = RuleDescriptor(id=rules[j].id, nature=RuleNature.FRAGMENTATION)
                rep.hist['ruleset-with-fragmentation-rule'] = rep.hist.get('ruleset-with-fragmentation-rule', 0) + 1
            for strat in (MatchStrategy.FIRST, MatchStrategy.BEST):
                one(b, rnd, stack, pkt, pd, rules, d, strat, 'select:%s:%s' % (stack, strat.value))
    # packets that do not end on a byte boundary (a datagram cut inside its last byte still parses: the payload is what is left), under
    # rule sets whose candidates differ by a few bits only; and rule sets that contain, before the rule to be chosen, compression rules
    # with NO descriptor for the packet's direction or with no descriptor at all (they simply do not apply)
    from schc_run import parser_for
    from core import impl_outcome
    for i in range(n // 3):
        stack = ['UDP', 'CoAP', 'UDP', 'SCTP'][i % 4]
        _, pkt, st, _pd = gen_parsed(rnd, stack)
        cut = rnd.randint(1, 7) if i % 2 == 0 else 0
        bits = b2s(pkt)
        bits = bits[:len(bits) - cut]
        o = impl_outcome(lambda: parser_for(stack).parse(mk(bits, L)))
        if o[0] != 'OK':
            continue
        pd = o[1]
        d = rnd.choice([DI.UP, DI.DOWN])
        other = DI.DOWN if d == DI.UP else DI.UP
        pd.direction = d
        rules = gen_ruleset(rnd, pd, n=rnd.randint(2, 5), match_prob=1.0, kinds=('ns', 'ns', 'map', 'lsb'), direction=rnd.choice([DI.BIDIRECTIONAL, d]))
        if i % 3 == 0:
            from schc_util import prefix_free_ids
            extra = gen_rule(rnd, pd, '0', kinds=('ns', 'vs'), direction=other)         # every descriptor for the OTHER direction only
            used = [bits_of(r.id) for r in rules]
            for cand in prefix_free_ids(rnd, 12):
                if all(not cand.startswith(u) and not u.startswith(cand) for u in used):
                    shape = rnd.choice(['other-direction-only', 'no-descriptor'])
                    rules.insert(rnd.randrange(len(rules)), RuleDescriptor(id=mk(cand, rnd.choice([L, R])), field_descriptors=extra.field_descriptors if shape == 'other-direction-only' else []))
                    rep.hist['ruleset-with-rule:' + shape] = rep.hist.get('ruleset-with-rule:' + shape, 0) + 1
                    break
        nrs = [n_rule(r) for r in rules]
        npd = dict(n_pdesc(pd), dir=DIRC[d])
        cands = [nr for nr in nrs if ref_rule_applies(npd, nr)]
        outs = [ref_compress(npd, nr, DIRC[d]) for nr in cands]
        cm = ContextManager(Context(id='c', description='', interface_id='i', parser_id=stack, ruleset=rules))
        for strat in (MatchStrategy.FIRST, MatchStrategy.BEST):
            out = obs_bits(with_timeout(lambda: cm.compress(mk(bits, L), direction=d, match_strategy=strat)))
            fails = []
            if not cands:
                if out != ('EXC', 'RuleDescriptorMatchError'):
                    fails.append('no rule applies but compress gave %s' % (str(out)[:100],))
            elif None not in outs:
                want = outs[0] if strat == MatchStrategy.FIRST else min(outs, key=len)
                if out != ('OK', want):
                    fails.append('%s strategy on a %d-bit packet returned %s (%s bits), expected %s (%d bits)' % (strat.value, len(bits), str(out)[:80], len(out[1]) if out[0] == 'OK' else '-', want[:80], len(want)))
            line = ' '.join(['S', 'cmcompressp', stack, tb(bits), DIRC[d], 'F' if strat == MatchStrategy.FIRST else 'B'] + rules_tokens(nrs))
            b.add('select-unaligned:%s:cut%d' % (strat.value, cut), line, out, parse_model_bits, fails, dict(layer='schc', op='cmcompress', stack=stack, packet_bits=bits, rules=nrs, direction=DIRC[d], strategy=strat.value), key=(line, i))
    # two rules that elide everything: the first by not-sent under an id one (or k) bits LONGER, the second by one-entry mappings whose
    # index is the empty buffer (a residue of zero bits) under the shorter id: BEST must return the second, which is 1..k bits shorter
    from core import mkmap
    from microschc.rfc8724 import RuleFieldDescriptor as _RFD, MatchingOperator as _MO, CompressionDecompressionAction as _CDA
    for i in range(n // 5):
        stack, pkt, st, pd = gen_parsed(rnd, STACKS[i % len(STACKS)])
        d = rnd.choice([DI.UP, DI.DOWN])
        pd.direction = d
        ra = gen_rule(rnd, pd, '0', kinds=('ns',))
        nmap = rnd.randint(1, min(4, len(pd.fields)))
        which = set(rnd.sample(range(len(pd.fields)), nmap))
        fds_b = [(_RFD(f.id, f.value.length, f.position, DI.BIDIRECTIONAL, mkmap({mk(bits_of(f.value), rnd.choice([L, R])): mk('')}), _MO.MATCH_MAPPING, _CDA.MAPPING_SENT) if j in which else fd)
                 for j, (f, fd) in enumerate(zip(pd.fields, gen_rule(rnd, pd, '1', kinds=('ns',)).field_descriptors))]
        idb = '1' + randbits(rnd, rnd.randint(0, 5))
        ida = '0' + randbits(rnd, len(idb) - 1 + rnd.randint(1, nmap))
        rules = [RuleDescriptor(id=mk(ida, rnd.choice([L, R])), field_descriptors=ra.field_descriptors), RuleDescriptor(id=mk(idb, rnd.choice([L, R])), field_descriptors=fds_b)]
        for strat in (MatchStrategy.FIRST, MatchStrategy.BEST):
            one(b, rnd, stack, pkt, pd, rules, d, strat, 'select-zero-width-indices:%s' % strat.value)
    # two candidates whose outputs differ by fewer bits than a size prefix grows at its thresholds: rule A sends the last bits of a long
    # option value as a variable-length LSB residue of exactly 13..16 or 253..257 bits (prefix 4 / 12 / 28 bits), rule B sends the value whole
    # with a fixed length (no prefix) under an id that is 0..31 bits longer -- BEST must go by the sizes compress() really produces
    from microschc.rfc8724 import RuleFieldDescriptor as _RFD, MatchingOperator as _MO, CompressionDecompressionAction as _CDA
    from schc_util import gen_rfd
    for k in range(40 if tier == 'quick' else 400):
        vlen = rnd.choice([2, 2, 32, 32, 33])
        pkt, st = P.coap(rnd, opts=[(11, vlen)], payload=rnd.choice([None, b'\x01\x02']))
        pd = parser_for('CoAP').parse(Buffer(pkt, len(pkt) * 8))
        d = rnd.choice([DI.UP, DI.DOWN])
        pd.direction = d
        big = max(range(len(pd.fields)), key=lambda i_: pd.fields[i_].value.length)
        fb = bits_of(pd.fields[big].value)
        want = rnd.choice([13, 14, 15, 16] if vlen == 2 else [253, 254, 255, 255, 256, 257])
        x = len(fb) - want
        if x < 0:
            continue
        base = [gen_rfd(rnd, f, rnd.choice(['vs', 'ns']), DI.BIDIRECTIONAL) for f in pd.fields]
        fa, fb_ = list(base), list(base)
        f_ = pd.fields[big]
        fa[big] = _RFD(f_.id, 0, f_.position, DI.BIDIRECTIONAL, mk(fb[:x], rnd.choice([L, R])), _MO.MSB, _CDA.LSB)
        fb_[big] = _RFD(f_.id, len(fb), f_.position, DI.BIDIRECTIONAL, Buffer(b'', 0), _MO.IGNORE, _CDA.VALUE_SENT)
        ida = '0' + randbits(rnd, rnd.randint(0, 3))
        idb = '1' + randbits(rnd, len(ida) - 1 + rnd.randint(0, 31))
        ra = RuleDescriptor(id=mk(ida, rnd.choice([L, R])), field_descriptors=fa)
        rb = RuleDescriptor(id=mk(idb, rnd.choice([L, R])), field_descriptors=fb_)
        for rules in ([ra, rb], [rb, ra]):
            for strat in (MatchStrategy.BEST, MatchStrategy.FIRST):
                one(b, rnd, 'CoAP', pkt, pd, rules, d, strat, 'select-close-sizes-at-prefix-thresholds:%s' % strat.value)
    # large datagrams: every candidate of BEST is longer than 65535 bits
    for k in range(2 if tier == 'quick' else 12):
        src, dst = rnd.randbytes(16), rnd.randbytes(16)
        c_, _ = P.coap(rnd, payload=rnd.randbytes(rnd.choice([8200, 9000, 12000])))
        u_ = P.udp(rnd, c_, csum=lambda x: P.udp_checksum_v6(src, dst, x))
        pkt = P.ipv6(rnd, u_, 17, src, dst)
        from schc_run import parser_for
        pd = parser_for('IPv6-UDP-CoAP').parse(Buffer(pkt, len(pkt) * 8))
        d = rnd.choice([DI.UP, DI.DOWN])
        pd.direction = d
        rules = gen_ruleset(rnd, pd, n=3, with_default=True, match_prob=1.0, kinds=('vs', 'ns', 'lsb'))
        for strat in (MatchStrategy.FIRST, MatchStrategy.BEST):
            one(b, rnd, 'IPv6-UDP-CoAP', pkt, pd, rules, d, strat, 'select-large:%s' % strat.value)
    # one long-lived manager answering both directions and both strategies in turn, rules with Up / Dw alternatives
    from p_c18 import dir_rule
    from schc_util import prefix_free_ids
    from gens import no_compression_rule
    for i in range(n // 3):
        stack, pkt, st, pd = gen_parsed(rnd, STACKS[i % len(STACKS)])
        k = rnd.randint(2, 5)
        ids = prefix_free_ids(rnd, k + 1)
        rules = []
        for j in range(k):
            dj = rnd.choice([DI.UP, DI.DOWN])
            pd.direction = dj
            r, _ = dir_rule(rnd, pd, dj)
            rules.append(RuleDescriptor(id=mk(ids[j], rnd.choice([L, R])), field_descriptors=r.field_descriptors))
        if rnd.random() < 0.5:
            rules.append(no_compression_rule(ids[k]))
        cm = ContextManager(Context(id='c', description='', interface_id='i', parser_id=stack, ruleset=rules))
        for step in range(6):
            d = rnd.choice([DI.UP, DI.DOWN])
            pd.direction = d
            strat = rnd.choice([MatchStrategy.FIRST, MatchStrategy.BEST])
            one(b, rnd, stack, pkt, pd, rules, d, strat, 'select-long-lived:%s' % strat.value, cm=cm)
    b.run()


def replay(case):
    return 're-run ./check C10 (manager cases are regenerated from the seed)'
