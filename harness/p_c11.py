"""C11 -- A SCHC packet is dispatched to the rule whose ID it starts with."""
import itertools
from core import rng_for, mk, bits_of, L, R, randbits, impl_outcome
from schc_run import Batch
from schc_util import n_rule, rules_tokens, tb, prefix_free_ids
from gens import no_compression_rule
from microschc.ruler.ruler import Ruler, RuleIDMatchError
from microschc.rfc8724 import RuleDescriptor

RULE = ('every prefix-free set of rule ids with total code length <= 6 bits (quick: <= 5) in every rule order (up to 4 rules; '
        'larger sets in rotated orders) x every bit string up to 7 bits x both padding sides of ids and packet, plus random '
        'prefix codes with ids up to 16 bits and random longer packets; the returned rule index / raised error compared with the '
        'extracted Coq model and with "the unique rule whose id is a prefix"; distinct by driver line')
ASSUMPTIONS = ['rule sets are non-empty and their ids prefix-free (the property\'s domain)']


def all_prefix_codes(maxtotal):
    """all sets of >=1 prefix-free non-empty bit strings with total length <= maxtotal"""
    words = [''.join(p) for n in range(1, maxtotal + 1) for p in itertools.product('01', repeat=n)]
    out = []

    def rec(start, chosen, total):
        if chosen:
            out.append(list(chosen))
        for i in range(start, len(words)):
            w = words[i]
            if total + len(w) > maxtotal:
                continue
            if all(not w.startswith(c) and not c.startswith(w) for c in chosen):
                chosen.append(w)
                rec(i + 1, chosen, total + len(w))
                chosen.pop()
    rec(0, [], 0)
    return out


def parse_idx(line):
    if line.startswith('OK '):
        return ('OK', int(line[3:]))
    if line.startswith('EXC '):
        return ('EXC', line[4:])
    return ('BAD', line)


def one(b, ids, s, side, klass, shared=None):
    """shared: (rules, ruler) of a long-lived Ruler to reuse"""
    if shared is None:
        rules = [no_compression_rule(i, R if (k + len(s)) % 2 else L) for k, i in enumerate(ids)]
        ruler = Ruler(rules)
    else:
        rules, ruler = shared
    sb = mk(s, side)

    def f():
        r = ruler.match_schc_packet(sb)
        return [k for k, x in enumerate(rules) if x is r][0]
    out = impl_outcome(f)
    want = [k for k, i in enumerate(ids) if s.startswith(i)]
    fails = []
    if want:
        if out != ('OK', want[0]):
            fails.append('packet %s dispatched to %s, the rule whose id it starts with is #%d (%s)' % (s, out, want[0], ids[want[0]]))
    elif out != ('EXC', 'RuleIDMatchError'):
        fails.append('no id is a prefix of %s but the lookup gave %s' % (s, out))
    line = ' '.join(['S', 'matchschc', tb(s)] + rules_tokens([n_rule(r) for r in rules]))
    b.add(klass, line, out, parse_idx, fails, dict(layer='schc', op='matchschc', ids=ids, schc=s, side='L' if side == L else 'R'), key=(tuple(ids), s, side == L, id(shared)))


def run(rep, tier, seed):
    rnd = rng_for(seed, 'C11')
    b = Batch(rep)
    maxtotal = 5 if tier == 'quick' else 6
    strings = [''.join(p) for n in range(0, 8) for p in itertools.product('01', repeat=n)]
    codes = all_prefix_codes(maxtotal)
    rep.notes.append('%d prefix codes with total length <= %d' % (len(codes), maxtotal))
    for code in codes:
        orders = list(itertools.permutations(code)) if len(code) <= 3 or (tier != 'quick' and len(code) <= 4) else [code[i:] + code[:i] for i in range(len(code))]
        for o in orders:
            sample = strings if (tier != 'quick' or len(code) <= 2) else rnd.sample(strings, 40)
            for s in sample:
                one(b, list(o), s, L if (len(s) + len(o)) % 2 else R, 'exhaustive')
    # a Ruler built on a rule list that is still empty, rules appended to that list afterwards (a context provisioned after the manager
    # was created): the lookup goes by the rules the list holds NOW, exactly as it does for a list that was never empty
    for k in range(60 if tier == 'quick' else 600):
        ids = prefix_free_ids(rnd, rnd.randint(1, 4))
        live = []
        ruler = Ruler(live)
        one(b, [], randbits(rnd, 9), L, 'grown-from-empty', shared=(live, ruler))
        done = []
        for i_ in ids:
            live.append(no_compression_rule(i_, rnd.choice([L, R])))
            done.append(i_)
            s_ = rnd.choice(done) + randbits(rnd, rnd.randint(0, 12)) if rnd.random() < 0.8 else randbits(rnd, rnd.randint(0, 12))
            one(b, list(done), s_, rnd.choice([L, R]), 'grown-from-empty', shared=(live, ruler))
    # packets whose bits behind the id are long runs of ones or zeros (a residue of 0xFF bytes, an all-zero payload), ids that differ in
    # their last bit only: whatever arithmetic finds the leading bits must not round them
    for k in range(200 if tier == 'quick' else 2000):
        w = rnd.choice([1, 3, 7, 8, 8, 9, 16])
        base = randbits(rnd, w - 1) if w > 1 else ''
        ids = [base + '0', base + '1'] + ([x for x in prefix_free_ids(rnd, 2, maxlen=6) if not (base + '0').startswith(x) and not x.startswith(base)] if base else [])
        ids = [x for j, x in enumerate(ids) if all(not x.startswith(y) and not y.startswith(x) for y in ids[:j])]
        rnd.shuffle(ids)
        for tail in ('1' * rnd.choice([45, 53, 60, 64, 200]), '0' * rnd.choice([53, 64, 200]), '1' * 52 + '0' + '1' * 30, '0' + '1' * 70):
            one(b, ids, rnd.choice([base + '0', base + '1']) + tail, rnd.choice([L, R]), 'runs-behind-the-id')
    # the empty rule set (a context that is being provisioned) is a prefix-free set too: no id is a prefix of anything
    for s in strings[:64] + [randbits(rnd, 200)]:
        one(b, [], s, L if len(s) % 2 else R, 'empty-rule-set')
    for _ in range(1500 if tier == 'quick' else 20000):
        n = rnd.randint(1, 8)
        ids = prefix_free_ids(rnd, n)
        rnd.shuffle(ids)
        r = rnd.random()
        if r < 0.6:
            s = rnd.choice(ids) + randbits(rnd, rnd.choice([0, 1, 5, 40, 200]))
        elif r < 0.8:
            i = rnd.choice(ids)
            s = i[:rnd.randint(0, len(i))]            # shorter than / truncated id
        else:
            s = randbits(rnd, rnd.randint(0, 30))
        one(b, ids, s, rnd.choice([L, R]), 'random')
    # rule ids longer than a machine word / than 32 bits (a context may use any id length)
    for _ in range(100 if tier == 'quick' else 1000):
        n = rnd.randint(2, 5)
        head = randbits(rnd, rnd.choice([24, 31, 32, 33, 40, 56, 63, 64, 65, 72, 100]))
        ids = [head + x for x in prefix_free_ids(rnd, n, maxlen=9)]
        rnd.shuffle(ids)
        i = rnd.choice(ids)
        s = rnd.choice([i + randbits(rnd, rnd.choice([0, 1, 9])), i[:rnd.randint(0, len(i))], head + randbits(rnd, rnd.randint(0, 9))])
        one(b, ids, s, rnd.choice([L, R]), 'long-ids')
    # one long-lived Ruler answering a sequence of lookups: hits, then shorter / truncated / unknown strings sharing leading bits
    # (ids longer than one byte sharing their first byte; rules of fragmentation nature present in the set)
    from microschc.rfc8724 import RuleNature
    for _ in range(150 if tier == 'quick' else 2000):
        n = rnd.randint(2, 7)
        if rnd.random() < 0.5:
            ids = prefix_free_ids(rnd, n)
        else:
            head = randbits(rnd, 8)
            ids = [head + x for x in prefix_free_ids(rnd, n, maxlen=6)]       # 9..14-bit ids with a common first byte
        rnd.shuffle(ids)
        rules = [no_compression_rule(i, rnd.choice([L, R])) for i in ids]
        if rnd.random() < 0.4:
            rules[rnd.randrange(n)].nature = RuleNature.FRAGMENTATION      # dispatch looks at ids only
        shared = (rules, Ruler(rules))
        for step in range(8):
            i = rnd.choice(ids)
            r = rnd.random()
            if r < 0.4:
                s = i + randbits(rnd, rnd.choice([0, 1, 9, 30]))
            elif r < 0.7:
                s = i[:rnd.randint(0, len(i))] + rnd.choice(['', '0', '1'])
            else:
                s = i[:8] + randbits(rnd, rnd.randint(0, 8))
            one(b, ids, s, rnd.choice([L, R]), 'long-lived-ruler', shared=shared)
    b.run()


def replay(case):
    from core import Report
    rep = Report('replay', 'quick', 0)
    b = Batch(rep)
    one(b, case['ids'], case['schc'], L if case.get('side') == 'L' else R, 'replay')
    b.run()
    return rep.violations[0][1] if rep.violations else None
