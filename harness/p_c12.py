"""C12 -- Contexts, rules and buffers survive the JSON round trip unchanged in behaviour."""
import json
from core import rng_for, mk, bits_of, L, R, randbits, Buffer, Padding, raw, impl_outcome
from core import mkmap, given_items
from schc_run import Batch, obs_bits, with_timeout, parser_for
from schc_util import gen_rule, gen_rfd, KINDS, fid_of, DIRC, MOC, CDAC, prefix_free_ids, i2b
from gens import gen_parsed, gen_ruleset, synth_case, synth_pdesc, payload_variants, b2s, no_compression_rule
from microschc.rfc8724 import (FieldDescriptor, HeaderDescriptor, PacketDescriptor, RuleFieldDescriptor, RuleDescriptor, MatchMapping, RuleNature,
                               DirectionIndicator as DI, MatchingOperator as MO, CompressionDecompressionAction as CDA)
from microschc.rfc8724extras import Context
from microschc.manager import ContextManager
from microschc.manager.manager import MatchStrategy

RULE = ('every serialisable class: Buffers (every length 0..40 x both sides, random longer), match mappings (1..8 entries, keys and indices of '
        'either padding side, non byte-aligned), field / packet descriptors of parsed packets, rule field descriptors of every MO/CDA kind '
        '(incl. a match mapping under value-sent), rules (compression and no-compression, non byte-aligned ids), whole contexts; for each: '
        'reload == original, re-serialisation identical, every reloaded padding is a Padding member, JSON text and round-trip flags equal to '
        'the extracted Coq model; for contexts additionally a ContextManager built from the reloaded context compresses and decompresses '
        'the same packets to bit-identical results (FIRST and BEST); distinct by driver line')
ASSUMPTIONS = ['json.dumps/loads, bytes.hex/fromhex and enum <-> str conversion are trusted (modelled as identity)',
               'mappings have pairwise different values and pairwise different indices (as bit sequences)']
STACKS = ['IPv6-UDP-CoAP', 'IPv4-UDP-CoAP', 'UDP', 'CoAP', 'SCTP']
_TEXT = {}


def text_code(s):
    if s not in _TEXT:
        _TEXT[s] = len(_TEXT) + 1
    return _TEXT[s]


def canon_json(tree, parent=None, key=None):
    """canonical text of a __json__() tree, in the format the driver prints"""
    if isinstance(tree, dict):
        return '{' + ','.join('%s:%s' % (k, canon_json(v, tree, k)) for k, v in tree.items()) + '}'
    if isinstance(tree, list):
        return '[' + ','.join(canon_json(v, tree, None) for v in tree) + ']'
    if isinstance(tree, bool):
        return 'BOOL'
    if isinstance(tree, int):
        return str(tree)
    if isinstance(tree, str):
        s = str(tree.value) if hasattr(tree, 'value') else tree
        if key == 'id' and isinstance(parent, dict) and 'fields' in parent and 'length' in parent:
            return '"t%d"' % text_code(s)          # the id of a header descriptor is a protocol name
        if key == 'id' and isinstance(parent, dict) and 'parser_id' not in parent:
            f = fid_of(s)
            return '"f%s%d"' % f
        if key in ('id', 'description', 'interface_id', 'parser_id'):
            return '"t%d"' % text_code(s)
        return '"%s"' % s
    return 'UNKNOWN:%r' % (tree,)


def all_buffers(obj, acc):
    """every Buffer reachable from a library object"""
    if isinstance(obj, Buffer):
        acc.append(obj)
    elif isinstance(obj, MatchMapping):
        for k, v in obj.forward.items():
            acc += [k, v]
        for k, v in obj.reverse.items():
            acc += [k, v]
    elif isinstance(obj, (list, tuple)):
        for x in obj:
            all_buffers(x, acc)
    elif isinstance(obj, (FieldDescriptor, HeaderDescriptor, PacketDescriptor, RuleFieldDescriptor, RuleDescriptor, Context)):
        for x in vars(obj).values():
            all_buffers(x, acc)
    return acc


def header_parser_for(stack):
    """the parser of the first header of a stack"""
    from microschc.protocol.ipv6 import IPv6Parser
    from microschc.protocol.ipv4 import IPv4Parser
    from microschc.protocol.udp import UDPParser
    from microschc.protocol.coap import CoAPParser
    from microschc.protocol.sctp import SCTPParser
    return {'IPv6-UDP-CoAP': IPv6Parser, 'IPv4-UDP-CoAP': IPv4Parser, 'UDP': UDPParser, 'CoAP': CoAPParser, 'SCTP': SCTPParser}[stack]()


def tv_tokens(tv):
    if isinstance(tv, MatchMapping):
        t = ['m', str(len(given_items(tv)))]
        for v, i in given_items(tv):
            t += [raw(v), raw(i)]
        return t
    return ['b', raw(tv)]


def rfd_tokens(rf):
    f = fid_of(rf.id)
    return [f[0], str(f[1]), str(rf.length), str(rf.position), DIRC[DI(rf.direction)], MOC[MO(rf.matching_operator)],
            CDAC[CDA(rf.compression_decompression_action)]] + tv_tokens(rf.target_value)


def rule_tokens(r):
    comp = r.nature is not RuleNature.NO_COMPRESSION
    t = ['R', raw(r.id), {RuleNature.COMPRESSION: 'C', RuleNature.NO_COMPRESSION: 'N', RuleNature.FRAGMENTATION: 'F'}[r.nature], str(len(r.field_descriptors) if comp else 0)]
    if comp:
        for rf in r.field_descriptors:
            t += rfd_tokens(rf)
    return t


def judge(cls, x, klass):
    """property oracle on the implementation: returns (observation, failures)"""
    fails = []

    def f():
        text = x.json()
        y = cls.from_json(text)
        eq = (y == x)
        same = (y.json() == text)
        pads = all(isinstance(b.padding, Padding) for b in all_buffers(y, []))
        return (canon_json(x.__json__()), eq, same, pads)
    out = impl_outcome(f)
    if out[0] == 'EXC':
        fails.append('%s JSON round trip raised %s' % (klass, out[1]))
        return ('EXC', out[1]), fails
    text, eq, same, pads = out[1]
    if not eq:
        fails.append('%s reloaded from its JSON does not compare equal to the original' % klass)
    if not same:
        fails.append('%s reloaded from its JSON serialises differently' % klass)
    if not pads:
        fails.append('%s reloaded from its JSON carries a padding that is not a Padding member' % klass)
    return ('OK', (text, eq, same)), fails


def parse_model(line):
    if line.startswith('EXC '):
        return ('EXC', line[4:])
    if not line.startswith('OK '):
        return ('BAD', line)
    text, a, b = line[3:].rsplit(' ', 2)
    return ('OK', (text, a == '1', b == '1'))


def add(b, cls, x, klass, line, desc=None):
    obs, fails = judge(cls, x, klass)
    b.add('json:' + klass, line, obs, parse_model, fails, dict(layer='json', op=klass, json=x.json() if obs[0] == 'OK' else None), key=line)


def gen_mapping(rnd):
    size = rnd.choice([0, 1, 1, 2, 3, 4, 5, 6, 7, 8])      # 0: a mapping whose entries are provisioned later
    n = rnd.choice([0, 1, 3, 8, 13, 16])
    vals = []
    while len(vals) < size and not (n < 4 and len(vals) >= 2 ** n):
        v = randbits(rnd, n)
        if v not in vals:
            vals.append(v)
    idxs = prefix_free_ids(rnd, len(vals), maxlen=7)
    return mkmap({mk(v, rnd.choice([L, R])): mk(i, rnd.choice([L, R])) for v, i in zip(vals, idxs)})


def run(rep, tier, seed):
    rnd = rng_for(seed, 'C12')
    b = Batch(rep)
    T = tier == 'thorough'
    # buffers
    for n in list(range(0, 41)) + [64, 100, 257] + ([rnd.randint(0, 2000) for _ in range(200)] if T else []):
        for sd in (L, R):
            for _ in range(3 if T else 1):
                x = mk(randbits(rnd, n), sd)
                add(b, Buffer, x, 'buffer', 'J buffer ' + raw(x))
    # mappings
    for _ in range(2000 if T else 200):
        mm = gen_mapping(rnd)
        t = ['J', 'mapping', str(len(given_items(mm)))]
        for v, i in given_items(mm):
            t += [raw(v), raw(i)]
        add(b, MatchMapping, mm, 'mapping', ' '.join(t))
    npk = 1000 if T else 120
    ctxs = []
    for i in range(npk):
        stack, pkt, st, pd = gen_parsed(rnd, STACKS[i % len(STACKS)])
        pd.direction = rnd.choice([DI.UP, DI.DOWN])
        # packet descriptor and its field descriptors
        t = ['J', 'pdesc', DIRC[DI(pd.direction)], str(len(pd.fields))]
        for f in pd.fields:
            fi = fid_of(f.id)
            t += [fi[0], str(fi[1]), str(f.position), raw(f.value)]
        t += [raw(pd.payload), raw(pd.raw)]
        add(b, PacketDescriptor, pd, 'packet-descriptor', ' '.join(t))
        if stack in ('UDP', 'SCTP') and i % 3 == 0:
            # the descriptor of a packet that was handed to the parser as a RIGHT-padded Buffer: `raw` (and every byte-aligned field) is
            # right-padded; the reloaded descriptor carries exactly what was serialised
            o_ = impl_outcome(lambda: parser_for(stack).parse(mk(b2s(pkt), R)))
            if o_[0] == 'OK':
                pdr = o_[1]
                pdr.direction = pd.direction
                t = ['J', 'pdesc', DIRC[DI(pdr.direction)], str(len(pdr.fields))]
                for f in pdr.fields:
                    fi = fid_of(f.id)
                    t += [fi[0], str(fi[1]), str(f.position), raw(f.value)]
                t += [raw(pdr.payload), raw(pdr.raw)]
                add(b, PacketDescriptor, pdr, 'packet-descriptor-right-padded', ' '.join(t))
                y_ = impl_outcome(lambda: PacketDescriptor.from_json(pdr.json()))
                if y_[0] == 'OK' and (raw(y_[1].raw) != raw(pdr.raw) or y_[1].length != pdr.length):
                    rep.violation('property', 'packet descriptor reloaded from JSON: raw is %s / length %s, serialised %s / %s' % (raw(y_[1].raw)[:40], y_[1].length, raw(pdr.raw)[:40], pdr.length),
                                  dict(layer='json', op='pdesc-raw', json=pdr.json()))
        # single field descriptors (FieldDescriptor has its own json / from_json / ==), values of either padding side
        for f in rnd.sample(pd.fields, min(3, len(pd.fields))):
            fi = fid_of(f.id)
            fx = FieldDescriptor(id=f.id, value=mk(bits_of(f.value), rnd.choice([L, R])), position=f.position)
            add(b, FieldDescriptor, fx, 'field-descriptor', ' '.join(['J', 'field', fi[0], str(fi[1]), str(fx.position), raw(fx.value)]))
            other = FieldDescriptor(id=f.id, value=mk(bits_of(f.value) + '1'), position=f.position)
            other_id = [g.id for g in pd.fields if g.id != f.id]
            if impl_outcome(lambda: (fx == other, fx == FieldDescriptor(id=f.id, value=f.value, position=f.position + 1), fx == 'x', bool(other_id) and fx == FieldDescriptor(id=other_id[0], value=f.value, position=f.position))) != ('OK', (False, False, False, False)):
                rep.violation('property', 'field descriptor compares equal to one with another value, another position, another id or to a string', dict(layer='json', op='field-eq', json=fx.json()))
        # header descriptors as the header parsers return them
        hp = header_parser_for(stack)
        oh = impl_outcome(lambda: hp.parse(Buffer(pkt, len(pkt) * 8)))
        if oh[0] == 'OK' and isinstance(oh[1], HeaderDescriptor):
            hd = oh[1]
            t = ['J', 'header', str(text_code(str(getattr(hd.id, 'value', hd.id)))), str(hd.length), str(len(hd.fields))]
            for f in hd.fields:
                fi = fid_of(f.id)
                t += [fi[0], str(fi[1]), str(f.position), raw(f.value)]
            add(b, HeaderDescriptor, hd, 'header-descriptor', ' '.join(t))
        # rule field descriptors of every kind, rules, contexts
        rules = gen_ruleset(rnd, pd, match_prob=0.8)
        if i % 2:
            # the order of the rules is part of the context: a default rule may sit anywhere (FIRST stops at it)
            rules.insert(rnd.randrange(len(rules) + 1), no_compression_rule(randbits(rnd, 11) + '0101', rnd.choice([L, R])))
        for r in rules:
            if r.nature is RuleNature.COMPRESSION and r.field_descriptors:
                rf = rnd.choice(r.field_descriptors)
                add(b, RuleFieldDescriptor, rf, 'rule-field-descriptor:%s/%s' % (MOC[MO(rf.matching_operator)], CDAC[CDA(rf.compression_decompression_action)]), 'J rfd ' + ' '.join(rfd_tokens(rf)))
            add(b, RuleDescriptor, r, 'rule:' + ('compression' if r.nature is RuleNature.COMPRESSION else 'no-compression'), 'J rule ' + ' '.join(rule_tokens(r)))
        if i % 6 == 1:
            # a compression rule that has no descriptor (yet): a legal rule, it serialises with an empty list and reloads
            r_e = RuleDescriptor(id=mk(randbits(rnd, rnd.randint(0, 9)), rnd.choice([L, R])), field_descriptors=[])
            add(b, RuleDescriptor, r_e, 'rule:compression-without-descriptors', 'J rule ' + ' '.join(rule_tokens(r_e)))
            rules.insert(rnd.randrange(len(rules) + 1), r_e)
        if i % 10 == 3:
            # a rule of fragmentation nature has no JSON form in this library (NotImplementedError, both ways): correspondence only
            fr = RuleDescriptor(id=mk(randbits(rnd, rnd.randint(1, 9)), rnd.choice([L, R])), nature=RuleNature.FRAGMENTATION,
                                field_descriptors=(rules[0].field_descriptors if rnd.random() < 0.5 and rules[0].nature is RuleNature.COMPRESSION else []))
            o_ = impl_outcome(lambda: canon_json(fr.__json__()))
            b.add('json:rule:fragmentation', 'J rule ' + ' '.join(rule_tokens(fr)), (o_[0], o_[1]) if o_[0] == 'EXC' else ('OK', (o_[1], True, True)), parse_model, None, dict(layer='json', op='rule:fragmentation'), key=('frag', i))
        # "compares equal to the original" has content only if different objects compare unequal: every attribute of a reloaded
        # descriptor is changed in turn; foreign objects never compare equal; equal packet descriptors hash alike
        def neq_checks():
            bad = []
            for r in rules:
                if r.nature is not RuleNature.COMPRESSION or not r.field_descriptors:
                    continue
                rf = rnd.choice(r.field_descriptors)
                y = RuleFieldDescriptor.from_json(rf.json())
                alts = [('length', rf.length + 1), ('position', rf.position + 1), ('direction', DI.UP if rf.direction != DI.UP else DI.DOWN),
                        ('matching_operator', MO.IGNORE if rf.matching_operator != MO.IGNORE else MO.EQUAL),
                        ('compression_decompression_action', CDA.NOT_SENT if rf.compression_decompression_action != CDA.NOT_SENT else CDA.VALUE_SENT),
                        ('target_value', mk(randbits(rnd, 9) + '1') if isinstance(rf.target_value, Buffer) else mkmap({mk('1'): mk('0')}) if given_items(rf.target_value) != [] and len(given_items(rf.target_value)) != 1 else mk('1'))]
                for attr, val in alts:
                    z = RuleFieldDescriptor.from_json(rf.json())
                    if attr == 'target_value' and isinstance(rf.target_value, Buffer) and rf.target_value == val:
                        continue
                    setattr(z, attr, val)
                    if z == rf or rf == z:
                        bad.append('rule field descriptors that differ in %s compare equal' % attr)
                if y == 'x' or y == 7 or y == None or rf.target_value == 'x' or (isinstance(rf.target_value, MatchMapping) and (rf.target_value == {} or rf.target_value == given_items(rf.target_value))):  # noqa: E711
                    bad.append('a rule field descriptor or its target value compares equal to an object of another type')
                r2 = RuleDescriptor.from_json(r.json())
                r2.field_descriptors = r2.field_descriptors[:-1]
                if r2 == r:
                    bad.append('rules with different descriptor lists compare equal')
            pd2 = PacketDescriptor.from_json(pd.json())
            if hash(pd2) != hash(pd) or pd2 != pd or pd == 'x':
                bad.append('a reloaded packet descriptor hashes differently / is unequal / equals a string')
            pd3 = PacketDescriptor(direction=pd.direction, fields=pd.fields[:-1], payload=pd.payload, raw=pd.raw)
            if len(pd.fields) and pd3 == pd:
                bad.append('packet descriptors with different field lists compare equal')
            return bad
        o_ = impl_outcome(neq_checks)
        rep.count('inequality', key=('neq', i))
        rep.oracle_evals += 1
        if o_ != ('OK', []):
            rep.violation('property', 'equality of descriptors: %s' % (o_[1][0] if o_[0] == 'OK' else 'raised ' + o_[1]), dict(layer='json', op='inequality', context_packet=pkt.hex(), stack=stack))
        if i % 10 == 4:
            # the JSON text of a rule of fragmentation nature (written by another implementation): loading it is refused, not mis-read
            txt = json.dumps({'id': mk(randbits(rnd, 5)).__json__(), 'nature': str.__str__(RuleNature.FRAGMENTATION.value), 'field_descriptors': []})
            o_ = impl_outcome(lambda: RuleDescriptor.from_json(txt))
            rep.count('json:rule:fragmentation-load', key=('fragload', i))
            if o_ != ('EXC', 'NotImplementedError'):
                rep.violation('correspondence', 'loading a rule of fragmentation nature: model NotImplementedError (c12_fragmentation_from_json), implementation %s' % (o_,), dict(layer='json', op='fragmentation-load', json=txt))
        # a match mapping under another action than mapping-sent (its type must come from the JSON value, not from the action)
        f = rnd.choice(pd.fields)
        odd = gen_rfd(rnd, f, 'map')
        odd.compression_decompression_action = CDA.VALUE_SENT
        add(b, RuleFieldDescriptor, odd, 'rule-field-descriptor:p/v', 'J rfd ' + ' '.join(rfd_tokens(odd)))
        if i % 5 == 0:
            # a rule whose match-mapping has no entry yet: it matches nothing, and must still be a match-mapping after a reload
            comp_ = [r for r in rules if r.nature is RuleNature.COMPRESSION and r.field_descriptors]
            if comp_:
                r_ = comp_[0]
                k_ = rnd.randrange(len(r_.field_descriptors))
                o_ = r_.field_descriptors[k_]
                r_.field_descriptors[k_] = RuleFieldDescriptor(o_.id, o_.length, o_.position, o_.direction, mkmap({}), MO.MATCH_MAPPING, CDA.MAPPING_SENT)
                add(b, RuleDescriptor, r_, 'rule:with-empty-mapping', 'J rule ' + ' '.join(rule_tokens(r_)))
        if i % 7 == 2 and rules:
            # a later rule under the id of an earlier one (same bits, possibly the other padding side): both are part of the context
            r0_ = rules[0]
            dup = RuleDescriptor(id=mk(bits_of(r0_.id), rnd.choice([L, R])), field_descriptors=gen_rule(rnd, pd, '1', kinds=('vs', 'vsv', 'lsb')).field_descriptors)
            rules.append(dup)
        ctx = Context(id='ctx%d' % i, description='d %d' % (i % 3), interface_id='if%d' % (i % 2), parser_id=stack, ruleset=rules)
        if i % 3 == 1:
            # free texts as operators write them: comment markers of other languages, quotes, backslashes, control characters, JSON inside a
            # string, non-ASCII -- they are data, and come back as they went
            TEXTS = ['uplink rules /* lab gateway only */ revision 3', '*/ closes nothing /*', 'a /* b', 'c */ d', 'x // y', '# z', 'he said "hi"', 'back\\slash \\" mix',
                     'new\nline', 'tab\there', '\u00fcn\u00efc\u00f6d\u00e9 \u2603', '{"a": [1, 2]}', '', ' ', 'null', 'true', '<!-- -->', '%s %d {}', "it's", '\x00\x1f']
            ctx = Context(id=rnd.choice(TEXTS) + str(i), description=rnd.choice(TEXTS), interface_id=rnd.choice(TEXTS), parser_id=stack, ruleset=rules)
        t = ['J', 'context', str(text_code(ctx.id)), str(text_code(ctx.description)), str(text_code(ctx.interface_id)), str(text_code(ctx.parser_id)), str(len(rules))]
        for r in rules:
            t += rule_tokens(r)
        add(b, Context, ctx, 'context', ' '.join(t))
        ctxs.append((ctx, stack, pkt, pd.direction))
    b.run()
    # sequences: serialising after an edit must describe the edited object; editing a reloaded object must not touch later loads
    import copy
    for ctx, stack, pkt, d in ctxs[:(40 if not T else 400)]:
        text0 = ctx.json()
        comp = [r for r in ctx.ruleset if r.nature is RuleNature.COMPRESSION and r.field_descriptors]
        rep.count('sequence:edit-serialise', key=('seq', ctx.id))
        rep.oracle_evals += 1
        if comp:
            r = rnd.choice(comp)
            k = rnd.randrange(len(r.field_descriptors))
            old_fd = r.field_descriptors[k]
            pdk = parser_for(stack).parse(Buffer(pkt, len(pkt) * 8))
            fld = [f for f in pdk.fields if str(f.id) == str(old_fd.id)]
            if fld:
                r.field_descriptors[k] = gen_rfd(rnd, fld[0], rnd.choice(('ns', 'lsb', 'map')), old_fd.direction)
                fresh = Context(id=ctx.id, description=ctx.description, interface_id=ctx.interface_id, parser_id=ctx.parser_id, ruleset=list(ctx.ruleset))
                out = impl_outcome(lambda: (ctx.json() == fresh.json(), Context.from_json(ctx.json()) == ctx))
                if out != ('OK', (True, True)):
                    rep.violation('property', 'sequence: after replacing a rule field descriptor the context serialises to stale or wrong JSON: %s' % (out,),
                                  dict(layer='json', op='sequence-edit', before=text0))
                r.field_descriptors[k] = old_fd
        # two loads of the same text are independent objects
        out = impl_outcome(lambda: (Context.from_json(text0), Context.from_json(text0)))
        if out[0] == 'OK':
            c1, c2 = out[1]
            for bfr in all_buffers(c1, [])[:6]:
                if bfr.length > 0:
                    impl_outcome(lambda: bfr.shift(-3, inplace=True))
                    impl_outcome(lambda: bfr.pad(R if bfr.padding == 'left' else L, inplace=True))
            c3 = impl_outcome(lambda: Context.from_json(text0))
            ok = impl_outcome(lambda: (c2 == ctx, c2.json() == text0, c3[1] == ctx, c3[1].json() == text0))
            if ok != ('OK', (True, True, True, True)):
                rep.violation('property', 'sequence: editing a buffer of one reloaded context changed another load of the same JSON: %s' % (ok,),
                              dict(layer='json', op='sequence-alias', json=text0))
    # behaviour: manager on the reloaded context vs manager on the original
    for ctx, stack, pkt, d in ctxs:
        out = impl_outcome(lambda: Context.from_json(ctx.json()))
        if out[0] != 'OK':
            continue        # already reported above
        cm1, cm2 = ContextManager(ctx), ContextManager(out[1])
        pkts = [pkt] + [gen_parsed(rnd, stack)[1] for _ in range(2)]
        for p in pkts:
            for strat in (MatchStrategy.FIRST, MatchStrategy.BEST):
                o1 = obs_bits(with_timeout(lambda: cm1.compress(Buffer(p, len(p) * 8), direction=d, match_strategy=strat)))
                o2 = obs_bits(with_timeout(lambda: cm2.compress(Buffer(p, len(p) * 8), direction=d, match_strategy=strat)))
                rep.count('behaviour:compress', key=('beh', ctx.id, p, strat.value))
                rep.oracle_evals += 1
                if o1 != o2:
                    rep.violation('property', 'behaviour: context reloaded from JSON compresses %s differently: %s vs %s' % (p.hex()[:40], str(o1)[:80], str(o2)[:80]),
                                  dict(layer='json', op='behaviour', context=ctx.json(), packet=p.hex(), strategy=strat.value, direction=str(d)))
                if o1[0] == 'OK' and isinstance(o1[1], str):
                    s1 = obs_bits(with_timeout(lambda: cm1.decompress(mk(o1[1], R), direction=d)))
                    s2 = obs_bits(with_timeout(lambda: cm2.decompress(mk(o1[1], R), direction=d)))
                    rep.count('behaviour:decompress', key=('behd', ctx.id, p, strat.value))
                    if s1 != s2:
                        rep.violation('property', 'behaviour: context reloaded from JSON decompresses differently: %s vs %s' % (str(s1)[:80], str(s2)[:80]),
                                      dict(layer='json', op='behaviour', context=ctx.json(), schc=o1[1], direction=str(d)))

    # contexts whose rules compute every computable field (field ids are enumeration members in the original, plain strings in the reload),
    # on the packets where the ORDER of the computations matters (SCTP carried in UDP: the UDP checksum covers the SCTP checksum) and on
    # corner checksums: original and reloaded context must decompress alike
    from p_c09 import special_packets
    from schc_util import COMPUTABLE
    rnd_s = rng_for(seed, 'C12-special')
    for stack, pkt in special_packets(rnd_s)[-30:] + special_packets(rnd_s)[:10]:
        pdx = parser_for(stack).parse(Buffer(pkt, len(pkt) * 8))
        pdx.direction = DI.UP
        fds = [gen_rfd(rnd_s, f, 'comp' if str(getattr(f.id, 'value', f.id)) in COMPUTABLE else rnd_s.choice(['vs', 'ns', 'lsb']), DI.BIDIRECTIONAL) for f in pdx.fields]
        ctx_o = Context(id='cs', description='', interface_id='i', parser_id=stack, ruleset=[RuleDescriptor(id=mk(randbits(rnd_s, 4)), field_descriptors=fds)])
        o_ = impl_outcome(lambda: Context.from_json(ctx_o.json()))
        if o_[0] != 'OK':
            continue
        cm_o, cm_r = ContextManager(ctx_o), ContextManager(o_[1])
        s1 = obs_bits(with_timeout(lambda: cm_o.compress(Buffer(pkt, len(pkt) * 8), direction=DI.UP)))
        rep.count('behaviour:compute-rules', key=('bcr', pkt))
        rep.oracle_evals += 1
        if s1[0] == 'OK' and isinstance(s1[1], str):
            d1 = obs_bits(with_timeout(lambda: cm_o.decompress(mk(s1[1], R), direction=DI.UP)))
            d2 = obs_bits(with_timeout(lambda: cm_r.decompress(mk(s1[1], R), direction=DI.UP)))
            if d1 != d2 or d1 != ('OK', b2s(pkt)):
                rep.violation('property', 'behaviour: a context whose rule computes lengths and checksums (%s) decompresses to %s, the context reloaded from its JSON to %s, the packet is %s'
                              % (stack, str(d1)[:70], str(d2)[:70], b2s(pkt)[:70]), dict(layer='json', op='behaviour-compute', context=ctx_o.json(), schc=s1[1], packet=pkt.hex()))
                break
    # another host: the JSON text of the context is all that crosses; a fresh interpreter loads it and must compress and decompress as
    # the manager of the original context does here
    import freshproc
    tasks, expected = [], []
    for ctx, stack, pkt, d in ctxs[:(60 if not T else 400)]:
        out = impl_outcome(lambda: ctx.json())
        if out[0] != 'OK':
            continue
        cm1 = ContextManager(ctx)
        dc = DIRC[DI(d)]
        for strat in ('first', 'best'):
            o1 = obs_bits(with_timeout(lambda: cm1.compress(Buffer(pkt, len(pkt) * 8), direction=d, match_strategy=MatchStrategy(strat))))
            tasks.append(dict(op='cm-compress', context=out[1], packet=pkt.hex(), direction=dc, strategy=strat))
            expected.append(o1)
            if o1[0] == 'OK' and isinstance(o1[1], str) and strat == 'first':
                o2 = obs_bits(with_timeout(lambda: cm1.decompress(mk(o1[1], R), direction=d)))
                tasks.append(dict(op='cm-decompress', context=out[1], schc=o1[1], direction=dc, side='R'))
                expected.append(o2)
    freshproc.compare(rep, 'C12:manager-on-reloaded-context', tasks, expected, lambda t: '%s with the context loaded from its JSON text' % t['op'])


def replay(case):
    if case.get('op') == 'behaviour':
        ctx = Context.from_json(case['context'])
        ctx2 = Context.from_json(ctx.json())
        if ctx2 != ctx or ctx2.json() != ctx.json():
            return 'context does not survive the JSON round trip'
        return None
    return 're-run ./check C12 (cases are regenerated from the seed)'
