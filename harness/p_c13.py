"""C13 -- Buffer layer, plus long-lived match-mappings probed through the library's own lookup paths."""
import p_buffer_common as bc
from core import mk, bits_of, L, R, rng_for, randbits, impl_outcome, raw, Driver
from core import mkmap, given_items

RULE = ('cases enumerate (operation x padding side of every operand x bit length residue mod 8 x content class) '
        'with all-ones, alternating and random contents, plus random long operands; a case is distinct by '
        '(operation, operand bits and sides, parameters); every case is non-trivial in that it executes the '
        'operation on the implementation, on the extracted Coq model and on the bit-sequence oracle; '
        'mapping programs probe one long-lived MatchMapping many times (match-mapping operator, mapping-sent action, '
        'reverse lookup) with values of both padding sides, among them pairs of different values whose stored bytes coincide')
ASSUMPTIONS = ['operands are canonical Buffers built by the constructor (the property quantifies over bit strings)',
               'Buffer theorems are about the byte-level Gallina model coq/theories/Buffer.v; its tie to buffer.py is this run\'s correspondence']


_rawtok = raw


def same_bytes_other_side(v):
    """the bit string which, padded on the right, is stored in the same bytes as v padded on the left"""
    n = len(v)
    pad = (8 - n % 8) % 8
    return ('0' * pad + v)[:n]


def mapping_programs(rep, rnd, tier):
    from microschc.rfc8724 import MatchMapping, FieldDescriptor
    from microschc.matching.operators import match_mapping
    from microschc.actions.compression import mapping_sent
    nprog = 60 if tier == 'quick' else 900
    lines, meta = [], []
    for pi in range(nprog):
        n = rnd.choice([1, 2, 3, 4, 5, 6, 7, 9, 10, 12, 13, 15, 17, 20, 31])
        k = rnd.randint(1, 6)
        vals = []
        while len(vals) < k:
            v = randbits(rnd, rnd.choice([n, n, n, n + 1, max(1, n - 1)]))
            if v not in vals:
                vals.append(v)
        keys = [mk(v, rnd.choice([L, R])) for v in vals]
        idxw = max(1, (k - 1).bit_length())
        idx = [format(i, '0%db' % idxw) for i in range(k)]
        mapping = mkmap({kb: mk(ix, rnd.choice([L, R])) for kb, ix in zip(keys, idx)})
        probes = []
        for v in vals:
            w = same_bytes_other_side(v)
            probes += [(v, L), (w, R), (v, R), (w, L)]
        for _ in range(6):
            v = randbits(rnd, rnd.choice([n, n + 1]))
            probes += [(v, rnd.choice([L, R])), (same_bytes_other_side(v), rnd.choice([L, R]))]
        rnd.shuffle(probes)
        for step, (pv, sd) in enumerate(probes):
            probe = mk(pv, sd)
            fd = FieldDescriptor(id='x', value=probe, position=0)
            member = pv in vals
            got_in = impl_outcome(lambda: match_mapping(fd, mapping))
            got_fw = impl_outcome(lambda: bits_of(mapping_sent(fd, mapping)))
            want_fw = ('OK', idx[vals.index(pv)]) if member else ('EXC', 'KeyError')
            rep.count('mapping-program:%s:%s' % ('member' if member else 'absent', 'L' if sd is L else 'R'), key=('mp', pi, step))
            rep.oracle_evals += 1
            case = dict(layer='mapping-program', keys=[(v, 'L' if kb.padding is L else 'R') for v, kb in zip(vals, keys)], probe=[pv, 'L' if sd is L else 'R'], step=step,
                        probes_before=[[a, 'L' if b is L else 'R'] for a, b in probes[:step]])
            if got_in != ('OK', member):
                rep.violation('property', 'match_mapping on a long-lived mapping: value %s (%s padded) %s one of the mapped values %s, got %r'
                              % (pv, 'left' if sd is L else 'right', 'is' if member else 'is not', vals, got_in), case)
            if got_fw != want_fw:
                rep.violation('property', 'mapping_sent on a long-lived mapping: value %s (%s padded), expected %r, got %r' % (pv, 'left' if sd is L else 'right', want_fw, got_fw), case)
            lines.append('B indict %s %s' % (_rawtok(probe), ' '.join(_rawtok(kb) for kb in keys)))
            meta.append((case, vals.index(pv) if member else -1))
        # reverse lookups (index -> value) with indices of both sides
        for i, ix in enumerate(idx):
            for sd in (L, R):
                got = impl_outcome(lambda: bits_of(mapping.reverse[mk(ix, sd)]))
                rep.count('mapping-program:reverse', key=('mpr', pi, i, sd))
                if got != ('OK', vals[i]):
                    rep.violation('property', 'reverse lookup of index %s (%s padded): expected %s, got %r' % (ix, sd, vals[i], got),
                                  dict(layer='mapping-program', keys=vals, index=ix))
    outs = Driver().run(lines)
    rep.model_evals = getattr(rep, 'model_evals', 0) + len(lines)
    for (case, want), o in zip(meta, outs):
        if o.strip() != 'OK %d' % want:
            rep.violation('correspondence', 'dict model gives %s for a probe the bit-level oracle places at %d' % (o, want), case)


def run(rep, tier, seed):
    bc.run_family(rep, 'C13', tier, seed)
    mapping_programs(rep, rng_for(seed, 'C13-mapping-programs'), tier)


def replay(case):
    if case.get('layer') == 'mapping-program':
        from microschc.rfc8724 import MatchMapping, FieldDescriptor
        from microschc.matching.operators import match_mapping
        sd = {'L': L, 'R': R}
        keys = case['keys']
        if 'probe' not in case:
            return 're-run ./check C13'
        m = MatchMapping({mk(v, sd[s]): mk(format(i, 'b')) for i, (v, s) in enumerate(keys)})
        for pv, s in case['probes_before'] + [case['probe']]:
            got = match_mapping(FieldDescriptor(id='x', value=mk(pv, sd[s]), position=0), m)
            if got != (pv in [v for v, _ in keys]):
                return 'match_mapping(%s %s) = %r' % (pv, s, got)
        return None
    return bc.replay(case)
