"""C14 -- Parsers terminate on any input and reject bad input only with ParserError."""
from core import rng_for
from schc_run import Batch
import p_parse_common as pc

RULE = ('every parser configuration (IPv6-UDP-CoAP, IPv4-UDP-CoAP, UDP, CoAP, SCTP, IPv6, IPv4 with prediction) x malformed stream: '
        'every/random byte truncation and random bit truncation of well-formed packets, 1..3 bit flips, 16-bit words overwritten with '
        '0x0000 / 0xFFFF / small values (zero and huge length fields), non byte-aligned lengths, random strings of 0..2400 bits; outcome '
        'class (descriptor / exception type / timeout after 5 s) compared with the extracted Coq model; the oracle accepts only a '
        'descriptor or ParserError; distinct by (stack, bits)')
ASSUMPTIONS = ['packet buffers are left-padded (default); "promptly" is measured by the harness (20 s of CPU time per call; the largest well-formed inputs need about 2 s), the theorem gives termination with an explicit iteration bound']


def run(rep, tier, seed):
    rnd = rng_for(seed, 'C14')
    b = Batch(rep)
    fresh = []
    for stack, bits, klass in pc.malformed_stream(rnd, tier):
        out = pc.observe(stack, bits)
        if len(fresh) < 200 and len(bits) % 8 == 0 and len(bits) < 24000 and rnd.random() < 0.1:
            fresh.append((stack, int(bits, 2).to_bytes(len(bits) // 8, 'big') if bits else b''))
        fails = []
        if out[0] == 'EXC' and out[1] != 'ParserError':
            fails.append('%s parser: %s on a %d-bit %s input' % (stack, out[1], len(bits), klass))
        pc.bytes_case(b, stack, bits, stack)
        b.add('%s:%s' % (stack, klass), pc.model_line(stack, bits), out, pc.parse_model, fails,
              dict(layer='parser', op='parse', stack=stack, bits=bits), key=(stack, bits))
    b.run()
    pc.fresh_process_parse(rep, 'C14', fresh)


def replay(case):
    out = pc.observe(case['stack'], case['bits'])
    if out[0] == 'EXC' and out[1] != 'ParserError':
        return '%s parser: %s' % (case['stack'], out[1])
    from core import Driver
    m = pc.parse_model(Driver().run([pc.model_line(case['stack'], case['bits'])])[0])
    return None if m == out else 'model %s vs implementation %s' % (str(m)[:100], str(out)[:100])
