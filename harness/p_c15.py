"""C15 -- Failures raise the library's own errors, so contexts can fall through."""
import sys
from core import rng_for, mk, bits_of, L, R, randbits, Buffer, REPO, impl_outcome
from schc_run import Batch, obs_bits, with_timeout, parse_model_bits, parser_for
from schc_util import n_rule, n_pdesc, rules_tokens, pdesc_tokens, tb, ref_compress, ref_rule_applies, DIRC, prefix_free_ids, is_lossless_for, gen_rule
from gens import gen_parsed, gen_ruleset, gen_packet, b2s, no_compression_rule
import packets as P
from microschc.rfc8724extras import Context
from microschc.manager import ContextManager
from microschc.manager.manager import MatchStrategy
from microschc.rfc8724 import DirectionIndicator as DI, RuleDescriptor
import importlib.util

RULE = ('(a) single context managers: packets matching no rule (near-miss rule sets without default rule) under FIRST and BEST, '
        'SCHC packets starting with no rule id (incl. empty and shorter than every id), unparsable packets (truncations, wrong '
        'version, random strings); the exception class is compared with the model and must be the library\'s own; (b) the front '
        'end /repo/microschc.py with 1..4 contexts per interface (different stacks and rule sets with globally prefix-free ids, with '
        'and without default rule) over histories of compress/decompress calls: packets matching the first, a later or no context, '
        'unparsable ones; each result compared with the model front end and with the reference (first context that does not signal '
        'an error; pass-through otherwise; what was compressed decompresses back); distinct by driver line')
ASSUMPTIONS = ['rule ids are prefix-free across the contexts of an interface (otherwise two contexts may claim the same leading bits: a configuration precondition)',
               'rule sets are non-empty']
STACKS = ['IPv6-UDP-CoAP', 'IPv4-UDP-CoAP', 'UDP', 'CoAP', 'SCTP']
OWN = ('RuleDescriptorMatchError', 'RuleIDMatchError', 'ParserError')


def load_front():
    spec = importlib.util.spec_from_file_location('microschc_front', REPO + '/microschc.py')
    m = importlib.util.module_from_spec(spec)
    spec.loader.exec_module(m)
    return m.SCHC


def run(rep, tier, seed):
    rnd = rng_for(seed, 'C15')
    b = Batch(rep)
    n = 250 if tier == 'quick' else 2500
    # (a) manager-level errors
    for i in range(n):
        stack, pkt, st, pd = gen_parsed(rnd, STACKS[i % len(STACKS)])
        d = rnd.choice([DI.UP, DI.DOWN])
        pd.direction = d
        rules = gen_ruleset(rnd, pd, with_default=False, match_prob=rnd.choice([0.0, 0.0, 0.5]))
        nrs = [n_rule(r) for r in rules]
        ctx_ = Context(id='c', description='', interface_id='i', parser_id=stack, ruleset=rules)
        if i % 2:
            # the deployment path: the context is loaded from its JSON form (enum members, buffers, mappings are other objects, equal by value)
            ctx_ = Context.from_json(ctx_.json())
            rep.hist['context-loaded-from-json'] = rep.hist.get('context-loaded-from-json', 0) + 1
        cm = ContextManager(ctx_)
        bits = b2s(pkt)
        npd = dict(n_pdesc(pd), dir=DIRC[d])
        applies = [nr for nr in nrs if ref_rule_applies(npd, nr)]
        for strat in (MatchStrategy.FIRST, MatchStrategy.BEST):
            # the strategy as configuration files give it: by value ('first' / 'best'; MatchStrategy is a str enumeration) in a third of the calls
            strat_arg = strat if i % 3 else str.__str__(strat.value)
            res_ = with_timeout(lambda: cm.compress(Buffer(pkt, len(pkt) * 8), direction=d, match_strategy=strat_arg))
            out = obs_bits(res_)
            from schc_run import bytes_cm_compress
            bytes_cm_compress(b, 'manager-compress', stack, pkt, d, strat == MatchStrategy.FIRST, ctx_.ruleset, res_)
            fails = []
            if not applies and out != ('EXC', 'RuleDescriptorMatchError'):
                fails.append('no rule matches but compress gave %s instead of the rule-match error' % (str(out)[:80],))
            if out[0] == 'EXC' and out[1] not in OWN:
                fails.append('compress raised %s' % out[1])
            if out[0] == 'OK' and not isinstance(out[1], str):
                fails.append('compress returned %r' % (out[1],))
            line = ' '.join(['S', 'cmcompressp', stack, tb(bits), DIRC[d], 'F' if strat == MatchStrategy.FIRST else 'B'] + rules_tokens(nrs))
            b.add('manager-compress:' + ('nomatch' if not applies else 'match'), line, out, parse_model_bits, fails,
                  dict(layer='schc', op='cmcompress', stack=stack, packet=pkt.hex(), rules=nrs, direction=DIRC[d], strategy=strat.value), key=line)
        # unparsable packets
        for bad in P.truncations(pkt, rnd, 2) + P.bitflips(pkt[:1], rnd, 1) + [rnd.randbytes(rnd.randint(0, 12))]:
            bad = bad + pkt[1:] if len(bad) == 1 else bad
            o = with_timeout(lambda: parser_for(stack).parse(Buffer(bad, len(bad) * 8)))
            out = obs_bits(with_timeout(lambda: cm.compress(Buffer(bad, len(bad) * 8), direction=d)))
            fails = []
            if o[0] == 'EXC' and out != ('EXC', 'ParserError'):
                fails.append('unparsable packet: compress gave %s instead of the parser error' % (str(out)[:80],))
            if out[0] == 'EXC' and out[1] not in OWN:
                fails.append('compress raised %s' % out[1])
            line = ' '.join(['S', 'cmcompressp', stack, tb(b2s(bad)), DIRC[d], 'F'] + rules_tokens(nrs))
            b.add('manager-compress:malformed', line, out, parse_model_bits, fails,
                  dict(layer='schc', op='cmcompress', stack=stack, packet=bad.hex(), rules=nrs, direction=DIRC[d], strategy='first'), key=line)
        # SCHC packets that ARE a rule id, nothing behind it (a rule eliding everything, no payload): must be dispatched, never the rule-ID error
        ids = [nr['id'] for nr in nrs]
        for s in ids[:2]:
            out = obs_bits(with_timeout(lambda: cm.decompress(mk(s, rnd.choice([L, R])))))
            fails = ['SCHC packet %s is exactly the id of a rule but decompress raised the rule-ID error' % s] if out == ('EXC', 'RuleIDMatchError') else []
            line = ' '.join(['S', 'cmdecompress', tb(s), 'N'] + rules_tokens(nrs))
            b.add('manager-decompress:id-only', line, out, parse_model_bits, fails, dict(layer='schc', op='cmdecompress', schc=s, rules=nrs), key=line)
        for pkt_s in ([pkt] + [gen_packet(rnd, 'CoAP')[1] for _ in range(3)] if stack == 'CoAP' else []):
            # a manager given its parser as an object (CoAP options by name: option numbers the library does not know get plain-string
            # field ids): a packet no rule matches still raises the rule-match error -- building the error must not fail on such ids
            sem_parser = parser_for('CoAP-semantic')
            o_ = with_timeout(lambda: sem_parser.parse(Buffer(pkt_s, len(pkt_s) * 8)))
            if o_[0] == 'OK':
                pd_s = o_[1]
                pd_s.direction = d
                rules_s = gen_ruleset(rnd, pd_s, with_default=False, match_prob=0.0, kinds=('ns', 'map', 'lsb'))
                nrs_s = [n_rule(r) for r in rules_s]
                if not any(ref_rule_applies(dict(n_pdesc(pd_s), dir=DIRC[d]), nr) for nr in nrs_s):
                    cm_s = ContextManager(Context(id='cs', description='', interface_id='i', parser_id='CoAP', ruleset=rules_s), parser=sem_parser)
                    for strat in (MatchStrategy.FIRST, MatchStrategy.BEST):
                        out = obs_bits(with_timeout(lambda: cm_s.compress(Buffer(pkt_s, len(pkt_s) * 8), direction=d, match_strategy=strat)))
                        rep.count('manager-compress:semantic-parser-nomatch', key=('sem', i, pkt_s, strat.value))
                        rep.oracle_evals += 1
                        rep.hist['semantic-nomatch:ids:%s' % ('plain-string' if any(type(f.id) is str for f in pd_s.fields) else 'enum-only')] = rep.hist.get('semantic-nomatch:ids:%s' % ('plain-string' if any(type(f.id) is str for f in pd_s.fields) else 'enum-only'), 0) + 1
                        if out != ('EXC', 'RuleDescriptorMatchError'):
                            rep.violation('property', 'manager with the semantic CoAP parser, no rule matches: compress gave %s instead of the rule-match error' % (str(out)[:100],),
                                          dict(layer='schc', op='cmcompress-semantic', packet=pkt_s.hex(), rules=nrs_s, direction=DIRC[d], strategy=strat.value))
        if i % 10 == 0:
            # a manager whose context has no rule yet: every SCHC packet matches no rule id, every packet matches no rule
            cm0 = ContextManager(Context(id='c0', description='', interface_id='i', parser_id=stack, ruleset=[]))
            for s in ('', randbits(rnd, rnd.randint(1, 40))):
                out = obs_bits(with_timeout(lambda: cm0.decompress(mk(s, rnd.choice([L, R])))))
                fails = [] if out == ('EXC', 'RuleIDMatchError') else ['empty rule set: decompress of %r gave %s instead of the rule-ID error' % (s, str(out)[:80])]
                line = ' '.join(['S', 'cmdecompress', tb(s), 'N'] + rules_tokens([]))
                b.add('manager-decompress:empty-rule-set', line, out, parse_model_bits, fails, dict(layer='schc', op='cmdecompress', schc=s, rules=[]), key=(line, i))
            out = obs_bits(with_timeout(lambda: cm0.compress(Buffer(pkt, len(pkt) * 8), direction=d)))
            fails = [] if out == ('EXC', 'RuleDescriptorMatchError') else ['empty rule set: compress gave %s instead of the rule-match error' % (str(out)[:80],)]
            line = ' '.join(['S', 'cmcompressp', stack, tb(bits), DIRC[d], 'F'] + rules_tokens([]))
            b.add('manager-compress:empty-rule-set', line, out, parse_model_bits, fails, dict(layer='schc', op='cmcompress', stack=stack, packet=pkt.hex(), rules=[], direction=DIRC[d], strategy='first'), key=(line, i))
        # SCHC packets matching no rule id
        for _ in range(3):
            s = rnd.choice(['', randbits(rnd, rnd.randint(0, 20)), rnd.choice(ids)[:-1], randbits(rnd, 1)])
            if any(s.startswith(i) for i in ids):
                continue
            out = obs_bits(with_timeout(lambda: cm.decompress(mk(s, rnd.choice([L, R])))))
            fails = [] if out == ('EXC', 'RuleIDMatchError') else ['no rule id is a prefix of %s but decompress gave %s' % (s, str(out)[:80])]
            line = ' '.join(['S', 'cmdecompress', tb(s), 'N'] + rules_tokens(nrs))
            b.add('manager-decompress:noid', line, out, parse_model_bits, fails, dict(layer='schc', op='cmdecompress', schc=s, rules=nrs), key=line)
    b.run()
    # (b) front end histories
    SCHC = load_front()
    nh = 80 if tier == 'quick' else 800
    for h in range(nh):
        nctx = rnd.randint(1, 4)
        stacks = [rnd.choice(STACKS) for _ in range(nctx)]
        if h % 3 == 0:
            stacks = [stacks[0]] * nctx          # contexts that accept the same packets: only the order of trial tells them apart
        seeds = [gen_parsed(rnd, s) for s in stacks]
        nrules = [rnd.randint(1, 3) for _ in range(nctx)]
        if nctx > 1 and h % 4 == 1:
            nrules[rnd.randrange(nctx - 1)] = 0      # a context without any rule yet (being provisioned): it accepts nothing, the next one is tried
            rep.hist['front-end-context-without-rules'] = rep.hist.get('front-end-context-without-rules', 0) + 1
        withdef = [rnd.random() < 0.3 and k == nctx - 1 for k in range(nctx)]
        ids = prefix_free_ids(rnd, sum(nrules) + sum(withdef))
        ctxs, pos = [], 0
        for k in range(nctx):
            stack, pkt, st, pd = seeds[k]
            pd.direction = DI.UP
            rules = gen_ruleset(rnd, pd, n=nrules[k], with_default=False, match_prob=0.8, kinds=('ns', 'vs', 'vsv', 'lsb', 'lsbv', 'map')) if nrules[k] else []
            # "what it compresses it also decompresses back" is about rules that are lossless by construction: a near-miss mutant
            # that still applies but is lossy (e.g. a value-sent descriptor whose declared length is not the field's) is replaced
            npd_k = dict(n_pdesc(pd), dir='U')
            for j, r in enumerate(rules):
                nr_ = n_rule(r)
                if not is_lossless_for(npd_k, nr_, 'U') and any(f['cda'] in 'vlm' for f in nr_['fds']):
                    rules[j] = gen_rule(rnd, pd, nr_['id'], kinds=('ns', 'vs', 'vsv', 'lsb', 'lsbv', 'map'))
            rules = [RuleDescriptor(id=mk(ids[pos + j], rnd.choice([L, R])), field_descriptors=r.field_descriptors) for j, r in enumerate(rules)]
            pos += nrules[k]
            if withdef[k]:
                rules.append(no_compression_rule(ids[pos]))
                pos += 1
            # context ids in an order that is not the lexicographic one: the order GIVEN to the front end is the order of trial
            cid = ['zulu', 'mike', 'alpha', 'ctx-10', 'ctx-9', 'B', 'a'][(h + 3 * k) % 7] + ('-%d' % k if k > 3 else '')
            ctxs.append(Context(id=cid, description='', interface_id='if0', parser_id=stacks[k], ruleset=rules))
        # contexts of OTHER interfaces must never be consulted: a decoy context that accepts everything sits on another interface
        decoys = [Context(id='decoy%d' % k, description='', interface_id='if%d' % (k + 1), parser_id=stacks[k % nctx],
                          ruleset=[no_compression_rule('1' * 17 + format(k, '02b'))]) for k in range(rnd.randint(0, 2))]
        order = ctxs + decoys
        if decoys and rnd.random() < 0.5:
            order = decoys + ctxs
        elif decoys and len(ctxs) > 1:
            # the contexts of an interface need not be contiguous in the list given to the front end
            order = ctxs[:1] + decoys[:1] + ctxs[1:] + decoys[1:]
        if rnd.random() < 0.5:
            order = [Context.from_json(c.json()) for c in order]
            rep.hist['front-end-contexts-loaded-from-json'] = rep.hist.get('front-end-contexts-loaded-from-json', 0) + 1
        if h % 5 == 2:
            # the contexts come as any iterable (a generator over loaded JSON documents, a map object, a tuple), not necessarily a list
            give = rnd.choice([lambda o: (c for c in o), lambda o: map(lambda c: c, o), tuple, iter])
            front = SCHC(give(order))
            rep.hist['front-end-contexts-given-as-iterable'] = rep.hist.get('front-end-contexts-given-as-iterable', 0) + 1
        else:
            front = SCHC(order)
        nctxs = [[n_rule(r) for r in c.ruleset] for c in ctxs]
        for step in range(10):
            r = rnd.random()
            if r < 0.6:
                k = rnd.randrange(nctx)
                pkt = seeds[k][1]
            elif r < 0.8:
                pkt = gen_packet(rnd)[1]
            else:
                pkt = rnd.randbytes(rnd.randint(0, 30))
            buf = Buffer(pkt, len(pkt) * 8)
            out = obs_bits(with_timeout(lambda: front.compress(buf, 'if0')))
            # model line: per context the parse outcome (pre-parsed) and the rules
            toks = ['S', 'schc', 'compress', tb(b2s(pkt)), str(nctx)]
            chosen_lossless = None       # is the rule the front end must have chosen lossless FOR THIS PACKET (a rule that is lossless for the
            for k in range(nctx):        # packet it was derived from may apply to another packet and be lossy for it: ignore / value-sent of another length)
                po = impl_outcome(lambda: parser_for(stacks[k]).parse(Buffer(pkt, len(pkt) * 8)))
                if po[0] == 'OK':
                    po[1].direction = DI.UP
                    toks += ['ok'] + pdesc_tokens(n_pdesc(po[1]))
                    if chosen_lossless is None:
                        npd_a = dict(n_pdesc(po[1]), dir='U')
                        app = [nr for nr in nctxs[k] if ref_rule_applies(npd_a, nr)]
                        if app:
                            chosen_lossless = is_lossless_for(npd_a, app[0], 'U')
                else:
                    toks += ['err']
                toks += rules_tokens(nctxs[k])
            fails = []
            if out[0] == 'EXC':
                fails.append('front end compress raised %s' % out[1])
            line = ' '.join(toks)
            b.add('front-compress', line, out, parse_model_bits, fails, dict(layer='schc', op='schc-compress', packet=pkt.hex(), contexts=[dict(stack=stacks[k], rules=nctxs[k]) for k in range(nctx)]), key=line)
            if out[0] == 'OK' and isinstance(out[1], str):
                s = out[1]
                o2 = obs_bits(with_timeout(lambda: front.decompress(mk(s, rnd.choice([L, R])), 'if0')))
                toks = ['S', 'schc', 'decompress', tb(s), str(nctx)]
                for k in range(nctx):
                    toks += ['err'] + rules_tokens(nctxs[k])
                fails = []
                if o2 != ('OK', b2s(pkt)):
                    # pass-through of an uncompressed packet may be claimed by a context whose rule id is a prefix of the packet itself:
                    # the precondition "prefix-free across contexts" cannot exclude that; only report when the packet was really compressed
                    if s != b2s(pkt) and chosen_lossless:
                        fails.append('what the front end compressed does not decompress back: %s' % (str(o2)[:100],))
                if o2[0] == 'EXC':
                    fails.append('front end decompress raised %s' % o2[1])
                b.add('front-decompress', ' '.join(toks), o2, parse_model_bits, fails, dict(layer='schc', op='schc-decompress', schc=s, contexts=[dict(stack=stacks[k], rules=nctxs[k]) for k in range(nctx)]), key=' '.join(toks))
    b.run()
    shared_rulesets(rep, rng_for(seed, 'C15-shared'), tier)
    zero_bit_packets(rep, rng_for(seed, 'C15-zero'), tier)


def zero_bit_packets(rep, rnd, tier):
    """a rule whose id is the empty buffer and that elides every field, on a packet without payload: the SCHC packet has ZERO bits (a Buffer
    of length 0 is falsy in Python); the front end returns it like any other result, and it decompresses back"""
    import packets as P
    SCHC = load_front()
    for i in range(12 if tier == 'quick' else 120):
        stack, pkt = rnd.choice([x for x in P.minimal_packets(rnd) if x[0] in ('UDP', 'CoAP', 'SCTP', 'IPv6', 'IPv4')])
        o = with_timeout(lambda: parser_for(stack).parse(Buffer(pkt, len(pkt) * 8)))
        if o[0] != 'OK' or o[1].payload.length != 0:
            continue
        pd = o[1]
        pd.direction = DI.UP
        rule = gen_rule(rnd, pd, '', kinds=('ns',))
        other = gen_rule(rnd, pd, '', kinds=('vs',))
        ctxs = [Context(id='z', description='', interface_id='if0', parser_id=stack, ruleset=[rule])]
        if i % 2:
            ctxs.append(Context(id='y', description='', interface_id='if0', parser_id=stack, ruleset=[RuleDescriptor(id=mk('1'), field_descriptors=other.field_descriptors)]))
        front = SCHC(ctxs)
        out = obs_bits(with_timeout(lambda: front.compress(Buffer(pkt, len(pkt) * 8), 'if0')))
        rep.count('front-zero-bit-packet', key=('zb', i))
        rep.oracle_evals += 1
        case = dict(layer='schc', op='front-zero-bit', stack=stack, packet=pkt.hex(), rule=n_rule(rule))
        if out != ('OK', ''):
            rep.violation('property', 'a rule with the empty id that elides every field of a packet without payload: the front end gave %s instead of the zero-bit SCHC packet' % (str(out)[:80],), case)
            return
        back = obs_bits(with_timeout(lambda: front.decompress(mk('', R), 'if0')))
        if back != ('OK', b2s(pkt)):
            rep.violation('property', 'the zero-bit SCHC packet does not decompress back through the front end: %s' % (str(back)[:80],), case)
            return


def shared_rulesets(rep, rnd, tier):
    """contexts of one interface that share ONE rule set (the same list object, or an equal one) under DIFFERENT parser configurations: a
    packet that the first stack parses into fields no rule matches and the second stack parses into the fields the rules were written
    for must be compressed by the second context -- the front end tries every context, whatever the earlier ones were made of"""
    import packets as P
    SCHC = load_front()
    n = 40 if tier == 'quick' else 400
    for i in range(n):
        v6 = i % 2 == 0
        pair = ('IPv6-UDP-CoAP', 'IPv6') if v6 else ('IPv4-UDP-CoAP', 'IPv4')
        if i % 4 == 3:
            pkt = (P.pkt_ipv6_udp_raw if v6 else P.pkt_ipv4_udp_raw)(rnd)[0]
        else:
            # a CoAP-looking message sent to a port that designates nothing: the explicit stack parses it down to the options, the
            # predictive one stops after UDP
            src, dst = (rnd.randbytes(16), rnd.randbytes(16)) if v6 else (rnd.randbytes(4), rnd.randbytes(4))
            u_ = P.udp(rnd, P.coap(rnd)[0], csum=(lambda x: P.udp_checksum_v6(src, dst, x)) if v6 else (lambda x: P.udp_checksum_v4(src, dst, x)), dport=rnd.choice([53, 5684, 9899, 40000]))
            pkt = P.ipv6(rnd, u_, 17, src, dst) if v6 else P.ipv4(rnd, u_, 17, src, dst)
        o1 = with_timeout(lambda: parser_for(pair[0]).parse(Buffer(pkt, len(pkt) * 8)))
        o2 = with_timeout(lambda: parser_for(pair[1]).parse(Buffer(pkt, len(pkt) * 8)))
        if o2[0] != 'OK':
            continue
        pd2 = o2[1]
        pd2.direction = DI.UP
        rules = [gen_rule(rnd, pd2, '0' + randbits(rnd, 3), kinds=('ns', 'vs', 'lsb', 'map')), gen_rule(rnd, pd2, '1' + randbits(rnd, 2), kinds=('vs', 'vsv'))]
        nrs = [n_rule(r) for r in rules]
        first_applies = False
        if o1[0] == 'OK':
            o1[1].direction = DI.UP
            first_applies = any(ref_rule_applies(dict(n_pdesc(o1[1]), dir='U'), nr) for nr in nrs)
        share = rnd.choice(['same-list', 'equal-list', 'reloaded'])
        rules_b = rules if share == 'same-list' else (list(rules) if share == 'equal-list' else Context.from_json(Context(id='x', description='', interface_id='if0', parser_id=pair[1], ruleset=rules).json()).ruleset)
        front = SCHC([Context(id='a', description='', interface_id='if0', parser_id=pair[0], ruleset=rules), Context(id='b', description='', interface_id='if0', parser_id=pair[1], ruleset=rules_b)])
        out = obs_bits(with_timeout(lambda: front.compress(Buffer(pkt, len(pkt) * 8), 'if0')))
        rep.count('front-shared-ruleset:%s' % share, key=('fsr', i))
        rep.oracle_evals += 1
        rep.hist['front-shared-ruleset:first-context-%s' % ('applies' if first_applies else ('parses-but-no-rule' if o1[0] == 'OK' else 'rejects'))] = rep.hist.get('front-shared-ruleset:first-context-%s' % ('applies' if first_applies else ('parses-but-no-rule' if o1[0] == 'OK' else 'rejects')), 0) + 1
        if first_applies:
            continue
        want = ref_compress(dict(n_pdesc(pd2), dir='U'), nrs[0], 'U')
        if want is not None and out != ('OK', want):
            rep.violation('property', 'two contexts share one rule set (%s) under the stacks %s and %s: the first parses the packet but no rule matches, the second matches; the front end gave %s, expected %s'
                          % (share, pair[0], pair[1], str(out)[:80], want[:80]), dict(layer='schc', op='front-shared-ruleset', packet=pkt.hex(), stacks=pair, rules=nrs, share=share))
            return


def replay(case):
    return 're-run ./check C15 (cases are regenerated from the seed)'
