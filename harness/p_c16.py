"""C16 -- Operations are pure: inputs never modified, results independent of history."""
import copy
from core import rng_for, mk, bits_of, L, R, randbits, Buffer, Padding, snapshot, impl_outcome
import p_buffer_common as bc
from schc_run import Batch, obs_bits, with_timeout, parse_model_bits, parser_for
from schc_util import n_rule, n_pdesc, rules_tokens, pdesc_tokens, tb, DIRC, gen_rule, gen_rfd, KINDS
from gens import gen_parsed, gen_ruleset, b2s, gen_packet
from microschc.rfc8724 import (FieldDescriptor, PacketDescriptor, RuleFieldDescriptor, RuleDescriptor, MatchMapping, RuleNature,
                               DirectionIndicator as DI, MatchingOperator as MO, CompressionDecompressionAction as CDA)
from microschc.rfc8724extras import Context
from microschc.manager import ContextManager
from microschc.manager.manager import MatchStrategy
from microschc.compressor.compressor import compress
from microschc.decompressor.decompressor import decompress
from microschc.ruler.ruler import Ruler

RULE = ('(a0) programs of 40 Buffer method calls on a pool of live objects run on the implementation and on the heap-level model of the class (BufferHeap.v): outcome of every call, identity of the returned object (an operand or a new object) and the four attributes of every object the caller holds compared after every step; (a) every Buffer operation of C05/C06/C13 with every operand snapshotted (content, length, padding, padding_length) before and '
        'after: non-in-place operations must leave every operand untouched, in-place ones must leave the receiver denoting the result; '
        '(b) histories of 30..300 compress/decompress calls (any interleaving of packets of the context\'s stack, foreign and malformed '
        'packets, directions Up/Dw, strategies FIRST/BEST) on ONE long-lived ContextManager, compared call by call with a freshly built '
        'manager over a deep copy of the context, while every Buffer reachable from the packet buffer, the SCHC packet, the rules and '
        'the context is snapshotted before and after each call; (c) parse / match / compress (several rules on ONE packet descriptor) / '
        'decompress on shared objects with the same snapshots; results also compared with the extracted Coq model; distinct by '
        '(history, step) and driver line')
ASSUMPTIONS = ['Python-level aliasing that a functional model cannot express is covered by the snapshots only (the theorems of C16 are partial by nature)']
TRUSTED_EXTRA = ['C16: purity of the real Python objects is established by harness snapshots, not by a theorem']
STACKS = ['IPv6-UDP-CoAP', 'IPv4-UDP-CoAP', 'UDP', 'CoAP', 'SCTP']


def reach(obj, acc, seen):
    """every Buffer reachable from a library object (by identity)"""
    if id(obj) in seen:
        return acc
    seen.add(id(obj))
    if isinstance(obj, Buffer):
        acc.append(obj)
    elif isinstance(obj, MatchMapping):
        for k, v in list(obj.forward.items()) + list(obj.reverse.items()):
            reach(k, acc, seen)
            reach(v, acc, seen)
    elif isinstance(obj, (list, tuple)):
        for x in obj:
            reach(x, acc, seen)
    elif isinstance(obj, dict):
        for k, v in obj.items():
            reach(k, acc, seen)
            reach(v, acc, seen)
    elif isinstance(obj, (FieldDescriptor, PacketDescriptor, RuleFieldDescriptor, RuleDescriptor, Context, ContextManager, Ruler)):
        for x in vars(obj).values():
            reach(x, acc, seen)
    return acc


def snap(objs):
    bufs = []
    seen = set()
    for o in objs:
        reach(o, bufs, seen)
    return bufs, [snapshot(b) for b in bufs]


def structure(ctx):
    """the non-Buffer state of a context: rule count, descriptor attributes"""
    return [(len(r.field_descriptors) if r.field_descriptors else 0, str(r.nature),
             [(str(f.id), f.length, f.position, str(f.direction), str(f.matching_operator), str(f.compression_decompression_action)) for f in (r.field_descriptors or [])])
            for r in ctx.ruleset]


def changed(bufs, before):
    out = []
    for b, s in zip(bufs, before):
        s2 = snapshot(b)
        if s2 != s:
            out.append((s, s2))
    return out


def histories(rep, rnd, tier):
    nh = 12 if tier == 'quick' else 120
    b = Batch(rep)
    for h in range(nh):
        stack = STACKS[h % len(STACKS)]
        seeds = [gen_parsed(rnd, stack) for _ in range(4)]
        pd0 = seeds[0][3]
        # rules with direction alternatives and shared sub-objects, matching several of the seeds
        pd0.direction = DI.UP
        rules = gen_ruleset(rnd, pd0, match_prob=0.8, direction=rnd.choice([DI.BIDIRECTIONAL, DI.UP]))
        extra = gen_rule(rnd, seeds[1][3], bits_of(rules[0].id) + '1' if False else '0', kinds=KINDS, direction=DI.DOWN)
        ctx = Context(id='c', description='', interface_id='i', parser_id=stack, ruleset=rules)
        cm = ContextManager(ctx)
        struct0 = structure(ctx)
        nrs = [n_rule(r) for r in rules]
        steps = rnd.randint(30, 60) if tier == 'quick' else rnd.randint(60, 300)
        produced = []
        forced = []
        live = None
        for step in range(steps):
            r = rnd.random()
            d = rnd.choice([DI.UP, DI.DOWN])
            if step and not forced and rnd.random() < 0.08:
                # the configuration changes while the manager lives: results must follow the CURRENT rule set
                # (nothing derived from an earlier state of a rule or of the rule list may survive).
                # The rule is used in both directions just before the change and just after it.
                k_ = rnd.randrange(len(seeds))
                pdk = seeds[k_][3]
                pdk.direction = rnd.choice([DI.UP, DI.DOWN])
                kind = rnd.choice(['replace-rule', 'replace-descriptor', 'append-rule', 'delete-descriptor', 'swap-descriptors', 'insert-descriptor'])
                comp = [j for j, x in enumerate(rules) if x.nature is RuleNature.COMPRESSION and x.field_descriptors]
                j = rnd.choice(comp) if comp else None
                probe = (bits_of(rules[j].id) if j is not None else '') + randbits(rnd, rnd.randint(0, 400))
                around = [('c', seeds[k_][1], DI.UP), ('d', probe, DI.UP), ('d', probe, DI.DOWN), ('c', seeds[k_][1], DI.DOWN)]
                forced = around + [('edit', kind, j, pdk)] + around
            if forced and forced[0][0] == 'edit':
                _, kind, j, pdk = forced.pop(0)
                if kind == 'replace-rule' and j is not None:
                    rules[j] = gen_rule(rnd, pdk, bits_of(rules[j].id), kinds=KINDS)
                elif kind == 'replace-descriptor' and j is not None:
                    fdl = rules[j].field_descriptors
                    i_ = rnd.randrange(len(fdl))
                    fld = [f for f in pdk.fields if str(f.id) == str(fdl[i_].id)]
                    if fld:
                        fdl[i_] = gen_rfd(rnd, fld[0], rnd.choice(('ns', 'vs', 'vsv', 'lsb', 'lsbv', 'map')), fdl[i_].direction)
                elif kind == 'delete-descriptor' and j is not None:
                    fdl = rules[j].field_descriptors
                    del fdl[rnd.randrange(len(fdl))]
                elif kind == 'swap-descriptors' and j is not None and len(rules[j].field_descriptors) > 1:
                    fdl = rules[j].field_descriptors
                    a_, b_ = rnd.sample(range(len(fdl)), 2)
                    fdl[a_], fdl[b_] = fdl[b_], fdl[a_]
                elif kind == 'insert-descriptor' and j is not None:
                    fdl = rules[j].field_descriptors
                    fdl.insert(rnd.randrange(len(fdl) + 1), gen_rfd(rnd, rnd.choice(pdk.fields), rnd.choice(('ns', 'vs', 'vsv', 'lsb')), DI.BIDIRECTIONAL))
                elif kind == 'append-rule':
                    used = [bits_of(x.id) for x in rules]
                    for _ in range(20):
                        cand = randbits(rnd, rnd.randint(3, 12))
                        if all(not cand.startswith(u) and not u.startswith(cand) for u in used):
                            rules.insert(rnd.randrange(len(rules)), gen_rule(rnd, pdk, cand, kinds=KINDS))
                            break
                nrs = [n_rule(x) for x in rules]
                struct0 = structure(ctx)
                produced = []
                rep.hist['history:edit:' + kind] = rep.hist.get('history:edit:' + kind, 0) + 1
            strat = rnd.choice([MatchStrategy.FIRST, MatchStrategy.BEST])
            fresh = ContextManager(Context.from_json(ctx.json()))        # an independent manager built from the serialised context
            pkt_f = s_f = None
            if forced:
                op_, x_, d = forced.pop(0)
                if op_ == 'c':
                    pkt_f, r = x_, 0.0
                else:
                    s_f, r = x_, 1.0
            if r < 0.55 or (not produced and s_f is None):
                pkt = pkt_f if pkt_f is not None else (rnd.choice(seeds)[1] if rnd.random() < 0.8 else (gen_packet(rnd)[1] if rnd.random() < 0.5 else rnd.randbytes(rnd.randint(0, 40))))
                buf = Buffer(pkt, len(pkt) * 8)
                if pkt_f is None and rnd.random() < 0.25:
                    # the caller keeps ONE packet buffer, rewrites some of its bytes in place and submits the same object again:
                    # the manager must compress what the buffer holds now
                    if live is None:
                        live = buf
                    else:
                        k_ = rnd.randrange(0, max(1, live.length - 16) // 8 + 1) * 8
                        if live.length >= k_ + 16:
                            live[k_:k_ + 16] = mk(randbits(rnd, 16))
                        buf = live
                    pkt = bytes(int(bits_of(buf)[i_:i_ + 8], 2) for i_ in range(0, buf.length, 8))
                    rep.hist['history:same-buffer-object-resubmitted'] = rep.hist.get('history:same-buffer-object-resubmitted', 0) + 1
                bufs, before = snap([buf, ctx, cm])
                o1 = obs_bits(with_timeout(lambda: cm.compress(buf, direction=d, match_strategy=strat)))
                ch = changed(bufs, before)
                o2 = obs_bits(with_timeout(lambda: fresh.compress(Buffer(pkt, len(pkt) * 8), direction=d, match_strategy=strat)))
                what = 'compress(%s,%s)' % (DIRC[d], strat.value)
                line = ' '.join(['S', 'cmcompressp', stack, tb(b2s(pkt)), DIRC[d], 'F' if strat == MatchStrategy.FIRST else 'B'] + rules_tokens(nrs))
                if o1[0] == 'OK' and isinstance(o1[1], str):
                    produced.append((o1[1], d))
            else:
                if s_f is not None:
                    s = s_f
                else:
                    s, d = rnd.choice(produced)
                    if rnd.random() < 0.2:
                        s = s[:rnd.randrange(len(s) + 1)]
                sb = mk(s, rnd.choice([L, R]))
                bufs, before = snap([sb, ctx, cm])
                o1 = obs_bits(with_timeout(lambda: cm.decompress(sb, direction=d)))
                ch = changed(bufs, before)
                o2 = obs_bits(with_timeout(lambda: fresh.decompress(mk(s, R), direction=d)))
                what = 'decompress(%s)' % DIRC[d]
                line = ' '.join(['S', 'cmdecompress', tb(s), DIRC[d]] + rules_tokens(nrs))
            fails = []
            if ch:
                fails.append('%s at step %d modified %d reachable Buffer(s): %r -> %r' % (what, step, len(ch), ch[0][0], ch[0][1]))
            if structure(ctx) != struct0:
                fails.append('%s at step %d changed the structure of the context' % (what, step))
            if o1 != o2:
                fails.append('%s at step %d: long-lived manager gives %s, a fresh one %s' % (what, step, str(o1)[:80], str(o2)[:80]))
            def parse_hist(l, o=o1, rep=rep):
                # descriptor edits can produce rules outside the model's domain (compute functions looking for their neighbours at
                # negative indices: the model answers Unmodelled): there only the comparison with the fresh manager applies
                if l == 'EXC Unmodelled':
                    rep.hist['history:outside-model-domain'] = rep.hist.get('history:outside-model-domain', 0) + 1
                    return o
                return parse_model_bits(l)
            b.add('history:' + what.split('(')[0], line, o1, parse_hist, fails,
                  dict(layer='history', stack=stack, step=step, what=what, rules=nrs), key=(h, step))
    b.run()


def shared_objects(rep, rnd, tier):
    """parse once, then match / compress with several rules on the SAME packet descriptor, decompress the same SCHC buffer twice"""
    n = 80 if tier == 'quick' else 800
    b = Batch(rep)
    from schc_run import case_compress
    for i in range(n):
        stack, pkt, st, _ = gen_parsed(rnd, STACKS[i % len(STACKS)])
        buf = Buffer(pkt, len(pkt) * 8)
        bufs, before = snap([buf])
        pd = parser_for(stack).parse(buf)
        if changed(bufs, before):
            rep.violation('property', 'parse modified the packet buffer', dict(layer='history', op='parse', stack=stack, packet=pkt.hex()))
        # what parse returned belongs to the caller: editing every returned Buffer in place (fields, payload, raw) must not show in the
        # next parse -- by the same parser, by another parser of the registry, or of another packet (shared constants handed out as values)
        first_obs = [(str(f.id), f.position, bits_of(f.value)) for f in pd.fields] + [bits_of(pd.payload)]
        scr = parser_for(stack).parse(Buffer(pkt, len(pkt) * 8))
        for x_ in [f.value for f in scr.fields] + [scr.payload, scr.raw]:
            impl_outcome(lambda: (x_.shift(-3, inplace=True), x_.pad(L if x_.padding is R else R, inplace=True), x_.__setitem__(slice(0, min(8, x_.length)), mk('01010101')[0:min(8, x_.length)])))
        again = impl_outcome(lambda: parser_for(stack).parse(Buffer(pkt, len(pkt) * 8)))
        rep.count('shared:parse-after-editing-results', key=('spe', i))
        rep.oracle_evals += 1
        if again[0] != 'OK' or [(str(f.id), f.position, bits_of(f.value)) for f in again[1].fields] + [bits_of(again[1].payload)] != first_obs:
            rep.violation('property', 'after the Buffers returned by an earlier parse were edited in place, parsing the same packet again gives other fields',
                          dict(layer='history', op='parse-after-editing-results', stack=stack, packet=pkt.hex()))
        pd.direction = DI.UP
        rules = [gen_rule(rnd, pd, randbits(rnd, 4), kinds=k) for k in (('vs', 'vsv'), ('lsb', 'lsbv', 'ns'), KINDS, ('map', 'vs'))]
        ruler = Ruler(rules)
        bufs, before = snap([pd, rules, buf])
        list(ruler.match_packet_descriptor(pd))
        ch = changed(bufs, before)
        if ch:
            rep.violation('property', 'matching modified a reachable Buffer: %r -> %r' % ch[0], dict(layer='history', op='match', stack=stack, packet=pkt.hex(), rules=[n_rule(r) for r in rules]))
        for r in rules:
            # the model and the reference see the descriptor as parsed; the implementation works on the shared, possibly mutated one
            fresh_pd = parser_for(stack).parse(Buffer(pkt, len(pkt) * 8))
            fresh_pd.direction = DI.UP
            want = obs_bits(with_timeout(lambda: compress(fresh_pd, r)))
            bufs, before = snap([pd, r])
            got = obs_bits(with_timeout(lambda: compress(pd, r)))
            ch = changed(bufs, before)
            rep.count('shared:compress', key=('sh', i, id(r)))
            rep.oracle_evals += 1
            if ch:
                rep.violation('property', 'compress modified a reachable Buffer of the packet descriptor or the rule: %r -> %r' % ch[0],
                              dict(layer='history', op='compress', stack=stack, packet=pkt.hex(), rule=n_rule(r)))
            if got != want:
                rep.violation('property', 'compress on a packet descriptor already used by other rules gives %s, on a fresh one %s' % (str(got)[:80], str(want)[:80]),
                              dict(layer='history', op='compress-shared', stack=stack, packet=pkt.hex(), rule=n_rule(r)))
            # the Buffer compress returns is the caller's: editing it in place must not reach the packet descriptor or the rule
            # (theorem c16_compress_fresh: the model returns a new object; here: whatever object the code returns, no input changes)
            res_ = impl_outcome(lambda: compress(pd, r))
            if res_[0] == 'OK' and isinstance(res_[1], Buffer):
                bufs, before = snap([pd, r])
                if any(res_[1] is x for x in bufs):
                    rep.drift += 1
                    rep.hist['shared:compress-result-is-an-input-object'] = rep.hist.get('shared:compress-result-is-an-input-object', 0) + 1
                impl_outcome(lambda: (res_[1].shift(-5, inplace=True), res_[1].pad(L if res_[1].padding is R else R, inplace=True), res_[1].__setitem__(slice(0, 1), mk('1'))))
                ch = changed(bufs, before)
                rep.count('shared:edit-result-of-compress', key=('shr', i, id(r)))
                if ch:
                    rep.violation('property', 'editing the SCHC packet returned by compress in place changed a Buffer of the packet descriptor or the rule: %r -> %r' % ch[0],
                                  dict(layer='history', op='compress-result-aliases-input', stack=stack, packet=pkt.hex(), rule=n_rule(r)))
            if got[0] == 'OK' and isinstance(got[1], str):
                sb = mk(got[1], R)
                res_ = impl_outcome(lambda: decompress(sb, r))
                if res_[0] == 'OK' and isinstance(res_[1], Buffer):
                    bufs, before = snap([sb, r])
                    impl_outcome(lambda: (res_[1].shift(-5, inplace=True), res_[1].pad(L if res_[1].padding is R else R, inplace=True), res_[1].__setitem__(slice(0, 1), mk('1'))))
                    ch = changed(bufs, before)
                    rep.count('shared:edit-result-of-decompress', key=('shrd', i, id(r)))
                    if ch:
                        rep.violation('property', 'editing the packet returned by decompress in place changed the SCHC packet or a Buffer of the rule: %r -> %r' % ch[0],
                                      dict(layer='history', op='decompress-result-aliases-input', schc=got[1], rule=n_rule(r)))
                bufs, before = snap([sb, r])
                d1 = obs_bits(with_timeout(lambda: decompress(sb, r)))
                ch = changed(bufs, before)
                d2 = obs_bits(with_timeout(lambda: decompress(sb, r)))
                rep.count('shared:decompress', key=('shd', i, id(r)))
                if ch:
                    rep.violation('property', 'decompress modified the SCHC packet or the rule: %r -> %r' % ch[0], dict(layer='history', op='decompress', schc=got[1], rule=n_rule(r)))
                if d1 != d2:
                    rep.violation('property', 'decompressing the same SCHC buffer twice gives different results', dict(layer='history', op='decompress-twice', schc=got[1], rule=n_rule(r)))
    b.run()


def front_histories(rep, rnd, tier):
    """one long-lived front end (several contexts on one interface, some accepting the same packets) against a fresh front end built
    for every call from the serialised contexts: what it did before must not change what it does now, nor the order of its contexts"""
    from p_c15 import load_front
    SCHC = load_front()
    nh = 25 if tier == 'quick' else 250
    for h in range(nh):
        stack = STACKS[h % len(STACKS)]
        nctx = rnd.randint(2, 4)
        seeds = [gen_parsed(rnd, stack) for _ in range(nctx)]
        from schc_util import prefix_free_ids
        ids = prefix_free_ids(rnd, 2 * nctx + 1)
        ctxs = []
        for k in range(nctx):
            pd = seeds[k][3]
            pd.direction = DI.UP
            rules = [gen_rule(rnd, pd, ids[2 * k], kinds=('ns', 'map', 'lsb', 'vs')), gen_rule(rnd, pd, ids[2 * k + 1], kinds=('vs', 'vsv', 'lsbv'))]
            if k == nctx - 1 and rnd.random() < 0.5:
                from gens import no_compression_rule
                rules.append(no_compression_rule(ids[2 * nctx]))
            ctxs.append(Context(id=['zulu', 'alpha', 'mike', 'B'][k], description='', interface_id='if0', parser_id=stack, ruleset=rules))
        texts = [c.json() for c in ctxs]
        front = SCHC(ctxs)
        order0 = [c.json() for c in ctxs]
        for step in range(12):
            pkt = rnd.choice(seeds)[1] if rnd.random() < 0.85 else gen_packet(rnd)[1]
            fresh = SCHC([Context.from_json(t) for t in texts])
            o1 = obs_bits(with_timeout(lambda: front.compress(Buffer(pkt, len(pkt) * 8), 'if0')))
            o2 = obs_bits(with_timeout(lambda: fresh.compress(Buffer(pkt, len(pkt) * 8), 'if0')))
            rep.count('front-history:compress', key=('fh', h, step))
            rep.oracle_evals += 1
            case = dict(layer='history', op='front-end', stack=stack, step=step, packet=pkt.hex(), contexts=texts)
            if o1 != o2:
                rep.violation('property', 'front end history, step %d: the long-lived front end compresses to %s, a fresh one to %s' % (step, str(o1)[:80], str(o2)[:80]), case)
                return
            if o1[0] == 'OK' and isinstance(o1[1], str):
                d1 = obs_bits(with_timeout(lambda: front.decompress(mk(o1[1], R), 'if0')))
                d2 = obs_bits(with_timeout(lambda: fresh.decompress(mk(o1[1], R), 'if0')))
                rep.count('front-history:decompress', key=('fhd', h, step))
                if d1 != d2:
                    rep.violation('property', 'front end history, step %d: the long-lived front end decompresses to %s, a fresh one to %s' % (step, str(d1)[:80], str(d2)[:80]), case)
                    return
            if [c.json() for c in ctxs] != order0:
                rep.violation('property', 'front end history, step %d: the contexts given to the front end changed' % step, case)
                return


def synthetic_shared(rep, rnd, tier):
    """one synthetic packet descriptor (fields of every size, not byte aligned) compressed in turn with several rules over the same
    fields: compress must leave the descriptor and the rules as they were, so a later compression sees what the first one saw"""
    from gens import synth_case, synth_pdesc, payload_variants
    from schc_util import ref_compress
    n = 150 if tier == 'quick' else 1500
    for i in range(n):
        rule, vals = synth_case(rnd)
        # (field values left-padded, as the parsers produce them: the LSB action documents that it reads them so)
        # every third descriptor has fields of either side: there only the absence of side effects is judged
        anyside = (i % 3 == 0)
        pd = PacketDescriptor(direction=DI.UP, fields=[FieldDescriptor(id=rf.id, value=mk(v, rnd.choice([L, R]) if anyside else L), position=0) for rf, v in zip(rule.field_descriptors, vals)],
                              payload=mk(payload_variants(rnd), rnd.choice([L, R])))
        # alternative rules over the same fields: value-sent / variable length first, then MSB-LSB on the same values
        alts = [rule]
        for kinds in (('vs', 'vsv'), ('lsb', 'lsbv')):
            fds = []
            for rf, v in zip(rule.field_descriptors, vals):
                k = rnd.choice(kinds)
                if k in ('vs', 'vsv'):
                    fds.append(RuleFieldDescriptor(rf.id, len(v) if k == 'vs' else 0, 0, DI.BIDIRECTIONAL, Buffer(b'', 0), MO.IGNORE, CDA.VALUE_SENT))
                else:
                    x = rnd.randint(0, len(v))
                    fds.append(RuleFieldDescriptor(rf.id, len(v) if k == 'lsb' else 0, 0, DI.BIDIRECTIONAL, mk(v[:x], rnd.choice([L, R])), MO.MSB, CDA.LSB))
            alts.append(RuleDescriptor(id=mk(randbits(rnd, 5)), field_descriptors=fds))
        rnd.shuffle(alts)
        for r in alts + alts[:1]:
            want = ref_compress(n_pdesc(pd), n_rule(r))
            bufs, before = snap([pd, r])
            got = obs_bits(with_timeout(lambda: compress(pd, r)))
            ch = changed(bufs, before)
            rep.count('shared-synthetic:compress', key=('ss', i, id(r)))
            rep.oracle_evals += 1
            if ch:
                rep.violation('property', 'compress modified a reachable Buffer of the packet descriptor or the rule: %r -> %r' % ch[0],
                              dict(layer='history', op='compress-synthetic', pdesc=n_pdesc(pd), rule=n_rule(r)))
                return
            if want is not None and not anyside and got != ('OK', want):
                rep.violation('property', 'compress on a descriptor already compressed with other rules gives %s, expected %s' % (str(got)[:80], want[:80]),
                              dict(layer='history', op='compress-synthetic-shared', pdesc=n_pdesc(pd), rule=n_rule(r)))
                return


def module_tables():
    """the value of every module-level table of the library (dict / list / set / tuple bound to a module global or to a class attribute
    that is not empty when first seen): the compute-function tables, parser registries, option tables ...  Operations must leave them
    as they are -- they are shared by every manager of the process.  (Containers that start empty are left out: a cache may fill.)"""
    import sys
    import enum

    def canon(x, depth=0):
        if depth > 6:
            return '...'
        if isinstance(x, Buffer):
            return ('Buffer',) + tuple(snapshot(x))
        if isinstance(x, dict):
            return ('dict', tuple((canon(k, depth + 1), canon(v, depth + 1)) for k, v in x.items()))
        if isinstance(x, (set, frozenset)):
            return ('set', tuple(sorted(repr(canon(v, depth + 1)) for v in x)))
        if isinstance(x, (list, tuple)):
            return (type(x).__name__, tuple(canon(v, depth + 1) for v in x))
        if isinstance(x, (int, str, bytes, bool, float, type(None), enum.Enum)):
            return repr(x)
        return getattr(x, '__qualname__', None) or type(x).__name__
    out = {}
    for mn, m in sorted(sys.modules.items()):
        if not (mn == 'microschc' or mn.startswith('microschc.')) or m is None:
            continue
        for name, v in sorted(vars(m).items()):
            if name.startswith('__'):
                continue
            if isinstance(v, (dict, list, set, tuple)) and len(v):
                out['%s.%s' % (mn, name)] = canon(v)
            elif isinstance(v, (Buffer, bytes, bytearray)):
                out['%s.%s' % (mn, name)] = canon(v) if isinstance(v, Buffer) else bytes(v).hex()
            elif isinstance(v, type) and getattr(v, '__module__', '') == mn and not issubclass(v, enum.Enum):
                for an, av in sorted(vars(v).items()):
                    if not an.startswith('__') and isinstance(av, (dict, list, set, tuple)) and len(av):
                        out['%s.%s.%s' % (mn, name, an)] = canon(av)
                    elif not an.startswith('__') and isinstance(av, Buffer):
                        out['%s.%s.%s' % (mn, name, an)] = canon(av)
    return out


def check_tables(rep, tables0, where):
    now = module_tables()
    rep.oracle_evals += 1
    rep.hist['module-tables-compared'] = len(tables0)
    for k, v in tables0.items():
        if now.get(k) != v:
            rep.violation('property', 'module-level table %s is no longer what it was before %s: operations changed state shared by every manager of the process (%s -> %s)'
                          % (k, where, str(v)[:120], str(now.get(k))[:120]), dict(layer='history', op='module-tables', table=k, where=where))
            return False
    return True


def process_histories(rep, rnd, tier):
    """what one decompression did must not show in the next one, whatever stacks and rules the process serves in between: datagrams with
    computed lengths and checksums of different stacks (IPv6 / IPv4 with UDP and CoAP, with UDP carrying SCTP -- port 132 --, with SCTP,
    bare SCTP) are compressed and decompressed in turn with rules computing every computable field; each round trip must restore the
    packet, in every order of the stacks, and the module-level tables must stay as they were"""
    from gens import STACK_GENS
    import packets as P
    tables0 = module_tables()
    n = 60 if tier == 'quick' else 600
    kinds_of = {'IPv6-UDP-CoAP': None, 'IPv4-UDP-CoAP': None, 'SCTP': None, 'IPv6': None, 'IPv4': None}
    for h in range(n):
        seq = []
        order = [rnd.choice(['udp', 'udp-sctp', 'ip-sctp', 'sctp', 'udp-coap']) for _ in range(rnd.randint(3, 6))]
        if h % 3 == 0:
            order = ['udp', 'udp-sctp', 'udp', 'udp-sctp'] if h % 2 else ['udp-coap', 'udp-sctp', 'ip-sctp', 'udp-sctp']
        for step, what in enumerate(order):
            v6 = rnd.random() < 0.5
            if what == 'udp-coap':
                stack = 'IPv6-UDP-CoAP' if v6 else 'IPv4-UDP-CoAP'
                pkt = rnd.choice(STACK_GENS[stack][:1])(rnd)[0]
            elif what in ('udp', 'udp-sctp'):
                stack = 'IPv6' if v6 else 'IPv4'
                dport = 132 if what == 'udp-sctp' else rnd.choice([0, 53, 5684, 9899])
                src, dst = (rnd.randbytes(16), rnd.randbytes(16)) if v6 else (rnd.randbytes(4), rnd.randbytes(4))
                payload = P.raw_payload(rnd, dport)[0]
                u = P.udp(rnd, payload, csum=(lambda x: P.udp_checksum_v6(src, dst, x)) if v6 else (lambda x: P.udp_checksum_v4(src, dst, x)), dport=dport)
                pkt = P.ipv6(rnd, u, 17, src, dst) if v6 else P.ipv4(rnd, u, 17, src, dst)
            elif what == 'ip-sctp':
                stack = 'IPv6' if v6 else 'IPv4'
                pkt = (P.pkt_ipv6_sctp if v6 else P.pkt_ipv4_sctp)(rnd)[0]
            else:
                stack = 'SCTP'
                pkt = P.sctp(rnd)[0]
            o = impl_outcome(lambda: parser_for(stack).parse(Buffer(pkt, len(pkt) * 8)))
            if o[0] != 'OK':
                continue
            pd = o[1]
            pd.direction = DI.UP
            rule = gen_rule(rnd, pd, randbits(rnd, rnd.randint(1, 6)), kinds=('comp', 'comp', 'comp', 'vs', 'ns'))
            ncomp = sum(1 for k in rule._kinds if k == 'comp')
            got = obs_bits(with_timeout(lambda: compress(pd, rule)))
            if step % 2 == 1 and got[0] == 'OK' and isinstance(got[1], str):
                # a call that FAILS half-way (a mis-provisioned rule: a field without compute function marked compute after a computed
                # one, a mapping where a buffer is expected) must leave nothing behind for the next, well-formed call
                bad_fds = list(rule.field_descriptors)
                comp_at = [j for j, k_ in enumerate(rule._kinds) if k_ == 'comp']
                later = [j for j, k_ in enumerate(rule._kinds) if k_ != 'comp' and comp_at and j > comp_at[0]]
                if later:
                    j = rnd.choice(later)
                    o_ = bad_fds[j]
                    bad_fds[j] = RuleFieldDescriptor(o_.id, o_.length, o_.position, o_.direction, o_.target_value, MO.IGNORE, CDA.COMPUTE)
                    bad = RuleDescriptor(id=rule.id, field_descriptors=bad_fds)
                    r_ = impl_outcome(lambda: decompress(mk(got[1], R), bad))
                    rep.hist['process-history:failed-call-before:%s' % (r_[1] if r_[0] == 'EXC' else 'ok')] = rep.hist.get('process-history:failed-call-before:%s' % (r_[1] if r_[0] == 'EXC' else 'ok'), 0) + 1
            rep.count('process-history:%s' % what, key=('ph', h, step))
            rep.oracle_evals += 1
            rep.hist['process-history:computed-fields:%d' % min(ncomp, 6)] = rep.hist.get('process-history:computed-fields:%d' % min(ncomp, 6), 0) + 1
            case = dict(layer='history', op='process-history', order=order, step=step, stack=stack, packet=pkt.hex(), rule=n_rule(rule))
            if got[0] != 'OK' or not isinstance(got[1], str):
                rep.violation('property', 'process history %s, step %d: compress gives %s' % ('/'.join(order), step, str(got)[:80]), case)
                return
            back = obs_bits(with_timeout(lambda: decompress(mk(got[1], R), rule)))
            if back != ('OK', b2s(pkt)):
                fresh_first = 'the same call is correct' if step else 'first call'
                rep.violation('property', 'process history %s, step %d (%s, %d computed fields): decompression does not restore the packet (%s): %s...'
                              % ('/'.join(order), step, what, ncomp, fresh_first, str(back)[:60]), case)
                return
        if not check_tables(rep, tables0, 'the process histories'):
            return


def construction(rep, rnd, tier):
    """building managers, rulers and front ends is part of using the library: it must leave the context it is given as it was (its JSON
    text, its parser id, its rule list), whatever the parser argument; a manager built afterwards on the same context behaves like
    one built on a context loaded from the text taken BEFORE"""
    from microschc.protocol.registry import factory
    from p_c15 import load_front
    SCHC = load_front()
    for i in range(40 if tier == 'quick' else 400):
        stack, pkt, st, pd = gen_parsed(rnd, ['IPv6-UDP-CoAP', 'IPv4-UDP-CoAP', 'UDP', 'CoAP', 'SCTP'][i % 5])
        pd.direction = DI.UP
        rules = gen_ruleset(rnd, pd, match_prob=0.8)
        ctx = Context(id='c', description='d', interface_id='if0', parser_id=stack, ruleset=rules)
        text0 = ctx.json()
        other = {'IPv6-UDP-CoAP': 'IPv6', 'IPv4-UDP-CoAP': 'IPv4', 'UDP': 'CoAP', 'CoAP': 'UDP', 'SCTP': 'UDP'}[stack]
        built = impl_outcome(lambda: (ContextManager(ctx, parser=str.__str__(other)), ContextManager(ctx, parser=factory(other)), ContextManager(ctx), Ruler(ctx.ruleset), SCHC([ctx])))
        rep.count('construction', key=('constr', i))
        rep.oracle_evals += 1
        case = dict(layer='history', op='construction', stack=stack, other=other, context=text0)
        if built[0] != 'OK':
            rep.violation('property', 'building managers on a context raised %s' % built[1], case)
            return
        if ctx.json() != text0 or ctx.parser_id != stack or ctx.ruleset is not rules:
            rep.violation('property', 'building a ContextManager (parser given as the stack name %r / as a parser object), a Ruler or a front end changed the context it was given: parser_id %r -> %r'
                          % (other, stack, ctx.parser_id), case)
            return
        later, fresh = ContextManager(ctx), ContextManager(Context.from_json(text0))
        o1 = obs_bits(with_timeout(lambda: later.compress(Buffer(pkt, len(pkt) * 8), direction=DI.UP)))
        o2 = obs_bits(with_timeout(lambda: fresh.compress(Buffer(pkt, len(pkt) * 8), direction=DI.UP)))
        if o1 != o2:
            rep.violation('property', 'a manager built on a context after other managers were built on it compresses to %s, one built from the JSON text taken before to %s' % (str(o1)[:80], str(o2)[:80]), case)
            return


def ruler_histories(rep, rnd, tier):
    """one long-lived Ruler (rule ids that may be prefixes of one another: then the first in list order wins) asked about SCHC packets of
    every length in any order -- packets shorter than the longest id, packets whose stored bytes coincide though their lengths differ,
    either padding side: each answer must be the one a fresh Ruler gives"""
    from gens import no_compression_rule
    for h in range(40 if tier == 'quick' else 400):
        base = randbits(rnd, rnd.randint(1, 3))
        ids = [base + randbits(rnd, k) for k in rnd.sample([0, 1, 2, 3, 5, 8], rnd.randint(2, 4))]
        rnd.shuffle(ids)
        rules = [no_compression_rule(i_, rnd.choice([L, R])) for i_ in ids]
        ruler = Ruler(rules)
        for step in range(14):
            i_ = rnd.choice(ids)
            s_ = (i_ + randbits(rnd, rnd.choice([0, 0, 1, 4, 12])))[:rnd.choice([len(i_), len(i_) + 1, max(1, len(i_) - 1), 2, 3, 4, 16])] if rnd.random() < 0.8 else randbits(rnd, rnd.randint(0, 12))
            sd_ = rnd.choice([L, R])

            def ask(r_):
                x = r_.match_schc_packet(mk(s_, sd_))
                return [k for k, y in enumerate(rules) if y is x][0]
            o1 = impl_outcome(lambda: ask(ruler))
            o2 = impl_outcome(lambda: ask(Ruler(rules)))
            rep.count('ruler-history', key=('rh', h, step))
            rep.oracle_evals += 1
            if o1 != o2:
                rep.violation('property', 'long-lived Ruler over ids %s, step %d, packet %r: it answers %s, a fresh Ruler %s' % (ids, step, s_, o1, o2),
                              dict(layer='history', op='ruler-history', ids=ids, step=step, schc=s_))
                return


def run(rep, tier, seed):
    tables0 = module_tables()
    ruler_histories(rep, rng_for(seed, 'C16-ruler'), tier)
    construction(rep, rng_for(seed, 'C16-construction'), tier)
    bc.run_family(rep, 'C16', tier, seed)
    import bufheap
    bufheap.run(rep, rng_for(seed, 'C16-heap'), 200 if tier == 'quick' else 3000, 40)
    process_histories(rep, rng_for(seed, 'C16-process'), tier)
    synthetic_shared(rep, rng_for(seed, 'C16-synthetic'), tier)
    front_histories(rep, rng_for(seed, 'C16-front'), tier)
    rnd = rng_for(seed, 'C16-histories')
    histories(rep, rnd, tier)
    shared_objects(rep, rnd, tier)
    check_tables(rep, tables0, 'this run (Buffer operations, histories of managers and front ends, shared objects)')


def replay(case):
    if case.get('layer') == 'buffer':
        return bc.replay(case)
    if case.get('layer') == 'buffer-heap':
        import bufheap
        return bufheap.replay_line(case['driver_line'])
    return 're-run ./check C16 (histories are regenerated from the seed)'
