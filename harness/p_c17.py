"""C17 -- variable-length size prefix is a bijection with the RFC 8724 widths."""
from core import rng_for, mk, bits_of, L, R, Buffer, randbits
from core import mkmap, given_items
from schc_run import Batch, obs_bits, with_timeout, parse_model_bits, case_compress, case_decompress
from schc_util import ref_size_prefix, tb, n_rule
from gens import synth_pdesc
from microschc.compressor.compressor import _encode_length
from microschc.decompressor import decompressor as D
from microschc.rfc8724 import (RuleFieldDescriptor, RuleDescriptor, DirectionIndicator as DI, MatchingOperator as MO,
                               CompressionDecompressionAction as CDA)

RULE = ('every residue size in the tier\'s range (quick: 0..400, all sizes within 3 of 14/15, 254/255, 65535, random others; '
        'thorough: every size 0..65535) through _encode_length and the decoder; one-field and two-field rules with '
        'value-sent and LSB (pattern length 0, 1, mid, full) variable-length fields, arbitrary bits before (rule id 1..16 bits, '
        'a preceding field) and after (payload); distinct by the driver line')
ASSUMPTIONS = ['sizes above 65535 are outside RFC 8724 section 7.4.2 (the compressor asserts)']


def sizes_for(tier, rnd):
    if tier == 'thorough':
        return list(range(0, 65536))
    s = set(range(0, 401)) | {11, 12, 13, 14, 15, 16, 17, 251, 252, 253, 254, 255, 256, 257, 258, 65532, 65533, 65534, 65535, 4095, 4096, 32767, 32768}
    for _ in range(60):
        s.add(rnd.randint(0, 65535))
    return sorted(s)


def parse_decodevar(line):
    if line.startswith('OK '):
        r, c = line[3:].split(' ')
        return ('OK', ('' if r == '-' else r, int(c)))
    return ('BAD', line)


def run(rep, tier, seed):
    rnd = rng_for(seed, 'C17')
    b = Batch(rep)
    decode = getattr(D, '_decode_variable_length_residue', None)
    for n in sizes_for(tier, rnd):
        out = obs_bits(with_timeout(lambda: _encode_length(n)))
        want = ref_size_prefix(n)
        fails = [] if out == ('OK', want) else ['size %d announced as %s, RFC 8724 says %s' % (n, out, want)]
        b.add('encode_length', 'S encodelength %d' % n, out, parse_model_bits, fails, dict(layer='schc', op='encodelength', n=n), key=('enc', n))
        # decoding the announcement followed by n residue bits and arbitrary trailing bits
        if decode is not None and (n <= 2000 or tier == 'thorough' or n > 65500):
            res = randbits(rnd, n)
            rest = randbits(rnd, rnd.choice([0, 1, 5, 8, 13]))
            s = want + res + rest
            side = rnd.choice([L, R])

            def f():
                r, c = decode(mk(s, side))
                return (bits_of(r), c)
            o = with_timeout(f)
            fails = [] if o == ('OK', (res, len(want) + n)) else ['decoding the announcement of %d bits gives %s' % (n, str(o)[:120])]
            b.add('decode_var', 'S decodevar %s' % tb(s), o, parse_decodevar, fails, dict(layer='schc', op='decodevar', n=n, bits=s if len(s) < 400 else s[:400] + '...'), key=('dec', n))
    for o in (65536, 70000):
        out = obs_bits(with_timeout(lambda: _encode_length(o)))
        b.add('encode_length_overflow', 'S encodelength %d' % o, out, parse_model_bits, None, dict(layer='schc', op='encodelength', n=o))
    # garbage in front of the decoder (correspondence only: any bits)
    if decode is not None:
        for _ in range(300 if tier == 'quick' else 3000):
            s = randbits(rnd, rnd.choice([0, 1, 3, 4, 5, 11, 12, 13, 27, 28, 29, 40, 300]))
            if rnd.random() < 0.5:
                s = '1111' * rnd.randint(1, 3) + s

            def f():
                r, c = decode(mk(s, R))
                return (bits_of(r), c)
            b.add('decode_var_any', 'S decodevar %s' % tb(s), with_timeout(f), parse_decodevar, None, dict(layer='schc', op='decodevar', bits=s))
    # field level: value-sent and LSB variable-length fields inside a SCHC packet
    nrt = 250 if tier == 'quick' else 2500
    for i in range(nrt):
        # the id of the variable-length field: an invented one, the id the library gives the payload entry, ids of real header fields
        XV = rnd.choice(['X:v', 'X:v', 'Payload', 'CoAP:Token', 'CoAP:Option Value', 'UDP:Length'])
        n = rnd.choice([0, 1, 13, 14, 15, 16, 100, 253, 254, 255, 256, 300, rnd.randint(0, 1200), rnd.randint(0, 70)])
        if tier == 'thorough' and i % 25 == 0:
            n = rnd.randint(0, 65535)
        v = randbits(rnd, n)
        kind = rnd.choice(['vs', 'lsb', 'vs-with-target'])
        if kind == 'vs':
            fd = RuleFieldDescriptor(XV, 0, 0, DI.BIDIRECTIONAL, Buffer(b'', 0), MO.IGNORE, CDA.VALUE_SENT)
        elif kind == 'vs-with-target':
            # value-sent of variable length under a descriptor that carries a target value (equal / MSB): the announced size is the
            # size of the RESIDUE, i.e. of the whole field
            mo_ = rnd.choice([MO.EQUAL, MO.MSB])
            fd = RuleFieldDescriptor(XV, 0, 0, DI.BIDIRECTIONAL, mk(v if mo_ == MO.EQUAL else v[:rnd.choice([0, 1, n // 2, n])], rnd.choice([L, R])), mo_, CDA.VALUE_SENT)
        else:
            x = rnd.choice([0, 1, n // 2, n, max(0, n - 1), max(0, n - 15)])
            fd = RuleFieldDescriptor(XV, 0, 0, DI.BIDIRECTIONAL, mk(v[:x], rnd.choice([L, R])), MO.MSB, CDA.LSB)
        fds, vals = [fd], [v]
        if rnd.random() < 0.5:   # a preceding field, so that the announcement does not start right after the rule id
            m = rnd.randint(1, 19)
            fds.insert(0, RuleFieldDescriptor('X:p', m, 0, DI.BIDIRECTIONAL, Buffer(b'', 0), MO.IGNORE, CDA.VALUE_SENT))
            vals.insert(0, randbits(rnd, m))
        rule = RuleDescriptor(id=mk(randbits(rnd, rnd.randint(1, 16)), rnd.choice([L, R])), field_descriptors=fds)
        payload = randbits(rnd, rnd.choice([0, 3, 8, 21]))
        pd = synth_pdesc(rule, vals, payload)
        if kind == 'vs' and i % 2 == 0:
            # this descriptor is compressed a second time below with an MSB/LSB rule: its field values are left-padded, as the parsers
            # produce them (the LSB action documents that it reads them so)
            from microschc.rfc8724 import FieldDescriptor, PacketDescriptor
            pd = PacketDescriptor(direction=DI.UP, fields=[FieldDescriptor(id=rf.id, value=mk(v_), position=0) for rf, v_ in zip(rule.field_descriptors, vals)], payload=mk(payload))
        o = case_compress(b, pd, rule, None, klass='field-compress:' + kind)
        if o[0] == 'OK':
            case_decompress(b, o[1], rule, None, klass='field-roundtrip:' + kind, expect=''.join(vals) + payload, side=rnd.choice([L, R]))
        if kind == 'vs' and i % 2 == 0:
            # the same descriptor compressed a second time with an MSB/LSB rule on the same field (what BEST does when both rules match)
            x = rnd.choice([0, 1, n // 2, max(0, n - 1)])
            fds2 = list(fds)
            fds2[-1] = RuleFieldDescriptor(XV, 0, 0, DI.BIDIRECTIONAL, mk(v[:x], rnd.choice([L, R])), MO.MSB, CDA.LSB)
            rule2 = RuleDescriptor(id=mk(randbits(rnd, rnd.randint(1, 16)), rnd.choice([L, R])), field_descriptors=fds2)
            o = case_compress(b, pd, rule2, None, klass='field-compress-again:lsb')
            if o[0] == 'OK':
                case_decompress(b, o[1], rule2, None, klass='field-roundtrip-again:lsb', expect=''.join(vals) + payload, side=rnd.choice([L, R]))
    # the announcement as the LAST residue of the packet (nothing sent after it: empty payload, following fields elided) at every
    # size around the width changes: a decoder that reads ahead of the announcement sees fewer bits than it expects
    for n in [0, 1, 13, 14, 15, 16, 17, 27, 28, 29, 253, 254, 255, 256, 257, 300]:
        for kind in ('vs', 'lsb'):
            for trail in ('none', 'ns', 'ns2', 'map0'):
                v = randbits(rnd, n)
                if kind == 'vs':
                    fd = RuleFieldDescriptor(XV, 0, 0, DI.BIDIRECTIONAL, Buffer(b'', 0), MO.IGNORE, CDA.VALUE_SENT)
                else:
                    fd = RuleFieldDescriptor(XV, 0, 0, DI.BIDIRECTIONAL, mk(v[:n // 3], rnd.choice([L, R])), MO.MSB, CDA.LSB)
                fds, vals = [fd], [v]
                if trail in ('ns', 'ns2'):
                    for j in range(1 if trail == 'ns' else 2):
                        t = randbits(rnd, rnd.choice([1, 8, 13]))
                        fds.append(RuleFieldDescriptor('X:t%d' % j, len(t), 0, DI.BIDIRECTIONAL, mk(t, rnd.choice([L, R])), MO.EQUAL, CDA.NOT_SENT))
                        vals.append(t)
                elif trail == 'map0':
                    from microschc.rfc8724 import MatchMapping
                    t = randbits(rnd, 6)
                    fds.append(RuleFieldDescriptor('X:t', 6, 0, DI.BIDIRECTIONAL, mkmap({mk(t): mk('')}), MO.MATCH_MAPPING, CDA.MAPPING_SENT))
                    vals.append(t)
                rule = RuleDescriptor(id=mk(randbits(rnd, rnd.randint(1, 9)), rnd.choice([L, R])), field_descriptors=fds)
                pd = synth_pdesc(rule, vals, '')
                o = case_compress(b, pd, rule, None, klass='last-residue-compress:' + kind)
                if o[0] == 'OK':
                    for side in (L, R):
                        case_decompress(b, o[1], rule, None, klass='last-residue-roundtrip:' + kind, expect=''.join(vals), side=side)
    b.run()


def replay(case):
    from p_schc_common import replay_schc
    return replay_schc(case)
