"""C18 -- Direction indicators select the same field descriptors in all three stages."""
from core import rng_for, mk, bits_of, L, R, randbits, Buffer
from schc_run import Batch, case_compress, case_decompress, case_match, obs_bits, with_timeout, parse_model_bits
from schc_util import gen_rfd, n_rule, n_pdesc, rules_tokens, tb, DIRC, ref_compress, ref_rule_applies
from gens import gen_parsed, b2s
from microschc.rfc8724extras import Context
from microschc.manager import ContextManager
from microschc.rfc8724 import DirectionIndicator as DI, RuleDescriptor, MatchingOperator as MO, CompressionDecompressionAction as CDA

RULE = ('rules in which a random subset of fields (every position) carries separate Up and Dw descriptors with different target '
        'values and actions (one of them matching the packet, the other one a different kind, possibly not matching), the other '
        'fields Bi; packets of every stack travelling Up and Dw; matcher, compress(direction) and decompress(direction), and the '
        'ContextManager path, compared with the extracted Coq model and with the reference that selects exactly the descriptors '
        'marked d or Bi in all three stages; round trip must restore the packet; distinct by driver line')
ASSUMPTIONS = ['the direction is passed to compress/decompress (optional argument introduced by the fix of the direction defect; without it all descriptors are used, as before)']
STACKS = ['IPv6-UDP-CoAP', 'IPv4-UDP-CoAP', 'UDP', 'CoAP', 'SCTP']
KINDS = ('ns', 'vs', 'vsv', 'lsb', 'lsbv', 'map')
KINDS_C = KINDS + ('comp', 'comp')


def dir_rule(rnd, pd, d, kinds=KINDS):
    """Descriptors for direction d match the packet; the alternative ones (other direction) are of another kind."""
    other = DI.DOWN if d == DI.UP else DI.UP
    fds = []
    nalt = 0
    for f in pd.fields:
        k = rnd.choice(kinds)
        if k == 'comp':
            fds.append(gen_rfd(rnd, f, k, DI.BIDIRECTIONAL))
            continue
        if rnd.random() < 0.35:
            nalt += 1
            mine = gen_rfd(rnd, f, k, d)
            k2 = rnd.choice([x for x in KINDS if x != k])
            theirs = gen_rfd(rnd, f, k2, other)
            if k2 == 'ns' and rnd.random() < 0.7:      # make the alternative NOT match: flip a target bit
                tb_ = bits_of(theirs.target_value)
                if tb_:
                    tb_ = ('1' if tb_[0] == '0' else '0') + tb_[1:]
                    theirs.target_value = mk(tb_)
            pair = [mine, theirs]
            if rnd.random() < 0.5:
                pair.reverse()
            fds += pair
        else:
            fds.append(gen_rfd(rnd, f, k, DI.BIDIRECTIONAL))
    return RuleDescriptor(id=mk(randbits(rnd, rnd.randint(1, 12)), rnd.choice([L, R])), field_descriptors=fds), nalt


def run(rep, tier, seed):
    rnd = rng_for(seed, 'C18')
    b = Batch(rep)
    n = 400 if tier == 'quick' else 4000
    for i in range(n):
        stack, pkt, st, pd = gen_parsed(rnd, STACKS[i % len(STACKS)])
        d = rnd.choice([DI.UP, DI.DOWN])
        other = DI.DOWN if d == DI.UP else DI.UP
        pd.direction = d
        rule, nalt = dir_rule(rnd, pd, d, kinds=KINDS_C if (i % 2 and stack in ('IPv6-UDP-CoAP', 'IPv4-UDP-CoAP', 'SCTP')) else KINDS)
        klass = 'dir:%s:%s' % (DIRC[d], 'alt' if nalt else 'bi-only')
        case_match(b, pd, [rule], klass='match-' + klass)
        o = case_compress(b, pd, rule, d, klass='compress-' + klass)
        if o[0] == 'OK':
            case_decompress(b, o[1], rule, d, klass='roundtrip-' + klass, expect=bits_of(pd.raw), side=rnd.choice([L, R]))
        # the same packet travelling the other way meets the other descriptors: matcher and model must agree
        pd.direction = other
        case_match(b, pd, [rule], klass='match-other-direction')
        pd.direction = d
        # ContextManager path
        cm = ContextManager(Context(id='c', description='', interface_id='i', parser_id=stack, ruleset=[rule]))
        d_arg = d if i % 3 else str.__str__(d.value)        # every third manager call gets the direction by value ('Up' / 'Dw')
        out = obs_bits(with_timeout(lambda: cm.compress(Buffer(pkt, len(pkt) * 8), direction=d_arg)))
        nr = n_rule(rule)
        want = ref_compress(dict(n_pdesc(pd), dir=DIRC[d]), nr, DIRC[d])
        fails = [] if out == ('OK', want) else ['manager compress for direction %s gives %s, expected %s' % (DIRC[d], str(out)[:100], (want or 'None')[:100])]
        line = ' '.join(['S', 'cmcompressp', stack, tb(b2s(pkt)), DIRC[d], 'F'] + rules_tokens([nr]))
        b.add('manager-compress-' + klass, line, out, parse_model_bits, fails, dict(layer='schc', op='cmcompress', stack=stack, packet=pkt.hex(), rules=[nr], direction=DIRC[d]), key=line)
        if out[0] == 'OK':
            s = out[1]
            o2 = obs_bits(with_timeout(lambda: cm.decompress(mk(s, R), direction=d_arg)))
            fails = [] if o2 == ('OK', b2s(pkt)) else ['manager decompress for direction %s gives %s' % (DIRC[d], str(o2)[:100])]
            line = ' '.join(['S', 'cmdecompress', tb(s), DIRC[d]] + rules_tokens([nr]))
            b.add('manager-roundtrip-' + klass, line, o2, parse_model_bits, fails, dict(layer='schc', op='cmdecompress', schc=s, rules=[nr], direction=DIRC[d]), key=line)
    # rule sets in which each rule has its own Up / Dw alternatives, under variable-length ids (some equal as integers: 1, 01, 001):
    # each rule must be filtered with ITS OWN descriptors, in matching as in compression and decompression
    for i in range(n // 4):
        stack, pkt, st, pd = gen_parsed(rnd, STACKS[i % len(STACKS)])
        d = rnd.choice([DI.UP, DI.DOWN])
        pd.direction = d
        k = rnd.randint(2, 4)
        ids = rnd.choice([['1', '01', '001', '0001'], ['0', '10', '110', '1110'], ['00', '01', '1'], ['1', '01', '000', '0010']])[:k]
        k = len(ids)
        mine = rnd.randrange(k)
        rs = []
        for j in range(k):
            if j == mine:
                r_, _ = dir_rule(rnd, pd, d)
            else:
                if rnd.random() < 0.5:
                    r_, _ = dir_rule(rnd, pd, d, kinds=('vs', 'vsv', 'lsb', 'ns'))      # applies as well: BEST has to weigh it
                else:
                    _, _, _, pdo = gen_parsed(rnd, stack)
                    pdo.direction = d
                    r_, _ = dir_rule(rnd, pdo, rnd.choice([DI.UP, DI.DOWN]))
            rs.append(RuleDescriptor(id=mk(ids[j], rnd.choice([L, R])), field_descriptors=r_.field_descriptors))
        nrs = [n_rule(r) for r in rs]
        from microschc.ruler.ruler import Ruler
        ruler = Ruler(rs)
        for dd in (d, DI.DOWN if d == DI.UP else DI.UP, d):
            pd.direction = dd
            case_match(b, pd, rs, klass='ruleset-own-descriptors:match', ruler=ruler)
        pd.direction = d
        cm = ContextManager(Context(id='c', description='', interface_id='i', parser_id=stack, ruleset=rs))
        from microschc.manager.manager import MatchStrategy
        npd_d = dict(n_pdesc(pd), dir=DIRC[d])
        first = [nr for nr in nrs if ref_rule_applies(npd_d, nr)]
        # BEST compresses with every applying rule: each candidate must be produced with the descriptors of the packet's direction
        outs_ = [ref_compress(npd_d, nr, DIRC[d]) for nr in first]
        if first and None not in outs_:
            ob = obs_bits(with_timeout(lambda: cm.compress(Buffer(pkt, len(pkt) * 8), direction=d, match_strategy=MatchStrategy.BEST)))
            wb = ('OK', min(outs_, key=len))
            fails = [] if ob == wb else ['rule set with own alternatives per rule, BEST: compress gives %s, expected %s' % (str(ob)[:100], str(wb)[:100])]
            line = ' '.join(['S', 'cmcompressp', stack, tb(b2s(pkt)), DIRC[d], 'B'] + rules_tokens(nrs))
            b.add('ruleset-own-descriptors:compress-best', line, ob, parse_model_bits, fails, dict(layer='schc', op='cmcompress', stack=stack, packet=pkt.hex(), rules=nrs, direction=DIRC[d], strategy='best'), key=line)
        out = obs_bits(with_timeout(lambda: cm.compress(Buffer(pkt, len(pkt) * 8), direction=d)))
        want = ('OK', ref_compress(npd_d, first[0], DIRC[d])) if first else ('EXC', 'RuleDescriptorMatchError')
        fails = [] if out == want else ['rule set with own alternatives per rule: compress gives %s, expected %s' % (str(out)[:100], str(want)[:100])]
        line = ' '.join(['S', 'cmcompressp', stack, tb(b2s(pkt)), DIRC[d], 'F'] + rules_tokens(nrs))
        b.add('ruleset-own-descriptors:compress', line, out, parse_model_bits, fails, dict(layer='schc', op='cmcompress', stack=stack, packet=pkt.hex(), rules=nrs, direction=DIRC[d]), key=line)
        if out[0] == 'OK' and isinstance(out[1], str):
            o2 = obs_bits(with_timeout(lambda: cm.decompress(mk(out[1], R), direction=d)))
            fails = [] if o2 == ('OK', b2s(pkt)) else ['rule set with own alternatives per rule: round trip gives %s' % (str(o2)[:100],)]
            line = ' '.join(['S', 'cmdecompress', tb(out[1]), DIRC[d]] + rules_tokens(nrs))
            b.add('ruleset-own-descriptors:roundtrip', line, o2, parse_model_bits, fails, dict(layer='schc', op='cmdecompress', schc=out[1], rules=nrs, direction=DIRC[d]), key=line)
    # descriptor lists of different LENGTHS per direction: some descriptors exist for one direction only (first, middle, last, a trailing
    # block), so that for the other direction the rule is one or more descriptors short of (or beyond) the packet's fields: it applies
    # in exactly the direction for which the counts agree, and compress / decompress use the same descriptors
    for i in range(n // 2):
        stack, pkt, st, pd = gen_parsed(rnd, STACKS[i % len(STACKS)])
        d = rnd.choice([DI.UP, DI.DOWN])
        other = DI.DOWN if d == DI.UP else DI.UP
        pd.direction = d
        nf = len(pd.fields)
        shape = rnd.choice(['last-d-only', 'last-d-only', 'first-d-only', 'middle-d-only', 'tail-block-d-only', 'extra-other-last', 'extra-other-middle', 'both', 'all-d-only', 'all-d-only', 'only-other-extras', 'only-other-extras'])
        only = set()
        if shape in ('last-d-only', 'both'):
            only = {nf - 1}
        elif shape == 'first-d-only':
            only = {0}
        elif shape == 'middle-d-only':
            only = {rnd.randrange(nf)}
        elif shape == 'tail-block-d-only':
            only = set(range(rnd.randrange(nf), nf))
        elif shape == 'all-d-only':
            only = set(range(nf))            # every descriptor marked d, none Bi: for the other direction the rule has no descriptor at all
        fds = []
        for j, f_ in enumerate(pd.fields):
            fds.append(gen_rfd(rnd, f_, rnd.choice(KINDS), d if j in only else (DI.BIDIRECTIONAL if shape == 'only-other-extras' else rnd.choice([DI.BIDIRECTIONAL, DI.BIDIRECTIONAL, d]))))
            if fds[-1].direction == d and j not in only:
                fds.append(gen_rfd(rnd, f_, rnd.choice(KINDS), other))
        if shape in ('extra-other-last', 'both'):
            fds.append(gen_rfd(rnd, pd.fields[-1], rnd.choice(('vs', 'ns', 'lsb')), other))
        if shape == 'only-other-extras':
            # every descriptor Bi, plus descriptors for the OTHER direction only (optional fields that direction carries), in front of
            # descriptors that follow: no descriptor is marked d itself, and still only d / Bi ones are used for d
            for _ in range(rnd.randint(1, 3)):
                j = rnd.randrange(len(fds))
                fds.insert(j, gen_rfd(rnd, rnd.choice(pd.fields), rnd.choice(('vs', 'ns', 'lsb', 'vsv')), other))
        if shape == 'extra-other-middle':
            j = rnd.randrange(len(fds) + 1)
            fds.insert(j, gen_rfd(rnd, rnd.choice(pd.fields), rnd.choice(('vs', 'ns', 'lsb')), other))
        rule = RuleDescriptor(id=mk(randbits(rnd, rnd.randint(1, 8)), rnd.choice([L, R])), field_descriptors=fds)
        nr = n_rule(rule)
        cm = ContextManager(Context(id='c', description='', interface_id='i', parser_id=stack, ruleset=[rule]))
        for dd in (other, d, other):
            pd.direction = dd
            case_match(b, pd, [rule], klass='descriptor-count:%s:match' % shape)
            npd_d = dict(n_pdesc(pd), dir=DIRC[dd])
            applies = ref_rule_applies(npd_d, nr)
            rep.hist['descriptor-count:%s:%s' % (shape, 'applies' if applies else 'does-not-apply')] = rep.hist.get('descriptor-count:%s:%s' % (shape, 'applies' if applies else 'does-not-apply'), 0) + 1
            out = obs_bits(with_timeout(lambda: cm.compress(Buffer(pkt, len(pkt) * 8), direction=dd)))
            want = ('OK', ref_compress(npd_d, nr, DIRC[dd])) if applies else ('EXC', 'RuleDescriptorMatchError')
            fails = [] if out == want else ['rule with %s descriptors, direction %s: manager compress gives %s, expected %s' % (shape, DIRC[dd], str(out)[:100], str(want)[:100])]
            line = ' '.join(['S', 'cmcompressp', stack, tb(b2s(pkt)), DIRC[dd], 'F'] + rules_tokens([nr]))
            b.add('descriptor-count:compress', line, out, parse_model_bits, fails, dict(layer='schc', op='cmcompress', stack=stack, packet=pkt.hex(), rules=[nr], direction=DIRC[dd]), key=(line, i))
            if out[0] == 'OK' and isinstance(out[1], str):
                o2 = obs_bits(with_timeout(lambda: cm.decompress(mk(out[1], R), direction=dd)))
                fails = [] if o2 == ('OK', b2s(pkt)) else ['rule with %s descriptors, direction %s: round trip gives %s' % (shape, DIRC[dd], str(o2)[:100])]
                line = ' '.join(['S', 'cmdecompress', tb(out[1]), DIRC[dd]] + rules_tokens([nr]))
                b.add('descriptor-count:roundtrip', line, o2, parse_model_bits, fails, dict(layer='schc', op='cmdecompress', schc=out[1], rules=[nr], direction=DIRC[dd]), key=(line, i))
        pd.direction = d
    # one long-lived ContextManager serving both directions in turn (what it did for Up must not leak into Dw)
    for i in range(n // 4):
        stack, pkt, st, pd = gen_parsed(rnd, STACKS[i % len(STACKS)])
        pd.direction = DI.UP
        up, _ = dir_rule(rnd, pd, DI.UP)
        # make the rule serve both directions: its alternative descriptors for Dw match the packet as well
        fds = []
        for f_, rf in zip([x for x in pd.fields for _ in (0,)], []):
            pass
        both = []
        spoil = rnd.choice([None, None, DI.UP, DI.DOWN])     # in some rules one direction's alternatives do NOT match the packet
        for f_ in pd.fields:
            if rnd.random() < 0.4:
                pair = [gen_rfd(rnd, f_, rnd.choice(KINDS), DI.UP), gen_rfd(rnd, f_, rnd.choice(KINDS), DI.DOWN)]
                for alt in pair:
                    if spoil is not None and alt.direction == spoil and f_.value.length > 0 and rnd.random() < 0.5:
                        fb = bits_of(f_.value)
                        alt.target_value = mk(('1' if fb[0] == '0' else '0') + fb[1:])
                        alt.matching_operator = MO.EQUAL
                        alt.compression_decompression_action = CDA.NOT_SENT
                        alt.length = len(fb)
                both += pair
            else:
                both.append(gen_rfd(rnd, f_, rnd.choice(KINDS), DI.BIDIRECTIONAL))
        rule = RuleDescriptor(id=mk(randbits(rnd, rnd.randint(1, 12)), rnd.choice([L, R])), field_descriptors=both)
        nr = n_rule(rule)
        cm = ContextManager(Context(id='c', description='', interface_id='i', parser_id=stack, ruleset=[rule]))
        for d in (DI.UP, DI.DOWN, DI.DOWN, DI.UP):
            out = obs_bits(with_timeout(lambda: cm.compress(Buffer(pkt, len(pkt) * 8), direction=d)))
            npd_d = dict(n_pdesc(pd), dir=DIRC[d])
            want = ('OK', ref_compress(npd_d, nr, DIRC[d])) if ref_rule_applies(npd_d, nr) else ('EXC', 'RuleDescriptorMatchError')
            fails = [] if out == want else ['long-lived manager, direction %s: compress gives %s, expected %s' % (DIRC[d], str(out)[:100], str(want)[:100])]
            line = ' '.join(['S', 'cmcompressp', stack, tb(b2s(pkt)), DIRC[d], 'F'] + rules_tokens([nr]))
            b.add('manager-both-directions:compress', line, out, parse_model_bits, fails, dict(layer='schc', op='cmcompress', stack=stack, packet=pkt.hex(), rules=[nr], direction=DIRC[d]), key=(line, d, i))
            if out[0] == 'OK' and isinstance(out[1], str):
                o2 = obs_bits(with_timeout(lambda: cm.decompress(mk(out[1], R), direction=d)))
                fails = [] if o2 == ('OK', b2s(pkt)) else ['long-lived manager, direction %s: round trip gives %s' % (DIRC[d], str(o2)[:100])]
                line = ' '.join(['S', 'cmdecompress', tb(out[1]), DIRC[d]] + rules_tokens([nr]))
                b.add('manager-both-directions:roundtrip', line, o2, parse_model_bits, fails, dict(layer='schc', op='cmdecompress', schc=out[1], rules=[nr], direction=DIRC[d]), key=(line, d, i))
    b.run()


def replay(case):
    from p_schc_common import replay_schc
    return replay_schc(case)
