"""C19 -- CoAP semantic option view is a lossless re-encoding of the options."""
from core import rng_for, mk, bits_of, L, R, randbits, Buffer, impl_outcome
from schc_run import Batch, with_timeout
from schc_util import fid_of, tb
from gens import b2s
import packets as P
from microschc.protocol.coap import CoAPParser, CoAPOptionMode
from microschc.protocol.udp import UDPParser
from microschc.parser.parser import PacketParser
from microschc.rfc8724 import (RuleFieldDescriptor, RuleDescriptor, DirectionIndicator as DI, MatchingOperator as MO,
                               CompressionDecompressionAction as CDA)
from microschc.compressor.compressor import compress
from microschc.decompressor.decompressor import decompress

RULE = ('CoAP messages with option sequences over known and unknown option numbers (incl. 23, absent from the library\'s table), deltas in '
        '0..12, 13..268, >= 269 incl. exactly 12, 13, 14, 268, 269, 270, value lengths 0, 1..12, 13..268, >= 269 incl. exactly 12, 13, 268, '
        '269, repeated options, token 0..8, with and without payload: (1) semantic parse and (2) unparse of its fields, each compared with '
        'the extracted Coq model; oracle: unparse(semantic fields) == syntactic field sequence (ids and values) of the same message; '
        '(3) UDP+CoAP packets through PacketParser with a semantic CoAP parser: compress with an all-value-sent rule and decompress '
        'with the parser as un-parser must give back the packet; malformed messages (truncations, flips) for correspondence of the '
        'semantic parser; distinct by driver line')
ASSUMPTIONS = ['options appear with non-decreasing numbers (deltas are non-negative by construction of the wire format)']

DELTAS = [0, 1, 5, 11, 12, 13, 14, 15, 20, 100, 255, 268, 269, 270, 300, 1000, 40000, 60000, 65535, 65803, 65804]
LENS = [0, 1, 2, 11, 12, 13, 14, 20, 267, 268, 269, 270, 300, 600]


def fields_obs(fields):
    return tuple((fid_of(i), bits_of(v)) for i, v in fields)


def parse_model_unparse(line):
    if line.startswith('EXC '):
        return ('EXC', line[4:])
    if not line.startswith('OK'):
        return ('BAD', line)
    out = []
    for tok in line[3:].split():
        a, bits = tok.split('/')
        out.append(((a[0], int(a[1:])), '' if bits == '-' else bits))
    return ('OK', tuple(out))


def parse_model_sem(line):
    if line.startswith('EXC '):
        return ('EXC', line[4:])
    if not line.startswith('OK'):
        return ('BAD', line)
    fs, _, n = line[3:].rpartition('|')
    out = []
    for tok in fs.split():
        a, pos, bits = tok.split('/')
        out.append(((a[0], int(a[1:])), int(pos), '' if bits == '-' else bits))
    return ('OK', (tuple(out), int(n)))


def raw_fields_obs(fl):
    from core import raw
    return tuple((fid_of(i), raw(v)) for i, v in fl)


def parse_model_unparse_raw(line):
    if line.startswith('OK'):
        out = []
        for tok in line[3:].split():
            a, r_ = tok.split('/', 1)
            out.append(((a[0], int(a[1:])), r_))
        return ('OK', tuple(out))
    if line.startswith('EXC '):
        return ('EXC', line[4:])
    return ('BAD', line)


def parse_model_sem_raw(line):
    if line.startswith('OK'):
        fs, _, n = line[3:].rpartition('|')
        out = []
        for tok in fs.split():
            a, pos, r_ = tok.split('/', 2)
            out.append(((a[0], int(a[1:])), int(pos), r_))
        return ('OK', (tuple(out), int(n)))
    if line.startswith('EXC '):
        return ('EXC', line[4:])
    return ('BAD', line)


def bytes_unparse_case(b, sem, fl, klass):
    """the same un-parse on the byte-level model (CoapSemanticBytes.bcoap_unparse): every produced field Buffer raw-exact"""
    from core import raw
    toks = ['Y', 'bunparse', str(len(fl))]
    for i_, v in fl:
        fi = fid_of(i_)
        toks += [fi[0], str(fi[1]), raw(v)]
    o = with_timeout(lambda: raw_fields_obs(sem.unparse(fl)))
    b.add('bytes:' + klass, ' '.join(toks), o, parse_model_unparse_raw, None, dict(layer='coap-bytes', op='unparse'), key=' '.join(toks))


def bytes_parsesem_case(b, sem, pkt, klass):
    from core import raw
    buf = Buffer(pkt, len(pkt) * 8)
    line = 'Y bparsesem ' + raw(buf)

    def f():
        hd = sem.parse(buf)
        return (tuple((fid_of(x.id), x.position, raw(x.value)) for x in hd.fields), hd.length)
    b.add('bytes:' + klass, line, with_timeout(f), parse_model_sem_raw, None, dict(layer='coap-bytes', op='parsesem'), key=line)


def run(rep, tier, seed):
    rnd = rng_for(seed, 'C19')
    b = Batch(rep)
    sem = CoAPParser(interpret_options=CoAPOptionMode.SEMANTIC)
    syn = CoAPParser()
    fresh_tasks, fresh_expected = [], []
    n = 1200 if tier == 'quick' else 12000
    for i in range(n):
        k = rnd.choice([0, 1, 1, 2, 3, 5])
        opts = []
        for _ in range(k):
            d = rnd.choice(DELTAS) if rnd.random() < 0.6 else rnd.randint(0, 30)
            l = rnd.choice(LENS) if rnd.random() < 0.5 else rnd.randint(0, 16)
            opts.append((d, l))
        if i < len(DELTAS) * len(LENS):           # every (delta class, length class) combination at least once
            opts = [(DELTAS[i % len(DELTAS)], LENS[i // len(DELTAS)])] + opts[:1]
        if i in (7, 8):
            opts = [(rnd.choice([3, 300]), 65536 if i == 7 else 65804)] + opts[:1]      # the longest values RFC 7252 can encode (> 64 KiB)
        if i in (12, 13, 14, 15):
            # two options of one message whose (delta, length) pairs coincide once the length is cut to 16 bits and the overflow carried into
            # the delta: (d, L) with L >= 65536 next to (d + 1, L - 65536), in either order
            x_ = rnd.choice([0, 1, 4, 12, 13])
            d_ = rnd.choice([0, 1, 12, 300])
            pair = [(d_ + 1, x_), (d_, 65536 + x_)]
            opts = pair if i % 2 == 0 else pair[::-1]
        if i in (9, 10, 11):
            opts = [(65804, 1), (65804, 0), (rnd.choice([1, 60000]), 2)]                # option numbers beyond 100000
        payload = None if rnd.random() < 0.7 else b''
        pkt, st = P.coap(rnd, opts=opts, payload=payload)
        if i % 5 == 4 and st['options']:
            # the same option number again (delta 0) with exactly the value of an EARLIER occurrence (Uri-Path a / a, a query repeated, an
            # empty option twice): the message is rebuilt with those repeats
            o0 = list(st['options'])
            first_d, first_l, first_v = o0[0]
            rep_ = [(first_d, first_v)] + [(0, rnd.choice([first_v, rnd.randbytes(len(first_v)), first_v])) for _ in range(rnd.randint(1, 3))] + ([(o0[1][0], o0[1][2]), (0, o0[1][2])] if len(o0) > 1 else [])
            b_ = pkt[:4 + st['tkl']]
            for d_, v_ in rep_:
                dn, de = P.ext(d_)
                ln, le = P.ext(len(v_))
                b_ += bytes([dn << 4 | ln]) + de + le + v_
            pkt = b_ + ((b'\xff' + st['payload']) if st['payload'] else b'')
            opts = [(d_, len(v_)) for d_, v_ in rep_]
            rep.hist['options-repeated-with-equal-values'] = rep.hist.get('options-repeated-with-equal-values', 0) + 1
        bits = b2s(pkt)
        buf = Buffer(pkt, len(pkt) * 8)
        # (1) semantic parse
        def f1():
            hd = sem.parse(buf)
            return (tuple((fid_of(x.id), x.position, bits_of(x.value)) for x in hd.fields), hd.length)
        o1 = with_timeout(f1)
        fails = []
        if o1[0] != 'OK':
            fails.append('semantic parse of a well-formed message raised %s (options %s)' % (o1[1], opts))
        b.add('semantic-parse', 'S parsesem %s' % tb(bits), o1, parse_model_sem, fails, dict(layer='coap', op='parsesem', bits=bits, options=opts), key=('sem', bits))
        if len(bits) <= 12000:
            bytes_parsesem_case(b, sem, pkt, 'semantic-parse')
        if o1[0] != 'OK':
            continue
        # the same long-lived parser object has just been asked to un-parse something it rejects (or not): no state may survive that
        if i % 4 == 0:
            junk = [(rnd.choice(['CoAP:Option Uri-Path', 'CoAP:Option Size1', 'CoAP:Option Block2', 'CoAP:Option Unknown', 'CoAP:Option Uri-Host']), mk(randbits(rnd, 8 * rnd.choice([0, 1, 2, 13]))))
                    for _ in range(rnd.randint(1, 4))]
            rep.hist['unparse:after-%s' % with_timeout(lambda: sem.unparse(junk))[0]] = rep.hist.get('unparse:after-%s' % with_timeout(lambda: sem.unparse(junk))[0], 0) + 1
        # (2) unparse
        semf = [(x.id, x.value) for x in sem.parse(buf).fields]
        want = fields_obs([(x.id, x.value) for x in syn.parse(buf).fields])
        semf_before = list(semf)
        o2 = with_timeout(lambda: fields_obs(sem.unparse(semf)))
        fails = []
        if semf != semf_before or len(semf) != len(semf_before):
            fails.append('unparse changed the field list it was given (%d entries before, %d after)' % (len(semf_before), len(semf)))
        o2b = with_timeout(lambda: fields_obs(sem.unparse(semf_before)))
        if o2b != o2:
            fails.append('un-parsing the same parsed fields a second time gives %s instead of %s' % (str(o2b)[:100], str(o2)[:100]))
        # field ids as a context loaded from JSON carries them: plain strings equal to the enum members
        plain = [((str.__str__(i_) if isinstance(i_, str) else i_), v) for i_, v in semf_before]
        o2c = with_timeout(lambda: fields_obs(sem.unparse(plain)))
        if o2c != o2:
            fails.append('un-parsing with plain-string field ids (as loaded from JSON) gives %s instead of %s' % (str(o2c)[:100], str(o2)[:100]))
        if o2 != ('OK', want):
            got = o2[1] if o2[0] == 'OK' else o2[1]
            fails.append('unparse of the semantic fields gives %s, the syntactic parse gives %s (options %s)' % (str(got)[:150], str(want)[:150], opts))
        toks = ['S', 'unparse', str(len(semf))]
        for i_, v in semf:
            fi = fid_of(i_)
            toks += [fi[0], str(fi[1]), tb(bits_of(v))]
        b.add('unparse', ' '.join(toks), o2, parse_model_unparse, fails, dict(layer='coap', op='unparse', bits=bits, options=opts), key=('un', bits))
        if len(fresh_tasks) < 160 and len(bits) < 24000:
            # the decompressor's host has never parsed this message: it un-parses the field list it rebuilt (ids as plain strings)
            fresh_tasks.append(dict(op='unparse-semantic', fields=[[str.__str__(i_) if isinstance(i_, str) else str(i_), bits_of(v)] for i_, v in semf_before]))
            fresh_expected.append((o2[0], tuple((str(getattr(i_, 'value', i_)), bits_of(v)) for i_, v in sem.unparse(list(semf_before)))) if o2[0] == 'OK' else o2)
        if len(bits) <= 12000:
            bytes_unparse_case(b, sem, semf, 'unparse')
        for d, l in opts:
            rep.hist['delta:%s' % ('0-12' if d < 13 else '13-268' if d < 269 else '269+')] = rep.hist.get('delta:%s' % ('0-12' if d < 13 else '13-268' if d < 269 else '269+'), 0) + 1
            rep.hist['length:%s' % ('0' if l == 0 else '1-12' if l < 13 else '13-268' if l < 269 else '269+')] = rep.hist.get('length:%s' % ('0' if l == 0 else '1-12' if l < 13 else '13-268' if l < 269 else '269+'), 0) + 1
    import freshproc
    freshproc.compare(rep, 'C19:unparse', fresh_tasks, fresh_expected, lambda t: 'un-parse of %d semantic fields' % len(t['fields']))
    # unparse on arbitrary (ill-ordered / foreign) field lists: correspondence only
    for _ in range(100 if tier == 'quick' else 1000):
        from microschc.protocol.coap import CoAPFields
        unk = lambda n: f"{CoAPFields.OPTION_UNKNOWN}({n})"  # noqa: E731 -- the library's own spelling of an unknown option id
        ids = ['CoAP:Version', 'CoAP:Option Uri-Path', unk(2), 'CoAP:Option Size1', unk(70000), 'CoAP:Option Unknown', 'UDP:Length', 'CoAP:Option Delta', 'CoAP:Payload Marker']
        fl = [(rnd.choice(ids), mk(randbits(rnd, 8 * rnd.choice([0, 1, 2, 12, 13])))) for _ in range(rnd.randint(0, 4))]
        o = with_timeout(lambda: fields_obs(sem.unparse(fl)))
        toks = ['S', 'unparse', str(len(fl))]
        for i_, v in fl:
            fi = fid_of(i_)
            toks += [fi[0], str(fi[1]), tb(bits_of(v))]
        b.add('unparse-any', ' '.join(toks), o, parse_model_unparse, None, dict(layer='coap', op='unparse'), key=' '.join(toks))
        bytes_unparse_case(b, sem, fl, 'unparse-any')
    # an unrecognised field id after an option: the code builds the option fields in a finally clause, so a value of 65805 bytes or
    # more turns the UnparserError into an OverflowError (both models follow the code)
    for nbytes in (65804, 65805):
        fl = [('CoAP:Option Uri-Path', mk('00000001')), ('bogus', Buffer(bytes(nbytes), nbytes * 8))]
        o = with_timeout(lambda: fields_obs(sem.unparse(fl)))
        toks = ['S', 'unparse', str(len(fl))]
        for i_, v in fl:
            fi = fid_of(i_)
            toks += [fi[0], str(fi[1]), tb(bits_of(v))]
        b.add('unparse-any', ' '.join(toks), o, parse_model_unparse, None, dict(layer='coap', op='unparse', note='finally clause, %d bytes' % nbytes), key=('fin', nbytes))
    # malformed messages through the semantic parser (correspondence + only ParserError)
    for _ in range(150 if tier == 'quick' else 2000):
        pkt, st = P.coap(rnd)
        bad = rnd.choice(P.truncations(pkt, rnd, 3) + P.bitflips(pkt, rnd, 3))
        bits = b2s(bad)

        def f():
            hd = sem.parse(Buffer(bad, len(bad) * 8))
            return (tuple((fid_of(x.id), x.position, bits_of(x.value)) for x in hd.fields), hd.length)
        o = with_timeout(f)
        fails = [] if (o[0] == 'OK' or o[1] == 'ParserError') else ['semantic parser raised %s' % o[1]]
        b.add('semantic-parse-malformed', 'S parsesem %s' % tb(bits), o, parse_model_sem, fails, dict(layer='coap', op='parsesem', bits=bits), key=('semm', bits))
    b.run()
    # (3) the whole pipeline: PacketParser with a semantic CoAP parser as parser and un-parser
    pp = PacketParser('UDP-CoAP-semantic', [UDPParser(), CoAPParser(interpret_options=CoAPOptionMode.SEMANTIC)])
    for _ in range(200 if tier == 'quick' else 2000):
        pkt, st = P.pkt_udp_coap(rnd)
        buf = Buffer(pkt, len(pkt) * 8)

        def f():
            pd = pp.parse(buf)
            rule = RuleDescriptor(id=Buffer(b'\x01', 2), field_descriptors=[RuleFieldDescriptor(x.id, 0, x.position, DI.BIDIRECTIONAL, Buffer(b'', 0), MO.IGNORE, CDA.VALUE_SENT) for x in pd.fields])
            return bits_of(decompress(compress(pd, rule), rule, unparser=pp))
        o = with_timeout(f)
        rep.count('pipeline', key=('pipe', pkt))
        rep.oracle_evals += 1
        if o != ('OK', b2s(pkt)):
            rep.violation('property', 'pipeline: semantic parse, compress, decompress with un-parser gives %s for options %s' % (str(o)[:100], [(d, l) for d, l, v in st['options']]),
                          dict(layer='coap', op='pipeline', packet=pkt.hex()))


def replay(case):
    return 're-run ./check C19 (cases are regenerated from the seed)'
