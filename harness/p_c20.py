"""C20 -- Decompression is total: any bit string gives a buffer or the rule-ID error."""
from core import rng_for, mk, bits_of, L, R, randbits, Buffer
from schc_run import Batch, obs_bits, with_timeout, parse_model_bits
from schc_util import n_rule, n_pdesc, rules_tokens, tb, ref_compress, gen_rule, KINDS, fid_of
from gens import gen_parsed, gen_ruleset, b2s
from microschc.rfc8724extras import Context
from microschc.manager import ContextManager
from microschc.rfc8724 import DirectionIndicator as DI

RULE = ('rule sets as for C01 (every CDA incl. compute on every computable field of the stack, fixed and variable lengths, '
        'mappings, default rule in half of them) x SCHC packets: a valid one, every byte truncation and random bit truncations, '
        '1..3 bit flips, random strings of 0..2000 bits, rule id only, rule id followed by size prefixes announcing more bits than '
        'present (1111 / 1111 1111 1111 escapes); ContextManager.decompress outcome (bits or exception class, wall clock limit 5 s) '
        'compared with the extracted Coq model; the property oracle accepts only a Buffer or RuleIDMatchError; distinct by driver line')
ASSUMPTIONS = ['well-formed rule sets (target value types match their action, compute only on computable fields inside their stack, non-empty, prefix-free ids)',
               'bit strings shorter than 65535 bytes (16-bit length fields)']
STACKS = ['IPv6-UDP-CoAP', 'IPv4-UDP-CoAP', 'UDP', 'CoAP', 'SCTP']
OKEXC = ('RuleIDMatchError',)


def one(b, cm, nrs, s, side, klass):
    sb_ = mk(s, side)
    from core import raw
    from schc_run import bytes_cm_decompress
    rawtok = raw(sb_)
    res_ = with_timeout(lambda: cm.decompress(sb_), 5)
    out = obs_bits(res_)
    bytes_cm_decompress(b, klass, rawtok, None, cm.context.ruleset, res_)
    fails = []
    if out[0] == 'EXC' and out[1] not in OKEXC:
        fails.append('decompress raised %s on a %d-bit string' % (out[1], len(s)))
    if out[0] == 'OK' and not isinstance(out[1], str):
        fails.append('decompress returned %r' % (out[1],))
    line = ' '.join(['S', 'cmdecompress', tb(s), 'N'] + rules_tokens(nrs))
    b.add(klass, line, out, parse_model_bits, fails, dict(layer='schc', op='cmdecompress', schc=s, rules=nrs, side='L' if side == L else 'R', total=True), key=line)


def huge_frames(rep, rnd, tier):
    """frames of more than 65535 bytes (a jumbo link, two frames glued together, noise) under IPv6: a rule that computes only the UDP checksum (so that
    no 16-bit length field has to hold the size) still gives a buffer; oracle on the implementation only (the models are not run on half a
    million bits)"""
    import packets as P
    from schc_run import parser_for
    from schc_util import gen_rfd, COMPUTABLE
    from microschc.rfc8724 import RuleDescriptor as _RD
    for k in range(2 if tier == 'quick' else 8):
        v6 = True      # IPv4 cannot say such a length in its pseudo-header (16 bits): code and model raise OverflowError there, outside the bound of c20_*
        src, dst = (rnd.randbytes(16), rnd.randbytes(16)) if v6 else (rnd.randbytes(4), rnd.randbytes(4))
        u = P.udp(rnd, rnd.randbytes(20), csum=(lambda x: P.udp_checksum_v6(src, dst, x)) if v6 else (lambda x: P.udp_checksum_v4(src, dst, x)), dport=53)
        pkt = P.ipv6(rnd, u, 17, src, dst) if v6 else P.ipv4(rnd, u, 17, src, dst)
        stack = 'IPv6' if v6 else 'IPv4'
        pd = parser_for(stack).parse(Buffer(pkt, len(pkt) * 8))
        fds = [gen_rfd(rnd, f, 'comp' if str(getattr(f.id, 'value', f.id)) == 'UDP:Checksum' else 'vs', DI.BIDIRECTIONAL) for f in pd.fields]
        rule = _RD(id=mk(randbits(rnd, 5)), field_descriptors=fds)
        cm = ContextManager(Context(id='ch', description='', interface_id='i', parser_id=stack, ruleset=[rule]))
        from schc_util import ref_compress
        head = ref_compress(n_pdesc(pd), n_rule(rule))
        if head is None:
            continue
        head = head[:len(head) - len(bits_of(pd.payload))]
        for nbytes in ((65528, 65800) if tier == 'quick' else (65527, 65528, 65529, 65536, 65800, 70000)):
            s_ = head + randbits(rnd, 8 * nbytes)
            out = obs_bits(with_timeout(lambda: cm.decompress(mk(s_, R)), 15))
            rep.count('huge-frame', key=('huge', k, nbytes))
            rep.oracle_evals += 1
            if out[0] == 'EXC' and out[1] not in OKEXC or out[0] == 'OK' and not isinstance(out[1], str):
                rep.violation('property', 'decompress of a %d-byte frame with a rule computing only the UDP checksum (%s) gave %s' % (len(s_) // 8, stack, str(out)[:80]),
                              dict(layer='schc', op='cmdecompress-huge', stack=stack, head=head, payload_bytes=nbytes, rule=n_rule(rule)))
                return


def run(rep, tier, seed):
    rnd = rng_for(seed, 'C20')
    b = Batch(rep)
    huge_frames(rep, rng_for(seed, 'C20-huge'), tier)
    n = 100 if tier == 'quick' else 1000
    for i in range(n):
        stack, pkt, st, pd = gen_parsed(rnd, STACKS[i % len(STACKS)])
        pd.direction = DI.UP
        rules = gen_ruleset(rnd, pd, match_prob=0.9)
        # the property's domain is well-formed rule sets: a near-miss mutant whose edit moved, duplicated, dropped or re-labelled
        # fields around a compute action (compute on a field that has no compute function, or outside its stack layout) is
        # replaced by a well-formed rule under the same id
        pd_ids = [fid_of(f.id) for f in pd.fields]
        for k, r in enumerate(rules):
            nr_ = n_rule(r)
            if any(f['cda'] == 'c' for f in nr_['fds']) and ([tuple(f['fid']) for f in nr_['fds']] != [tuple(x) for x in pd_ids]
                                                             or any(f['cda'] == 'c' and f['len'] != len(bits_of(pf.value)) for f, pf in zip(nr_['fds'], pd.fields))):
                rules[k] = gen_rule(rnd, pd, nr_['id'], kinds=KINDS)
                rep.hist['ill-formed-mutant-replaced'] = rep.hist.get('ill-formed-mutant-replaced', 0) + 1
        nrs = [n_rule(r) for r in rules]
        cm = ContextManager(Context(id='c', description='', interface_id='i', parser_id=stack, ruleset=rules))
        npd = n_pdesc(pd)
        valid = [x for x in (ref_compress(npd, nr) for nr in nrs) if x is not None]
        for v in valid[:3]:
            one(b, cm, nrs, v, rnd.choice([L, R]), 'valid')
            cuts = list(range(0, len(v), 8)) + [rnd.randrange(len(v) + 1) for _ in range(6)]
            if tier == 'quick' and len(cuts) > 24:
                cuts = rnd.sample(cuts, 24)
            for c in cuts:
                one(b, cm, nrs, v[:c], rnd.choice([L, R]), 'truncated')
            for _ in range(8):
                w = list(v)
                for _ in range(rnd.randint(1, 3)):
                    if w:
                        j = rnd.randrange(len(w))
                        w[j] = '1' if w[j] == '0' else '0'
                one(b, cm, nrs, ''.join(w), rnd.choice([L, R]), 'bitflip')
        for nr in nrs:
            one(b, cm, nrs, nr['id'], rnd.choice([L, R]), 'id-only')
            for esc in ('1111', '111111111111', '1111' + '1' * 8, '1' * 28, '1' * 27, '1111' + '11111110', '1' * 12 + '1' * 16,
                        '1' * 12 + format(rnd.choice([0, 1, 14, 15, 200, 254]), '016b'), '1' * 12 + format(rnd.choice([255, 256, 300]), '016b'), '1111' + format(rnd.randrange(15), '08b')):
                one(b, cm, nrs, nr['id'] + esc + randbits(rnd, rnd.choice([0, 3, 9])), rnd.choice([L, R]), 'size-escape')
        for _ in range(12):
            one(b, cm, nrs, randbits(rnd, rnd.randint(0, 2000)), rnd.choice([L, R]), 'random')
            one(b, cm, nrs, rnd.choice(nrs)['id'] + randbits(rnd, rnd.randint(0, 300)), rnd.choice([L, R]), 'id+random')
        one(b, cm, nrs, '', L, 'empty')
        if i % 6 == 1:
            # a rule whose match-mapping has no entry yet (legal: it builds, serialises and reloads; it matches nothing at compression):
            # frames that start with its id decompress to a buffer like any other
            from core import mkmap
            from microschc.rfc8724 import RuleFieldDescriptor as _RFD, RuleDescriptor as _RD2, MatchingOperator as _MO, CompressionDecompressionAction as _CDA
            used_ = [nr['id'] for nr in nrs]
            for _ in range(30):
                cand = randbits(rnd, rnd.randint(2, 10))
                if all(not cand.startswith(u) and not u.startswith(cand) for u in used_):
                    base = rules[0].field_descriptors if rules and rules[0].field_descriptors else []
                    k_ = rnd.randrange(len(base)) if base else 0
                    fds_ = list(base)
                    if base:
                        o_ = base[k_]
                        fds_[k_] = _RFD(o_.id, o_.length, o_.position, o_.direction, mkmap({}), _MO.MATCH_MAPPING, _CDA.MAPPING_SENT)
                    r_e = _RD2(id=mk(cand, rnd.choice([L, R])), field_descriptors=fds_)
                    cm_e = ContextManager(Context(id='ce', description='', interface_id='i', parser_id=stack, ruleset=[r_e]))
                    for _k in range(4):
                        one(b, cm_e, [n_rule(r_e)], cand + randbits(rnd, rnd.choice([0, 0, 7, 40, 300])), rnd.choice([L, R]), 'rule-with-empty-mapping')
                    break
        if i % 8 == 0:
            # a rule set without any rule (a context being provisioned): every frame gets the rule-ID error
            cm0 = ContextManager(Context(id='c0', description='', interface_id='i', parser_id=stack, ruleset=[]))
            for s0 in ('', randbits(rnd, rnd.randint(1, 60)), rnd.choice(nrs)['id']):
                one(b, cm0, [], s0, rnd.choice([L, R]), 'empty-rule-set')
        if i % 5 == 0:
            # a rule of fragmentation nature shares the id space: a frame that starts with its id is dispatched to it by id alone;
            # it has no descriptors, so everything after the id comes back
            from microschc.rfc8724 import RuleDescriptor as _RD, RuleNature as _RN
            from schc_util import prefix_free_ids as _pf
            used_ = [nr['id'] for nr in nrs]
            for _ in range(30):
                cand = randbits(rnd, rnd.randint(2, 10))
                if all(not cand.startswith(u) and not u.startswith(cand) for u in used_):
                    rules.append(_RD(id=mk(cand, rnd.choice([L, R])), nature=_RN.FRAGMENTATION))
                    nrs = [n_rule(r) for r in rules]
                    for _k in range(3):
                        one(b, cm, nrs, cand + randbits(rnd, rnd.randint(0, 120)), rnd.choice([L, R]), 'fragmentation-rule-id')
                    break
        # the rule set is re-provisioned in place (same rule objects, other well-formed descriptors) and the same manager goes on
        if i % 2 == 0:
            _, _, _, pd2 = gen_parsed(rnd, stack)
            pd2.direction = DI.UP
            for k, r in enumerate(rules):
                if r.field_descriptors and rnd.random() < 0.7:
                    r.field_descriptors[:] = gen_rule(rnd, pd2, nrs[k]['id'], kinds=KINDS).field_descriptors
            nrs = [n_rule(r) for r in rules]
            npd2 = n_pdesc(pd2)
            for v in [x for x in (ref_compress(npd2, nr) for nr in nrs) if x is not None][:3]:
                one(b, cm, nrs, v, rnd.choice([L, R]), 're-provisioned:valid')
                one(b, cm, nrs, v[:rnd.randrange(len(v) + 1)], rnd.choice([L, R]), 're-provisioned:truncated')
            for _ in range(6):
                one(b, cm, nrs, rnd.choice(nrs)['id'] + randbits(rnd, rnd.randint(0, 600)), rnd.choice([L, R]), 're-provisioned:id+random')
    # SCHC packets whose regenerated checksums land on corner values (0, 0xFFFF and neighbours: carries folded twice)
    from p_c09 import special_packets
    from schc_run import parser_for
    from schc_util import gen_rfd, COMPUTABLE
    from microschc.rfc8724 import RuleDescriptor
    for stack, pkt in special_packets(rnd):
        pd = parser_for(stack).parse(Buffer(pkt, len(pkt) * 8))
        fds = [gen_rfd(rnd, f, 'comp' if str(getattr(f.id, 'value', f.id)) in COMPUTABLE else rnd.choice(['vs', 'ns', 'lsb']), DI.BIDIRECTIONAL) for f in pd.fields]
        rule = RuleDescriptor(id=mk(randbits(rnd, rnd.randint(1, 8))), field_descriptors=fds)
        nr = n_rule(rule)
        v = ref_compress(n_pdesc(pd), nr)
        if v is not None:
            cm = ContextManager(Context(id='c', description='', interface_id='i', parser_id=stack, ruleset=[rule]))
            one(b, cm, [nr], v, rnd.choice([L, R]), 'checksum-corner')
    b.run()


def replay(case):
    return 're-run ./check C20 (cases are regenerated from the seed)'
