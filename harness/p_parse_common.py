"""Shared runner for the parser properties C07 (tiling), C08 (RFC field boundaries), C14 (totality)."""
from core import rng_for, mk, bits_of, L, R, randbits, Buffer, impl_outcome
from schc_run import Batch, with_timeout, parser_for
from schc_util import fid_of, tb
from gens import STACK_GENS, ALL_STACKS, b2s
import packets as P


def observe(stack, bits, side=L):
    """Parse on the implementation; observation = ('OK', (fields, payload, header-level tiling info)) | ('EXC', name)"""
    def f():
        buf = mk(bits, side)
        pd = parser_for(stack).parse(buf)
        fields = tuple((fid_of(x.id), x.position, bits_of(x.value)) for x in pd.fields)
        return (fields, bits_of(pd.payload))
    return with_timeout(f, 5)


def header_lengths(stack, bits):
    """(reported header length, total length of fields) of each header parser of the stack run on its own buffer"""
    out = []
    buf = mk(bits)
    for p in parser_for(stack).parsers:
        hd = p.parse(buf)
        out.append((hd.length, sum(x.value.length for x in hd.fields), buf.length))
        buf = buf[hd.length:]
    return out


def model_line(stack, bits):
    return 'S parse %s %s' % (stack, tb(bits))


def bytes_case(b, stack, bits, klass):
    """the same parse on the byte-level model (ParserBytes.v: the slices, comparisons and integer reads the parsers perform on
    Buffers): every field Buffer and the payload Buffer must be the same down to bytes, padding side and padding length"""
    from core import raw
    if stack == 'CoAP-semantic' or len(bits) > 12000:      # the byte-level model reads whole contents as numbers: large packets stay with the bit-level model
        return
    buf = mk(bits, L)
    line = 'Y bparse %s %s' % (stack, raw(buf))

    def f():
        pd = parser_for(stack).parse(buf)
        return (tuple((fid_of(x.id), x.position, raw(x.value)) for x in pd.fields), raw(pd.payload))
    out = with_timeout(f, 5)

    def parse(line_):
        if line_.startswith('EXC '):
            return ('EXC', line_[4:])
        if line_ == 'DIVERGE':
            return ('EXC', 'Diverge')
        if not line_.startswith('OK'):
            return ('BAD', line_)
        fs, _, pl = line_[3:].rpartition('|')
        fields = []
        for tok in fs.split():
            a, pos, r_ = tok.split('/')
            fields.append(((a[0], int(a[1:])), int(pos), r_))
        m = ('OK', (tuple(fields), pl.strip()))
        if m != out and out[0] == 'OK':
            from schc_run import same_denotation
            mf, of = m[1][0], out[1][0]
            if len(mf) == len(of) and all(x[:2] == y[:2] and same_denotation(x[2], y[2]) for x, y in zip(mf, of)) and same_denotation(m[1][1], out[1][1]):
                b.rep.drift += 1      # same fields bit for bit, another padding side somewhere: representation drift
                return out
        return m
    b.add('bytes:' + klass.split(':')[0], line, out, parse, None, dict(layer='parser-bytes', stack=stack, bits=bits if len(bits) < 4000 else bits[:4000] + '...'), key=line)


def parse_model(line):
    if line.startswith('EXC '):
        return ('EXC', line[4:])
    if line == 'DIVERGE':
        return ('EXC', 'Diverge')
    if not line.startswith('OK'):
        return ('BAD', line)
    body = line[3:]
    fs, _, pl = body.rpartition('|')
    fields = []
    for tok in fs.split():
        a, pos, bits = tok.split('/')
        fields.append(((a[0], int(a[1:])), int(pos), '' if bits == '-' else bits))
    pl = pl.strip()
    return ('OK', (tuple(fields), '' if pl == '-' else pl))


def malformed_stream(rnd, tier, per_seed=10):
    """(stack, bits, class) cases: truncations (byte and bit granularity), 1..3 bit flips, zero / huge length fields,
    non byte-aligned lengths, random strings"""
    cases = []
    T = tier == 'thorough'
    nseed = 1600 if T else 160
    CONFIGS = ALL_STACKS + ['CoAP-semantic']
    for _ in range(20 if T else 3):
        for stack, pkt in P.minimal_packets(rnd):
            cases.append((stack, b2s(pkt), 'minimal-well-formed'))
            cases.append((stack, b2s(pkt[:-1]), 'minimal-minus-one-byte'))
            cases.append((stack, b2s(pkt)[:-1], 'minimal-minus-one-bit'))
            cases.append((stack, b2s(pkt + rnd.randbytes(1)), 'minimal-plus-one-byte'))
    for i in range(nseed):
        stack = CONFIGS[i % len(CONFIGS)]
        pkt, st = rnd.choice(STACK_GENS['CoAP' if stack == 'CoAP-semantic' else stack])(rnd)
        if 'options' in st and st['options']:
            # reserved nibbles: overwrite the first byte of an option with delta nibble 15 / length nibble 15 / both
            off = len(pkt) - len(st['payload']) - (1 if st['payload'] else 0)
            pos = off
            for d, l, v in reversed(st['options']):
                pos -= len(P.ext(d)[1]) + len(P.ext(l)[1]) + l + 1
                if rnd.random() < 0.6:
                    b_ = bytearray(pkt)
                    b_[pos] = rnd.choice([0xF0 | (b_[pos] & 0x0F), (b_[pos] & 0xF0) | 0x0F, 0xF0 | rnd.randrange(15), 0xFE, 0xF1])
                    cases.append((stack, b2s(bytes(b_)), 'reserved-nibble'))
        bits = b2s(pkt)
        cases.append((stack, bits, 'well-formed'))
        for t in (P.truncations(pkt, rnd, None if T and i % 10 == 0 else per_seed)):
            cases.append((stack, b2s(t), 'truncated-byte'))
        for _ in range(per_seed // 2):
            cases.append((stack, bits[:rnd.randrange(len(bits) + 1)], 'truncated-bit'))
        for t in P.bitflips(pkt, rnd, per_seed):
            cases.append((stack, b2s(t), 'bitflip'))
        # zero / maximal length fields: overwrite a random 16-bit aligned word
        for _ in range(4):
            b = bytearray(pkt)
            if len(b) >= 2:
                j = rnd.randrange(0, len(b) - 1)
                b[j:j + 2] = rnd.choice([b'\0\0', b'\xff\xff', b'\0\1', b'\0\4', b'\xff\0'])
                cases.append((stack, b2s(bytes(b)), 'length-field'))
        cases.append((stack, bits + randbits(rnd, rnd.randint(1, 7)), 'non-aligned'))
    # 1..3 stray bytes at the end of a chunk value (chunk length not a multiple of 4), for every chunk type, bytes present in the buffer
    for ctype in [0, 1, 2, 3, 4, 5, 6, 7, 8, 9, 10, 11, 14, 63] * (4 if T else 1):
        raw, st = P.sctp_chunk(rnd, ctype)
        clen = st['clen']
        body = raw[:clen]
        for r_ in (1, 2, 3):
            nb = body + rnd.randbytes(r_)
            nb = nb[:2] + (clen + r_).to_bytes(2, 'big') + nb[4:]
            pkt, _ = P.sctp(rnd, chunks=[(P.pad4(nb), {})] + ([P.sctp_chunk(rnd)] if r_ == 2 else []))
            cases.append(('SCTP', b2s(pkt), 'stray-bytes-in-chunk'))
            if r_ == 1:
                cases.append(('IPv6', b2s(P.ipv6(rnd, pkt, 132)), 'stray-bytes-in-chunk'))
    for jl in (65533, 65534, 65535):       # the three chunk lengths whose rounding up to a multiple of 4 leaves 16 bits
        cases.append(('SCTP', b2s(P.sctp_large(rnd, 'jumbo', jumbo_len=jl)[0]), 'large-well-formed'))
    # chunks of every type that has a fixed part (DATA 0, INIT 1, INIT ACK 2, SACK 3, HEARTBEAT 4, ABORT 6, SHUTDOWN 7, ERROR 9, COOKIE ECHO 10,
    # ECNE 12, CWR 13 ...) whose declared length (4..15) is shorter than that fixed part but lies inside the packet, followed or not by
    # another chunk: the value handed to the chunk parser is 0..11 bytes long
    import struct as _st
    for ctype in (list(range(0, 16)) + [64, 128, 192, 255] if T else [0, 1, 2, 3, 3, 4, 6, 7, 9, 10, 12, 13, 14]):
        for clen in ([4, 5, 6, 7, 8, 9, 10, 11, 12, 13, 15] if T else [rnd.choice([5, 6, 7]), 8, rnd.choice([9, 10, 11]), 12]):
            body = rnd.randbytes(clen - 4) + b'\0' * ((4 - clen % 4) % 4)
            tail = rnd.choice([b'', P.sctp_chunk(rnd)[0]])
            raw = _st.pack('!BBH', ctype, rnd.randrange(256), clen) + body + tail
            pkt, _ = P.sctp(rnd, chunks=[(raw, {})])
            for stack, full in (('SCTP', pkt), ('IPv6', P.ipv6(rnd, pkt, 132))):
                cases.append((stack, b2s(full), 'short-typed-chunk'))
    # parameters / error causes whose 16-bit length field is 0..3 (less than their own 4-byte header), in every chunk type that is walked as
    # parameters, first or after a well-formed parameter, bytes present in the buffer
    for ctype in (1, 2, 4, 5, 6, 9):
        for plen in (0, 1, 2, 3):
            for lead in ((False, True) if T else (rnd.random() < 0.5,)):
                bad = _st.pack('!HH', rnd.choice([rnd.randrange(65536), 1, 5, 0x8005]), plen) + rnd.randbytes(rnd.choice([0, 4]))
                value = (rnd.randbytes(16) if ctype in (1, 2) else b'') + (P.sctp_param(rnd)[0] if lead else b'') + bad
                raw = _st.pack('!BBH', ctype, rnd.randrange(256), 4 + len(value)) + value
                pkt, _ = P.sctp(rnd, chunks=[(raw, {})] + ([P.sctp_chunk(rnd)] if rnd.random() < 0.3 else []))
                for stack, full in (('SCTP', pkt), ('IPv4', P.ipv4(rnd, pkt, 132))):
                    cases.append((stack, b2s(full), 'short-parameter-length'))
    # DATA chunks under every payload protocol identifier of the IANA registry's assigned range (0..75) and a few above: whatever a parser
    # does with an identifier it knows, an identifier it does not know is just a number
    for ppid in (list(range(0, 76)) + [132, 5683, 65535, 2 ** 32 - 1] if T else [0, 1, 3, 4, 6, 17, 18, 39, 41, 46, 47, 53, 60, 61, 62, 63, 64, 132, 5683]):
        pkt, _ = P.sctp_large(rnd, 'data-coap', ppid=ppid)
        for stack, full in (('SCTP', pkt), ('IPv6', P.ipv6(rnd, pkt, 132)), ('UDP', P.udp(rnd, pkt, csum=lambda x: 1, dport=132))):
            cases.append((stack, b2s(full), 'data-chunk-ppid'))
    for kind in ('params', 'data', 'sack', 'bigparam', 'jumbo', 'data-coap'):
        big, _ = P.sctp_large(rnd, kind)
        cases.append(('SCTP', b2s(big), 'large-well-formed'))
        if len(big) + 20 <= 65535:
            cases.append(('IPv4', b2s(P.ipv4(rnd, big, 132)), 'large-well-formed'))
    for _ in range(12 if T else 3):
        j = P.sctp_jumbo_malformed(rnd)
        cases.append(('SCTP', b2s(j), 'jumbo-valueless-chunk'))
        cases.append(('IPv4', b2s(P.ipv4(rnd, j, 132)), 'jumbo-valueless-chunk'))
    for _ in range(3000 if T else 300):
        stack = rnd.choice(ALL_STACKS + ['CoAP-semantic'])
        n = rnd.choice([rnd.randint(0, 64), rnd.randint(0, 400), rnd.randint(0, 2400)])
        s = randbits(rnd, n)
        if rnd.random() < 0.5 and n >= 4:
            s = ('0110' if '6' in stack else '0100') + s[4:]      # pass the IP version check
        cases.append((stack, s, 'random'))
    return cases


def fresh_process_parse(rep, pid, samples):
    """samples: [(stack, packet bytes)] of byte-aligned inputs already parsed here; the same parses in a fresh interpreter that imports
    only the registry (another host, a restarted gateway) must give the same field lists or the same exception"""
    import freshproc
    from microschc.binary.buffer import Buffer as _B
    tasks, expected = [], []
    for stack, pkt in samples:
        if stack == 'CoAP-semantic':
            continue

        def f():
            pd = parser_for(stack).parse(_B(pkt, len(pkt) * 8))
            return tuple((str(getattr(x.id, 'value', x.id)), x.position, bits_of(x.value)) for x in pd.fields) + (('payload', 0, bits_of(pd.payload)),)
        o = with_timeout(f, 5)
        tasks.append(dict(op='parse', stack=stack, packet=pkt.hex()))
        expected.append((o[0], o[1]))
    freshproc.compare(rep, pid + ':parse', tasks, expected, lambda t: '%s parser on packet %s...' % (t['stack'], t['packet'][:60]))
