"""Replay of SCHC-layer cases (compress / decompress / match / encodelength / decodevar ...)."""
from core import Driver, mk, bits_of, L, R, Buffer
from core import mkmap, given_items
from schc_util import ref_compress, ref_decompress, ref_rule_applies, ref_size_prefix, DIRS
from microschc.rfc8724 import (FieldDescriptor, PacketDescriptor, RuleFieldDescriptor, RuleDescriptor, MatchMapping,
                               RuleNature, DirectionIndicator as DI, MatchingOperator as MO,
                               CompressionDecompressionAction as CDA)

MOS = {'e': MO.EQUAL, 'i': MO.IGNORE, 'm': MO.MSB, 'p': MO.MATCH_MAPPING}
CDAS = {'n': CDA.NOT_SENT, 'l': CDA.LSB, 'm': CDA.MAPPING_SENT, 'v': CDA.VALUE_SENT, 'c': CDA.COMPUTE}
_IDS = None


def id_of(fid):
    """neutral fid -> a library field id string"""
    global _IDS
    if _IDS is None:
        from schc_util import FID
        _IDS = {tuple(v): k for k, v in FID.items()}
    fid = tuple(fid)
    if fid in _IDS:
        return _IDS[fid]
    if fid[0] == 'C' and fid[1] >= 1000:
        from microschc.protocol.coap import CoAPFields
        return f"{CoAPFields.OPTION_UNKNOWN}({fid[1] - 1000})"
    return 'X:other%d' % fid[1]


def lib_rule(nr):
    if nr['nature'] == 'N':
        return RuleDescriptor(id=mk(nr['id']), nature=RuleNature.NO_COMPRESSION)
    fds = []
    for f in nr['fds']:
        if f['tv'][0] == 'b':
            tv = mk(f['tv'][1])
        else:
            tv = mkmap({mk(v): mk(i) for v, i in f['tv'][1]})
        fds.append(RuleFieldDescriptor(id_of(f['fid']), f['len'], f['pos'], DIRS[f['dir']], tv, MOS[f['mo']], CDAS[f['cda']]))
    if nr['nature'] == 'F':
        return RuleDescriptor(id=mk(nr['id']), nature=RuleNature.FRAGMENTATION, field_descriptors=fds)
    return RuleDescriptor(id=mk(nr['id']), field_descriptors=fds)


def lib_pdesc(npd):
    return PacketDescriptor(direction=DIRS[npd['dir']], fields=[FieldDescriptor(id=id_of(fid), value=mk(bits), position=pos) for fid, pos, bits in npd['fields']],
                            payload=mk(npd['payload']))


def replay_schc(case):
    """Re-run a replayed SCHC-layer case on the current tree: returns a failure string or None."""
    from schc_run import Batch, case_compress, case_decompress, case_match
    from core import Report
    rep = Report('replay', 'quick', 0)
    b = Batch(rep)
    op = case.get('op')
    d = None if case.get('direction', 'N') == 'N' else DIRS[case['direction']]
    if op == 'compress':
        case_compress(b, lib_pdesc(case['pdesc']), lib_rule(case['rule']), d)
    elif op == 'decompress':
        r = lib_rule(case['rule'])
        exp = case.get('expect')
        case_decompress(b, case['schc'], r, d, expect=exp, total=case.get('total', False), side=L if case.get('side') == 'L' else R)
    elif op == 'match':
        case_match(b, lib_pdesc(case['pdesc']), [lib_rule(r) for r in case['rules']])
    else:
        return 'replay of %r is not supported; re-run the check' % op
    b.run()
    if rep.violations:
        return rep.violations[0][1]
    return None
