"""packets.py -- protocol-aware packet builders (IPv4/IPv6/UDP/CoAP/SCTP) with correct lengths and
checksums, structured descriptions of what was built (for the RFC-side reference parsers), and the
malformed stream (truncations, bit flips, random strings).  Written from RFC 791, 8200, 768, 7252,
9260; independent of microschc."""
import struct

# ------------------------------------------------------------------------------------------------
# checksums (reference implementations)

def csum16(data):
    """RFC 1071 one's complement sum of 16-bit words (odd length zero padded), complemented."""
    if len(data) % 2:
        data += b'\0'
    s = sum(struct.unpack('!%dH' % (len(data) // 2), data))
    while s >> 16:
        s = (s & 0xffff) + (s >> 16)
    return (~s) & 0xffff


def crc32c_ref(data):
    """Bit-serial reflected CRC-32c (Castagnoli), polynomial 0x82F63B78, init and final xor 0xFFFFFFFF."""
    crc = 0xffffffff
    for byte in data:
        crc ^= byte
        for _ in range(8):
            crc = (crc >> 1) ^ (0x82F63B78 if crc & 1 else 0)
    return crc ^ 0xffffffff


def sctp_checksum_field(packet_with_zero_checksum):
    """RFC 9260 appendix A: CRC-32c over the packet with a zero checksum field, stored least significant byte first."""
    return struct.pack('<I', crc32c_ref(packet_with_zero_checksum))


def udp_checksum_v6(src, dst, udp):
    ph = src + dst + struct.pack('!IHBB', len(udp), 0, 0, 17)
    c = csum16(ph + udp)
    return c or 0xffff


def udp_checksum_v4(src, dst, udp):
    ph = src + dst + struct.pack('!BBH', 0, 17, len(udp))
    c = csum16(ph + udp)
    return c or 0xffff


# ------------------------------------------------------------------------------------------------
# CoAP (RFC 7252 section 3)
OPT_DELTAS = [0, 1, 5, 11, 12, 13, 14, 100, 268, 269, 270, 1000, 65804]
OPT_LENS = [0, 1, 4, 11, 12, 13, 14, 20, 268, 269, 270, 300]


def ext(v):
    """(nibble, extended bytes) of an option delta / length"""
    if v < 13:
        return v, b''
    if v < 269:
        return 13, bytes([v - 13])
    return 14, (v - 269).to_bytes(2, 'big')


def coap(rnd, opts=None, tkl=None, payload=None, code=None):
    """Returns (bytes, structure).  structure = dict(ver,type,tkl,code,mid,token,options=[(delta,length,value)],payload)"""
    tkl = rnd.randint(0, 8) if tkl is None else tkl
    ver, typ = 1, rnd.randint(0, 3)
    code = rnd.randrange(256) if code is None else code
    mid = rnd.randbytes(2)
    token = rnd.randbytes(tkl)
    b = bytes([(ver << 6) | (typ << 4) | tkl, code]) + mid + token
    if opts is None:
        opts = []
        for _ in range(rnd.choice([0, 1, 1, 2, 3, 4])):
            d = rnd.choice(OPT_DELTAS) if rnd.random() < 0.6 else rnd.randint(0, 30)
            l = rnd.choice(OPT_LENS) if rnd.random() < 0.5 else rnd.randint(0, 16)
            if rnd.random() < 0.12:
                # both the delta and the length on their 16-bit (or 8-bit) extensions at once: first byte 0xEE, 0xDE, 0xED, 0xDD
                d, l = rnd.choice([269, 270, 1000, 13, 100]), rnd.choice([269, 270, 300, 13, 100])
            opts.append((d, l))
    options = []
    for d, l in opts:
        dn, de = ext(d)
        ln, le = ext(l)
        v = rnd.randbytes(l)
        b += bytes([dn << 4 | ln]) + de + le + v
        options.append((d, l, v))
    if payload is None:
        payload = rnd.randbytes(rnd.randint(1, 20)) if rnd.random() < 0.7 else b''
    if payload:
        b += b'\xff' + payload
    return b, dict(ver=ver, type=typ, tkl=tkl, code=code, mid=mid, token=token, options=options, payload=payload)


def udp(rnd, payload, csum=None, sport=None, dport=5683):
    """UDP header + payload with correct length; csum = function(udp_bytes_with_zero_checksum) -> int"""
    sport = rnd.randrange(65536) if sport is None else sport
    ln = 8 + len(payload)
    h = struct.pack('!HHHH', sport, dport, ln, 0)
    if csum is not None:
        h = h[:6] + struct.pack('!H', csum(h + payload))
    return h + payload


def ipv6(rnd, body, nh=17, src=None, dst=None):
    src = rnd.randbytes(16) if src is None else src
    dst = rnd.randbytes(16) if dst is None else dst
    return struct.pack('!IHBB', 0x60000000 | rnd.randrange(1 << 28), len(body), nh, rnd.randrange(256)) + src + dst + body


def ipv4(rnd, body, proto=17, src=None, dst=None, ident=None):
    src = rnd.randbytes(4) if src is None else src
    dst = rnd.randbytes(4) if dst is None else dst
    ident = rnd.randrange(65536) if ident is None else ident
    h = struct.pack('!BBHHHBBH', 0x45, rnd.randrange(256), 20 + len(body), ident, rnd.randrange(65536), rnd.randrange(256), proto, 0) + src + dst
    h = h[:10] + struct.pack('!H', csum16(h)) + h[12:]
    return h + body


def pkt_ipv6_udp_coap(rnd, **kw):
    src, dst = rnd.randbytes(16), rnd.randbytes(16)
    c, st = coap(rnd, **kw)
    u = udp(rnd, c, csum=lambda x: udp_checksum_v6(src, dst, x))
    return ipv6(rnd, u, 17, src, dst), st


def pkt_ipv4_udp_coap(rnd, **kw):
    src, dst = rnd.randbytes(4), rnd.randbytes(4)
    c, st = coap(rnd, **kw)
    u = udp(rnd, c, csum=lambda x: udp_checksum_v4(src, dst, x))
    return ipv4(rnd, u, 17, src, dst), st


def pkt_udp_coap(rnd, **kw):
    c, st = coap(rnd, **kw)
    return udp(rnd, c, csum=lambda x: rnd.randrange(1, 65536)), st


# ------------------------------------------------------------------------------------------------
# SCTP (RFC 9260 section 3)
def pad4(b):
    return b + b'\0' * ((4 - len(b) % 4) % 4)


def sctp_param(rnd, vlen=None, ptype=None):
    vlen = rnd.choice([0, 1, 2, 3, 4, 5, 8, 13]) if vlen is None else vlen
    ptype = (rnd.choice([0x8005, 0x8005, 0x8008, 0xC000, 1, 5, 7, 9, 11]) if rnd.random() < 0.25 else rnd.randrange(65536)) if ptype is None else ptype     # incl. RFC 4820 padding
    v = rnd.randbytes(vlen)
    raw = struct.pack('!HH', ptype, 4 + vlen) + v
    return pad4(raw), dict(ptype=ptype, plen=4 + vlen, value=v, padding=(4 - (4 + vlen) % 4) % 4)


def sctp_chunk(rnd, ctype=None):
    """Returns (bytes incl. padding, structure)."""
    ctype = rnd.choice([0, 1, 2, 3, 4, 5, 6, 7, 8, 9, 10, 11, 14, 12, 13, 63, 200]) if ctype is None else ctype
    flags = rnd.randrange(256)
    st = dict(ctype=ctype, flags=flags)
    if ctype == 0:      # DATA
        body = rnd.randbytes(12)
        data = rnd.randbytes(rnd.choice([1, 2, 3, 4, 7, 16]))
        st.update(tsn=body[0:4], sid=body[4:6], ssn=body[6:8], ppid=body[8:12], data=data)
        value = body + data
    elif ctype in (1, 2):   # INIT / INIT ACK
        body = rnd.randbytes(16)
        params = [sctp_param(rnd) for _ in range(rnd.choice([0, 1, 2, 3]))]
        st.update(tag=body[0:4], arwnd=body[4:8], nout=body[8:10], nin=body[10:12], itsn=body[12:16], params=[p[1] for p in params])
        value = body + b''.join(p[0] for p in params)
    elif ctype == 3:    # SACK
        ngap, ndup = rnd.choice([0, 0, 1, 2, 3, 9, 12]), rnd.choice([0, 0, 1, 2, 8, 30])
        body = rnd.randbytes(8) + struct.pack('!HH', ngap, ndup)
        gaps = [rnd.randbytes(4) for _ in range(ngap)]
        dups = [rnd.randbytes(4) for _ in range(ndup)]
        st.update(cum=body[0:4], arwnd=body[4:8], ngap=ngap, ndup=ndup, gaps=gaps, dups=dups)
        value = body + b''.join(gaps) + b''.join(dups)
    elif ctype in (4, 5, 6, 9):   # HEARTBEAT, HEARTBEAT ACK, ABORT, ERROR: parameters / causes
        n = rnd.choice([1, 1, 2]) if ctype != 6 else rnd.choice([0, 1, 2])
        params = [sctp_param(rnd) for _ in range(n)]
        st.update(params=[p[1] for p in params])
        value = b''.join(p[0] for p in params)
    elif ctype == 7:    # SHUTDOWN
        value = rnd.randbytes(4)
        st.update(cum=value)
    elif ctype in (8, 11, 14):   # SHUTDOWN ACK, COOKIE ACK, SHUTDOWN COMPLETE
        value = b''
    elif ctype == 10:   # COOKIE ECHO
        value = rnd.randbytes(rnd.choice([1, 4, 5, 8, 11]))
        st.update(cookie=value)
    else:
        value = rnd.randbytes(rnd.choice([0, 1, 3, 4, 6]))
        st.update(value=value)
    # for chunks made of parameters the chunk length covers the padded parameters (all multiples of 4)
    clen = 4 + len(value)
    raw = struct.pack('!BBH', ctype, flags, clen) + value
    st.update(clen=clen, padding=(4 - clen % 4) % 4)
    return pad4(raw), st


def sctp(rnd, chunks=None, nchunks=None):
    sport, dport = rnd.randrange(65536), rnd.randrange(65536)
    tag = rnd.randbytes(4)
    if chunks is None:
        n = rnd.choice([1, 1, 2, 3]) if nchunks is None else nchunks
        chunks = [sctp_chunk(rnd) for _ in range(n)]
    body = b''.join(c[0] for c in chunks)
    hdr0 = struct.pack('!HH', sport, dport) + tag + b'\0\0\0\0'
    ck = sctp_checksum_field(hdr0 + body)
    pkt = hdr0[:8] + ck + body
    return pkt, dict(sport=sport, dport=dport, tag=tag, checksum=ck, chunks=[c[1] for c in chunks])


def pkt_ipv6_sctp(rnd):
    s, st = sctp(rnd)
    return ipv6(rnd, s, 132), st


def pkt_ipv4_sctp(rnd):
    s, st = sctp(rnd)
    return ipv4(rnd, s, 132), st


# ------------------------------------------------------------------------------------------------
# malformed stream
def truncations(pkt, rnd, k=None):
    """Every byte truncation point, or k random ones."""
    pts = list(range(len(pkt)))
    if k is not None and k < len(pts):
        pts = sorted(rnd.sample(pts, k))
    return [pkt[:i] for i in pts]


def bitflips(pkt, rnd, k):
    out = []
    n = len(pkt) * 8
    for _ in range(k):
        b = bytearray(pkt)
        for _ in range(rnd.choice([1, 1, 1, 2, 3])):
            i = rnd.randrange(n)
            b[i // 8] ^= 0x80 >> (i % 8)
        out.append(bytes(b))
    return out


def random_strings(rnd, k, maxlen=250):
    return [rnd.randbytes(rnd.randint(0, maxlen)) for _ in range(k)]


def raw_payload(rnd, dport):
    """(payload, extra structure) for a UDP destination port: the library designates parsers by destination port 5683 (CoAP)
    and 132 (SCTP, its registry uses the protocol number as port); any other port designates none and the rest is payload --
    including 9899, the RFC 6951 port of SCTP over UDP, which is given a well-formed SCTP packet most of the time"""
    if dport == 132:
        p_, st_ = sctp(rnd)
        return p_, dict(sctp=st_)
    if dport == 9899 and rnd.random() < 0.7:
        return sctp(rnd)[0], {}
    return rnd.randbytes(rnd.randint(8, 60)), {}


RAW_PORTS = [0, 4, 6, 17, 53, 132, 5684, 9899, 65535]


def pkt_udp_raw(rnd, dport=None, n=None):
    """UDP datagram to a port that designates no next parser (or one that merely looks like a protocol number): raw payload"""
    dport = rnd.choice(RAW_PORTS) if dport is None else dport
    payload, extra = raw_payload(rnd, dport) if n is None else (rnd.randbytes(n), {})
    # the SOURCE port may be one that designates a parser when it is the destination (a reply from a CoAP server, from port 132): it designates nothing
    sport = rnd.choice([5683, 132, 5683, None, None, None]) if dport not in (5683, 132) else None
    return udp(rnd, payload, csum=lambda x: rnd.randrange(1, 65536), sport=sport, dport=dport), dict(raw=payload, dport=dport, **extra)


def pkt_ipv6_udp_raw(rnd):
    src, dst = rnd.randbytes(16), rnd.randbytes(16)
    dport = rnd.choice(RAW_PORTS)
    payload, extra = raw_payload(rnd, dport)
    u = udp(rnd, payload, csum=lambda x: udp_checksum_v6(src, dst, x), sport=(rnd.choice([5683, 132, None, None]) if dport not in (5683, 132) else None), dport=dport)
    return ipv6(rnd, u, 17, src, dst), dict(raw=payload, dport=dport, **extra)


def pkt_ipv4_udp_raw(rnd):
    src, dst = rnd.randbytes(4), rnd.randbytes(4)
    dport = rnd.choice(RAW_PORTS)
    payload, extra = raw_payload(rnd, dport)
    u = udp(rnd, payload, csum=lambda x: udp_checksum_v4(src, dst, x), sport=(rnd.choice([5683, 132, None, None]) if dport not in (5683, 132) else None), dport=dport)
    return ipv4(rnd, u, 17, src, dst), dict(raw=payload, dport=dport, **extra)


def sctp_large(rnd, kind=None, jumbo_len=None, ppid=None):
    """well-formed but large SCTP packets: chunks made of more than a thousand parameters, jumbo DATA chunks, long SACKs"""
    kind = kind or rnd.choice(['params', 'data', 'sack'])
    if kind == 'params':
        n = rnd.choice([1100, 1300])
        params = [sctp_param(rnd, vlen=rnd.choice([0, 1, 4])) for _ in range(n)]
        value = b''.join(p[0] for p in params)
        ctype = rnd.choice([4, 5, 9])
        flags = rnd.randrange(256)
        raw = struct.pack('!BBH', ctype, flags, 4 + len(value)) + value
        st = dict(ctype=ctype, flags=flags, params=[p[1] for p in params], clen=4 + len(value), padding=0)
        return sctp(rnd, chunks=[(raw, st)])
    if kind == 'bigparam':
        # one parameter whose 16-bit length has its top bit set (32768 bytes or more)
        p_ = sctp_param(rnd, vlen=rnd.choice([32764, 32765, 40000, 65000, 8185, 8186, 8188, 8191, 16380, 16383]))
        ctype = rnd.choice([4, 5, 9])
        flags = rnd.randrange(256)
        raw = struct.pack('!BBH', ctype, flags, 4 + len(p_[0])) + p_[0]
        st = dict(ctype=ctype, flags=flags, params=[p_[1]], clen=4 + len(p_[0]), padding=0)
        return sctp(rnd, chunks=[(raw, st)])
    if kind in ('data', 'jumbo', 'data-coap'):
        body = rnd.randbytes(12)
        if kind == 'jumbo':         # the largest chunk lengths the 16-bit field can announce, all bytes present
            data = rnd.randbytes((jumbo_len or rnd.choice([65533, 65534, 65535, 65532])) - 16)
        elif kind == 'data-coap':   # user data that is itself a CoAP message, announced with a protocol identifier naming CoAP's port
            body = body[:8] + struct.pack('!I', rnd.choice([5683, 5683, 132, 17, rnd.randrange(0, 80)]) if ppid is None else ppid)
            data = coap(rnd, payload=rnd.randbytes(rnd.randint(1, 9)))[0]
        else:
            data = rnd.randbytes(rnd.choice([2000, 3001]))
        flags = rnd.randrange(256)
        clen = 16 + len(data)
        raw = struct.pack('!BBH', 0, flags, clen) + body + data
        st = dict(ctype=0, flags=flags, tsn=body[0:4], sid=body[4:6], ssn=body[6:8], ppid=body[8:12], data=data, clen=clen, padding=(4 - clen % 4) % 4)
        return sctp(rnd, chunks=[(pad4(raw), st)])
    ngap, ndup = rnd.choice([9, 40, 300, 256, 257]), rnd.choice([8, 64, 255, 256, 300, 513])
    body = rnd.randbytes(8) + struct.pack('!HH', ngap, ndup)
    gaps = [rnd.randbytes(4) for _ in range(ngap)]
    dups = [rnd.randbytes(4) for _ in range(ndup)]
    flags = rnd.randrange(256)
    value = body + b''.join(gaps) + b''.join(dups)
    st = dict(ctype=3, flags=flags, cum=body[0:4], arwnd=body[4:8], ngap=ngap, ndup=ndup, gaps=gaps, dups=dups, clen=4 + len(value), padding=0)
    return sctp(rnd, chunks=[(struct.pack('!BBH', 3, flags, 4 + len(value)) + value, st)])


def sctp_jumbo_malformed(rnd):
    """a chunk type that carries no (or a 4-byte) value, announced with a huge non-zero value"""
    ctype = rnd.choice([7, 8, 11, 14])
    value = bytes([rnd.randrange(1, 256)]) + rnd.randbytes(rnd.choice([1800, 2500, 4000]))
    value = value[:len(value) - len(value) % 4]
    raw = struct.pack('!BBH', ctype, 0, 4 + len(value)) + value
    return sctp(rnd, chunks=[(raw, dict(ctype=ctype))])[0]


def minimal_packets(rnd):
    """the smallest well-formed packet of every parser configuration -- a header and nothing behind it (IPv6 / IPv4 without payload and a
    next header nobody parses, a UDP datagram without data, a 4-byte CoAP message, an SCTP common header without chunk) -- and the two
    explicit stacks down to their last header; each as (stack, bytes).  One byte less must be rejected, one byte more is payload."""
    nh = rnd.choice([59, 253, 254])
    out = [('IPv6', ipv6(rnd, b'', nh)), ('IPv4', ipv4(rnd, b'', nh)),
           ('UDP', udp(rnd, b'', csum=lambda x: rnd.randrange(1, 65536), dport=rnd.choice([0, 53, 9899, 65535]))),
           ('CoAP', coap(rnd, opts=[], tkl=0, payload=b'')[0]), ('SCTP', sctp(rnd, chunks=[])[0])]
    c_ = coap(rnd, opts=[], tkl=0, payload=b'')[0]
    s6, d6, s4, d4 = rnd.randbytes(16), rnd.randbytes(16), rnd.randbytes(4), rnd.randbytes(4)
    out.append(('IPv6-UDP-CoAP', ipv6(rnd, udp(rnd, c_, csum=lambda x: udp_checksum_v6(s6, d6, x)), 17, s6, d6)))
    out.append(('IPv4-UDP-CoAP', ipv4(rnd, udp(rnd, c_, csum=lambda x: udp_checksum_v4(s4, d4, x)), 17, s4, d4)))
    return out


def sctp_with_checksum(rnd, target):
    """an SCTP packet (one DATA chunk of 8 user-data bytes) whose correct CRC-32c checksum field is exactly `target` (4 bytes as stored):
    the last four user-data bytes are solved -- the CRC is affine in the message bits, 32 unknowns, Gaussian elimination over GF(2)"""
    sport, dport, tag = rnd.randrange(65536), rnd.randrange(65536), rnd.randbytes(4)
    body = rnd.randbytes(12)
    head = struct.pack('!HH', sport, dport) + tag + b'\0\0\0\0' + struct.pack('!BBH', 0, 3, 16 + 8) + body + rnd.randbytes(4)
    want = int.from_bytes(target, 'big')

    def crc(free):
        return int.from_bytes(sctp_checksum_field(head + free.to_bytes(4, 'big')), 'big')
    c0 = crc(0)
    cols = [crc(1 << i) ^ c0 for i in range(32)]
    # solve sum_i x_i cols[i] = want ^ c0
    rows = []            # (pivot bit, vector, combination)
    rhs = want ^ c0
    basis = []
    for i, c in enumerate(cols):
        comb = 1 << i
        for pb, v, cm in basis:
            if c >> pb & 1:
                c ^= v
                comb ^= cm
        if c:
            basis.append((c.bit_length() - 1, c, comb))
    x = 0
    for pb, v, cm in sorted(basis, reverse=True):
        if rhs >> pb & 1:
            rhs ^= v
            x ^= cm
    if rhs:
        return None
    pkt0 = head + x.to_bytes(4, 'big')
    ck = sctp_checksum_field(pkt0)
    assert ck == target
    st = dict(sport=sport, dport=dport, tag=tag, checksum=ck, chunks=[dict(ctype=0, flags=3, tsn=body[0:4], sid=body[4:6], ssn=body[6:8], ppid=body[8:12], data=pkt0[-8:], clen=24, padding=0)])
    return pkt0[:8] + ck + pkt0[12:], st
