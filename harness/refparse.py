"""refparse.py -- reference field lists written from RFC 791, 8200, 768, 7252 and 9260 (independent of
microschc): what a parser must return for a well-formed packet built by packets.py."""
from schc_util import FID
from microschc.protocol.ipv4 import IPv4Fields as V4
from microschc.protocol.ipv6 import IPv6Fields as V6
from microschc.protocol.udp import UDPFields as U
from microschc.protocol.coap import CoAPFields as C
from microschc.protocol.sctp import SCTPFields as S


def f(member, bits, pos=0):
    return (FID[str(member.value)], pos, bits)


def bs(b):
    return ''.join(format(x, '08b') for x in b)


def ref_ipv6(h):
    b = bs(h[:40])
    return [f(V6.VERSION, b[0:4]), f(V6.TRAFFIC_CLASS, b[4:12]), f(V6.FLOW_LABEL, b[12:32]), f(V6.PAYLOAD_LENGTH, b[32:48]),
            f(V6.NEXT_HEADER, b[48:56]), f(V6.HOP_LIMIT, b[56:64]), f(V6.SRC_ADDRESS, b[64:192]), f(V6.DST_ADDRESS, b[192:320])]


def ref_ipv4(h):
    b = bs(h[:20])
    return [f(V4.VERSION, b[0:4]), f(V4.HEADER_LENGTH, b[4:8]), f(V4.TYPE_OF_SERVICE, b[8:16]), f(V4.TOTAL_LENGTH, b[16:32]),
            f(V4.IDENTIFICATION, b[32:48]), f(V4.FLAGS, b[48:51]), f(V4.FRAGMENT_OFFSET, b[51:64]), f(V4.TIME_TO_LIVE, b[64:72]),
            f(V4.PROTOCOL, b[72:80]), f(V4.HEADER_CHECKSUM, b[80:96]), f(V4.SRC_ADDRESS, b[96:128]), f(V4.DST_ADDRESS, b[128:160])]


def ref_udp(h):
    b = bs(h[:8])
    return [f(U.SOURCE_PORT, b[0:16]), f(U.DESTINATION_PORT, b[16:32]), f(U.LENGTH, b[32:48]), f(U.CHECKSUM, b[48:64])]


def nib(v):
    return v if v < 13 else (13 if v < 269 else 14)


def ref_coap(st):
    """fields and payload bits of a CoAP message from its structure (RFC 7252 section 3, 3.1)"""
    out = [f(C.VERSION, format(st['ver'], '02b')), f(C.TYPE, format(st['type'], '02b')), f(C.TOKEN_LENGTH, format(st['tkl'], '04b')),
           f(C.CODE, format(st['code'], '08b')), f(C.MESSAGE_ID, bs(st['mid']))]
    if st['tkl'] > 0:
        out.append(f(C.TOKEN, bs(st['token'])))
    nd = nl = nde = nle = nv = 0
    for d, l, v in st['options']:
        nd += 1
        nl += 1
        out.append(f(C.OPTION_DELTA, format(nib(d), '04b'), nd))
        out.append(f(C.OPTION_LENGTH, format(nib(l), '04b'), nl))
        if d >= 13:
            nde += 1
            out.append(f(C.OPTION_DELTA_EXTENDED, format(d - 13, '08b') if d < 269 else format(d - 269, '016b'), nde))
        if l >= 13:
            nle += 1
            out.append(f(C.OPTION_LENGTH_EXTENDED, format(l - 13, '08b') if l < 269 else format(l - 269, '016b'), nle))
        if l > 0:
            nv += 1
            out.append(f(C.OPTION_VALUE, bs(v), nv))
    if st['payload']:
        out.append(f(C.PAYLOAD_MARKER, '11111111'))
    return out, bs(st['payload'])


def ref_param(p, raw_padding):
    out = [f(S.PARAMETER_TYPE, format(p['ptype'], '016b')), f(S.PARAMETER_LENGTH, format(p['plen'], '016b'))]
    if p['value']:
        out.append(f(S.PARAMETER_VALUE, bs(p['value'])))
    if p['padding']:
        out.append(f(S.PARAMETER_PADDING, '0' * (8 * p['padding'])))
    return out


def ref_sctp(st):
    out = [f(S.SOURCE_PORT, format(st['sport'], '016b')), f(S.DESTINATION_PORT, format(st['dport'], '016b')),
           f(S.VERIFICATION_TAG, bs(st['tag'])), f(S.CHECKSUM, bs(st['checksum']))]
    for c in st['chunks']:
        t = c['ctype']
        out += [f(S.CHUNK_TYPE, format(t, '08b')), f(S.CHUNK_FLAGS, format(c['flags'], '08b')), f(S.CHUNK_LENGTH, format(c['clen'], '016b'))]
        if t == 0:
            out += [f(S.CHUNK_DATA_TSN, bs(c['tsn'])), f(S.CHUNK_DATA_STREAM_IDENTIFIER, bs(c['sid'])), f(S.CHUNK_DATA_STREAM_SEQUENCE_NUMBER, bs(c['ssn'])),
                    f(S.CHUNK_DATA_PAYLOAD_PROTOCOL_IDENTIFIER, bs(c['ppid'])), f(S.CHUNK_DATA_PAYLOAD, bs(c['data']))]
        elif t in (1, 2):
            ids = ([S.CHUNK_INIT_INITIATE_TAG, S.CHUNK_INIT_ADVERTISED_RECEIVER_WINDOW_CREDIT, S.CHUNK_INIT_NUMBER_OF_OUTBOUND_STREAMS,
                    S.CHUNK_INIT_NUMBER_OF_INBOUND_STREAMS, S.CHUNK_INIT_INITIAL_TSN] if t == 1 else
                   [S.CHUNK_INIT_ACK_INITIATE_TAG, S.CHUNK_INIT_ACK_ADVERTISED_RECEIVER_WINDOW_CREDIT, S.CHUNK_INIT_ACK_NUMBER_OF_OUTBOUND_STREAMS,
                    S.CHUNK_INIT_ACK_NUMBER_OF_INBOUND_STREAMS, S.CHUNK_INIT_ACK_INITIAL_TSN])
            out += [f(ids[0], bs(c['tag'])), f(ids[1], bs(c['arwnd'])), f(ids[2], bs(c['nout'])), f(ids[3], bs(c['nin'])), f(ids[4], bs(c['itsn']))]
            for p in c['params']:
                out += ref_param(p, None)
        elif t == 3:
            out += [f(S.CHUNK_SACK_CUMULATIVE_TSN_ACK, bs(c['cum'])), f(S.CHUNK_SACK_ADVERTISED_RECEIVER_WINDOW_CREDIT, bs(c['arwnd'])),
                    f(S.CHUNK_SACK_NUMBER_GAP_ACK_BLOCKS, format(c['ngap'], '016b')), f(S.CHUNK_SACK_NUMBER_DUPLICATE_TSNS, format(c['ndup'], '016b'))]
            for g in c['gaps']:
                out += [f(S.CHUNK_SACK_GAP_ACK_BLOCK_START, bs(g[0:2])), f(S.CHUNK_SACK_GAP_ACK_BLOCK_END, bs(g[2:4]))]
            for d in c['dups']:
                out.append(f(S.CHUNK_SACK_DUPLICATE_TSN, bs(d)))
        elif t in (4, 5, 6, 9):
            for p in c['params']:
                out += ref_param(p, None)
        elif t == 7:
            out.append(f(S.CHUNK_SHUTDOWN_CUMULATIVE_TSN_ACK, bs(c['cum'])))
        elif t in (8, 11, 14):
            pass
        elif t == 10:
            out.append(f(S.CHUNK_COOKIE_ECHO_COOKIE, bs(c['cookie'])))
        else:
            if c['value']:
                out.append(f(S.CHUNK_VALUE, bs(c['value'])))
        if c['padding']:
            out.append(f(S.CHUNK_PADDING, '0' * (8 * c['padding'])))
    return out, ''


def ref_fields(stack, pkt, st):
    """Reference field list and payload for a packet built by packets.py for the given parser configuration."""
    if 'raw' not in st and (stack in ('IPv6-UDP-CoAP', 'IPv4-UDP-CoAP') or (stack in ('IPv6', 'IPv4') and 'options' in st)):
        ip = ref_ipv6(pkt) if '6' in stack else ref_ipv4(pkt)
        n = 40 if '6' in stack else 20
        c, pl = ref_coap(st)
        return ip + ref_udp(pkt[n:]) + c, pl
    if 'raw' in st and 'sctp' in st:
        # UDP to the port by which the library designates its SCTP parser (132): SCTP fields follow, no payload
        s_, pl = ref_sctp(st['sctp'])
        if stack in ('IPv6', 'IPv4'):
            ip = ref_ipv6(pkt) if '6' in stack else ref_ipv4(pkt)
            n = 40 if '6' in stack else 20
            return ip + ref_udp(pkt[n:]) + s_, pl
        return ref_udp(pkt) + s_, pl
    if 'raw' in st:
        # UDP to a port that designates no next parser: the rest is payload
        if stack in ('IPv6', 'IPv4'):
            ip = ref_ipv6(pkt) if '6' in stack else ref_ipv4(pkt)
            n = 40 if '6' in stack else 20
            return ip + ref_udp(pkt[n:]), bs(st['raw'])
        return ref_udp(pkt), bs(st['raw'])
    if stack in ('IPv6', 'IPv4'):
        ip = ref_ipv6(pkt) if '6' in stack else ref_ipv4(pkt)
        s, pl = ref_sctp(st)
        return ip + s, pl
    if stack == 'UDP':
        c, pl = ref_coap(st)
        return ref_udp(pkt) + c, pl
    if stack == 'CoAP':
        return ref_coap(st)
    if stack == 'SCTP':
        return ref_sctp(st)
    raise ValueError(stack)
