"""schc_run.py -- batch executor for SCHC-layer cases: implementation vs extracted Coq model
(correspondence) and implementation vs independent reference (property oracle)."""
import signal
from core import Driver, impl_outcome, bits_of, mk, L, R, Buffer
from schc_util import (n_rule, n_pdesc, rule_tokens, rules_tokens, pdesc_tokens, tb, DIRS, DIRC,
                       ref_compress, ref_decompress, ref_rule_applies)
from microschc.rfc8724 import PacketDescriptor, DirectionIndicator as DI
from microschc.compressor.compressor import compress
from microschc.decompressor.decompressor import decompress
from microschc.ruler.ruler import Ruler
from microschc.protocol.registry import factory

PARSERS = {}


def parser_for(stack):
    if stack not in PARSERS:
        if stack == 'CoAP-semantic':
            # the eighth parser configuration: the CoAP header parser in semantic option mode (not reachable through factory())
            from microschc.parser.parser import PacketParser
            from microschc.protocol.coap import CoAPParser, CoAPOptionMode
            PARSERS[stack] = PacketParser('CoAP-semantic', [CoAPParser(interpret_options=CoAPOptionMode.SEMANTIC)])
        else:
            PARSERS[stack] = factory(stack)
    return PARSERS[stack]


class Timeout(Exception):
    pass


def _alarm(signum, frame):
    raise Timeout()


def with_timeout(f, seconds=5):
    """Run f() with a wall-clock limit (a hang becomes the observation ('EXC','Timeout'))."""
    old = signal.signal(signal.SIGALRM, _alarm)
    signal.setitimer(signal.ITIMER_REAL, seconds)
    try:
        return impl_outcome(f)
    except Timeout:
        return ('EXC', 'Timeout')
    finally:
        signal.setitimer(signal.ITIMER_REAL, 0)
        signal.signal(signal.SIGALRM, old)


def obs_bits(out):
    """implementation outcome -> ('OK', bits) | ('EXC', name); a non-Buffer result is reported as such"""
    k, v = out
    if k == 'EXC':
        return out
    if isinstance(v, Buffer):
        return ('OK', bits_of(v))
    return ('OK', 'NOT-A-BUFFER:%r' % (v,))


def parse_model_bits(line):
    if line.startswith('OK '):
        b = line[3:]
        return ('OK', '' if b == '-' else b)
    if line.startswith('EXC '):
        return ('EXC', line[4:])
    if line == 'DIVERGE':
        return ('EXC', 'Diverge')
    return ('BAD', line)


class Batch:
    """Collects cases; run() executes the model once for all of them and judges each."""

    def __init__(self, rep):
        self.rep = rep
        self.items = []

    def add(self, klass, line, impl_obs, parse, oracle, desc, key=None):
        """impl_obs: observation already computed on the implementation;
        parse: model output line -> observation comparable with impl_obs;
        oracle: None or list of failure strings (property judged on the implementation)."""
        self.items.append((klass, line, impl_obs, parse, oracle, desc, key))

    def run(self):
        rep = self.rep
        outs = Driver().run([it[1] for it in self.items])
        nfail = 0
        for (klass, line, impl_obs, parse, oracle, desc, key), mo in zip(self.items, outs):
            rep.count(klass, key=key if key is not None else line)
            m = parse(mo)
            rep.corr_evals += 1
            agree = (m == impl_obs)
            if oracle is not None:
                rep.oracle_evals += 1
            oc = 'EXC:' + str(impl_obs[1]) if impl_obs[0] == 'EXC' else 'ok'
            rep.hist['outcome:' + oc] = rep.hist.get('outcome:' + oc, 0) + 1
            if oracle or not agree:
                nfail += 1
                d = dict(desc)
                d.update(driver_line=line if len(line) < 4000 else line[:4000] + '...', model=mo[:2000], implementation=repr(impl_obs)[:2000], oracle_failures=oracle or [])
                if oracle:
                    rep.violation('property', '%s: %s' % (klass, oracle[0][:300]), d)
                else:
                    rep.violation('correspondence', '%s: model %s vs implementation %s' % (klass, mo[:200], repr(impl_obs)[:200]), d)
            elif rep.evaluations % 499 == 0:
                rep.sample({'class': klass, 'line': line[:300], 'model': mo[:120]})
        self.items = []
        return nfail


# ---- building blocks -------------------------------------------------------------------------------
def dopt(d):
    return 'N' if d is None else DIRC[d]


def case_compress(batch, pd, rule, d, klass='compress', extra=None):
    npd, nr = n_pdesc(pd), n_rule(rule)
    out = obs_bits(with_timeout(lambda: compress(pd, rule, direction=d) if d is not None else compress(pd, rule)))
    line = ' '.join(['S', 'compress'] + pdesc_tokens(npd) + rule_tokens(nr) + [dopt(d)])
    ref = ref_compress(npd, nr, None if d is None else DIRC[d])
    fails = []
    if ref is not None:
        if out != ('OK', ref):
            fails.append('compress gives %s, RFC 8724 layout is %s' % (str(out)[:200], ref[:200]))
    desc = dict(layer='schc', op='compress', pdesc=npd, rule=nr, direction=dopt(d))
    if extra:
        desc.update(extra)
    batch.add(klass, line, out, parse_model_bits, fails if ref is not None else None, desc,
              key=('compress', line))
    return out


def case_decompress(batch, sbits, rule, d, klass='decompress', expect=None, side=R, total=False, extra=None):
    """expect: bits the property requires (None = only correspondence); total=True: the C20 oracle
    (outcome must be a buffer or RuleIDMatchError)."""
    nr = n_rule(rule)
    sb = mk(sbits, side)
    out = obs_bits(with_timeout(lambda: decompress(sb, rule, direction=d) if d is not None else decompress(sb, rule)))
    line = ' '.join(['S', 'decompress', tb(sbits)] + rule_tokens(nr) + [dopt(d)])
    fails = []
    if expect is not None and out != ('OK', expect):
        fails.append('decompress gives %s, expected %s' % (str(out)[:200], expect[:200]))
    if total and out[0] == 'EXC':
        fails.append('decompress raised %s' % out[1])
    desc = dict(layer='schc', op='decompress', schc=sbits, rule=nr, direction=dopt(d), side='L' if side == L else 'R')
    if extra:
        desc.update(extra)
    batch.add(klass, line, out, parse_model_bits, fails if (expect is not None or total) else None, desc, key=('decompress', line))
    return out


def parse_model_match(line, visible=None):
    if not line.startswith('OK'):
        return ('BAD', line)
    body = line[3:]
    toks = [t for t in body.split(',') if t]
    exc = None
    idx = []
    for t in toks:
        if t.startswith('!'):
            exc = t[1:]
        else:
            idx.append(int(t) if visible is None else visible[int(t)])
    return ('OK', tuple(idx), exc)


def case_match(batch, pd, rules, klass='match', extra=None, ruler=None):
    """ruler: a long-lived Ruler over `rules` to reuse (state kept between calls must not matter)"""
    npd = n_pdesc(pd)
    # rules of fragmentation nature are invisible to the model and to the reference: they must simply never be offered
    from microschc.rfc8724 import RuleNature as _RN
    visible = [i for i, r in enumerate(rules) if r.nature is not _RN.FRAGMENTATION]
    nrs = [n_rule(rules[i]) for i in visible]
    ruler = Ruler(rules) if ruler is None else ruler

    def f():
        got = []
        exc = None
        try:
            for r in ruler.match_packet_descriptor(pd):
                got.append([i for i, x in enumerate(rules) if x is r][0])
        except Exception as e:  # noqa: BLE001
            exc = type(e).__name__
        return ('OK', tuple(got), exc)
    out = f()
    line = ' '.join(['S', 'match'] + pdesc_tokens(npd) + rules_tokens(nrs))
    want = tuple(visible[i] for i, nr in enumerate(nrs) if ref_rule_applies(npd, nr))
    fails = []
    if out[2] is not None:
        fails.append('matcher raised %s' % out[2])
    elif out[1] != want:
        fails.append('matcher yields rules %s, the rules that apply are %s' % (out[1], want))
    desc = dict(layer='schc', op='match', pdesc=npd, rules=nrs)
    if extra:
        desc.update(extra)
    batch.add(klass, line, out, (lambda l, v=visible: parse_model_match(l, v)), fails, desc, key=('match', line, id(ruler) if ruler is not None else 0))
    return out
