"""schc_run.py -- batch executor for SCHC-layer cases: implementation vs extracted Coq model
(correspondence) and implementation vs independent reference (property oracle)."""
import signal
from core import Driver, impl_outcome, bits_of, mk, L, R, Buffer, raw
from schc_util import (n_rule, n_pdesc, rule_tokens, rules_tokens, pdesc_tokens, tb, DIRS, DIRC,
                       ref_compress, ref_decompress, ref_rule_applies, raw_rule_tokens, raw_pdesc_tokens)
from microschc.rfc8724 import PacketDescriptor, DirectionIndicator as DI
from microschc.compressor.compressor import compress
from microschc.decompressor.decompressor import decompress
from microschc.ruler.ruler import Ruler
from microschc.protocol.registry import factory

PARSERS = {}


def parser_for(stack):
    if stack not in PARSERS:
        if stack == 'CoAP-semantic':
            # the eighth parser configuration: the CoAP header parser in semantic option mode (not reachable through factory())
            from microschc.parser.parser import PacketParser
            from microschc.protocol.coap import CoAPParser, CoAPOptionMode
            PARSERS[stack] = PacketParser('CoAP-semantic', [CoAPParser(interpret_options=CoAPOptionMode.SEMANTIC)])
        else:
            PARSERS[stack] = factory(stack)
    return PARSERS[stack]


from core import Timeout, time_limit  # noqa: E402


def with_timeout(f, seconds=5):
    """Run f() with a limit on its CPU time (a hang becomes the observation ('EXC','Timeout')); the largest well-formed inputs of the
    generators need about 2 s"""
    return impl_outcome(f, limit=4 * seconds)


def obs_bits(out):
    """implementation outcome -> ('OK', bits) | ('EXC', name); a non-Buffer result is reported as such"""
    k, v = out
    if k == 'EXC':
        return out
    if isinstance(v, Buffer):
        return ('OK', bits_of(v))
    return ('OK', 'NOT-A-BUFFER:%r' % (v,))


def parse_model_bits(line):
    if line.startswith('OK '):
        b = line[3:]
        return ('OK', '' if b == '-' else b)
    if line.startswith('EXC '):
        return ('EXC', line[4:])
    if line == 'DIVERGE':
        return ('EXC', 'Diverge')
    return ('BAD', line)


class Batch:
    """Collects cases; run() executes the model once for all of them and judges each."""

    def __init__(self, rep):
        self.rep = rep
        self.items = []

    def add(self, klass, line, impl_obs, parse, oracle, desc, key=None):
        """impl_obs: observation already computed on the implementation;
        parse: model output line -> observation comparable with impl_obs;
        oracle: None or list of failure strings (property judged on the implementation)."""
        self.items.append((klass, line, impl_obs, parse, oracle, desc, key))
        if len(self.items) >= 20000:      # bound the memory of long runs: judge what has been collected so far
            self.run()

    def run(self):
        rep = self.rep
        outs = Driver().run([it[1] for it in self.items])
        nfail = 0
        for (klass, line, impl_obs, parse, oracle, desc, key), mo in zip(self.items, outs):
            rep.count(klass, key=key if key is not None else line)
            m = parse(mo)
            rep.corr_evals += 1
            agree = (m == impl_obs)
            if not agree and mo.strip() == 'EXC Unmodelled':
                # the model declares the input outside its domain (e.g. a compute function looking for its neighbours at negative
                # indices in a rule made ill-formed by a near-miss edit): no correspondence is claimed there; the property oracle
                # still judges the implementation.  Counted, so that the evidence shows how often it happens.
                rep.hist['outside-model-domain(Unmodelled)'] = rep.hist.get('outside-model-domain(Unmodelled)', 0) + 1
                agree = True
            if oracle is not None:
                rep.oracle_evals += 1
            oc = 'EXC:' + str(impl_obs[1]) if impl_obs[0] == 'EXC' else 'ok'
            rep.hist['outcome:' + oc] = rep.hist.get('outcome:' + oc, 0) + 1
            if oracle or not agree:
                nfail += 1
                d = dict(desc)
                d.update(driver_line=line if len(line) < 4000 else line[:4000] + '...', model=mo[:2000], implementation=repr(impl_obs)[:2000], oracle_failures=oracle or [])
                if oracle:
                    rep.violation('property', '%s: %s' % (klass, oracle[0][:300]), d)
                else:
                    rep.violation('correspondence', '%s: model %s vs implementation %s' % (klass, mo[:200], repr(impl_obs)[:200]), d)
            elif rep.evaluations % 499 == 0:
                rep.sample({'class': klass, 'line': line[:300], 'model': mo[:120]})
        self.items = []
        return nfail


# ---- building blocks -------------------------------------------------------------------------------
def dopt(d):
    return 'N' if d is None else DIRC[d]


def raw_obs(res_):
    """implementation outcome -> ('OK', raw form of the Buffer: bytes, length, side, padding length) | ('EXC', name)"""
    k, v = res_
    if k == 'EXC':
        return res_
    if isinstance(v, Buffer):
        return ('OK', raw(v))
    return ('OK', 'NOT-A-BUFFER:%r' % (v,))


def same_denotation(r1, r2):
    """two raw Buffer tokens that denote the same bit sequence canonically (only the padding side differs)"""
    from core import parse_raw, canonical
    try:
        b1, b2 = parse_raw(r1), parse_raw(r2)
        return b1.length == b2.length and bits_of(b1) == bits_of(b2) and canonical(b1) and canonical(b2)
    except Exception:  # noqa: BLE001
        return False


def parse_model_raw(line):
    if line.startswith('OK '):
        return ('OK', line[3:])
    if line.startswith('EXC '):
        return ('EXC', line[4:])
    if line == 'DIVERGE':
        return ('EXC', 'Diverge')
    return ('BAD', line)


def bytes_case(batch, klass, yline, res_):
    """the same call on the byte-level model (SchcBytes.v: the Buffer operations compress/decompress perform, on bytes):
    the result must be the same Buffer down to its bytes, padding side and padding length (a result that denotes the same bits
    canonically with the other padding side is counted as representation drift)."""
    o = raw_obs(res_)

    def parse(l, o=o, batch=batch):
        m = parse_model_raw(l)
        if m != o and m[0] == 'OK' and o[0] == 'OK' and same_denotation(m[1], o[1]):
            batch.rep.drift += 1      # same bits, same length, both canonical, another padding side: representation drift, not a disagreement
            return o
        return m
    batch.add('bytes:' + klass.split(':')[0], yline, o, parse, None, dict(layer='schc-bytes', driver_line_full=yline if len(yline) < 20000 else None), key=yline)


def bytes_cm_compress(batch, klass, stack, pkt, d, strat_first, rules, res_):
    """ContextManager.compress on the byte-level model (ManagerBytes.bcm_compress with the byte-level parsers): raw-exact result"""
    from microschc.rfc8724 import RuleNature as _RN
    if stack == 'CoAP-semantic' or len(pkt) * 8 > 12000:
        return
    buf = Buffer(pkt, len(pkt) * 8)
    t = ['Y', 'bcmcompress', stack, raw(buf), DIRC[d], 'F' if strat_first else 'B', str(len(rules))]
    for r in rules:
        t += raw_rule_tokens(r)
    bytes_case(batch, klass, ' '.join(t), res_)


def bytes_cm_decompress(batch, klass, sbuf_raw, d, rules, res_):
    """ContextManager.decompress on the byte-level model (ManagerBytes.bcm_decompress, compute stage included)"""
    t = ['Y', 'bcmdecompress', sbuf_raw, dopt(d), str(len(rules))]
    for r in rules:
        t += raw_rule_tokens(r)
    bytes_case(batch, klass, ' '.join(t), res_)


def reloaded(rule):
    """the rule as a deployment loads it: rebuilt from its JSON form (None when it has no JSON form)"""
    try:
        return type(rule).from_json(rule.json())
    except Exception:  # noqa: BLE001
        return None


def also_reloaded(line):
    """every third case (chosen by content) is also run with rules reloaded from JSON: enum members, buffers and
    mappings are then other objects than the ones the rule was built with, equal by value only"""
    import zlib
    return zlib.crc32(line.encode()) % 3 == 0


def also_by_value(line):
    """every fourth case (chosen by content) is also run with the direction given BY VALUE -- the plain strings 'Up' / 'Dw' / 'Bi' that a
    descriptor reloaded from JSON carries and that equal the members of the str enumeration DirectionIndicator: same result required"""
    import zlib
    return zlib.crc32(line.encode()) % 4 == 1


def plain(d):
    return str.__str__(d.value) if d is not None else None


def case_compress(batch, pd, rule, d, klass='compress', extra=None):
    npd, nr = n_pdesc(pd), n_rule(rule)
    yline = ' '.join(['Y', 'bcompress'] + raw_pdesc_tokens(pd) + raw_rule_tokens(rule) + [dopt(d)])      # operands as they are BEFORE the call
    res_ = with_timeout(lambda: compress(pd, rule, direction=d) if d is not None else compress(pd, rule))
    out = obs_bits(res_)
    bytes_case(batch, klass, yline, res_)
    line = ' '.join(['S', 'compress'] + pdesc_tokens(npd) + rule_tokens(nr) + [dopt(d)])
    ref = ref_compress(npd, nr, None if d is None else DIRC[d])
    fails = []
    if ref is not None:
        if out != ('OK', ref):
            fails.append('compress gives %s, RFC 8724 layout is %s' % (str(out)[:200], ref[:200]))
    if also_reloaded(line):
        r2 = reloaded(rule)
        if r2 is not None and n_rule(r2) == nr:
            out2 = obs_bits(with_timeout(lambda: compress(pd, r2, direction=d) if d is not None else compress(pd, r2)))
            if out2 != out:
                fails.append('compress with the rule reloaded from its JSON form gives %s, with the original objects %s' % (str(out2)[:120], str(out)[:120]))
    if d is not None and also_by_value(line):
        out3 = obs_bits(with_timeout(lambda: compress(pd, rule, direction=plain(d))))
        if out3 != out:
            fails.append('compress with the direction given as the string %r gives %s, with the enumeration member %s' % (plain(d), str(out3)[:120], str(out)[:120]))
    desc = dict(layer='schc', op='compress', pdesc=npd, rule=nr, direction=dopt(d))
    if extra:
        desc.update(extra)
    batch.add(klass, line, out, parse_model_bits, fails if (ref is not None or fails) else None, desc,
              key=('compress', line))
    return out


def case_decompress(batch, sbits, rule, d, klass='decompress', expect=None, side=R, total=False, extra=None):
    """expect: bits the property requires (None = only correspondence); total=True: the C20 oracle
    (outcome must be a buffer or RuleIDMatchError)."""
    nr = n_rule(rule)
    sb = mk(sbits, side)
    yline = ' '.join(['Y', 'bdecompress', raw(sb)] + raw_rule_tokens(rule) + [dopt(d)])
    res_ = with_timeout(lambda: decompress(sb, rule, direction=d) if d is not None else decompress(sb, rule))
    out = obs_bits(res_)
    bytes_case(batch, klass, yline, res_)
    line = ' '.join(['S', 'decompress', tb(sbits)] + rule_tokens(nr) + [dopt(d)])
    fails = []
    if expect is not None and out != ('OK', expect):
        fails.append('decompress gives %s, expected %s' % (str(out)[:200], expect[:200]))
    if total and out[0] == 'EXC':
        fails.append('decompress raised %s' % out[1])
    if also_reloaded(line):
        r2 = reloaded(rule)
        if r2 is not None and n_rule(r2) == nr:
            out2 = obs_bits(with_timeout(lambda: decompress(mk(sbits, side), r2, direction=d) if d is not None else decompress(mk(sbits, side), r2)))
            if out2 != out:
                fails.append('decompress with the rule reloaded from its JSON form gives %s, with the original objects %s' % (str(out2)[:120], str(out)[:120]))
    if d is not None and also_by_value(line):
        out3 = obs_bits(with_timeout(lambda: decompress(mk(sbits, side), rule, direction=plain(d))))
        if out3 != out:
            fails.append('decompress with the direction given as the string %r gives %s, with the enumeration member %s' % (plain(d), str(out3)[:120], str(out)[:120]))
    desc = dict(layer='schc', op='decompress', schc=sbits, rule=nr, direction=dopt(d), side='L' if side == L else 'R', expect=expect, total=total)
    if extra:
        desc.update(extra)
    batch.add(klass, line, out, parse_model_bits, fails if (expect is not None or total or fails) else None, desc, key=('decompress', line))
    return out


def parse_model_match(line, visible=None):
    if not line.startswith('OK'):
        return ('BAD', line)
    body = line[3:]
    toks = [t for t in body.split(',') if t]
    exc = None
    idx = []
    for t in toks:
        if t.startswith('!'):
            exc = t[1:]
        else:
            idx.append(int(t) if visible is None else visible[int(t)])
    return ('OK', tuple(idx), exc)


def case_match(batch, pd, rules, klass='match', extra=None, ruler=None):
    """ruler: a long-lived Ruler over `rules` to reuse (state kept between calls must not matter)"""
    npd = n_pdesc(pd)
    # rules of fragmentation nature are part of the model (never offered) and of the reference (never applying)
    visible = list(range(len(rules)))
    nrs = [n_rule(rules[i]) for i in visible]
    ruler = Ruler(rules) if ruler is None else ruler

    def f():
        got = []
        exc = None
        try:
            for r in ruler.match_packet_descriptor(pd):
                got.append([i for i, x in enumerate(rules) if x is r][0])
        except Exception as e:  # noqa: BLE001
            exc = type(e).__name__
        return ('OK', tuple(got), exc)
    out = f()
    line = ' '.join(['S', 'match'] + pdesc_tokens(npd) + rules_tokens(nrs))
    want = tuple(visible[i] for i, nr in enumerate(nrs) if ref_rule_applies(npd, nr))
    fails = []
    if out[2] is not None:
        fails.append('matcher raised %s' % out[2])
    elif out[1] != want:
        fails.append('matcher yields rules %s, the rules that apply are %s' % (out[1], want))
    if also_reloaded(line):
        rl = [reloaded(r) for r in rules]
        if all(r is not None for r in rl) and [n_rule(rl[i]) for i in visible] == nrs:
            got2, exc2 = [], None
            try:
                for r in Ruler(rl).match_packet_descriptor(pd):
                    got2.append([i for i, x in enumerate(rl) if x is r][0])
            except Exception as e:  # noqa: BLE001
                exc2 = type(e).__name__
            if (tuple(got2), exc2) != (out[1], out[2]):
                fails.append('with the rules reloaded from their JSON form the matcher yields %s %s, with the original objects %s %s' % (got2, exc2, out[1], out[2]))
    if also_by_value(line):
        # the packet descriptor carries its direction as the plain string (as PacketDescriptor.from_json leaves it, or as a caller passes it)
        keep = pd.direction
        got3, exc3 = [], None
        try:
            pd.direction = plain(DI(keep))
            for r in Ruler(rules).match_packet_descriptor(pd):
                got3.append([i for i, x in enumerate(rules) if x is r][0])
        except Exception as e:  # noqa: BLE001
            exc3 = type(e).__name__
        finally:
            pd.direction = keep
        if (tuple(got3), exc3) != (out[1], out[2]):
            fails.append('with the direction of the packet given as the string %r the matcher yields %s %s, with the enumeration member %s %s' % (plain(DI(keep)), got3, exc3, out[1], out[2]))
    desc = dict(layer='schc', op='match', pdesc=npd, rules=nrs)
    if extra:
        desc.update(extra)
    batch.add(klass, line, out, (lambda l, v=visible: parse_model_match(l, v)), fails, desc, key=('match', line, id(ruler) if ruler is not None else 0))
    # the same on the byte-level matcher (ManagerBytes.bmatch_packet_descriptor): same rules, same order, same ending
    yt = ['Y', 'bmatch'] + raw_pdesc_tokens(pd) + [str(len(visible))]
    for i in visible:
        yt += raw_rule_tokens(rules[i])
    yline = ' '.join(yt)
    batch.add('bytes:' + klass.split(':')[0], yline, out, (lambda l, v=visible: parse_model_match(l, v)), None, dict(layer='schc-bytes', op='match'), key=('bmatch', yline, id(ruler) if ruler is not None else 0))
    return out
